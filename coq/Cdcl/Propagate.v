(* Cdcl/Propagate.v -- executable model of Solver::propagate (src/solver/mod.rs)
   with the watch lists of src/solver/watch_map.rs and the bookkeeping of
   src/solver/decision_tracker.rs.

   Every clause with two or more literals watches two of them; for every literal
   there is a list of the clauses watching it (the intrusive linked list of the
   code: a clause that starts watching a literal goes to the HEAD of its list).
   propagate first (re-)asserts the negative assertions and the unit learnt
   clauses, then takes the trail entries that were not propagated yet, oldest
   first; for the literal such an entry made false it walks the list of that
   literal: a clause whose other watch is true is left alone; otherwise the
   clause looks for another literal that is not false and is not the other watch
   (only Requires and learnt clauses may move a watch) and moves this watch to it
   -- leaving this list, entering the other list at its head --; otherwise the
   other watched literal is assigned with the clause as reason, or, if it is
   false, the clause is the conflict and propagation stops where it is (the
   entry being propagated then does not count as propagated). *)
From Resolvo Require Export Cdcl.Analyze.
From Coq Require Import Lia.

Record pstate := mkPS {
  ps_trail : list tent;                     (* newest first *)
  ps_pidx : nat;                            (* number of oldest entries already propagated *)
  ps_watch : list (N * (lit * lit));        (* clause id -> its two watched literals *)
  ps_lists : list (lit * list N)            (* literal -> clauses watching it, head first *)
}.

Definition ps0 : pstate := mkPS [] 0 [] [].

Fixpoint wget (w : list (N * (lit * lit))) (id : N) : option (lit * lit) :=
  match w with
  | [] => None
  | (k, x) :: t => if N.eqb k id then Some x else wget t id
  end.

Fixpoint wset (w : list (N * (lit * lit))) (id : N) (x : lit * lit) : list (N * (lit * lit)) :=
  match w with
  | [] => [(id, x)]
  | (k, y) :: t => if N.eqb k id then (k, x) :: t else (k, y) :: wset t id x
  end.

Fixpoint lget (ls : list (lit * list N)) (l : lit) : list N :=
  match ls with
  | [] => []
  | (k, x) :: t => if lit_eqb k l then x else lget t l
  end.

Fixpoint lset (ls : list (lit * list N)) (l : lit) (x : list N) : list (lit * list N) :=
  match ls with
  | [] => [(l, x)]
  | (k, y) :: t => if lit_eqb k l then (k, x) :: t else (k, y) :: lset t l x
  end.

Definition pvalue (st : pstate) (v : var) : option bool := pval (tl_lits (ps_trail st)) v.
Definition plit_true (st : pstate) (l : lit) : bool := match pvalue st (fst l) with Some b => Bool.eqb b (snd l) | None => false end.
Definition plit_false (st : pstate) (l : lit) : bool := match pvalue st (fst l) with Some b => Bool.eqb b (negb (snd l)) | None => false end.

(* WatchMap::start_watching: index 0 first, then index 1 *)
Definition start_watching (st : pstate) (id : N) (w : lit * lit) : pstate :=
  let ls1 := lset (ps_lists st) (fst w) (id :: lget (ps_lists st) (fst w)) in
  let ls2 := lset ls1 (snd w) (id :: lget ls1 (snd w)) in
  mkPS (ps_trail st) (ps_pidx st) (wset (ps_watch st) id w) ls2.

(* DecisionTracker::try_add_decision: None = the variable has the other value (conflict) *)
Definition try_add (st : pstate) (l : lit) (level reason : N) : option pstate :=
  match pvalue st (fst l) with
  | None => Some (mkPS (mkT l level reason :: ps_trail st) (ps_pidx st) (ps_watch st) (ps_lists st))
  | Some b => if Bool.eqb b (snd l) then Some st else None
  end.

(* undo_last / clear *)
Definition undo_last (st : pstate) : pstate :=
  let tr := tl (ps_trail st) in mkPS tr (Nat.min (ps_pidx st) (length tr)) (ps_watch st) (ps_lists st).
Definition clear_trail (st : pstate) : pstate := mkPS [] 0 (ps_watch st) (ps_lists st).
(* an assignment made outside propagate (decisions, learnt literal) *)
Definition push_entry (st : pstate) (e : tent) : pstate := mkPS (e :: ps_trail st) (ps_pidx st) (ps_watch st) (ps_lists st).

Inductive nu_res := NuNone | NuSome (l : lit) | NuPanic.

(* WatchedLiterals::next_unwatched_literal *)
Definition next_unwatched (st : pstate) (c : cl) (other : lit) : nu_res :=
  match ck c with
  | KRoot | KExcluded _ _ => NuPanic                                 (* unreachable!() *)
  | KConstrains _ _ _ | KForbid _ | KLock _ _ => NuNone
  | KRequires _ _ _ | KLearnt _ =>
      match find (fun l => negb (lit_eqb l other) && negb (plit_false st l)) (cl_lits c) with
      | Some l => NuSome l
      | None => NuNone
      end
  end.

(* result of a walk: the state, and the conflict (variable literal that could not be set, clause) if any;
   None = the code would panic / an index is out of range *)
Definition conflict := (lit * N)%type.

(* walking the list of literal L; [kept] = clauses staying in the list so far, newest last *)
Fixpoint visit_list (db : list cl) (L : lit) (level : N) (ids kept : list N) (st : pstate)
  : option (pstate * option conflict) :=
  match ids with
  | [] => Some (mkPS (ps_trail st) (ps_pidx st) (ps_watch st) (lset (ps_lists st) L (rev kept)), None)
  | id :: rest =>
    match wget (ps_watch st) id, nth_error db (N.to_nat id) with
    | Some (w0, w1), Some c =>
      let idx0 := lit_eqb w0 L in
      let other := if idx0 then w1 else w0 in
      if plit_true st other then visit_list db L level rest (id :: kept) st
      else
        match next_unwatched st c other with
        | NuPanic => None
        | NuSome nl =>
            let w' := if idx0 then (nl, w1) else (w0, nl) in
            let st1 := mkPS (ps_trail st) (ps_pidx st) (wset (ps_watch st) id w')
                            (lset (ps_lists st) nl (id :: lget (ps_lists st) nl)) in
            visit_list db L level rest kept st1
        | NuNone =>
            match try_add st other level id with
            | None => Some (mkPS (ps_trail st) (ps_pidx st) (ps_watch st)
                                 (lset (ps_lists st) L (rev kept ++ id :: rest)), Some (other, id))
            | Some st1 => visit_list db L level rest (id :: kept) st1
            end
        end
    | _, _ => None
    end
  end.

(* the loop over the unpropagated entries, oldest first *)
Fixpoint prop_loop (fuel : nat) (db : list cl) (level : N) (st : pstate) : option (pstate * option conflict) :=
  match fuel with
  | O => None
  | S f =>
    let n := length (ps_trail st) in
    if Nat.ltb (ps_pidx st) n then
      match nth_error (ps_trail st) (n - 1 - ps_pidx st) with
      | Some e =>
        let L := (tvar e, negb (snd (t_lit e))) in
        (* the entry counts as propagated only once its whole list has been walked (mark_propagated): after a
           conflict halfway through, an entry that survives the backtracking is walked again *)
        match visit_list db L level (lget (ps_lists st) L) [] st with
        | Some (st1, None) => prop_loop f db level (mkPS (ps_trail st1) (S (ps_pidx st1)) (ps_watch st1) (ps_lists st1))
        | r => r
        end
      | None => None
      end
    else Some (st, None)
  end.

(* decide_assertions / decide_learned: (literal to assert, its clause), in registration order *)
Fixpoint assert_all (level : N) (l : list (lit * N)) (st : pstate) : pstate * option conflict :=
  match l with
  | [] => (st, None)
  | (x, id) :: t =>
    match try_add st x level id with
    | Some st1 => assert_all level t st1
    | None => (st, Some (x, id))
    end
  end.

Definition prop_fuel (db : list cl) (st : pstate) : nat :=
  S (length (ps_trail st) + fold_right (fun c n => length (cl_lits c) + n) 0 db)%nat.

Definition propagate (db : list cl) (level : N) (asserts units : list (lit * N)) (st : pstate)
  : option (pstate * option conflict) :=
  match assert_all level asserts st with
  | (st1, Some c) => Some (st1, Some c)
  | (st1, None) =>
    match assert_all level units st1 with
    | (st2, Some c) => Some (st2, Some c)
    | (st2, None) => prop_loop (prop_fuel db st2) db level st2
    end
  end.
