(* Cdcl/PropagateProofs.v -- what the propagate model guarantees, for every clause
   database and every state that satisfies the structural invariant of the watch
   scheme (WInv: watched literals are literals of their clause, clauses that
   cannot move their watches have no other literals, a clause is in the list of a
   literal exactly if it watches it, no clause twice in a list):

   prop_loop_sound   every assignment it makes is justified -- its reason clause
                     contains the literal and all its other literals are false
                     under the older part of the trail (reason_ok, the side
                     condition of analyze_sound and core_unsat, and the legality
                     condition EProp of the abstract machine);
                     the conflict it reports is a clause falsified by the trail;
                     the invariant holds again afterwards. *)
From Resolvo Require Export Cdcl.Propagate Cdcl.Final.
From Coq Require Import Lia.

(* ---------- association lists ---------- *)

Lemma wget_wset_same w id x : wget (wset w id x) id = Some x.
Proof.
  induction w as [|[k y] t IH]; simpl; [rewrite N.eqb_refl; reflexivity|].
  destruct (N.eqb k id) eqn:E; simpl; rewrite E; [reflexivity | exact IH].
Qed.

Lemma wget_wset_other w id x id' : id' <> id -> wget (wset w id x) id' = wget w id'.
Proof.
  intro H. induction w as [|[k y] t IH]; simpl.
  - destruct (N.eqb id id') eqn:E; [apply N.eqb_eq in E; congruence | reflexivity].
  - destruct (N.eqb k id) eqn:E; simpl.
    + apply N.eqb_eq in E. subst k. destruct (N.eqb id id') eqn:E'; [apply N.eqb_eq in E'; congruence | reflexivity].
    + destruct (N.eqb k id'); [reflexivity | exact IH].
Qed.

Lemma lget_lset_same ls l x : lget (lset ls l x) l = x.
Proof.
  induction ls as [|[k y] t IH]; simpl; [rewrite lit_eqb_refl; reflexivity|].
  destruct (lit_eqb k l) eqn:E; simpl; rewrite E; [reflexivity | exact IH].
Qed.

Lemma lget_lset_other ls l x l' : l' <> l -> lget (lset ls l x) l' = lget ls l'.
Proof.
  intro H. induction ls as [|[k y] t IH]; simpl.
  - destruct (lit_eqb l l') eqn:E; [apply lit_eqb_eq in E; congruence | reflexivity].
  - destruct (lit_eqb k l) eqn:E; simpl.
    + apply lit_eqb_eq in E. subst k. destruct (lit_eqb l l') eqn:E'; [apply lit_eqb_eq in E'; congruence | reflexivity].
    + destruct (lit_eqb k l'); [reflexivity | exact IH].
Qed.

Lemma lit_eq_dec (a b : lit) : {a = b} + {a <> b}.
Proof. destruct (lit_eqb a b) eqn:E; [left; apply lit_eqb_eq; exact E | right; intro H; apply lit_eqb_eq in H; congruence]. Qed.

(* ---------- the invariant ---------- *)

Definition movable (c : cl) : bool :=
  match ck c with KRequires _ _ _ | KLearnt _ => true | _ => false end.
Definition fixed_kind (c : cl) : bool :=
  match ck c with KConstrains _ _ _ | KForbid _ | KLock _ _ => true | _ => false end.

Section Inv.
Variable db : list cl.

Definition watch_ok (id : N) (w : lit * lit) : Prop :=
  exists c, nth_error db (N.to_nat id) = Some c /\ In (fst w) (cl_lits c) /\ In (snd w) (cl_lits c) /\ fst w <> snd w /\
            (movable c = true \/ (fixed_kind c = true /\ forall l, In l (cl_lits c) -> l = fst w \/ l = snd w)).

Definition watches_lit (ws : list (N * (lit * lit))) (id : N) (L : lit) : Prop :=
  exists w, wget ws id = Some w /\ (fst w = L \/ snd w = L).

Record WInv (ws : list (N * (lit * lit))) (ls : list (lit * list N)) : Prop := mkWInv {
  wi_watch : forall id w, wget ws id = Some w -> watch_ok id w;
  wi_list : forall L id, In id (lget ls L) -> watches_lit ws id L;
  wi_nodup : forall L, NoDup (lget ls L)
}.

Lemma winv0 : WInv [] [].
Proof. constructor; simpl; [intros id w H; discriminate | intros L id [] | intro L; constructor]. Qed.

(* a clause that is not watched yet starts being watched *)
Lemma winv_start ws ls id w :
  WInv ws ls -> wget ws id = None -> watch_ok id w ->
  let ls1 := lset ls (fst w) (id :: lget ls (fst w)) in
  WInv (wset ws id w) (lset ls1 (snd w) (id :: lget ls1 (snd w))).
Proof.
  intros [Hw Hl Hn] Hnone Hok. simpl.
  assert (Hfresh : forall L, ~ In id (lget ls L)).
  { intros L Hin. destruct (Hl L id Hin) as [w' [E _]]. congruence. }
  destruct Hok as [c [Hc [H0 [H1 [Hne Hk]]]]].
  set (ls1 := lset ls (fst w) (id :: lget ls (fst w))).
  assert (G1 : forall L, lget ls1 L = if lit_eq_dec L (fst w) then id :: lget ls L else lget ls L).
  { intro L. unfold ls1. destruct (lit_eq_dec L (fst w)) as [E|E]; [subst; apply lget_lset_same | apply lget_lset_other; exact E]. }
  assert (G2 : forall L, lget (lset ls1 (snd w) (id :: lget ls1 (snd w))) L =
                         if lit_eq_dec L (snd w) then id :: lget ls L else lget ls1 L).
  { intro L. destruct (lit_eq_dec L (snd w)) as [E|E].
    - subst. rewrite lget_lset_same, G1. destruct (lit_eq_dec (snd w) (fst w)); [congruence | reflexivity].
    - apply lget_lset_other; exact E. }
  constructor.
  - intros id' w' H. destruct (N.eq_dec id' id) as [E|E].
    + subst. rewrite wget_wset_same in H. inversion H. subst. exists c. repeat split; assumption.
    + rewrite wget_wset_other in H by exact E. apply Hw. exact H.
  - intros L id' Hin. rewrite G2 in Hin.
    assert (Hcase : id' = id /\ (L = fst w \/ L = snd w) \/ In id' (lget ls L)).
    { destruct (lit_eq_dec L (snd w)) as [E|E].
      - destruct Hin as [E'|Hin]; [left; split; [symmetry; exact E' | right; exact E] | right; exact Hin].
      - rewrite G1 in Hin. destruct (lit_eq_dec L (fst w)) as [E1|E1]; [|right; exact Hin].
        destruct Hin as [E'|Hin]; [left; split; [symmetry; exact E' | left; exact E1] | right; exact Hin]. }
    destruct Hcase as [[E HL]|Hin'].
    + subst id'. exists w. split; [apply wget_wset_same|]. destruct HL as [HL|HL]; [left | right]; symmetry; exact HL.
    + destruct (Hl L id' Hin') as [w' [E HL]]. exists w'. split; [|exact HL].
      rewrite wget_wset_other; [exact E | intro; subst; apply (Hfresh L); exact Hin'].
  - intro L. rewrite G2. destruct (lit_eq_dec L (snd w)) as [E|E].
    + constructor; [apply Hfresh | apply Hn].
    + rewrite G1. destruct (lit_eq_dec L (fst w)); [constructor; [apply Hfresh | apply Hn] | apply Hn].
Qed.


(* ---------- trails ---------- *)

Definition tnodup (st : pstate) : Prop := vars_nodup (tl_lits (ps_trail st)) = true.

(* [cur] extends [base] by justified assignments *)
Inductive grows (base : list tent) : list tent -> Prop :=
| g_refl : grows base base
| g_step cur e : grows base cur -> reason_ok db e cur = true -> grows base (e :: cur).

Lemma grows_trans a b c : grows a b -> grows b c -> grows a c.
Proof. intros Hab Hbc. induction Hbc; [exact Hab | constructor; assumption]. Qed.

Lemma plit_false_spec st l : plit_false st l = true <-> pvalue st (fst l) = Some (negb (snd l)).
Proof.
  unfold plit_false. destruct (pvalue st (fst l)) as [b|]; [|split; discriminate].
  split; intro H; [apply Bool.eqb_prop in H; subst; reflexivity | inversion H; apply Bool.eqb_reflx].
Qed.

Lemma plit_true_spec st l : plit_true st l = true <-> pvalue st (fst l) = Some (snd l).
Proof.
  unfold plit_true. destruct (pvalue st (fst l)) as [b|]; [|split; discriminate].
  split; intro H; [apply Bool.eqb_prop in H; subst; reflexivity | inversion H; apply Bool.eqb_reflx].
Qed.

(* try_add on a literal that is not true: a new entry, or a conflict on a false literal *)
Lemma try_add_cases st l level reason :
  plit_true st l = false ->
  match try_add st l level reason with
  | Some st1 => pvalue st (fst l) = None /\
                st1 = mkPS (mkT l level reason :: ps_trail st) (ps_pidx st) (ps_watch st) (ps_lists st)
  | None => plit_false st l = true
  end.
Proof.
  intro Ht. unfold try_add. destruct (pvalue st (fst l)) as [b|] eqn:E; [|split; reflexivity].
  destruct (Bool.eqb b (snd l)) eqn:Eb.
  - unfold plit_true in Ht. rewrite E, Eb in Ht. discriminate.
  - apply plit_false_spec. rewrite E. f_equal. destruct b, (snd l); simpl in *; try discriminate; reflexivity.
Qed.

Lemma pvalue_push st e v : v <> tvar e ->
  pval (tl_lits (e :: ps_trail st)) v = pvalue st v.
Proof.
  intro H. unfold pvalue, tl_lits, tvar in *. simpl. destruct (t_lit e) as [w b]. simpl in *.
  destruct (var_eqb w v) eqn:E; [apply var_eqb_eq in E; congruence | reflexivity].
Qed.

(* the justification of one propagated literal *)
Lemma reason_ok_unit st c (other : lit) level id :
  nth_error db (N.to_nat id) = Some c ->
  pvalue st (fst other) = None ->
  (forall l, In l (cl_lits c) -> l = other \/ plit_false st l = true) ->
  reason_ok db (mkT other level id) (ps_trail st) = true.
Proof.
  intros Hc Hun Hall. unfold reason_ok. simpl. rewrite Hc. apply forallb_forall. intros l Hl.
  unfold tvar. simpl. destruct (Hall l Hl) as [E|Hf].
  - subst l. rewrite var_eqb_refl. apply lit_eqb_refl.
  - apply plit_false_spec in Hf. destruct (var_eqb (fst l) (fst other)) eqn:Ev.
    + apply var_eqb_eq in Ev. unfold pvalue in *. rewrite Ev in Hf. congruence.
    + unfold pvalue in Hf. rewrite Hf. apply Bool.eqb_reflx.
Qed.

Lemma falsified_all st c :
  (forall l, In l (cl_lits c) -> plit_false st l = true) -> falsified (ps_trail st) (cl_lits c) = true.
Proof.
  intro H. unfold falsified. apply forallb_forall. intros l Hl. specialize (H l Hl). apply plit_false_spec in H.
  unfold pvalue in H. rewrite H. apply Bool.eqb_reflx.
Qed.

(* ---------- walking one list ---------- *)

Record WalkInv (L : lit) (ids kept : list N) (st : pstate) : Prop := mkWalk {
  wk_watch : forall id w, wget (ps_watch st) id = Some w -> watch_ok id w;
  wk_list : forall L' id, L' <> L -> In id (lget (ps_lists st) L') -> watches_lit (ps_watch st) id L';
  wk_nodup : forall L', L' <> L -> NoDup (lget (ps_lists st) L');
  wk_this : forall id, In id (rev kept ++ ids) -> watches_lit (ps_watch st) id L;
  wk_nodup_this : NoDup (rev kept ++ ids)
}.

Lemma walk_finish L l st :
  WalkInv L [] [] st \/ True ->
  (forall id w, wget (ps_watch st) id = Some w -> watch_ok id w) ->
  (forall L' id, L' <> L -> In id (lget (ps_lists st) L') -> watches_lit (ps_watch st) id L') ->
  (forall L', L' <> L -> NoDup (lget (ps_lists st) L')) ->
  (forall id, In id l -> watches_lit (ps_watch st) id L) -> NoDup l ->
  WInv (ps_watch st) (lset (ps_lists st) L l).
Proof.
  intros _ A B C D E. constructor.
  - exact A.
  - intros L' id Hin. destruct (lit_eq_dec L' L) as [Eq|Ne].
    + subst. rewrite lget_lset_same in Hin. apply D. exact Hin.
    + rewrite lget_lset_other in Hin by exact Ne. apply B; assumption.
  - intro L'. destruct (lit_eq_dec L' L) as [Eq|Ne].
    + subst. rewrite lget_lset_same. exact E.
    + rewrite lget_lset_other by exact Ne. apply C. exact Ne.
Qed.

Lemma next_unwatched_none st c other :
  movable c = true -> next_unwatched st c other = NuNone ->
  forall l, In l (cl_lits c) -> l = other \/ plit_false st l = true.
Proof.
  intros Hm H l Hl. unfold next_unwatched, movable in *.
  destruct (ck c); try discriminate;
    (destruct (find (fun l0 => negb (lit_eqb l0 other) && negb (plit_false st l0)) (cl_lits c)) eqn:Ef; [discriminate|];
     pose proof (find_none _ _ Ef l Hl) as Hn; simpl in Hn;
     apply andb_false_iff in Hn; destruct Hn as [Hn|Hn]; apply negb_false_iff in Hn;
     [left; apply lit_eqb_eq; exact Hn | right; exact Hn]).
Qed.

Lemma next_unwatched_some st c other nl :
  next_unwatched st c other = NuSome nl ->
  movable c = true /\ In nl (cl_lits c) /\ nl <> other /\ plit_false st nl = false.
Proof.
  unfold next_unwatched, movable. intro H.
  destruct (ck c); try discriminate;
    (destruct (find (fun l0 => negb (lit_eqb l0 other) && negb (plit_false st l0)) (cl_lits c)) eqn:Ef; [|discriminate];
     inversion H; subst; apply find_some in Ef; destruct Ef as [Hin Hp];
     apply andb_true_iff in Hp; destruct Hp as [H1 H2]; apply negb_true_iff in H1, H2;
     repeat split; [exact Hin | intro E; subst; rewrite lit_eqb_refl in H1; discriminate | exact H2]).
Qed.

Lemma next_unwatched_fixed st c other : fixed_kind c = true -> next_unwatched st c other = NuNone.
Proof. unfold fixed_kind, next_unwatched. destruct (ck c); try discriminate; reflexivity. Qed.

Lemma rev_cons_app {A} (x : A) kept rest : rev (x :: kept) ++ rest = rev kept ++ x :: rest.
Proof. simpl. rewrite <- app_assoc. reflexivity. Qed.

Theorem visit_list_sound L level : forall ids kept st st' r,
  WalkInv L ids kept st -> tnodup st -> plit_false st L = true ->
  visit_list db L level ids kept st = Some (st', r) ->
  WInv (ps_watch st') (ps_lists st') /\ tnodup st' /\ grows (ps_trail st) (ps_trail st') /\
  ps_pidx st' = ps_pidx st /\
  (forall o id, r = Some (o, id) -> exists c, nth_error db (N.to_nat id) = Some c /\ falsified (ps_trail st') (cl_lits c) = true).
Proof.
  induction ids as [|id rest IH]; intros kept st st' r HW Hnd HL H; cbn [visit_list] in H.
  - inversion H. subst. clear H. simpl. destruct HW as [A B C D E]. rewrite app_nil_r in D, E.
    split; [apply (walk_finish L (rev kept) st (or_intror I) A B C D E)|].
    split; [exact Hnd|]. split; [constructor|]. split; [reflexivity|]. intros o id H. discriminate H.
  - destruct (wget (ps_watch st) id) as [[w0 w1]|] eqn:Ew; [|discriminate].
    destruct (nth_error db (N.to_nat id)) as [c|] eqn:Ec; [|discriminate].
    pose proof (wk_watch _ _ _ _ HW id (w0, w1) Ew) as [c' [Hc' [H0 [H1 [Hne Hk]]]]]. simpl in H0, H1, Hne, Hk.
    rewrite Ec in Hc'. inversion Hc'. subst c'. clear Hc'.
    assert (HidL : w0 = L \/ w1 = L).
    { destruct (wk_this _ _ _ _ HW id) as [w [E Hw]]; [apply in_or_app; right; left; reflexivity|].
      rewrite Ew in E. inversion E. subst w. exact Hw. }
    set (idx0 := lit_eqb w0 L) in *. set (other := if idx0 then w1 else w0) in *.
    (* the watch being processed is L, the other one is [other] *)
    assert (Hpair : (w0 = L /\ other = w1) \/ (w1 = L /\ other = w0 /\ w0 <> L)).
    { unfold other, idx0. destruct (lit_eqb w0 L) eqn:E0.
      - left. split; [apply lit_eqb_eq; exact E0 | reflexivity].
      - right. assert (w0 <> L) by (intro E; subst; rewrite lit_eqb_refl in E0; discriminate).
        destruct HidL as [E|E]; [contradiction | repeat split; assumption]. }
    assert (Hother_in : In other (cl_lits c)) by (destruct Hpair as [[_ E]|[_ [E _]]]; rewrite E; assumption).
    assert (Hother_ne : other <> L) by (destruct Hpair as [[E1 E2]|[E1 [E2 E3]]]; rewrite E2; congruence).
    destruct (plit_true st other) eqn:Et.
    + (* satisfied: the clause stays *)
      assert (HW' : WalkInv L rest (id :: kept) st).
      { destruct HW as [A B C D E]. constructor; auto; rewrite rev_cons_app; assumption. }
      apply (IH _ _ _ _ HW' Hnd HL H).
    + destruct (next_unwatched st c other) as [|nl|] eqn:En; [| |discriminate].
      * (* no other literal: assign [other] or conflict *)
        assert (Hall : forall l, In l (cl_lits c) -> l = other \/ plit_false st l = true).
        { destruct Hk as [Hm|[Hf Hsub]]; [apply (next_unwatched_none st c other Hm En)|].
          intros l Hl. destruct (Hsub l Hl) as [E|E]; destruct Hpair as [[E1 E2]|[E1 [E2 E3]]]; subst l.
          - right. rewrite E1. exact HL.
          - left. symmetry. exact E2.
          - left. symmetry. exact E2.
          - right. rewrite E1. exact HL. }
        pose proof (try_add_cases st other level id Et) as Hta.
        destruct (try_add st other level id) as [st1|] eqn:Eta.
        -- destruct Hta as [Hun Est1]. subst st1.
           set (st1 := mkPS (mkT other level id :: ps_trail st) (ps_pidx st) (ps_watch st) (ps_lists st)) in *.
           assert (HW' : WalkInv L rest (id :: kept) st1).
           { destruct HW as [A B C D E]. constructor; auto; rewrite rev_cons_app; assumption. }
           assert (Hnd' : tnodup st1).
           { unfold tnodup, st1. simpl. unfold tl_lits. simpl. destruct other as [ov ob]. simpl in *.
             fold (tl_lits (ps_trail st)). unfold pvalue in Hun. rewrite Hun. exact Hnd. }
           assert (HL' : plit_false st1 L = true).
           { apply plit_false_spec. apply plit_false_spec in HL. unfold pvalue, st1. simpl.
             change (pval (tl_lits (mkT other level id :: ps_trail st)) (fst L) = Some (negb (snd L))).
             rewrite pvalue_push; [exact HL|]. unfold tvar. simpl. intro E. rewrite E in HL. congruence. }
           destruct (IH _ _ _ _ HW' Hnd' HL' H) as [R1 [R2 [R3 [R4 R5]]]].
           split; [exact R1|]. split; [exact R2|]. split; [|split; [exact R4 | exact R5]].
           eapply grows_trans; [|exact R3]. constructor; [constructor|].
           apply (reason_ok_unit st c other level id Ec Hun Hall).
        -- (* conflict *)
           inversion H. subst. clear H. simpl.
           destruct HW as [A B C D E].
           split; [apply (walk_finish L (rev kept ++ id :: rest) st (or_intror I) A B C D E)|].
           split; [exact Hnd|]. split; [constructor|]. split; [reflexivity|].
           intros o id0 Ho. inversion Ho. subst. exists c. split; [exact Ec|]. apply falsified_all.
           intros l Hl. destruct (Hall l Hl) as [E'|E']; [subst; exact Hta | exact E'].
      * (* the watch moves to nl *)
        destruct (next_unwatched_some st c other nl En) as [Hm [Hnl_in [Hnl_ne Hnl_nf]]].
        assert (Hnl_L : nl <> L) by (intro E; subst; congruence).
        set (w' := if idx0 then (nl, w1) else (w0, nl)) in *.
        assert (Hw' : (fst w' = nl /\ snd w' = other) \/ (fst w' = other /\ snd w' = nl)).
        { unfold w', other. destruct idx0; simpl; [left | right]; split; reflexivity. }
        set (st1 := mkPS (ps_trail st) (ps_pidx st) (wset (ps_watch st) id w')
                         (lset (ps_lists st) nl (id :: lget (ps_lists st) nl))) in *.
        assert (Hnot_in_nl : ~ In id (lget (ps_lists st) nl)).
        { intro Hin. destruct (wk_list _ _ _ _ HW nl id Hnl_L Hin) as [w [E Hw]]. rewrite Ew in E. inversion E. subst w. simpl in Hw.
          destruct Hpair as [[E1 E2]|[E1 [E2 E3]]]; destruct Hw as [Hw|Hw]; congruence. }
        assert (Hnd_this : NoDup (rev kept ++ id :: rest)) by (apply (wk_nodup_this _ _ _ _ HW)).
        assert (Hid_fresh : ~ In id (rev kept ++ rest)) by (apply NoDup_remove_2; exact Hnd_this).
        assert (HW' : WalkInv L rest kept st1).
        { destruct HW as [A B C D E]. constructor; unfold st1; simpl.
          - intros id' w H'. destruct (N.eq_dec id' id) as [Eq|Neq].
            + subst id'. rewrite wget_wset_same in H'. inversion H'. subst w. exists c.
              split; [exact Ec|]. destruct Hw' as [[F1 F2]|[F1 F2]]; rewrite F1, F2; repeat split; auto.
            + rewrite wget_wset_other in H' by exact Neq. apply A. exact H'.
          - intros L' id' HL' Hin. destruct (lit_eq_dec L' nl) as [Eq|Neq].
            + subst L'. rewrite lget_lset_same in Hin. destruct Hin as [E'|Hin].
              * subst id'. exists w'. split; [apply wget_wset_same|]. destruct Hw' as [[F1 _]|[_ F2]]; [left | right]; assumption.
              * destruct (B nl id' HL' Hin) as [w [E' Hw]]. exists w. split; [|exact Hw].
                rewrite wget_wset_other; [exact E' | intro; subst; contradiction].
            + rewrite lget_lset_other in Hin by exact Neq. destruct (B L' id' HL' Hin) as [w [E' Hw]].
              destruct (N.eq_dec id' id) as [Eq'|Neq'].
              * subst id'. rewrite Ew in E'. inversion E'. subst w. simpl in Hw. exists w'. split; [apply wget_wset_same|].
                assert (L' = other) by (destruct Hpair as [[E1 E2]|[E1 [E2 E3]]]; destruct Hw as [Hw|Hw]; congruence).
                subst L'. destruct Hw' as [[_ F2]|[F1 _]]; [right | left]; assumption.
              * exists w. split; [rewrite wget_wset_other by exact Neq'; exact E' | exact Hw].
          - intros L' HL'. destruct (lit_eq_dec L' nl) as [Eq|Neq].
            + subst L'. rewrite lget_lset_same. constructor; [exact Hnot_in_nl | apply C; exact HL'].
            + rewrite lget_lset_other by exact Neq. apply C. exact HL'.
          - intros id' Hin. assert (id' <> id) by (intro; subst; contradiction).
            destruct (D id') as [w [E' Hw]]; [apply in_app_or in Hin; apply in_or_app; destruct Hin; [left | right; right]; assumption|].
            exists w. split; [rewrite wget_wset_other by assumption; exact E' | exact Hw].
          - apply NoDup_remove_1 in Hnd_this. exact Hnd_this. }
        apply (IH _ _ _ _ HW' Hnd HL H).
Qed.


(* ---------- the loop over the unpropagated entries ---------- *)

Lemma nth_pvalue st k e : tnodup st -> nth_error (ps_trail st) k = Some e ->
  pvalue st (tvar e) = Some (snd (t_lit e)).
Proof.
  intros Hnd Hk. unfold pvalue. apply nodup_pval; [exact Hnd|].
  apply nth_error_In in Hk. unfold tl_lits. apply in_map_iff. exists e. split; [|exact Hk].
  unfold tvar. destruct (t_lit e); reflexivity.
Qed.

Theorem prop_loop_sound level : forall fuel st st' r,
  WInv (ps_watch st) (ps_lists st) -> tnodup st ->
  prop_loop fuel db level st = Some (st', r) ->
  WInv (ps_watch st') (ps_lists st') /\ tnodup st' /\ grows (ps_trail st) (ps_trail st') /\
  (forall o id, r = Some (o, id) -> exists c, nth_error db (N.to_nat id) = Some c /\ falsified (ps_trail st') (cl_lits c) = true).
Proof.
  induction fuel as [|f IH]; intros st st' r HW Hnd H; cbn [prop_loop] in H; [discriminate|].
  destruct (Nat.ltb (ps_pidx st) (length (ps_trail st))) eqn:Elt.
  2:{ inversion H. subst. split; [exact HW|]. split; [exact Hnd|]. split; [constructor|]. intros o id E. discriminate E. }
  destruct (nth_error (ps_trail st) (length (ps_trail st) - 1 - ps_pidx st)) as [e|] eqn:Ee; [|discriminate].
  set (L := (tvar e, negb (snd (t_lit e)))) in *.
  assert (HWalk : WalkInv L (lget (ps_lists st) L) [] st).
  { destruct HW as [A B C]. constructor; simpl; auto. }
  assert (HL : plit_false st L = true).
  { apply plit_false_spec. unfold L. simpl. rewrite Bool.negb_involutive. apply (nth_pvalue st _ e Hnd Ee). }
  destruct (visit_list db L level (lget (ps_lists st) L) [] st) as [[st1 r1]|] eqn:Ev; [|discriminate].
  destruct (visit_list_sound L level _ _ _ _ _ HWalk Hnd HL Ev) as [R1 [R2 [R3 [_ R5]]]].
  destruct r1 as [cf|].
  - inversion H. subst. split; [exact R1|]. split; [exact R2|]. split; [exact R3 | exact R5].
  - assert (R1' : WInv (ps_watch (mkPS (ps_trail st1) (S (ps_pidx st1)) (ps_watch st1) (ps_lists st1)))
                       (ps_lists (mkPS (ps_trail st1) (S (ps_pidx st1)) (ps_watch st1) (ps_lists st1)))) by exact R1.
    destruct (IH _ _ _ R1' R2 H) as [S1 [S2 [S3 S4]]].
    split; [exact S1|]. split; [exact S2|]. split; [eapply grows_trans; [exact R3 | exact S3] | exact S4].
Qed.


(* ---------- assertions first, then the loop ---------- *)

(* the clause of an assertion is unit on the asserted literal (its other literals, if any, are false) *)
Definition assert_just (st : pstate) (x : lit * N) : bool :=
  match nth_error db (N.to_nat (snd x)) with
  | Some c => forallb (fun l => lit_eqb l (fst x) || plit_false st l) (cl_lits c)
  | None => false
  end.

Lemma try_add_gen st l level reason :
  match try_add st l level reason with
  | Some st1 => (st1 = st /\ plit_true st l = true) \/
                (pvalue st (fst l) = None /\
                 st1 = mkPS (mkT l level reason :: ps_trail st) (ps_pidx st) (ps_watch st) (ps_lists st))
  | None => plit_false st l = true
  end.
Proof.
  unfold try_add. destruct (pvalue st (fst l)) as [b|] eqn:E; [|right; split; reflexivity].
  destruct (Bool.eqb b (snd l)) eqn:Eb.
  - left. split; [reflexivity|]. unfold plit_true. rewrite E. exact Eb.
  - apply plit_false_spec. rewrite E. f_equal. destruct b, (snd l); simpl in *; try discriminate; reflexivity.
Qed.

Lemma plit_false_push st e l : pvalue st (tvar e) = None -> plit_false st l = true ->
  plit_false (mkPS (e :: ps_trail st) (ps_pidx st) (ps_watch st) (ps_lists st)) l = true.
Proof.
  intros Hun Hf. apply plit_false_spec. apply plit_false_spec in Hf. unfold pvalue at 1. cbn [ps_trail].
  rewrite pvalue_push; [exact Hf|]. intro E. rewrite E in Hf. congruence.
Qed.

Lemma assert_just_push st e x : pvalue st (tvar e) = None -> assert_just st x = true ->
  assert_just (mkPS (e :: ps_trail st) (ps_pidx st) (ps_watch st) (ps_lists st)) x = true.
Proof.
  intros Hun H. unfold assert_just in *. destruct (nth_error db (N.to_nat (snd x))) as [c|]; [|discriminate].
  rewrite forallb_forall in *. intros l Hl. specialize (H l Hl). apply orb_true_iff in H. apply orb_true_iff.
  destruct H as [H|H]; [left; exact H | right; apply plit_false_push; assumption].
Qed.

Lemma assert_all_sound level : forall l st st' r,
  (forall x, In x l -> assert_just st x = true) -> tnodup st ->
  assert_all level l st = (st', r) ->
  tnodup st' /\ grows (ps_trail st) (ps_trail st') /\ ps_watch st' = ps_watch st /\ ps_lists st' = ps_lists st /\
  (forall x, assert_just st x = true -> assert_just st' x = true) /\
  (forall o id, r = Some (o, id) -> exists c, nth_error db (N.to_nat id) = Some c /\ falsified (ps_trail st') (cl_lits c) = true).
Proof.
  induction l as [|[x id] t IH]; intros st st' r Hj Hnd H; simpl in H.
  - inversion H. subst. repeat split; auto; [constructor | intros o id E; discriminate E].
  - pose proof (try_add_gen st x level id) as Hta.
    assert (Hjx : assert_just st (x, id) = true) by (apply Hj; left; reflexivity).
    destruct (try_add st x level id) as [st1|] eqn:Eta.
    + destruct Hta as [[E _]|[Hun E]].
      * subst st1. apply (IH _ _ _ (fun y Hy => Hj y (or_intror Hy)) Hnd H).
      * subst st1. set (st1 := mkPS (mkT x level id :: ps_trail st) (ps_pidx st) (ps_watch st) (ps_lists st)) in *.
        assert (Hnd1 : tnodup st1).
        { unfold tnodup, st1. simpl. unfold tl_lits. simpl. destruct x as [xv xb]. simpl in *.
          fold (tl_lits (ps_trail st)). unfold pvalue in Hun. rewrite Hun. exact Hnd. }
        assert (Hj1 : forall y, In y t -> assert_just st1 y = true).
        { intros y Hy. apply (assert_just_push st (mkT x level id) y); [exact Hun | apply Hj; right; exact Hy]. }
        destruct (IH _ _ _ Hj1 Hnd1 H) as [R1 [R2 [R3 [R4 [R5 R6]]]]].
        split; [exact R1|]. split.
        { eapply grows_trans; [|exact R2]. constructor; [constructor|].
          unfold assert_just in Hjx. simpl in Hjx. destruct (nth_error db (N.to_nat id)) as [c|] eqn:Ec; [|discriminate].
          apply (reason_ok_unit st c x level id Ec Hun). intros l Hl. rewrite forallb_forall in Hjx.
          specialize (Hjx l Hl). apply orb_true_iff in Hjx. destruct Hjx as [E|E]; [left; apply lit_eqb_eq; exact E | right; exact E]. }
        split; [exact R3|]. split; [exact R4|]. split; [|exact R6].
        intros y Hy. apply R5. apply (assert_just_push st (mkT x level id) y Hun Hy).
    + inversion H. subst. split; [exact Hnd|]. split; [constructor|]. split; [reflexivity|]. split; [reflexivity|].
      split; [auto|]. intros o id0 E. inversion E. subst.
      unfold assert_just in Hjx. simpl in Hjx. destruct (nth_error db (N.to_nat id0)) as [c|] eqn:Ec; [|discriminate].
      exists c. split; [reflexivity|]. apply falsified_all. intros l Hl. rewrite forallb_forall in Hjx.
      specialize (Hjx l Hl). apply orb_true_iff in Hjx. destruct Hjx as [E'|E']; [apply lit_eqb_eq in E'; subst; exact Hta | exact E'].
Qed.

(* Solver::propagate as a whole *)
Theorem propagate_sound level asserts units st st' r :
  WInv (ps_watch st) (ps_lists st) -> tnodup st ->
  (forall x, In x (asserts ++ units) -> assert_just st x = true) ->
  propagate db level asserts units st = Some (st', r) ->
  WInv (ps_watch st') (ps_lists st') /\ tnodup st' /\ grows (ps_trail st) (ps_trail st') /\
  (forall o id, r = Some (o, id) -> exists c, nth_error db (N.to_nat id) = Some c /\ falsified (ps_trail st') (cl_lits c) = true).
Proof.
  intros HW Hnd Hj H. unfold propagate in H.
  destruct (assert_all level asserts st) as [st1 r1] eqn:E1.
  destruct (assert_all_sound level asserts st st1 r1 (fun x Hx => Hj x (in_or_app _ _ _ (or_introl Hx))) Hnd E1)
    as [A1 [A2 [A3 [A4 [A5 A6]]]]].
  destruct r1 as [c1|].
  - inversion H. subst. rewrite A3, A4. split; [exact HW|]. split; [exact A1|]. split; [exact A2 | exact A6].
  - destruct (assert_all level units st1) as [st2 r2] eqn:E2.
    assert (Hj2 : forall x, In x units -> assert_just st1 x = true) by (intros x Hx; apply A5; apply Hj; apply in_or_app; right; exact Hx).
    destruct (assert_all_sound level units st1 st2 r2 Hj2 A1 E2) as [B1 [B2 [B3 [B4 [_ B6]]]]].
    destruct r2 as [c2|].
    + inversion H. subst. rewrite B3, B4, A3, A4. split; [exact HW|]. split; [exact B1|].
      split; [eapply grows_trans; eassumption | exact B6].
    + assert (HW2 : WInv (ps_watch st2) (ps_lists st2)) by (rewrite B3, B4, A3, A4; exact HW).
      destruct (prop_loop_sound level _ _ _ _ HW2 B1 H) as [C1 [C2 [C3 C4]]].
      split; [exact C1|]. split; [exact C2|]. split; [|exact C4].
      eapply grows_trans; [eapply grows_trans; eassumption | exact C3].
Qed.

End Inv.

(* every entry a [grows] step added is justified with respect to what is below it *)
Lemma grows_justified db base cur : grows db base cur ->
  exists new, cur = new ++ base /\
    forall k e, nth_error new k = Some e -> reason_ok db e (skipn (S k) new ++ base) = true.
Proof.
  induction 1 as [|cur e Hg [new [E IH]] Hr].
  - exists []. split; [reflexivity | intros k e H; destruct k; discriminate].
  - exists (e :: new). subst cur. split; [reflexivity|]. intros k e0 Hk. destruct k as [|k]; simpl in *.
    + inversion Hk. subst. exact Hr.
    + apply IH. exact Hk.
Qed.
