(* Cdcl/UnitSteps.v -- every assignment the propagate model makes is a unit-propagation step of the abstract
   machine (Cdcl/Trail.v): its literal is a literal of the reason clause, every other literal of that clause is
   false under the older part of the trail, and its variable was unassigned. *)
From Resolvo Require Export Cdcl.LitsIn Cdcl.PropagateComplete Cdcl.Trail.
From Coq Require Import Lia.

(* ---------- every assignment of propagate is a unit-propagation step of the abstract machine ---------- *)

Section UnitSteps.
Variable db : list cl.

(* the machine's side condition for a propagation: the literal is in the clause and every other literal of
   the clause is false under the older part of the trail (Cdcl/Trail.v unit_under) *)
Lemma reason_ok_unit_under e rest :
  reason_ok db e rest = true -> lit_in db e ->
  exists c, nth_error db (N.to_nat (t_reason e)) = Some c /\ unit_under (tl_lits rest) (cl_lits c) (t_lit e) = true.
Proof.
  intros Hr [c [Hc Hin]]. exists c. split; [exact Hc|]. unfold reason_ok in Hr. rewrite Hc in Hr.
  unfold unit_under. apply andb_true_iff. split.
  - apply existsb_exists. exists (t_lit e). split; [exact Hin | apply lit_eqb_refl].
  - rewrite forallb_forall in Hr. apply forallb_forall. intros l Hl. specialize (Hr l Hl).
    destruct (var_eqb (fst l) (tvar e)) eqn:Ev.
    + rewrite Hr. reflexivity.
    + apply orb_true_iff. right. unfold lit_false, lit_val.
      destruct (pval (tl_lits rest) (fst l)) as [b|]; [|discriminate]. apply Bool.eqb_prop in Hr. subst b.
      destruct (snd l); reflexivity.
Qed.

Inductive ugrows (base : list tent) : list tent -> Prop :=
| ug_refl : ugrows base base
| ug_step cur e : ugrows base cur ->
    (exists c, nth_error db (N.to_nat (t_reason e)) = Some c /\ unit_under (tl_lits cur) (cl_lits c) (t_lit e) = true) ->
    pval (tl_lits cur) (tvar e) = None ->
    ugrows base (e :: cur).

Lemma grows_ugrows base : forall cur, grows db base cur -> forall new, cur = new ++ base -> Forall (lit_in db) new ->
  vars_nodup (tl_lits cur) = true -> ugrows base cur.
Proof.
  induction 1 as [|cur e Hg IH Hr]; intros new E Hin Hn.
  - constructor.
  - destruct new as [|x new'].
    + (* impossible: e :: cur = base while cur extends base *)
      exfalso. simpl in E. destruct (grows_app db _ _ Hg) as [n1 E1]. rewrite E1 in E.
      assert (Hl : length (e :: n1 ++ base) = length base) by (rewrite E; reflexivity).
      simpl in Hl. rewrite app_length in Hl. lia.
    + simpl in E. inversion E. subst x cur. inversion Hin as [|? ? Hx Hrest]. subst.
      assert (Hn' : vars_nodup (tl_lits (new' ++ base)) = true /\ pval (tl_lits (new' ++ base)) (tvar e) = None).
      { unfold tl_lits, tvar in *. simpl in Hn. destruct (t_lit e) as [v b]. simpl.
        destruct (pval (map t_lit (new' ++ base)) v); [discriminate | split; [exact Hn | reflexivity]]. }
      destruct Hn' as [Hn1 Hn2].
      constructor; [apply (IH new' eq_refl Hrest Hn1) | apply (reason_ok_unit_under _ _ Hr Hx) | exact Hn2].
Qed.

End UnitSteps.

(* propagate, as a whole *)
Theorem propagate_unit_steps db level asserts units st st' r :
  WInv db (ps_watch st) (ps_lists st) -> tnodup st ->
  (forall x, In x (asserts ++ units) -> assert_just db st x = true) ->
  (forall x, In x (asserts ++ units) -> assert_in db x) ->
  propagate db level asserts units st = Some (st', r) ->
  ugrows db (ps_trail st) (ps_trail st').
Proof.
  intros HW Hn Hj Hi H.
  destruct (propagate_sound db level asserts units st st' r HW Hn Hj H) as [_ [Hn' [Hg _]]].
  destruct (propagate_lits db level asserts units st st' r (winv_wlits db _ _ HW) Hi H) as [new [E Hin]].
  apply (grows_ugrows db _ _ Hg new E Hin Hn').
Qed.
