(* Cdcl/Greedy.v -- C07: on a problem whose first-ranked candidates are
   mutually compatible (greedy_ok), every legal run that announces a solution
   announces exactly the greedy selection.

   Invariant over all runs: every literal on the trail holds in the assignment
   a_G of the greedy selection.  Propagation preserves it because a_G is a model
   of the whole clause database (E1 + entailment of learnt clauses); a decision
   preserves it because rule D1 picks the first non-false candidate, which is
   the first-ranked one, a member of G. *)
From Resolvo Require Export Cdcl.Support.

Section Greedy.
Variable U : provider.
Variable P : problem.
Hypothesis HW : WF U.
Variable db : list cl.
Variable G : list N.

Hypothesis Hsoft : pr_soft P = [].
Hypothesis Hgreedy : greedy_ok U P G.
Hypothesis Hfacts : facts_ok U P db = true.
Hypothesis Hlearn : learnts_ok [] db = true.

Let aG := a_sel U (db_idx db) G.

Lemma aG_models c : In c db -> cl_true aG (cl_lits c) = true.
Proof. apply (db_model U P HW db G); [apply Hgreedy | exact Hfacts | exact Hlearn]. Qed.

Definition holds (pa : list lit) : Prop := forall l, In l pa -> lit_true aG l = true.

Lemma holds_extends pa : holds pa -> extends aG pa.
Proof.
  intros H v b Hv. apply pval_In in Hv. specialize (H _ Hv). unfold lit_true in H. simpl in H.
  apply Bool.eqb_prop in H. exact H.
Qed.

Lemma aG_sol s : aG (VSol s) = true <-> In s G.
Proof. unfold aG. simpl. apply memN_In. Qed.

Lemma db_fact' c : In c db -> is_learnt c = false -> factb U P (db_idx db) c = true.
Proof.
  intros Hc Hnl. unfold facts_ok in Hfacts. rewrite forallb_forall in Hfacts.
  specialize (Hfacts c Hc). rewrite Hnl in Hfacts. exact Hfacts.
Qed.

Lemma requires_shape c p r cands :
  In c db -> ck c = KRequires p r cands ->
  cl_lits c = (p, false) :: map pos (req_cands U r) /\ req_parent_ok U P p r = true.
Proof.
  intros Hc Ek. assert (Hnl : is_learnt c = false) by (unfold is_learnt; rewrite Ek; reflexivity).
  pose proof (db_fact' c Hc Hnl) as Hf. unfold factb in Hf. rewrite Ek in Hf.
  apply andb_true_iff in Hf. destruct Hf as [Hf Hl]. apply andb_true_iff in Hf.
  destruct Hf as [Hp Hcs]. apply lits_eqb_eq in Hl. apply nll_eqb_eq in Hcs. subst cands.
  rewrite concat_map_flat_map in Hl. split; [exact Hl | exact Hp].
Qed.

(* a requirement of the root or of a member of G is one of "all requirements" *)
Lemma parent_all_reqs p r :
  req_parent_ok U P p r = true -> aG p = true -> all_reqs U P G r.
Proof.
  destruct p as [|s|n k]; simpl; intros Hp Ha.
  - left. apply existsb_req. exact Hp.
  - right. exists s. split; [apply memN_In; exact Ha|]. apply req_of_some. apply existsb_req. exact Hp.
  - discriminate.
Qed.

(* one legal step keeps the trail inside a_G *)
Lemma step_holds pa l r k :
  holds pa -> classify (pr_soft P) db pa l r = Some k -> lit_true aG l = true.
Proof.
  intros Hh Hc. pose proof (holds_extends pa Hh) as Hext.
  unfold classify in Hc. destruct (pval pa (fst l)); [discriminate|].
  destruct (N.eqb r 0).
  { rewrite Hsoft in Hc. destruct l as [[|s|n j] [|]]; simpl in Hc; try discriminate. reflexivity. }
  destruct (nth_error db (N.to_nat r)) as [c|] eqn:En; [|discriminate].
  apply nth_error_In in En.
  destruct (unit_under pa (cl_lits c) l) eqn:Eu.
  - (* propagation *)
    unfold unit_under in Eu. apply andb_true_iff in Eu. destruct Eu as [_ Hothers].
    rewrite forallb_forall in Hothers.
    pose proof (aG_models c En) as Hm. apply cl_true_iff in Hm. destruct Hm as [l' [Hl' Ht]].
    specialize (Hothers l' Hl'). apply orb_true_iff in Hothers. destruct Hothers as [E|Hf].
    + apply lit_eqb_eq in E. subst. exact Ht.
    + rewrite (extends_false aG pa l' Hext Hf) in Ht. discriminate.
  - (* decision *)
    unfold decision_kind in Hc. destruct (ck c) as [|p rq cands| | | | |] eqn:Ek; try discriminate.
    destruct (requires_shape c p rq cands En Ek) as [Elits Hp]. rewrite Elits in Hc.
    match type of Hc with (if ?cond then _ else _) = _ => destruct cond eqn:Econd; [|discriminate] end.
    clear Hc. repeat (apply andb_true_iff in Econd; destruct Econd as [Econd ?]).
    match goal with H : lit_istrue pa (p, true) = true |- _ =>
      pose proof (extends_true aG pa _ Hext H) as Hpt end.
    unfold lit_true in Hpt. simpl in Hpt. apply Bool.eqb_prop in Hpt.
    destruct Hgreedy as [_ [_ Hfirst]].
    destruct (Hfirst rq (parent_all_reqs p rq Hp Hpt)) as [f [Ef [HfG _]]].
    unfold first_choice in Ef. destruct (req_cands U rq) as [|f' rest] eqn:Ecs; [discriminate|].
    simpl in Ef. inversion Ef. subst f'.
    (* the first candidate is not false on the trail, so it is the one decided *)
    match goal with H : opt_lit_eqb (first_nonfalse pa _) l = true |- _ => rename H into Hfn end.
    unfold first_nonfalse in Hfn. cbn [map find] in Hfn.
    destruct (lit_false pa (pos f)) eqn:Eff.
    + exfalso. pose proof (extends_false aG pa _ Hext Eff) as Hx. rewrite lit_true_pos in Hx.
      apply aG_sol in HfG. congruence.
    + simpl in Hfn. apply lit_eqb_eq in Hfn. subst l. rewrite lit_true_pos. apply aG_sol. exact HfG.
Qed.

(* the invariant holds in every state reachable by a run *)
Theorem run_holds evs : forall tr tr',
  holds (tlits tr) -> run_events (pr_soft P) db evs tr = Some tr' -> holds (tlits tr').
Proof.
  induction evs as [|ev es IH]; intros tr tr' Hh H; cbn [run_events] in H.
  - inversion H. subst. exact Hh.
  - destruct ev as [l r| |].
    + destruct (classify (pr_soft P) db (tlits tr) l r) as [k|] eqn:Ec; [|discriminate].
      refine (IH _ _ _ H). cbn [tlits map e_lit]. intros l' [E|Hin]; [|apply Hh; exact Hin].
      subst l'. eapply step_holds; eauto.
    + destruct tr as [|e t]; [discriminate|]. refine (IH _ _ _ H).
      intros l' Hin. apply Hh. right. exact Hin.
    + refine (IH _ _ _ H). intros l' [].
Qed.

(* ---------- final state ---------- *)

Lemma closed_requires S ex p r :
  closedb U P db S ex = true ->
  (p = VRoot /\ In r (pr_reqs P)) \/ (exists s, p = VSol s /\ In s S /\ In r (dep_reqs U s)) ->
  has_requires U db p r = true.
Proof.
  unfold closedb. intro Hc.
  apply andb_true_iff in Hc. destruct Hc as [Hc _]. apply andb_true_iff in Hc. destruct Hc as [Hc _].
  apply andb_true_iff in Hc. destruct Hc as [Hr Hd].
  intros [[Ep Hin]|[s [Ep [Hs Hin]]]]; subst p.
  - simpl in Hr. apply andb_true_iff in Hr. destruct Hr as [Hr _].
    rewrite forallb_forall in Hr. apply Hr. exact Hin.
  - rewrite forallb_forall in Hd. specialize (Hd s Hs). unfold dep_reqs in Hin.
    destruct (p_deps U s) as [rs cs|]; [|destruct Hin]. simpl in Hd.
    apply andb_true_iff in Hd. destruct Hd as [Hd _]. rewrite forallb_forall in Hd. apply Hd. exact Hin.
Qed.

Theorem greedy_final evs tr sol :
  run_events (pr_soft P) db evs [] = Some tr ->
  check_sat U P db (tlits tr) sol = true ->
  same_set sol G.
Proof.
  intros Hrun Hsat.
  pose proof (run_holds evs [] tr ltac:(intros l []) Hrun) as Hh.
  pose proof Hsat as Hsat0.
  destruct (check_sat_sound U P HW db (tlits tr) sol Hsat) as [Esol _].
  unfold check_sat in Hsat.
  apply andb_true_iff in Hsat. destruct Hsat as [Hsat Hcl]. apply andb_true_iff in Hsat.
  destruct Hsat as [Hsat Hall]. apply andb_true_iff in Hsat. destruct Hsat as [Hsat Hroot].
  apply andb_true_iff in Hsat. destruct Hsat as [Hnd _]. rewrite forallb_forall in Hall.
  set (a := asg_of U db (tlits tr)) in *. set (S := sel_of (tlits tr)) in *.
  assert (HaS : forall s, a (VSol s) = true <-> In s S).
  { intro s. unfold S. rewrite sel_of_In. unfold a, asg_of. split.
    - destruct (pval (tlits tr) (VSol s)) as [b|] eqn:E; [|discriminate].
      intro Hb. subst b. apply pval_In. exact E.
    - intro Hin. rewrite (nodup_pval _ _ _ Hnd Hin). reflexivity. }
  assert (Hsub : forall s, In s S -> In s G).
  { intros s Hs. unfold S in Hs. apply sel_of_In in Hs. specialize (Hh _ Hs).
    change (VSol s, true) with (pos s) in Hh.
    rewrite lit_true_pos in Hh. apply aG_sol. exact Hh. }
  (* a requirement whose parent is selected has a selected candidate, which is the first choice *)
  assert (Hreq : forall p r g,
            (p = VRoot /\ In r (pr_reqs P)) \/ (exists s, p = VSol s /\ In s S /\ In r (dep_reqs U s)) ->
            all_reqs U P G r -> In g G -> cand_of U r g -> In g S).
  { intros p r g Hpr Hall_r HgG Hcg.
    pose proof (closed_requires S _ p r Hcl Hpr) as Hhas. apply has_requires_lits in Hhas.
    apply (has_lits_sat db _ a Hall) in Hhas. apply cl_true_iff in Hhas.
    destruct Hhas as [l [Hl Ht]]. simpl in Hl. destruct Hl as [E|Hl].
    - subst l. exfalso. unfold lit_true in Ht. simpl in Ht.
      destruct Hpr as [[Ep _]|[s [Ep [Hs _]]]]; subst p.
      + rewrite Hroot in Ht. discriminate.
      + apply HaS in Hs. rewrite Hs in Ht. discriminate.
    - apply in_map_iff in Hl. destruct Hl as [c [E Hc]]. subst l. rewrite lit_true_pos in Ht.
      apply HaS in Ht. apply (req_cands_In U HW) in Hc.
      destruct Hgreedy as [_ [_ Hfirst]]. destruct (Hfirst r Hall_r) as [f [_ [_ Huniq]]].
      rewrite (Huniq g HgG Hcg). rewrite <- (Huniq c (Hsub c Ht) Hc). exact Ht. }
  destruct Hgreedy as [_ [Hsupp _]].
  assert (Hsup : forall g, Supp U {| pr_reqs := pr_reqs P; pr_cons := pr_cons P; pr_soft := [] |} G g -> In g S).
  { intros g Hg. induction Hg as [g r Hr Hc HgG | g Hs HgG | p g r Hp IH Hr Hc HgG].
    - apply (Hreq VRoot r g); [left; split; [reflexivity | exact Hr] | left; exact Hr | exact HgG | exact Hc].
    - simpl in Hs. destruct Hs.
    - apply req_of_some in Hr.
      apply (Hreq (VSol p) r g); [right; exists p; auto | | exact HgG | exact Hc].
      right. exists p. split; [|apply req_of_some; exact Hr].
      (* p is in G: it is supported within G *)
      clear -Hp. induction Hp; assumption. }
  intro x. rewrite Esol, <- in_rev. fold S. split; [apply Hsub|].
  intro HxG. apply Hsup. apply Hsupp. exact HxG.
Qed.

End Greedy.
