(* Cdcl/SolverSound.v -- the solver model never reports Unsolvable for a problem that
   has a valid selection, for every well-formed provider, problem, fuel, activity
   function and completion order -- provided the side conditions that the model
   accumulates in s_ok held: analysis_ok at every conflict analysis and the second
   component of unsolvable at the end (both are what the per-run ties evaluate;
   Cdcl/AnalyzeOk.v proves the first on trails with the level structure).

   Route: (1) SInv: every non-learnt, non-root clause is a fact, hence true in the
   assignment of every valid selection (E1); (2) every learnt clause is entailed by
   its recorded antecedents (analyze_sound under analysis_ok), which are older
   (why_lt, part of the final side condition), so by induction on the clause id every
   learnt clause is true in that assignment too; (3) core_unsat: the clauses of the
   reported conflict cannot all be true with the root installed. *)
From Resolvo Require Export Cdcl.SolverProofs Cdcl.UnsolvableProofs.
From Coq Require Import Lia.

Definition ALE (db : list cl) : Prop :=
  (forall id c, nth_error db (N.to_nat id) = Some c -> is_learnt c = true -> learnt_entailed db id) /\
  (forall c, In c db -> ck c = KRoot -> cl_lits c = [(VRoot, true)]).

Lemma learnt_entailed_mono db x id :
  (N.to_nat id < length db)%nat -> learnt_entailed db id -> learnt_entailed (db ++ [x]) id.
Proof.
  intros Hlt H c Hc a Hwhy. rewrite nth_error_app1 in Hc by exact Hlt. apply (H c Hc a).
  intros j cj Hj Hcj. apply (Hwhy j cj Hj). rewrite nth_error_app1; [exact Hcj|]. apply nth_error_Some. rewrite Hcj. discriminate.
Qed.

Lemma ale_snoc_nonlearnt db c : is_learnt c = false -> ck c <> KRoot -> ALE db -> ALE (db ++ [c]).
Proof.
  intros Hc Hr [H HR]. split.
  2:{ intros c0 Hin Hk. apply in_app_or in Hin. destruct Hin as [Hin|[E|[]]]; [apply HR; assumption | subst; contradiction]. }
  intros id c0 Hn Hl.
  destruct (Nat.lt_ge_cases (N.to_nat id) (length db)) as [Hlt|Hge].
  - apply learnt_entailed_mono; [exact Hlt|]. rewrite nth_error_app1 in Hn by exact Hlt. apply (H id c0 Hn Hl).
  - rewrite nth_error_app2 in Hn by exact Hge. destruct (N.to_nat id - length db)%nat as [|k]; simpl in Hn.
    + inversion Hn. subst. congruence.
    + destruct k; discriminate.
Qed.

Lemma ale_snoc_learnt db c :
  is_learnt c = true -> learnt_entailed (db ++ [c]) (N.of_nat (length db)) -> ALE db -> ALE (db ++ [c]).
Proof.
  intros Hlc Hnew [H HR]. split.
  2:{ intros c0 Hin Hk. apply in_app_or in Hin. destruct Hin as [Hin|[E|[]]]; [apply HR; assumption|].
      subst. unfold is_learnt in Hlc. rewrite Hk in Hlc. discriminate. }
  intros id c0 Hn Hl.
  destruct (Nat.lt_ge_cases (N.to_nat id) (length db)) as [Hlt|Hge].
  - apply learnt_entailed_mono; [exact Hlt|]. rewrite nth_error_app1 in Hn by exact Hlt. apply (H id c0 Hn Hl).
  - assert (Hid : N.to_nat id = length db).
    { assert (N.to_nat id < length (db ++ [c]))%nat by (apply nth_error_Some; rewrite Hn; discriminate).
      rewrite app_length in H0. simpl in H0. lia. }
    replace id with (N.of_nat (length db)) by lia. exact Hnew.
Qed.

Section Sound.
Variable U : provider.
Variable P : problem.
Hypothesis HW : WF U.
Variable A : Type.
Variable a_ge : A -> N -> N -> bool.
Variable a_conflict : A -> list N -> A.

Notation sst := (sstate A).

(* one or more steps of the model: the accumulated flag can only go down, and while it is up the learnt
   clauses stay entailed *)
Definition Step (st st' : sst) : Prop :=
  (s_ok st' = true -> s_ok st = true) /\ (s_ok st' = true -> ALE (s_db st) -> ALE (s_db st')).

Lemma step_refl st : Step st st.
Proof. split; auto. Qed.

Lemma step_trans a b c : Step a b -> Step b c -> Step a c.
Proof. intros [A1 A2] [B1 B2]. split; [auto|]. intros Hc Ha. apply B2; [exact Hc|]. apply A2; [apply B1; exact Hc | exact Ha]. Qed.

Lemma step_same (st st' : sst) : s_db st' = s_db st -> s_ok st' = s_ok st -> Step st st'.
Proof. intros E1 E2. split; [rewrite E2; auto | rewrite E1; auto]. Qed.

Lemma step_assign st l level reason st' : s_assign st l level reason = Some st' -> Step st st'.
Proof.
  unfold s_assign. destruct (pvalue (s_ps st) (fst l)) as [b|].
  - destruct (Bool.eqb b (snd l)); intro H; inversion H; subst; apply step_refl.
  - intro H. inversion H. subst. apply step_same; reflexivity.
Qed.

Lemma step_undo_last st : Step st (s_undo_last st).
Proof. apply step_same; reflexivity. Qed.

Lemma step_pop_above fuel lv : forall st, Step st (s_pop_above fuel lv st).
Proof.
  induction fuel as [|f IH]; intro st; simpl; [apply step_refl|].
  destruct (ps_trail (s_ps st)) as [|e t]; [apply step_refl|]. destruct (N.leb (t_level e) lv); [apply step_refl|].
  eapply step_trans; [apply step_undo_last | apply IH].
Qed.

Lemma step_undo_until st lv : Step st (s_undo_until st lv).
Proof.
  unfold s_undo_until. destruct (N.eqb lv 0); [apply step_same; reflexivity|].
  eapply step_trans; [|apply step_pop_above]. apply step_same; reflexivity.
Qed.

Lemma step_pops n : forall st, Step st (s_pops n st).
Proof. induction n as [|n IH]; intro st; simpl; [apply step_refl | eapply step_trans; [apply step_undo_last | apply IH]]. Qed.

Lemma step_add_clause st confl c : enc_kind c = true -> Step st (fst (add_clause (st, confl) c)).
Proof.
  intro Hc. unfold add_clause. simpl. split; simpl; [auto|]. intros _ Ha. apply ale_snoc_nonlearnt; [| |exact Ha].
  - unfold enc_kind, is_learnt in *. destruct (ck c); try reflexivity; discriminate.
  - intro E. unfold enc_kind in Hc. rewrite E in Hc. discriminate.
Qed.

Lemma step_add_clauses : forall new st confl, Forall (fun c => enc_kind c = true) new ->
  Step st (fst (fold_left add_clause new (st, confl))).
Proof.
  induction new as [|c t IH]; intros st confl Hf; cbn [fold_left]; [apply step_refl|].
  inversion Hf as [|? ? H1 H2]. subst. pose proof (step_add_clause st confl c H1) as Hs.
  destruct (add_clause (st, confl) c) as [st1 confl1]. simpl in Hs. eapply step_trans; [exact Hs | apply IH; exact H2].
Qed.

Lemma enc_kind_not_learnt c : enc_kind c = true -> is_learnt c = false.
Proof. unfold enc_kind, is_learnt. destruct (ck c); try reflexivity; discriminate. Qed.

Lemma step_absorb st enc1 : ext (s_enc st) enc1 -> Step st (fst (absorb st enc1)).
Proof.
  intros [x [Ex Fx]]. unfold absorb.
  assert (Hnew : skipn (length (e_db (s_enc st))) (e_db enc1) = x).
  { rewrite Ex. rewrite skipn_app, skipn_all, Nat.sub_diag. reflexivity. }
  rewrite Hnew. eapply step_trans; [|apply step_add_clauses].
  - apply step_same; reflexivity.
  - exact Fx.
Qed.

Lemma step_encode fuel st sos st' confl : SInv U P A st -> encode U P fuel st sos = Some (st', confl) -> Step st st'.
Proof.
  intros HS H. unfold encode in H.
  destruct (queue_solvables (s_enc st) sos) as [enc1 w] eqn:Eq.
  pose proof (einv_queue_solvables U P sos _ _ _ (si_enc _ _ _ _ _ HS) Eq) as HE1.
  pose proof (queue_solvables_tasks U P sos _ _ _ Eq) as Hw.
  pose proof (ext_queue_solvables sos _ _ _ Eq) as Hx1.
  destruct (s_order st) as [order|].
  - destruct (enc_ordered U P (falses_of (tr_lits st)) enc1 w order) as [[enc2 order']|] eqn:Eo; [|discriminate].
    destruct (enc_ordered_inv U P HW _ _ _ _ _ _ HE1 Hw Eo) as [_ Hx2].
    pose proof (step_absorb st enc2 (ext_trans _ _ _ Hx1 Hx2)) as HA.
    destruct (absorb st enc2) as [st1 confl1]. inversion H. subst. simpl in HA.
    eapply step_trans; [exact HA | apply step_same; reflexivity].
  - destruct (enc_fifo U P fuel (falses_of (tr_lits st)) enc1 w) as [enc2|] eqn:Ef; [|discriminate].
    destruct (enc_fifo_inv U P HW _ _ _ _ _ HE1 Hw Ef) as [_ Hx2].
    pose proof (step_absorb st enc2 (ext_trans _ _ _ Hx1 Hx2)) as HA.
    inversion H. rewrite H1 in HA. exact HA.
Qed.

Lemma step_propagate st level st' r : s_propagate st level = Some (st', r) -> Step st st'.
Proof.
  unfold s_propagate. destruct (propagate (s_db st) level (s_asserts st) (s_units st) (s_ps st)) as [[ps1 conf]|]; [|discriminate].
  intro H. inversion H. subst. apply step_same; reflexivity.
Qed.


(* a learnt clause enters the database *)
Lemma step_add_learnt (st1 : sst) db0 tr conf r ps2 units2 act2 born2 :
  s_db st1 = db0 -> analyze db0 tr conf = Some r ->
  Step st1 (mkS (s_enc st1) (s_db st1 ++ [mkCl (KLearnt (r_why r)) (r_learnt r)]) ps2 (s_asserts st1) units2 act2
                (s_start st1) (s_log st1) (s_order st1) (s_ok st1 && analysis_ok db0 tr conf r) born2).
Proof.
  intros Edb Han. split; simpl.
  - intro H. apply andb_true_iff in H. apply H.
  - intros H Ha. apply andb_true_iff in H. destruct H as [_ Hok]. apply ale_snoc_learnt; [reflexivity | | exact Ha].
    intros c Hc a Hwhy. rewrite Nat2N.id, nth_error_app2, Nat.sub_diag in Hc by lia. simpl in Hc. inversion Hc. subst c. simpl.
    apply (analyze_sound db0 tr conf r Han Hok a). intros j cj Hj Hcj. apply (Hwhy j cj).
    + simpl. exact Hj.
    + rewrite Edb. rewrite nth_error_app1; [exact Hcj|]. apply nth_error_Some. rewrite Hcj. discriminate.
Qed.

Lemma s_pops_db n : forall (st : sst), s_db (s_pops n st) = s_db st.
Proof. induction n as [|n IH]; intro st; simpl; [reflexivity | rewrite IH; reflexivity]. Qed.

Lemma step_learn st conf st' lv : learn U a_conflict st conf = Some (st', lv) -> Step st st'.
Proof.
  intro H. unfold learn in H.
  destruct (analyze (s_db st) (ps_trail (s_ps st)) conf) as [r|] eqn:Han; [|discriminate]. cbv zeta in H.
  set (st1 := s_pops (r_pops r) st) in *.
  assert (H01 : Step st st1) by apply step_pops.
  assert (Edb : s_db st1 = s_db st) by apply s_pops_db.
  destruct (r_learnt r) as [|f [|g t]] eqn:El.
  - simpl in H. discriminate.
  - simpl in H.
    match type of H with
    | context [s_undo_until ?X ?T] =>
        assert (H12 : Step st1 X) by (rewrite <- El; apply (step_add_learnt st1 (s_db st) _ conf r _ _ _ _ Edb Han));
        pose proof (step_undo_until X T) as H23
    end.
    match type of H with
    | context [s_assign ?X ?L ?T ?I] => destruct (s_assign X L T I) as [st4|] eqn:Ea; [|discriminate]
    end.
    inversion H. subst. eapply step_trans; [exact H01|]. eapply step_trans; [exact H12|]. eapply step_trans; [exact H23|].
    eapply step_assign; exact Ea.
  - destruct (rev (f :: g :: t)) as [|last rl] eqn:Er; [simpl in H; discriminate|].
    destruct (lit_eqb f last) eqn:Efl; cbn [negb] in H; [discriminate|].
    match type of H with
    | context [s_undo_until ?X ?T] =>
        assert (H12 : Step st1 X) by (rewrite <- El; apply (step_add_learnt st1 (s_db st) _ conf r _ _ _ _ Edb Han));
        pose proof (step_undo_until X T) as H23
    end.
    match type of H with
    | context [s_assign ?X ?L ?T ?I] => destruct (s_assign X L T I) as [st4|] eqn:Ea; [|discriminate]
    end.
    inversion H. subst. eapply step_trans; [exact H01|]. eapply step_trans; [exact H12|]. eapply step_trans; [exact H23|].
    eapply step_assign; exact Ea.
Qed.

(* ---------- the results of the loops ---------- *)

(* the reported conflict comes from the analyze_unsolvable model with its side conditions met *)
Definition Wit (st : sst) (core : list N) : Prop :=
  s_ok st = true -> exists tr conf, unsolvable (s_db st) tr conf = Some (core, true).

Definition step_good (st0 : sst) (r : step_res A) : Prop :=
  match r with
  | RLevel st _ => Step st0 st
  | RUnsat st core => Step st0 st /\ Wit st core
  | _ => True
  end.
Definition run_good (st0 : sst) (r : run_res A) : Prop :=
  match r with
  | ROk st _ => Step st0 st
  | RErr st core => Step st0 st /\ Wit st core
  | _ => True
  end.

Lemma step_good_trans a b r : Step a b -> step_good b r -> step_good a r.
Proof. intros H. destruct r; simpl; auto; [apply step_trans; exact H | intros [H1 H2]; split; [eapply step_trans; eauto | exact H2]]. Qed.
Lemma run_good_trans a b r : Step a b -> run_good b r -> run_good a r.
Proof. intros H. destruct r; simpl; auto; [apply step_trans; exact H | intros [H1 H2]; split; [eapply step_trans; eauto | exact H2]]. Qed.

Lemma wit_set_ok (st : sst) tr conf core ok :
  unsolvable (s_db st) tr conf = Some (core, ok) ->
  Step st (set_ok st (s_ok st && ok)) /\ Wit (set_ok st (s_ok st && ok)) core.
Proof.
  intro Hu. split.
  - split; simpl; [intro H; apply andb_true_iff in H; apply H | auto].
  - intro H. simpl in H. apply andb_true_iff in H. destruct H as [_ Hok]. subst ok. exists tr, conf. exact Hu.
Qed.

Lemma good_prop_learn : forall fuel st level, SInv U P A st -> step_good st (prop_learn U a_conflict fuel st level).
Proof.
  induction fuel as [|f IH]; intros st level HS; cbn [prop_learn]; [exact I|].
  destruct (s_propagate st level) as [[st1 [conf|]]|] eqn:Ep; [| |exact I].
  - pose proof (step_propagate _ _ _ _ Ep) as H01. pose proof (sinv_propagate U P A _ _ _ _ HS Ep) as HS1.
    destruct (N.eqb level 1).
    + destruct (unsolvable (s_db st1) (ps_trail (s_ps st1)) conf) as [[core ok]|] eqn:Eu; [|exact I].
      destruct (wit_set_ok st1 _ _ _ _ Eu) as [W1 W2]. simpl. split; [eapply step_trans; eauto | exact W2].
    + destruct (learn U a_conflict st1 conf) as [[st2 lv]|] eqn:El; [|exact I].
      eapply step_good_trans; [exact H01|]. eapply step_good_trans; [apply (step_learn _ _ _ _ El)|].
      apply IH. apply (sinv_learn U P A a_conflict _ _ _ _ HS1 El).
  - simpl. apply (step_propagate _ _ _ _ Ep).
Qed.

Lemma good_resolve : forall fuel st level, SInv U P A st -> step_good st (resolve U a_ge a_conflict fuel st level).
Proof.
  induction fuel as [|f IH]; intros st level HS; cbn [resolve]; [exact I|].
  destruct (decide U (a_ge (s_act st)) (s_db st) (tr_lits st)) as [[d|]|]; [| simpl; apply step_refl | exact I].
  destruct (s_assign st (VSol (pd_cand d), true) (N.succ level) (pd_clause d)) as [st1|] eqn:Ea; [|exact I].
  pose proof (step_assign _ _ _ _ _ Ea) as H01. pose proof (sinv_assign U P A _ _ _ _ _ _ HS Ea) as HS1.
  pose proof (good_prop_learn f st1 (N.succ level) HS1) as H2.
  pose proof (sinv_prop_learn U P A a_conflict f st1 (N.succ level) HS1) as HS2.
  destruct (prop_learn U a_conflict f st1 (N.succ level)) as [st2 lv|st2 core| |]; try exact I.
  - eapply step_good_trans; [exact H01|]. eapply step_good_trans; [exact H2|]. apply IH. exact HS2.
  - eapply step_good_trans; [exact H01 | exact H2].
Qed.

Lemma good_reject st so start conf : run_good st (reject st so start conf).
Proof.
  unfold reject. destruct (N.eqb start 0).
  - destruct (unsolvable (s_db st) (ps_trail (s_ps st)) conf) as [[core ok]|] eqn:Eu; [|exact I].
    simpl. apply (wit_set_ok st _ _ _ _ Eu).
  - destruct (s_assign (s_undo_until st start) (so_var so, false) (N.succ start) 0) as [st2|] eqn:Ea; [|exact I].
    simpl. eapply step_trans; [apply step_undo_until | eapply step_assign; exact Ea].
Qed.

Lemma good_run_loop efuel so start : forall fuel st level, SInv U P A st ->
  run_good st (run_loop U P a_ge a_conflict fuel efuel st so start level).
Proof.
  induction fuel as [|f IH]; intros st level HS; cbn [run_loop]; [exact I|].
  set (first := if N.eqb level start then
                  match s_assign st (so_var so, true) (N.succ start) 0 with
                  | None => None
                  | Some st1 => match encode U P efuel st1 [so] with
                                | None => None
                                | Some (st2, confl) => Some (st2, N.succ start, find (clause_falsified st2) confl)
                                end
                  end
                else Some (st, level, None)).
  assert (Hfirst : match first with Some (st2, _, _) => SInv U P A st2 /\ Step st st2 | None => True end).
  { unfold first. destruct (N.eqb level start); [|split; [exact HS | apply step_refl]].
    destruct (s_assign st (so_var so, true) (N.succ start) 0) as [st1|] eqn:Ea; [|exact I].
    pose proof (sinv_assign U P A _ _ _ _ _ _ HS Ea) as H1.
    destruct (encode U P efuel st1 [so]) as [[st2 confl]|] eqn:Ee; [|exact I].
    split; [apply (sinv_encode U P HW A _ _ _ _ _ H1 Ee)|].
    eapply step_trans; [eapply step_assign; exact Ea | apply (step_encode _ _ _ _ _ H1 Ee)]. }
  destruct first as [[[st2 level2] [conf|]]|]; [| |exact I].
  - destruct Hfirst as [HS2 H02]. eapply run_good_trans; [exact H02 | apply good_reject].
  - destruct Hfirst as [HS2 H02].
    destruct (s_propagate st2 level2) as [[st3 [conf|]]|] eqn:Ep; [| |exact I].
    + pose proof (sinv_propagate U P A _ _ _ _ HS2 Ep) as HS3. pose proof (step_propagate _ _ _ _ Ep) as H23.
      eapply run_good_trans; [exact H02|]. eapply run_good_trans; [exact H23|].
      destruct (N.eqb level2 (N.succ start)); [apply good_reject|].
      eapply run_good_trans; [apply step_undo_until|]. apply IH. apply (sinv_undo_until U P A). exact HS3.
    + pose proof (sinv_propagate U P A _ _ _ _ HS2 Ep) as HS3. pose proof (step_propagate _ _ _ _ Ep) as H23.
      pose proof (sinv_resolve U P A a_ge a_conflict f st3 level2 HS3) as HS4.
      pose proof (good_resolve f st3 level2 HS3) as H34.
      eapply run_good_trans; [exact H02|]. eapply run_good_trans; [exact H23|].
      destruct (resolve U a_ge a_conflict f st3 level2) as [st4 level4|st4 core| |]; try exact I; [|exact H34].
      simpl in H34, HS4.
      destruct (new_solvables st4) as [|s0 sos]; [exact H34|].
      destruct (encode U P efuel st4 (s0 :: sos)) as [[st5 [|c0 confl]]|] eqn:Ee; [| |exact I].
      * eapply run_good_trans; [exact H34|]. eapply run_good_trans; [apply (step_encode _ _ _ _ _ HS4 Ee)|].
        apply IH. apply (sinv_encode U P HW A _ _ _ _ _ HS4 Ee).
      * eapply run_good_trans; [exact H34|]. eapply run_good_trans; [apply (step_encode _ _ _ _ _ HS4 Ee)|].
        eapply run_good_trans; [apply step_undo_until|]. apply IH. apply (sinv_undo_until U P A). apply (sinv_encode U P HW A _ _ _ _ _ HS4 Ee).
Qed.

Lemma good_run_sat fuel efuel st so : SInv U P A st -> run_good st (run_sat U P a_ge a_conflict fuel efuel st so).
Proof.
  intro HS. unfold run_sat.
  match goal with |- run_good _ (run_loop _ _ _ _ _ _ ?X _ _ _) =>
    eapply (run_good_trans st X); [apply step_same; reflexivity | apply good_run_loop; apply (sinv_eq U P A st); auto]
  end.
Qed.

Lemma good_soft_loop fuel efuel : forall softs st, SInv U P A st ->
  run_good st (soft_loop U P a_ge a_conflict fuel efuel st softs).
Proof.
  induction softs as [|s t IH]; intros st HS; cbn [soft_loop]; [simpl; apply step_refl|].
  destruct (pvalue (s_ps st) (VSol s)); [apply IH; exact HS|].
  match goal with |- context [absorb ?X ?E] =>
    assert (H0 : SInv U P A X) by (apply (sinv_eq U P A st); auto);
    assert (H00 : Step st X) by (apply step_same; reflexivity);
    pose proof (sinv_absorb U P A X E H0 (einv_register U P _ s (si_enc _ _ _ _ _ H0)) (ext_register U _ s)) as H1;
    pose proof (step_absorb X E (ext_register U _ s)) as H01;
    destruct (absorb X E) as [st1 c1]
  end. simpl in H1, H01.
  pose proof (sinv_run_sat U P HW A a_ge a_conflict fuel efuel st1 (Some s) H1) as HS2.
  pose proof (good_run_sat fuel efuel st1 (Some s) H1) as H12.
  eapply run_good_trans; [exact H00|]. eapply run_good_trans; [exact H01|].
  destruct (run_sat U P a_ge a_conflict fuel efuel st1 (Some s)) as [st2 acc|st2 core| |]; try exact I.
  - eapply run_good_trans; [exact H12|]. apply IH. exact HS2.
  - exact H12.
Qed.


(* ---------- the theorem ---------- *)

Lemma unsolvable_why_lt db tr conf core : unsolvable db tr conf = Some (core, true) -> why_lt db 0 = true.
Proof.
  unfold unsolvable. destruct (nth_error db (N.to_nat conf)) as [c|]; [|discriminate].
  destruct (expand db (expand_fuel db) [conf] [] []) as [[core0 seen0]|]; [|discriminate].
  destruct (walk db tr tr (map fst (cl_lits c)) core0 seen0 (falsified tr (cl_lits c) && why_lt db 0)) as [[[coreF seenF] ok]|] eqn:Ew; [|discriminate].
  intro H. inversion H. subst. apply walk_ok_true in Ew. apply andb_true_iff in Ew. apply Ew.
Qed.

Theorem solve_no_false_unsat fuel efuel a0 order core st :
  solve U P a_ge a_conflict fuel efuel a0 order = (OUnsat core, st) -> s_ok st = true ->
  forall Sel, ~ valid U P Sel [].
Proof.
  intros Hsolve Hok Sel Hvalid.
  pose proof (solve_inv U P HW A a_ge a_conflict fuel efuel a0 order _ _ Hsolve) as HS.
  (* the final state is reached by steps from the initial one and carries a witness *)
  unfold solve in Hsolve.
  set (st0 := mkS (estate0 cache0) [mkCl KRoot [(VRoot, true)]] ps0 [] [] a0 0 [] order true []) in *.
  assert (H0 : SInv U P A st0).
  { constructor; simpl; [apply einv0 | reflexivity | apply winv0 | reflexivity]. }
  assert (Hale0 : ALE (s_db st0)).
  { split; simpl.
    - intros id c Hn Hl. destruct (N.to_nat id) as [|k]; simpl in Hn; [inversion Hn; subst; discriminate | destruct k; discriminate].
    - intros c [E|[]] _. subst. reflexivity. }
  assert (Hfinal : Step st0 st /\ Wit st core).
  { pose proof (good_run_sat fuel efuel st0 None H0) as G1.
    pose proof (sinv_run_sat U P HW A a_ge a_conflict fuel efuel st0 None H0) as S1.
    destruct (run_sat U P a_ge a_conflict fuel efuel st0 None) as [st1 [|]|st1 core1| |]; try discriminate.
    - pose proof (good_soft_loop fuel efuel (pr_soft P) st1 S1) as G2.
      destruct (soft_loop U P a_ge a_conflict fuel efuel st1 (pr_soft P)) as [st2 acc|st2 core2| |]; try discriminate.
      inversion Hsolve. subst. simpl in G1, G2. destruct G2 as [G2 W]. split; [eapply step_trans; eauto | exact W].
    - inversion Hsolve. subst. exact G1. }
  destruct Hfinal as [[Hm Hale] HWit].
  destruct (Hale Hok Hale0) as [Hent HRoot].
  destruct (HWit Hok) as [tr [conf Hu]].
  pose proof (unsolvable_why_lt _ _ _ _ Hu) as Hlt.
  set (a := a_sel U (trk_idx (e_trk (s_enc st))) Sel).
  (* every clause of the database is true in the assignment of the valid selection *)
  assert (Hall : forall n id c, (N.to_nat id < n)%nat -> nth_error (s_db st) (N.to_nat id) = Some c -> cl_true a (cl_lits c) = true).
  { induction n as [|n IHn]; intros id c Hn Hc; [lia|].
    destruct (enc_kind c) eqn:Ek.
    - apply (E1 U P (trk_idx (e_trk (s_enc st))) HW Sel c Hvalid).
      apply (sinv_facts U P A st HS c (nth_error_In _ _ Hc) Ek).
    - unfold enc_kind in Ek. destruct (ck c) as [| | | | | |why] eqn:Ekc; try discriminate.
      + rewrite (HRoot c (nth_error_In _ _ Hc) Ekc). reflexivity.
      + assert (Hl : is_learnt c = true) by (unfold is_learnt; rewrite Ekc; reflexivity).
        apply (Hent id c Hc Hl c Hc a). intros j cj Hj Hcj.
        pose proof (why_lt_nth (s_db st) 0 (N.to_nat id) c Hlt Hc j Hj) as Hjlt.
        apply (IHn j cj); [lia | exact Hcj]. }
  apply (core_unsat (s_db st) tr conf core Hu Hent a).
  - reflexivity.
  - intros i c _ Hc. apply (Hall (S (N.to_nat i)) i c); [lia | exact Hc].
Qed.

End Sound.
