(* Cdcl/AnalyzeProofs.v -- the learnt clause of the analyze model is entailed by
   the clauses it was derived from. *)
From Resolvo Require Export Cdcl.Analyze.

Section Sound.
Variable db : list cl.
Variable a : asg.

(* [a] disagrees with the trail on a variable the trail assigns *)
Definition diff (tr : list tent) (v : var) : Prop :=
  exists b, pval (tl_lits tr) v = Some b /\ a v <> b.

Definition Inv (tr : list tent) (seen : list var) : Prop := exists v, memv v seen = true /\ diff tr v.

Lemma memv_In v l : memv v l = true <-> In v l.
Proof.
  unfold memv. rewrite existsb_exists. split.
  - intros [x [Hx E]]. apply var_eqb_eq in E. subst. exact Hx.
  - intro H. exists v. split; [exact H | apply var_eqb_eq; reflexivity].
Qed.

Lemma pval_head e rest : pval (tl_lits (e :: rest)) (tvar e) = Some (snd (t_lit e)).
Proof.
  unfold tl_lits, tvar. simpl. destruct (t_lit e) as [v b]. simpl.
  rewrite (proj2 (var_eqb_eq v v) eq_refl). reflexivity.
Qed.

Lemma pval_tail e rest v : v <> tvar e -> pval (tl_lits (e :: rest)) v = pval (tl_lits rest) v.
Proof.
  unfold tl_lits, tvar. simpl. destruct (t_lit e) as [w b]. simpl. intro H.
  destruct (var_eqb w v) eqn:E; [apply var_eqb_eq in E; subst; contradiction | reflexivity].
Qed.

(* what visit does to the set of seen variables *)
Lemma visit_seen tr cur skip : forall lits st st',
  visit tr cur skip lits st = Some st' ->
  (forall v, memv v (a_seen st) = true -> memv v (a_seen st') = true) /\
  (forall l, In l lits -> skip <> Some (fst l) -> memv (fst l) (a_seen st') = true).
Proof.
  induction lits as [|[v p] t IH]; intros st st'; simpl.
  - intro H. inversion H. subst. split; [auto | intros l []].
  - destruct (match skip with Some s => var_eqb v s | None => false end) eqn:Es.
    + intro H. destruct (IH _ _ H) as [A B]. split; [exact A|].
      intros l [El|Hl] Hs; [|apply B; assumption]. subst l. simpl in *.
      destruct skip as [s|]; [|discriminate]. apply var_eqb_eq in Es. subst. contradiction Hs. reflexivity.
    + destruct (memv v (a_seen st)) eqn:Em.
      * intro H. destruct (IH _ _ H) as [A B]. split; [exact A|].
        intros l [El|Hl] Hs; [|apply B; assumption]. subst l. simpl. apply A. exact Em.
      * destruct (level_of tr v) as [lv|]; [|discriminate]. destruct (pval (tl_lits tr) v) as [b|]; [|discriminate].
        intro H. destruct (IH _ _ H) as [A B].
        assert (Hv : forall w, memv w (v :: a_seen st) = true -> memv w (a_seen st') = true).
        { intros w Hw. apply A. destruct (N.eqb lv cur); exact Hw. }
        split.
        -- intros w Hw. apply Hv. simpl. rewrite Hw. apply orb_true_r.
        -- intros l [El|Hl] Hs; [|apply B; assumption]. subst l. simpl. apply Hv. simpl.
           rewrite (proj2 (var_eqb_eq v v) eq_refl). reflexivity.
Qed.

Lemma lit_true_diff tr l : lit_true a l = true ->
  match pval (tl_lits tr) (fst l) with Some b => Bool.eqb b (negb (snd l)) | None => false end = true ->
  diff tr (fst l).
Proof.
  unfold lit_true, diff. intros Ht Hf. destruct (pval (tl_lits tr) (fst l)) as [b|] eqn:E; [|discriminate].
  exists b. split; [reflexivity|]. apply Bool.eqb_prop in Ht, Hf. rewrite Ht, Hf. destruct (snd l); discriminate.
Qed.

(* a satisfied, falsified-by-the-trail clause gives a witness among the visited variables *)
Lemma visit_witness tr cur lits st st' :
  visit tr cur None lits st = Some st' -> falsified tr lits = true -> cl_true a lits = true -> Inv tr (a_seen st').
Proof.
  intros Hv Hf Ht. apply cl_true_iff in Ht. destruct Ht as [l [Hl Ht]].
  unfold falsified in Hf. rewrite forallb_forall in Hf. specialize (Hf l Hl).
  exists (fst l). split; [|apply lit_true_diff; assumption].
  destruct (visit_seen _ _ _ _ _ _ Hv) as [_ B]. apply B; [exact Hl | discriminate].
Qed.

(* one resolution step keeps a witness *)
Lemma resolve_step e rest cur st st' c :
  Inv (e :: rest) (a_seen st) ->
  nth_error db (N.to_nat (t_reason e)) = Some c -> reason_ok db e rest = true -> cl_true a (cl_lits c) = true ->
  visit rest cur (Some (tvar e)) (cl_lits c) st = Some st' ->
  Inv rest (a_seen st').
Proof.
  intros [v [Hv [b [Hp Hd]]]] Hc Hr Ht Hvis. destruct (visit_seen _ _ _ _ _ _ Hvis) as [A B].
  destruct (var_eqb v (tvar e)) eqn:Ev.
  - apply var_eqb_eq in Ev. subst v. rewrite pval_head in Hp. inversion Hp. subst b.
    unfold reason_ok in Hr. rewrite Hc in Hr. rewrite forallb_forall in Hr.
    apply cl_true_iff in Ht. destruct Ht as [l [Hl Htl]]. specialize (Hr l Hl).
    destruct (var_eqb (fst l) (tvar e)) eqn:El.
    + apply lit_eqb_eq in Hr. subst l. unfold lit_true in Htl. apply Bool.eqb_prop in Htl. contradiction.
    + exists (fst l). split.
      * apply B; [exact Hl|]. intro E. inversion E as [E']. rewrite E' in El.
        rewrite (proj2 (var_eqb_eq _ _) eq_refl) in El. discriminate.
      * apply lit_true_diff; assumption.
  - assert (Hne : v <> tvar e) by (intro E; subst; rewrite (proj2 (var_eqb_eq _ _) eq_refl) in Ev; discriminate).
    exists v. split; [apply A; exact Hv|]. exists b. split; [rewrite <- (pval_tail e rest v Hne); exact Hp | exact Hd].
Qed.

Lemma pop_unseen e rest seen : Inv (e :: rest) seen -> memv (tvar e) seen = false -> Inv rest seen.
Proof.
  intros [v [Hv [b [Hp Hd]]]] Hn. exists v. split; [exact Hv|].
  assert (Hne : v <> tvar e) by (intro E; subst; congruence).
  exists b. split; [rewrite <- (pval_tail e rest v Hne); exact Hp | exact Hd].
Qed.

(* the loop: with every clause of the derivation list satisfied, the result clause is satisfied *)
Lemma go_sound : forall tr st why pops ok r,
  go db tr st why pops ok = Some r ->
  Inv tr (a_seen st) ->
  r_ok r = true -> residue_ok r = true ->
  (forall j c, In j (r_why r) -> nth_error db (N.to_nat j) = Some c -> cl_true a (cl_lits c) = true) ->
  cl_true a (r_learnt r) = true.
Proof.
  induction tr as [|e rest IH]; intros st why pops ok r; simpl; [discriminate|].
  destruct (memv (tvar e) (a_seen st)) eqn:Em.
  - destruct (pred (a_causes st)) as [|k] eqn:Ec.
    + (* the first UIP *)
      intro H. inversion H. subst r. clear H. cbn [r_ok r_learnt r_why r_rest r_seen].
      intros [v [Hv [b [Hp Hd]]]] _ Hres _. apply cl_true_iff.
      destruct (var_eqb v (tvar e)) eqn:Ev.
      * apply var_eqb_eq in Ev. subst v. rewrite pval_head in Hp. inversion Hp. subst b.
        exists (tvar e, negb (snd (t_lit e))). split; [apply in_or_app; right; left; reflexivity|].
        unfold lit_true. simpl. destruct (a (tvar e)), (snd (t_lit e)); try reflexivity; exfalso; apply Hd; reflexivity.
      * assert (Hne : v <> tvar e) by (intro E; subst; rewrite (proj2 (var_eqb_eq _ _) eq_refl) in Ev; discriminate).
        rewrite (pval_tail e rest v Hne) in Hp.
        unfold residue_ok in Hres. cbn [r_seen r_rest r_learnt] in Hres. rewrite forallb_forall in Hres.
        apply memv_In in Hv. specialize (Hres v Hv). rewrite Hp in Hres.
        apply existsb_exists in Hres. destruct Hres as [l [Hl El]]. apply lit_eqb_eq in El. subst l.
        exists (v, negb b). split; [exact Hl|]. unfold lit_true. simpl.
        destruct (a v), b; try reflexivity; exfalso; apply Hd; reflexivity.
    + destruct rest as [|top rest']; [discriminate|].
      destruct (nth_error db (N.to_nat (t_reason e))) as [c|] eqn:Ecl; [|discriminate].
      destruct (visit (top :: rest') (t_level top) (Some (tvar e)) (cl_lits c)
                      (mkA (a_seen st) (a_learnt st) (S k) (a_btl st))) as [st'|] eqn:Ev; [|discriminate].
      intros Hgo HI Hok Hres Hwhy.
      (* r_ok and r_why only grow along the recursion *)
      assert (Mono : forall tr st why pops ok r, go db tr st why pops ok = Some r ->
                       (r_ok r = true -> ok = true) /\ (forall j, In j why -> In j (r_why r))).
      { clear. induction tr as [|e rest IH]; intros st why pops ok r; simpl; [discriminate|].
        destruct (memv (tvar e) (a_seen st)).
        - destruct (pred (a_causes st)).
          + intro H. inversion H. subst. simpl. auto.
          + destruct rest as [|top rest']; [discriminate|].
            destruct (nth_error db (N.to_nat (t_reason e))) as [c|]; [|discriminate].
            destruct (visit _ _ _ _ _) as [st'|]; [|discriminate]. intro H. destruct (IH _ _ _ _ _ H) as [A B]. split.
            * intro Hr. specialize (A Hr). apply andb_true_iff in A. apply A.
            * intros j Hj. apply B. apply in_or_app. left. exact Hj.
        - apply IH. }
      destruct (Mono _ _ _ _ _ _ Hgo) as [Mok Mwhy].
      specialize (Mok Hok). apply andb_true_iff in Mok. destruct Mok as [_ Hreason].
      apply (IH _ _ _ _ _ Hgo); [|exact Hok | exact Hres | exact Hwhy].
      eapply (resolve_step e (top :: rest') (t_level top) (mkA (a_seen st) (a_learnt st) (S k) (a_btl st)) st' c);
        [exact HI | exact Ecl | exact Hreason | | exact Ev].
      apply (Hwhy (t_reason e) c); [|exact Ecl]. apply Mwhy. apply in_or_app. right. left. reflexivity.
  - intros Hgo HI Hok Hres Hwhy. apply (IH _ _ _ _ _ Hgo); [|exact Hok | exact Hres | exact Hwhy].
    apply (pop_unseen e rest (a_seen st) HI Em).
Qed.

End Sound.

(* analyze_sound: for every clause database, trail and conflicting clause on which the model returns a
   result meeting its side conditions, every assignment that satisfies the clauses of the derivation
   list satisfies the learnt clause *)
Theorem analyze_sound db tr conf r :
  analyze db tr conf = Some r -> analysis_ok db tr conf r = true ->
  forall a, (forall j c, In j (r_why r) -> nth_error db (N.to_nat j) = Some c -> cl_true a (cl_lits c) = true) ->
  cl_true a (r_learnt r) = true.
Proof.
  unfold analyze, analysis_ok. intros Han Hok a Hwhy.
  destruct tr as [|top rest]; [discriminate|].
  destruct (nth_error db (N.to_nat conf)) as [c|] eqn:Ec; [|discriminate].
  destruct (visit (top :: rest) (t_level top) None (cl_lits c) (mkA [] [] 0 0)) as [st|] eqn:Ev; [|discriminate].
  apply andb_true_iff in Hok. destruct Hok as [Hok Hres]. apply andb_true_iff in Hok. destruct Hok as [Hf Hrok].
  apply (go_sound db a _ _ _ _ _ _ Han); [|exact Hrok | exact Hres | exact Hwhy].
  eapply visit_witness; [exact Ev | exact Hf|].
  (* the conflicting clause is the head of the derivation list *)
  assert (Hin : In conf (r_why r)).
  { clear - Han. assert (G : forall tr0 st0 why pops ok r0, go db tr0 st0 why pops ok = Some r0 -> forall j, In j why -> In j (r_why r0)).
    { clear. induction tr0 as [|e t IH]; intros st0 why pops ok r0; simpl; [discriminate|].
      destruct (memv (tvar e) (a_seen st0)).
      - destruct (pred (a_causes st0)).
        + intro H. inversion H. subst. simpl. auto.
        + destruct t as [|top' t']; [discriminate|].
          destruct (nth_error db (N.to_nat (t_reason e))) as [c0|]; [|discriminate].
          destruct (visit _ _ _ _ _) as [st'|]; [|discriminate]. intros H j Hj. apply (IH _ _ _ _ _ H). apply in_or_app. left. exact Hj.
      - apply IH. }
    apply (G _ _ _ _ _ _ Han). left. reflexivity. }
  apply (Hwhy conf c Hin Ec).
Qed.
