(* Cdcl/NoPanicDecide.v -- in a run of the solver model for a problem without soft requirements, decide never
   reaches its unreachable!().

   resolve_dp / run_loop_dp are twins of resolve / run_loop (Cdcl/Solver.v) that compute one bit: whether the
   `None` branch of a call of decide (the unreachable!()) or the `None` branch of the assignment of the
   candidate decide proposed (expect("bug: solvable was already decided!")) is taken anywhere in the
   computation.  root_run_decide_never_panics: for
   the run of the root that bit is false, for every provider, problem, fuel, activity function and completion
   order -- at every state in which resolve calls decide the invariants of the model hold (SInv, LInv, RInv,
   CInv, KInv), every entry is propagated, the assertions are in force and the exempt set is empty, and there
   decide_no_panic_at applies. *)
From Resolvo Require Export Cdcl.RootFirst.
From Coq Require Import Lia.

Section NP.
Variable U : provider.
Variable P : problem.
Hypothesis HW : WF U.
Variable A : Type.
Variable a_ge : A -> N -> N -> bool.
Variable a_conflict : A -> list N -> A.

Notation sst := (sstate A).
Notation trail st := (ps_trail (s_ps st)).

Fixpoint resolve_dp (fuel : nat) (st : sst) (level : N) : bool :=
  match fuel with
  | O => false
  | S f =>
    match decide U (a_ge (s_act st)) (s_db st) (tr_lits st) with
    | None => true
    | Some None => false
    | Some (Some d) =>
      match s_assign st (VSol (pd_cand d), true) (N.succ level) (pd_clause d) with
      | None => true                                        (* expect("bug: solvable was already decided!") *)
      | Some st1 =>
        match prop_learn U a_conflict f st1 (N.succ level) with
        | RLevel st2 lv => resolve_dp f st2 lv
        | _ => false
        end
      end
    end
  end.

Fixpoint run_loop_dp (fuel efuel : nat) (st : sst) (so : option N) (start level : N) : bool :=
  match fuel with
  | O => false
  | S f =>
    let first :=
      if N.eqb level start then
        let level1 := N.succ start in
        match s_assign st (so_var so, true) level1 0 with
        | None => None
        | Some st1 =>
          match encode U P efuel st1 [so] with
          | None => None
          | Some (st2, confl) => Some (st2, level1, find (clause_falsified st2) confl)
          end
        end
      else Some (st, level, None) in
    match first with
    | None => false
    | Some (st2, level2, Some conf) => false
    | Some (st2, level2, None) =>
      match s_propagate st2 level2 with
      | None => false
      | Some (st3, Some conf) =>
          if N.eqb level2 (N.succ start) then false
          else run_loop_dp f efuel (s_undo_until st3 start) so start start
      | Some (st3, None) =>
        resolve_dp f st3 level2 ||
        match resolve U a_ge a_conflict f st3 level2 with
        | RLevel st4 level4 =>
          match new_solvables st4 with
          | [] => false
          | sos =>
            match encode U P efuel st4 sos with
            | None => false
            | Some (st5, []) => run_loop_dp f efuel st5 so start level4
            | Some (st5, _ :: _) => run_loop_dp f efuel (s_undo_until st5 start) so start start
            end
          end
        | _ => false
        end
      end
    end
  end.

(* the bundle of invariants at a state in which decide is called *)
Definition B (st : sst) : Prop :=
  G U P A st /\ CInv A st /\ KInv A st /\ Done A st /\ s_born st = [].

Lemma np_resolve : forall fuel st level,
  B st -> (top_lv st <= level)%N -> resolve_dp fuel st level = false.
Proof.
  induction fuel as [|f IH]; intros st level [[HS [HL [Hr HR]]] [HC [HK [HD Hb]]]] Htop; cbn [resolve_dp]; [reflexivity|].
  pose proof (decide_no_panic_at U P A a_ge st HS HK HC HD Hb Hr) as Hnp.
  destruct (decide U (a_ge (s_act st)) (s_db st) (tr_lits st)) as [[d|]|] eqn:Ed; [| reflexivity | exfalso; apply Hnp; reflexivity].
  pose proof (decide_undecided U (a_ge (s_act st)) (tr_lits st) (s_db st) (sinv_req_wf U P A st HS) d Ed) as Hun.
  destruct (s_assign st (VSol (pd_cand d), true) (N.succ level) (pd_clause d)) as [st1|] eqn:Ea.
  2:{ exfalso. unfold s_assign in Ea. cbn [fst] in Ea. unfold pvalue in Ea. unfold tr_lits in Hun. rewrite Hun in Ea. discriminate. }
  (* the state after the decision *)
  destruct (decide_lit_in U (a_ge (s_act st)) (tr_lits st) (s_db st) (sinv_req_wf U P A st HS) d Ed) as [c [Hc Hin]].
  assert (Hlt : (top_lv st < N.succ level)%N) by lia.
  destruct (linv_assign_dec A _ _ _ _ _ HL Hlt Ea) as [HL1 [_ Hr1]].
  pose proof (sinv_assign U P A _ _ _ _ _ _ HS Ea) as HS1.
  pose proof (rinv_assign U A _ _ _ _ _ HR (r_cl _ _ _ HR c (nth_error_In _ _ Hc) _ Hin) Ea) as HR1.
  pose proof (cinv_assign A _ _ _ _ _ HC Ea) as HC1. pose proof (kinv_assign A _ _ _ _ _ HK Ea) as HK1.
  destruct (ghost_assign A _ _ _ _ _ Ea) as [Ee1 Eb1].
  assert (Htop1 : top_lv st1 = N.succ level).
  { destruct (s_assign_cases _ _ _ _ _ _ Ea) as [[_ E]|[_ E]].
    - cbn [fst] in E. unfold pvalue in E. unfold tr_lits in Hun. rewrite Hun in E. discriminate.
    - subst st1. reflexivity. }
  pose proof (g_prop_learn U P A a_conflict f st1 (N.succ level) (conj HS1 (conj HL1 (conj (Hr1 Hr) HR1))) Htop1) as H2.
  pose proof (cinv_prop_learn U P A a_conflict f st1 (N.succ level) HS1 HC1) as H3.
  pose proof (kinv_prop_learn U A a_conflict f st1 (N.succ level) HK1) as H4.
  destruct (prop_learn U a_conflict f st1 (N.succ level)) as [st2 lv|st2 core| |]; try reflexivity.
  destruct H2 as [HG2 [Ht2 [_ [Eb2 _]]]]. destruct H3 as [HC2 HD2]. cbn [step_k] in H4.
  apply IH; [|exact Ht2]. split; [exact HG2|]. split; [exact HC2|]. split; [exact H4|]. split; [exact HD2|].
  rewrite Eb2, Eb1. exact Hb.
Qed.

Lemma np_run_loop efuel : forall fuel st level,
  SInv U P A st -> LInv A st -> RInv U A st -> CInv A st -> KInv A st ->
  (top_lv st <= level)%N -> run_pre A st None 0 level -> s_born st = [] ->
  run_loop_dp fuel efuel st None 0 level = false.
Proof.
  induction fuel as [|f IH]; intros st level HS HL HR HC HK Htop Hpre Hb; cbn [run_loop_dp]; [reflexivity|].
  set (first := if N.eqb level 0 then
                  match s_assign st (so_var None, true) (N.succ 0) 0 with
                  | None => None
                  | Some st1 => match encode U P efuel st1 [None] with
                                | None => None
                                | Some (st2, confl) => Some (st2, N.succ 0, find (clause_falsified st2) confl)
                                end
                  end
                else Some (st, level, None)).
  assert (Hfirst : match first with
                   | Some (st2, level2, conf) =>
                       G U P A st2 /\ CInv A st2 /\ KInv A st2 /\ (top_lv st2 <= level2)%N /\ (1 <= level2)%N /\ s_born st2 = []
                   | None => True end).
  { unfold first. destruct (N.eqb level 0) eqn:El.
    2:{ apply N.eqb_neq in El.
        assert (Hr : Rooted (trail st)).
        { destruct Hpre as [[H1 _]|[_ [_ [[Hr _]|[E _]]]]]; [lia | exact Hr | contradiction]. }
        split; [exact (conj HS (conj HL (conj Hr HR)))|]. split; [exact HC|]. split; [exact HK|]. split; [exact Htop|].
        split; [|exact Hb]. pose proof (rooted_top _ Hr (li_sorted _ _ HL)) as H1. rewrite top_lv_level in Htop. lia. }
    apply N.eqb_eq in El. subst level.
    destruct (s_assign st (so_var None, true) (N.succ 0) 0) as [st1|] eqn:Ea; [|exact I].
    pose proof (sinv_assign U P A _ _ _ _ _ _ HS Ea) as HS1.
    assert (Hlt : (top_lv st < N.succ 0)%N) by lia.
    destruct (linv_assign_dec A _ _ _ _ _ HL Hlt Ea) as [HL1 [Ht1 Hr1]].
    pose proof (rinv_assign U A st (so_var None, true) _ _ _ HR I Ea) as HR1.
    pose proof (cinv_assign A _ _ _ _ _ HC Ea) as HC1. pose proof (kinv_assign A _ _ _ _ _ HK Ea) as HK1.
    destruct (ghost_assign A _ _ _ _ _ Ea) as [Ee1 Eb1].
    assert (Hsingle : trail st1 = [root_entry]).
    { destruct Hpre as [[H1 _]|[_ [_ [[_ Hne]|[_ Ee]]]]]; [lia | exfalso; apply Hne; reflexivity|].
      destruct (s_assign_cases _ _ _ _ _ _ Ea) as [[_ E]|[_ E]].
      - unfold pvalue in E. rewrite Ee in E. discriminate.
      - subst st1. cbn [with_ps s_ps push_entry ps_trail so_var]. rewrite Ee. reflexivity. }
    destruct (encode U P efuel st1 [None]) as [[st2 confl]|] eqn:Ee; [|exact I].
    destruct (linv_encode U P HW A _ _ _ _ _ HS1 HL1 Ee) as [HL2 Etr2].
    destruct (rinv_encode U P HW A _ _ _ _ _ HS1 HR1 Ee) as [HR2 _].
    pose proof (sinv_encode U P HW A _ _ _ _ _ HS1 Ee) as HS2.
    pose proof (cinv_encode U P A _ _ _ _ _ HC1 (si_nodup _ _ _ _ _ HS1) Ee) as HC2.
    pose proof (kinv_encode U P HW A _ _ _ _ _ HS1 HK1 Ee) as HK2.
    assert (Hr2 : Rooted (trail st2)) by (rewrite Etr2, Hsingle; exists []; reflexivity).
    split; [exact (conj HS2 (conj HL2 (conj Hr2 HR2)))|]. split; [exact HC2|]. split; [exact HK2|].
    split; [rewrite top_lv_level, Etr2, <- top_lv_level; exact Ht1|]. split; [lia|].
    rewrite (encode_born_root U P HW A _ _ _ _ _ HS1 Hsingle Ee), Eb1. exact Hb. }
  destruct first as [[[st2 level2] [conf|]]|]; [reflexivity | | reflexivity].
  destruct Hfirst as [[HS2 [HL2 [Hr2 HR2]]] [HC2 [HK2 [Ht2 [Hl2 Hb2]]]]].
  assert (Hpre2 : forall st' lv, Rooted (trail st') -> (1 <= lv)%N -> run_pre A st' None 0 lv).
  { intros st' lv Hr' Hlv. right. split; [reflexivity|]. split; [reflexivity|]. left. split; [exact Hr' | lia]. }
  assert (Hrestart : forall st', SInv U P A st' -> LInv A st' -> RInv U A st' -> CInv A st' -> KInv A st' -> Rooted (trail st') ->
            forall lv, (1 <= lv)%N -> run_loop_dp f efuel (s_undo_until st' 0) None 0 0 = false).
  { intros st' HS' HL' HR' HC' HK' Hr' lv Hlv.
    destruct (run_pre_restart U P A st' None 0 lv (Hpre2 st' lv Hr' Hlv) HS' HL') as [HLr [Htr Hpr]].
    destruct (ghost_undo_until A st' 0) as [_ Gbr].
    apply IH; [apply (sinv_undo_until U P A); exact HS' | exact HLr | apply rinv_undo_until; exact HR'
              | apply cinv_undo_until; exact HC' | apply kinv_undo_until; exact HK' | exact Htr | exact Hpr | rewrite Gbr; reflexivity]. }
  destruct (s_propagate st2 level2) as [[st3 conf]|] eqn:Ep; [|reflexivity].
  destruct (linv_propagate U P A st2 level2 st3 conf HS2 HL2 Hr2 Ht2 Ep) as [HL3 [Hr3 [Ht3 _]]].
  pose proof (sinv_propagate U P A _ _ _ _ HS2 Ep) as HS3.
  destruct (rinv_propagate U P A _ _ _ _ HS2 HR2 Ep) as [HR3 [_ Eb3]].
  destruct (cinv_propagate U P A _ _ _ _ HS2 HC2 Ep) as [HC3 HD3].
  pose proof (kinv_propagate A _ _ _ _ HK2 Ep) as HK3.
  assert (Hb3 : s_born st3 = []) by (rewrite Eb3; exact Hb2).
  destruct conf as [conf|].
  - destruct (N.eqb level2 (N.succ 0)); [reflexivity|]. apply (Hrestart st3 HS3 HL3 HR3 HC3 HK3 Hr3 level2 Hl2).
  - specialize (HD3 eq_refl).
    rewrite (np_resolve f st3 level2 (conj (conj HS3 (conj HL3 (conj Hr3 HR3))) (conj HC3 (conj HK3 (conj HD3 Hb3)))) Ht3).
    cbn [orb].
    pose proof (g_resolve U P A a_ge a_conflict f st3 level2 (conj HS3 (conj HL3 (conj Hr3 HR3))) Ht3) as H4.
    pose proof (cinv_resolve U P A a_ge a_conflict f st3 level2 HS3 HC3 HD3) as H5.
    pose proof (kinv_resolve U A a_ge a_conflict f st3 level2 HK3) as H6.
    destruct (resolve U a_ge a_conflict f st3 level2) as [st4 level4|st4 core| |]; try reflexivity.
    cbn [step_g] in H4. destruct H4 as [[HS4 [HL4 [Hr4 HR4]]] [Ht4 [H14 [Eb4 _]]]]. destruct H5 as [HC4 HD4]. cbn [step_k] in H6.
    assert (Hb4 : s_born st4 = []) by (rewrite Eb4; exact Hb3).
    destruct (new_solvables st4) as [|s0 sos]; [reflexivity|].
    destruct (encode U P efuel st4 (s0 :: sos)) as [[st5 confl]|] eqn:Ee; [|reflexivity].
    destruct (linv_encode U P HW A _ _ _ _ _ HS4 HL4 Ee) as [HL5 Etr5].
    pose proof (sinv_encode U P HW A _ _ _ _ _ HS4 Ee) as HS5.
    destruct (rinv_encode U P HW A _ _ _ _ _ HS4 HR4 Ee) as [HR5 [_ Hborn5]].
    pose proof (cinv_encode U P A _ _ _ _ _ HC4 (si_nodup _ _ _ _ _ HS4) Ee) as HC5.
    pose proof (kinv_encode U P HW A _ _ _ _ _ HS4 H6 Ee) as HK5.
    assert (Hr5 : Rooted (trail st5)) by (rewrite Etr5; exact Hr4).
    assert (Ht5 : (top_lv st5 <= level4)%N) by (rewrite top_lv_level, Etr5, <- top_lv_level; exact Ht4).
    destruct confl as [|c0 confl].
    + apply IH; [exact HS5 | exact HL5 | exact HR5 | exact HC5 | exact HK5 | exact Ht5 | apply Hpre2; assumption|].
      destruct (s_born st5) as [|i t] eqn:Eb5; [reflexivity|]. exfalso.
      destruct (Hborn5 i) as [G1|G1]; [rewrite ?Eb5; left; reflexivity | rewrite Hb4 in G1; destruct G1 | destruct G1].
    + apply (Hrestart st5 HS5 HL5 HR5 HC5 HK5 Hr5 level4 H14).
Qed.

(* THE statement: in the run of the root -- the whole solve when there are no soft requirements -- decide never
   reaches its unreachable!() *)
Theorem root_run_decide_never_panics fuel efuel a0 order :
  let st0 := mkS (estate0 cache0) [mkCl KRoot [(VRoot, true)]] ps0 [] [] a0 0 [] order true [] in
  run_loop_dp fuel efuel st0 None 0 0 = false.
Proof.
  intro st0.
  assert (H0 : SInv U P A st0).
  { constructor; simpl; [apply einv0 | reflexivity | apply winv0 | reflexivity]. }
  assert (HL0 : LInv A st0).
  { constructor; simpl; try exact I; try reflexivity.
    - intros x [].
    - intros x [].
    - intros id c Hn j Hj. destruct id as [|[|id]]; simpl in Hn; try discriminate. inversion Hn. subst c. destruct Hj. }
  assert (HR0 : RInv U A st0).
  { constructor; simpl.
    - intros c [].
    - intros c [Hc|[]] l Hl. subst c. destruct Hl as [E|[]]. subst l. exact I.
    - intros e [].
    - intros x []. }
  assert (HC0 : CInv A st0).
  { constructor; simpl.
    - intros id w Hw. discriminate Hw.
    - intros id w Hw. discriminate Hw.
    - unfold PIdx. simpl. lia. }
  assert (HK0 : KInv A st0).
  { intros id c Hc. simpl in Hc. destruct (N.to_nat id) as [|[|k]]; simpl in Hc; try discriminate.
    inversion Hc. subst c. right. right. reflexivity. }
  apply np_run_loop; try assumption.
  - unfold top_lv. simpl. lia.
  - right. split; [reflexivity|]. split; [reflexivity|]. right. split; reflexivity.
  - reflexivity.
Qed.

(* the run the theorem speaks about is the first thing solve does: run_sat for the root from the initial state *)
Lemma root_run_is_run_loop fuel efuel a0 order :
  let st0 := mkS (estate0 cache0) [mkCl KRoot [(VRoot, true)]] ps0 [] [] a0 0 [] order true [] in
  run_sat U P a_ge a_conflict fuel efuel st0 None = run_loop U P a_ge a_conflict fuel efuel st0 None 0 0.
Proof. reflexivity. Qed.

End NP.
