(* Cdcl/Explicit.v -- C08: if some valid selection S* contains the first-ranked
   candidate of every (single version set) root requirement, every legal run
   that announces a solution announces one containing them all.

   Two invariants over all runs:
   I1  the part of the trail older than the oldest non-root decision holds in
       a_{S*}  (propagation: a_{S*} is a model of the database; root decisions:
       D1 picks the first-ranked candidate, which S* contains);
   I2  when a non-root decision was made, no requirement of the root was open
       w.r.t. the trail below it (rule D2).                                    *)
From Resolvo Require Export Cdcl.Greedy.

Section Explicit.
Variable U : provider.
Variable P : problem.
Hypothesis HW : WF U.
Variable db : list cl.
Variable Sx : list N.    (* S* *)

Hypothesis Hsoft : pr_soft P = [].
Hypothesis Hsingles : root_singles P.
Hypothesis Hvalid : valid U P Sx [].
Hypothesis Hfirsts : has_root_firsts U P Sx.
Hypothesis Hfacts : facts_ok U P db = true.
Hypothesis Hlearn : learnts_ok [] db = true.

Let ax := a_sel U (db_idx db) Sx.

Lemma ax_models c : In c db -> cl_true ax (cl_lits c) = true.
Proof. apply (db_model U P HW db Sx); [exact Hvalid | exact Hfacts | exact Hlearn]. Qed.

Definition holdsx (pa : list lit) : Prop := forall l, In l pa -> lit_true ax l = true.

Lemma holdsx_extends pa : holdsx pa -> extends ax pa.
Proof.
  intros H v b Hv. apply pval_In in Hv. specialize (H _ Hv). unfold lit_true in H. simpl in H.
  apply Bool.eqb_prop in H. exact H.
Qed.

Lemma ax_sol s : ax (VSol s) = true <-> In s Sx.
Proof. unfold ax. simpl. apply memN_In. Qed.

Definition clean (tr : list ent) : Prop := forall e, In e tr -> e_kind e <> EDec.

(* two candidates of one single-version-set requirement that S* both contains are equal *)
Lemma single_unique v c f :
  In c (req_cands U (RSingle v)) -> In f (req_cands U (RSingle v)) -> In c Sx -> In f Sx -> c = f.
Proof.
  intros Hc Hf HcS HfS. apply (req_cands_In U HW) in Hc, Hf.
  destruct Hc as [v1 [Hv1 Hc]]. destruct Hf as [v2 [Hv2 Hf]]. simpl in Hv1, Hv2.
  destruct Hv1 as [E1|[]]. destruct Hv2 as [E2|[]]. subst v1 v2.
  unfold matching in Hc, Hf. apply filter_In in Hc, Hf. destruct Hc as [Hc _]. destruct Hf as [Hf _].
  destruct Hvalid as [_ [_ [_ H1]]]. apply H1; [exact HcS | exact HfS|].
  unfold name. rewrite (wf_cand_name U HW _ _ Hc), (wf_cand_name U HW _ _ Hf). reflexivity.
Qed.

(* a legal step that is not a non-root decision keeps a clean trail inside a_{S*} *)
Lemma stepx pa l r k :
  holdsx pa -> classify (pr_soft P) db pa l r = Some k -> k <> EDec -> lit_true ax l = true.
Proof.
  intros Hh Hc Hk. pose proof (holdsx_extends pa Hh) as Hext.
  unfold classify in Hc. destruct (pval pa (fst l)); [discriminate|].
  destruct (N.eqb r 0).
  { rewrite Hsoft in Hc. destruct l as [[|s|n j] [|]]; simpl in Hc; try discriminate. reflexivity. }
  destruct (nth_error db (N.to_nat r)) as [c|] eqn:En; [|discriminate].
  apply nth_error_In in En.
  destruct (unit_under pa (cl_lits c) l) eqn:Eu.
  - unfold unit_under in Eu. apply andb_true_iff in Eu. destruct Eu as [_ Hothers].
    rewrite forallb_forall in Hothers.
    pose proof (ax_models c En) as Hm. apply cl_true_iff in Hm. destruct Hm as [l' [Hl' Ht]].
    specialize (Hothers l' Hl'). apply orb_true_iff in Hothers. destruct Hothers as [E|Hf].
    + apply lit_eqb_eq in E. subst. exact Ht.
    + rewrite (extends_false ax pa l' Hext Hf) in Ht. discriminate.
  - unfold decision_kind in Hc. destruct (ck c) as [|p rq cands| | | | |] eqn:Ek; try discriminate.
    destruct (requires_shape U P db Hfacts c p rq cands En Ek) as [Elits Hp]. rewrite Elits in Hc.
    match type of Hc with (if ?cond then _ else _) = _ => destruct cond eqn:Econd; [|discriminate] end.
    destruct p as [|s|n j]; simpl in Hc.
    2:{ destruct (existsb (open_root pa) db); [discriminate|]. inversion Hc. subst k. contradiction. }
    2:{ destruct (existsb (open_root pa) db); [discriminate|]. inversion Hc. subst k. contradiction. }
    clear Hc. repeat (apply andb_true_iff in Econd; destruct Econd as [Econd ?]).
    simpl in Hp. apply existsb_req in Hp.
    destruct (Hsingles rq Hp) as [v Ev]. subst rq.
    match goal with H : opt_lit_eqb (first_nonfalse pa _) l = true |- _ => rename H into Hfn end.
    unfold first_nonfalse in Hfn.
    destruct (req_cands U (RSingle v)) as [|f rest] eqn:Ecs; [simpl in Hfn; discriminate|].
    assert (HfS : In f Sx) by (apply (Hfirsts (RSingle v) f Hp); unfold first_choice; rewrite Ecs; reflexivity).
    cbn [map find] in Hfn. destruct (lit_false pa (pos f)) eqn:Eff.
    + exfalso. pose proof (extends_false ax pa _ Hext Eff) as Hx. rewrite lit_true_pos in Hx.
      apply ax_sol in HfS. congruence.
    + simpl in Hfn. apply lit_eqb_eq in Hfn. subst l. rewrite lit_true_pos. apply ax_sol. exact HfS.
Qed.

Definition I1 (tr : list ent) : Prop :=
  forall new old, tr = new ++ old -> clean old -> holdsx (tlits old).

Definition I2 (tr : list ent) : Prop :=
  forall new d old, tr = new ++ d :: old -> e_kind d = EDec ->
    existsb (open_root (tlits old)) db = false.

Lemma classify_edec pa l r : classify (pr_soft P) db pa l r = Some EDec ->
  existsb (open_root pa) db = false.
Proof.
  unfold classify. destruct (pval pa (fst l)); [discriminate|].
  destruct (N.eqb r 0).
  { destruct l as [[|s|n j] [|]]; try discriminate; destruct (memN s (pr_soft P)); discriminate. }
  destruct (nth_error db (N.to_nat r)) as [c|]; [|discriminate].
  destruct (unit_under pa (cl_lits c) l); [discriminate|].
  unfold decision_kind. destruct (ck c) as [|p rq cands| | | | |]; try discriminate.
  destruct (cl_lits c) as [|[p' [|]] cs]; try discriminate.
  match goal with |- (if ?cond then _ else _) = _ -> _ => destruct cond; [|discriminate] end.
  destruct (is_vroot p); [discriminate|].
  destruct (existsb (open_root pa) db); [discriminate | reflexivity].
Qed.

Theorem run_inv evs : forall tr tr',
  I1 tr -> I2 tr -> run_events (pr_soft P) db evs tr = Some tr' -> I1 tr' /\ I2 tr'.
Proof.
  induction evs as [|ev es IH]; intros tr tr' H1 H2 H; cbn [run_events] in H.
  - inversion H. subst. split; assumption.
  - destruct ev as [l r| |].
    + destruct (classify (pr_soft P) db (tlits tr) l r) as [k|] eqn:Ec; [|discriminate].
      refine (IH _ _ _ _ H).
      * intros new old Hs Hcl. destruct new as [|e new'].
        -- simpl in Hs. subst old. cbn [tlits map e_lit].
           assert (Hcl' : clean tr) by (intros e He; apply Hcl; right; exact He).
           intros l' [E|Hin]; [|apply (H1 [] tr eq_refl Hcl'); exact Hin].
           subst l'. eapply stepx; [apply (H1 [] tr eq_refl Hcl') | exact Ec|].
           apply (Hcl _ (or_introl eq_refl)).
        -- simpl in Hs. inversion Hs. apply (H1 new' old); assumption.
      * intros new d old Hs Hk. destruct new as [|e new'].
        -- simpl in Hs. inversion Hs. subst d old. simpl in Hk. subst k.
           eapply classify_edec; eauto.
        -- simpl in Hs. inversion Hs. apply (H2 new' d old); assumption.
    + destruct tr as [|e t]; [discriminate|]. refine (IH _ _ _ _ H).
      * intros new old Hs Hcl. apply (H1 (e :: new) old); [simpl; f_equal; exact Hs | exact Hcl].
      * intros new d old Hs Hk. apply (H2 (e :: new) d old); [simpl; f_equal; exact Hs | exact Hk].
    + refine (IH _ _ _ _ H).
      * intros new old Hs Hcl. destruct new; [|discriminate]. simpl in Hs. subst old. intros l' [].
      * intros new d old Hs. destruct new; discriminate.
Qed.

(* split a trail at its oldest non-root decision *)
Lemma oldest_dec tr : clean tr \/ exists new d old, tr = new ++ d :: old /\ e_kind d = EDec /\ clean old.
Proof.
  induction tr as [|e t IH]; [left; intros e []|].
  destruct IH as [Hc|[new [d [old [Hs [Hk Hc]]]]]].
  - destruct (e_kind e) eqn:Ek;
      try (left; intros e' [E|Hin]; [subst; rewrite Ek; discriminate | apply Hc; exact Hin]).
    right. exists [], e, t. auto.
  - right. exists (e :: new), d, old. split; [simpl; f_equal; exact Hs | auto].
Qed.

Theorem explicit_final evs tr sol :
  run_events (pr_soft P) db evs [] = Some tr ->
  check_sat U P db (tlits tr) sol = true ->
  forall r f, In r (pr_reqs P) -> first_choice U r = Some f -> In f sol.
Proof.
  intros Hrun Hsat r f Hr Hf.
  destruct (run_inv evs [] tr) as [H1 H2]; [| |exact Hrun|].
  { intros new old Hs _. destruct new; [|discriminate]. simpl in Hs. subst. intros l []. }
  { intros new d old Hs. destruct new; discriminate. }
  destruct (check_sat_sound U P HW db (tlits tr) sol Hsat) as [Esol _].
  unfold check_sat in Hsat.
  apply andb_true_iff in Hsat. destruct Hsat as [Hsat Hcl]. apply andb_true_iff in Hsat.
  destruct Hsat as [Hsat Hall]. apply andb_true_iff in Hsat. destruct Hsat as [Hsat Hroot].
  apply andb_true_iff in Hsat. destruct Hsat as [Hnd _]. rewrite forallb_forall in Hall.
  set (a := asg_of U db (tlits tr)) in *.
  rewrite Esol, <- in_rev. apply sel_of_In.
  destruct (Hsingles r Hr) as [v Ev]. subst r.
  assert (HfS : In f Sx) by (apply (Hfirsts (RSingle v) f Hr Hf)).
  assert (Hfc : In f (req_cands U (RSingle v))).
  { unfold first_choice in Hf. destruct (req_cands U (RSingle v)); [discriminate|].
    inversion Hf. left. reflexivity. }
  (* the root's clause for this requirement *)
  pose proof (closed_requires U P db _ _ VRoot (RSingle v) Hcl (or_introl (conj eq_refl Hr))) as Hhas.
  destruct (has_requires_clause U db VRoot (RSingle v) Hhas) as [c [cands [Hc [Ek Elits]]]].
  pose proof (Hall c Hc) as Hsatc. rewrite Elits in Hsatc. unfold requires_lits in Hsatc.
  (* helper: a candidate true in a clean older part is f *)
  assert (Hcase : forall old new, tr = new ++ old -> clean old ->
            forall x, In x (req_cands U (RSingle v)) -> In (pos x) (tlits old) -> In (VSol f, true) (tlits tr)).
  { intros old new Hs Hclean x Hx Hin. pose proof (H1 new old Hs Hclean) as Hh.
    specialize (Hh _ Hin). rewrite lit_true_pos in Hh. apply ax_sol in Hh.
    rewrite <- (single_unique v x f Hx Hfc Hh HfS). rewrite Hs. unfold tlits. rewrite map_app.
    apply in_or_app. right. exact Hin. }
  destruct (oldest_dec tr) as [Hclean|[new [d [old [Hs [Hk Hclean]]]]]].
  - (* no non-root decision at all *)
    apply cl_true_iff in Hsatc. destruct Hsatc as [l [[E|Hl] Ht]].
    + subst l. unfold lit_true in Ht. simpl in Ht. fold a in Hroot. rewrite Hroot in Ht. discriminate.
    + apply in_map_iff in Hl. destruct Hl as [x [E Hx]]. subst l. rewrite lit_true_pos in Ht.
      apply (Hcase tr [] eq_refl Hclean x Hx).
      unfold a, asg_of in Ht. destruct (pval (tlits tr) (VSol x)) as [b|] eqn:Ep; [|discriminate].
      subst b. apply pval_In. exact Ep.
  - (* below the oldest non-root decision no root requirement was open *)
    pose proof (H2 new d old Hs Hk) as Hno.
    assert (Hnoc : open_root (tlits old) c = false).
    { destruct (open_root (tlits old) c) eqn:E; [|reflexivity].
      assert (existsb (open_root (tlits old)) db = true) by (apply existsb_exists; exists c; auto).
      congruence. }
    unfold open_root in Hnoc. rewrite Ek, Elits in Hnoc. unfold requires_lits in Hnoc.
    assert (Hsplit : tr = (new ++ [d]) ++ old) by (rewrite <- app_assoc; exact Hs).
    assert (Hfull : tlits tr = tlits (new ++ [d]) ++ tlits old) by (rewrite Hsplit at 1; apply map_app).
    destruct (none_true (tlits old) (map pos (req_cands U (RSingle v)))) eqn:Hnt.
    + (* no candidate true below: then every candidate is assigned (false) below, and the
         clause would be falsified in the final state *)
      exfalso. simpl in Hnoc.
      apply cl_true_iff in Hsatc. destruct Hsatc as [l [[E|Hl] Ht]].
      * subst l. unfold lit_true in Ht. simpl in Ht. fold a in Hroot. rewrite Hroot in Ht. discriminate.
      * apply in_map_iff in Hl. destruct Hl as [x [E Hx]]. subst l. rewrite lit_true_pos in Ht.
        assert (Hass : lit_unassigned (tlits old) (pos x) = false).
        { destruct (lit_unassigned (tlits old) (pos x)) eqn:E; [|reflexivity].
          assert (existsb (lit_unassigned (tlits old)) (map pos (req_cands U (RSingle v))) = true).
          { apply existsb_exists. exists (pos x). split; [apply in_map; exact Hx | exact E]. }
          congruence. }
        unfold none_true in Hnt. rewrite forallb_forall in Hnt.
        specialize (Hnt (pos x) (in_map pos _ x Hx)). apply negb_true_iff in Hnt.
        unfold lit_unassigned, lit_istrue, lit_val in *. simpl in *.
        destruct (pval (tlits old) (VSol x)) as [b|] eqn:Ep; [|discriminate].
        assert (Hb : pval (tlits tr) (VSol x) = Some b).
        { rewrite Hfull. apply pval_app_old; [rewrite <- Hfull; exact Hnd | exact Ep]. }
        unfold a, asg_of in Ht. rewrite Hb in Ht. subst b. simpl in Hnt. discriminate.
    + (* some candidate is true below *)
      unfold none_true in Hnt.
      assert (Hex : exists x, In x (req_cands U (RSingle v)) /\ lit_istrue (tlits old) (pos x) = true).
      { clear -Hnt. induction (req_cands U (RSingle v)) as [|x l IH]; simpl in Hnt; [discriminate|].
        apply andb_false_iff in Hnt. destruct Hnt as [Hx|Hl].
        - exists x. split; [left; reflexivity|]. apply negb_false_iff in Hx. exact Hx.
        - destruct (IH Hl) as [y [Hy Ht]]. exists y. split; [right; exact Hy | exact Ht]. }
      destruct Hex as [x [Hx Ht]]. apply lit_istrue_pval in Ht. apply pval_In in Ht.
      apply (Hcase old (new ++ [d]) Hsplit Hclean x Hx Ht).
Qed.

End Explicit.
