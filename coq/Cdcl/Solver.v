(* Cdcl/Solver.v -- the models put together: an executable model of Solver::solve
   (src/solver/mod.rs) for the synchronous runtime.

     solve            root clause, run_sat for the root, then one run_sat per soft
                      requirement that is still undecided (registered with its
                      package's at-most-one tracker first)
     run_sat          decide the (root / soft) solvable at the level above the one
                      the run starts on, encode it, reject it if a reported clause is
                      falsified; propagate; on a conflict at the first level reject,
                      otherwise restart; resolve_dependencies; encode the solvables
                      that were installed and are not encoded yet; restart if the
                      encoder reports a conflicting clause
     resolve_dependencies / set_propagate_learn / propagate_and_learn /
     learn_from_conflict
                      decide (Cdcl/Decide.v), propagate (Cdcl/Propagate.v), analyze
                      (Cdcl/Analyze.v) with the learnt clause, its watches, the
                      activity update and the backjump; analyze_unsolvable
                      (Cdcl/Unsolvable.v) at level 1
     encoder          Async/Encoder.v, futures completed first-in first-out (synchronous
                      runtime) or in an order given as input (any other runtime), every
                      new clause through the model of the clause constructors
                      (Async/EncoderWatch.v: watches, conflict report, assertion)

   The model produces the whole trace of trail events, the clause database, the
   provider calls and the result; the correspondence check demands that the
   implementation's equal them.  The activity scores are a parameter. *)
From Resolvo Require Export Cdcl.Decide Cdcl.Propagate Cdcl.Unsolvable Async.EncoderWatch.
From Coq Require Import Lia.

Inductive outcome := OSat (sol : list N) | OUnsat (core : list N) | OPanic | OFuel.

Section Solver.
Variable U : provider.
Variable P : problem.
Variable A : Type.                                   (* activity scores *)
Variable a_ge : A -> N -> N -> bool.
Variable a_conflict : A -> list N -> A.

Record sstate := mkS {
  s_enc : estate;                    (* encoder + cache (its e_db: encoder clauses only) *)
  s_db : list cl;                    (* ALL clauses, index = clause id *)
  s_ps : pstate;                     (* trail, propagate index, watches *)
  s_asserts : list (lit * N);        (* negative_assertions *)
  s_units : list (lit * N);          (* unit learnt clauses *)
  s_act : A;
  s_start : N;                       (* run_sat_starting_level *)
  s_log : list levent;               (* trail events, newest first *)
  s_order : option (list task);      (* completion order of the encoder's futures still to be consumed;
                                        None = first-in first-out (the synchronous runtime) *)
  s_ok : bool;                       (* side conditions the code does not compute, accumulated: analysis_ok of every
                                        conflict analysis, the second component of unsolvable *)
  s_born : list N                    (* ghost: clauses that started being watched with both watched literals false,
                                        since the trail was last cleared (the exempt set of propagate_complete) *)
}.

Definition with_ps (st : sstate) (ps : pstate) (lg : list levent) : sstate :=
  mkS (s_enc st) (s_db st) ps (s_asserts st) (s_units st) (s_act st) (s_start st) lg (s_order st) (s_ok st) (s_born st).

Definition set_ok (st : sstate) (b : bool) : sstate :=
  mkS (s_enc st) (s_db st) (s_ps st) (s_asserts st) (s_units st) (s_act st) (s_start st) (s_log st) (s_order st) b (s_born st).

Definition with_born (st : sstate) (b : list N) : sstate :=
  mkS (s_enc st) (s_db st) (s_ps st) (s_asserts st) (s_units st) (s_act st) (s_start st) (s_log st) (s_order st) (s_ok st) b.

Definition tr_lits (st : sstate) : list lit := tl_lits (ps_trail (s_ps st)).
Definition top_lv (st : sstate) : N := match ps_trail (s_ps st) with e :: _ => t_level e | [] => 0 end.

(* try_add_decision with logging; None = the variable has the other value *)
Definition s_assign (st : sstate) (l : lit) (level reason : N) : option sstate :=
  match pvalue (s_ps st) (fst l) with
  | None => Some (with_ps st (push_entry (s_ps st) (mkT l level reason)) (LAssign l level reason :: s_log st))
  | Some b => if Bool.eqb b (snd l) then Some st else None
  end.

Definition s_undo_last (st : sstate) : sstate := with_ps st (undo_last (s_ps st)) (LUndoLast :: s_log st).

Fixpoint s_pop_above (fuel : nat) (lv : N) (st : sstate) : sstate :=
  match fuel with
  | O => st
  | S f => match ps_trail (s_ps st) with
           | e :: _ => if N.leb (t_level e) lv then st else s_pop_above f lv (s_undo_last st)
           | [] => st
           end
  end.

Definition s_undo_until (st : sstate) (lv : N) : sstate :=
  let st1 := with_ps st (s_ps st) (LUndoUntil lv :: s_log st) in
  if N.eqb lv 0 then with_born (with_ps st1 (clear_trail (s_ps st1)) (s_log st1)) []
  else s_pop_above (length (ps_trail (s_ps st1))) lv st1.

(* ---------- clauses ---------- *)

(* a clause gets its id, its watches, and is reported / registered as the constructors decide *)
Definition add_clause (acc : sstate * list N) (c : cl) : sstate * list N :=
  let '(st, confl) := acc in
  let id := N.of_nat (length (s_db st)) in
  let w := create (tr_lits st) c in
  let ps1 := match w_watch w with Some x => start_watching (s_ps st) id x | None => s_ps st end in
  let asserts1 := match w_assert w with Some v => s_asserts st ++ [((v, false), id)] | None => s_asserts st end in
  let born1 := match w_watch w with
               | Some x => if plit_false (s_ps st) (fst x) && plit_false (s_ps st) (snd x) then id :: s_born st else s_born st
               | None => s_born st
               end in
  (mkS (s_enc st) (s_db st ++ [c]) ps1 asserts1 (s_units st) (s_act st) (s_start st) (s_log st) (s_order st) (s_ok st) born1,
   if w_conflict w then confl ++ [id] else confl).

(* the encoder state moved from [s_enc st] to [enc1]: its new clauses enter the database *)
Definition absorb (st : sstate) (enc1 : estate) : sstate * list N :=
  let new := skipn (length (e_db (s_enc st))) (e_db enc1) in
  let st1 := mkS enc1 (s_db st) (s_ps st) (s_asserts st) (s_units st) (s_act st) (s_start st) (s_log st) (s_order st) (s_ok st) (s_born st) in
  fold_left add_clause new (st1, []).

(* the synchronous runtime: futures complete first-in first-out *)
Fixpoint enc_fifo (fuel : nat) (falses : list N) (enc : estate) (work : list task) : option estate :=
  match work with
  | [] => Some enc
  | k :: rest =>
    match fuel with
    | O => None
    | S f => let '(enc1, w1) := run_one U P falses enc k in enc_fifo f falses enc1 (rest ++ w1)
    end
  end.

(* any other runtime: the futures complete in the order given (None: a completion of something that is
   not pending, or the order runs out while futures are pending) *)
Fixpoint enc_ordered (falses : list N) (enc : estate) (work : list task) (order : list task)
  : option (estate * list task) :=
  match work with
  | [] => Some (enc, order)
  | _ :: _ =>
    match order with
    | [] => None
    | k :: order' =>
      match remove_task k work with
      | Some work' => let '(enc1, w1) := run_one U P falses enc k in enc_ordered falses enc1 (work' ++ w1) order'
      | None => None
      end
    end
  end.

(* Encoder::encode: the conflicting clauses it reports *)
Definition encode (fuel : nat) (st : sstate) (sos : list (option N)) : option (sstate * list N) :=
  let '(enc1, w) := queue_solvables (s_enc st) sos in
  match s_order st with
  | None =>
    match enc_fifo fuel (falses_of (tr_lits st)) enc1 w with
    | Some enc2 => Some (absorb st enc2)
    | None => None
    end
  | Some order =>
    match enc_ordered (falses_of (tr_lits st)) enc1 w order with
    | Some (enc2, order') =>
      let '(st1, confl) := absorb st enc2 in
      Some (mkS (s_enc st1) (s_db st1) (s_ps st1) (s_asserts st1) (s_units st1) (s_act st1) (s_start st1) (s_log st1) (Some order') (s_ok st1) (s_born st1), confl)
    | None => None
    end
  end.

Definition clause_falsified (st : sstate) (id : N) : bool :=
  match nth_error (s_db st) (N.to_nat id) with
  | Some c => forallb (plit_false (s_ps st)) (cl_lits c)
  | None => false
  end.

(* ---------- propagate / learn ---------- *)

(* the model of propagate, its new entries logged oldest first *)
Definition s_propagate (st : sstate) (level : N) : option (sstate * option N) :=
  match propagate (s_db st) level (s_asserts st) (s_units st) (s_ps st) with
  | None => None
  | Some (ps1, conf) =>
    let n := (length (ps_trail ps1) - length (ps_trail (s_ps st)))%nat in
    let new := firstn n (ps_trail ps1) in          (* newest first *)
    Some (with_ps st ps1 (map (fun e => LAssign (t_lit e) (t_level e) (t_reason e)) new ++ s_log st), option_map snd conf)
  end.

Fixpoint s_pops (n : nat) (st : sstate) : sstate :=
  match n with O => st | S k => s_pops k (s_undo_last st) end.

Definition sol_names (ls : list lit) : list N :=
  flat_map (fun l => match fst l with VSol s => [p_sol_name U s] | _ => [] end) ls.

(* learn_from_conflict above level 1: (state, new level); None = a panic of the code *)
Definition learn (st : sstate) (conf : N) : option (sstate * N) :=
  match analyze (s_db st) (ps_trail (s_ps st)) conf with
  | None => None
  | Some r =>
    let st1 := s_pops (r_pops r) st in
    let id := N.of_nat (length (s_db st1)) in
    let lits := r_learnt r in
    let c := mkCl (KLearnt (r_why r)) lits in
    (* debug_assert!(watched_literals[0] != watched_literals[1]) in from_kind_and_initial_watches *)
    let distinct := match lits, rev lits with
                    | first :: _ :: _, last :: _ => negb (lit_eqb first last)
                    | _, _ => true
                    end in
    if negb distinct then None else
    let ps2 := match lits, rev lits with
               | first :: _ :: _, last :: _ => start_watching (s_ps st1) id (first, last)
               | _, _ => s_ps st1
               end in
    let units2 := match lits with [l] => s_units st1 ++ [(l, id)] | _ => s_units st1 end in
    let st2 := mkS (s_enc st1) (s_db st1 ++ [c]) ps2 (s_asserts st1) units2
                   (a_conflict (s_act st1) (sol_names lits)) (s_start st1) (s_log st1) (s_order st1)
                   (s_ok st1 && analysis_ok (s_db st) (ps_trail (s_ps st)) conf r)
                   (match lits, rev lits with
                    | first :: _ :: _, last :: _ =>
                        if plit_false (s_ps st1) first && plit_false (s_ps st1) last then id :: s_born st1 else s_born st1
                    | _, _ => s_born st1
                    end) in
    let target := target_level (r_btl r) (s_start st) in
    let st3 := s_undo_until st2 target in
    match rev lits with
    | last :: _ =>
      match s_assign st3 last target id with
      | Some st4 => Some (st4, target)
      | None => None                                       (* expect("bug: solvable was already decided!") *)
      end
    | [] => None
    end
  end.

Inductive step_res := RLevel (st : sstate) (level : N) | RUnsat (st : sstate) (core : list N) | RPanic | RFuel.

(* propagate_and_learn *)
Fixpoint prop_learn (fuel : nat) (st : sstate) (level : N) : step_res :=
  match fuel with
  | O => RFuel
  | S f =>
    match s_propagate st level with
    | None => RPanic
    | Some (st1, None) => RLevel st1 level
    | Some (st1, Some conf) =>
      if N.eqb level 1 then
        match unsolvable (s_db st1) (ps_trail (s_ps st1)) conf with
        | Some (core, ok) => RUnsat (set_ok st1 (s_ok st1 && ok)) core
        | None => RPanic
        end
      else match learn st1 conf with
           | Some (st2, lv) => prop_learn f st2 lv
           | None => RPanic
           end
    end
  end.

(* resolve_dependencies *)
Fixpoint resolve (fuel : nat) (st : sstate) (level : N) : step_res :=
  match fuel with
  | O => RFuel
  | S f =>
    match decide U (a_ge (s_act st)) (s_db st) (tr_lits st) with
    | None => RPanic                                      (* unreachable!() *)
    | Some None => RLevel st level
    | Some (Some d) =>
      let level1 := N.succ level in
      match s_assign st (VSol (pd_cand d), true) level1 (pd_clause d) with
      | None => RPanic                                    (* expect("bug: solvable was already decided!") *)
      | Some st1 =>
        match prop_learn f st1 level1 with
        | RLevel st2 lv => resolve f st2 lv
        | r => r
        end
      end
    end
  end.

(* installed solvables that are not encoded yet, in trail order (oldest first) *)
Definition new_solvables (st : sstate) : list (option N) :=
  flat_map (fun e => match t_lit e with
                     | (VSol s, true) => if mem_so (Some s) (e_sols (s_enc st)) then [] else [Some s]
                     | _ => []
                     end) (rev (ps_trail (s_ps st))).

Inductive run_res := ROk (st : sstate) (accepted : bool) | RErr (st : sstate) (core : list N) | RunPanic | RunFuel.

(* run_sat_process_unsolvable *)
Definition reject (st : sstate) (so : option N) (start conf : N) : run_res :=
  if N.eqb start 0 then
    match unsolvable (s_db st) (ps_trail (s_ps st)) conf with
    | Some (core, ok) => RErr (set_ok st (s_ok st && ok)) core
    | None => RunPanic
    end
  else
    let st1 := s_undo_until st start in
    match s_assign st1 (so_var so, false) (N.succ start) 0 with
    | Some st2 => ROk st2 false
    | None => RunPanic                                    (* expect("bug: already decided ...") *)
    end.

Fixpoint run_loop (fuel efuel : nat) (st : sstate) (so : option N) (start level : N) : run_res :=
  match fuel with
  | O => RunFuel
  | S f =>
    (* (re)start: decide the solvable itself and encode it *)
    let first :=
      if N.eqb level start then
        let level1 := N.succ start in
        match s_assign st (so_var so, true) level1 0 with
        | None => None                                        (* expect("already decided") *)
        | Some st1 =>
          match encode efuel st1 [so] with
          | None => None
          | Some (st2, confl) => Some (st2, level1, find (clause_falsified st2) confl)
          end
        end
      else Some (st, level, None) in
    match first with
    | None => RunPanic
    | Some (st2, level2, Some conf) => reject st2 so start conf
    | Some (st2, level2, None) =>
      match s_propagate st2 level2 with
      | None => RunPanic
      | Some (st3, Some conf) =>
          if N.eqb level2 (N.succ start) then reject st3 so start conf
          else run_loop f efuel (s_undo_until st3 start) so start start
      | Some (st3, None) =>
        match resolve f st3 level2 with
        | RPanic => RunPanic
        | RFuel => RunFuel
        | RUnsat st4 core => RErr st4 core
        | RLevel st4 level4 =>
          match new_solvables st4 with
          | [] => ROk st4 true
          | sos =>
            match encode efuel st4 sos with
            | None => RunPanic
            | Some (st5, []) => run_loop f efuel st5 so start level4
            | Some (st5, _ :: _) => run_loop f efuel (s_undo_until st5 start) so start start
            end
          end
        end
      end
    end
  end.

Definition run_sat (fuel efuel : nat) (st : sstate) (so : option N) : run_res :=
  let start := top_lv st in
  let st0 := mkS (s_enc st) (s_db st) (s_ps st) (s_asserts st) (s_units st) (s_act st) start (s_log st) (s_order st) (s_ok st) (s_born st) in
  run_loop fuel efuel st0 so start start.

(* the soft requirements, one after the other *)
Fixpoint soft_loop (fuel efuel : nat) (st : sstate) (softs : list N) : run_res :=
  match softs with
  | [] => ROk st true
  | s :: t =>
    match pvalue (s_ps st) (VSol s) with
    | Some _ => soft_loop fuel efuel st t
    | None =>
      let st0 := mkS (s_enc st) (s_db st) (s_ps st) (s_asserts st) (s_units st) (s_act st) (s_start st) (LSoft :: s_log st) (s_order st) (s_ok st) (s_born st) in
      let '(st1, _) := absorb st0 (register U (s_enc st0) s) in
      match run_sat fuel efuel st1 (Some s) with
      | ROk st2 _ => soft_loop fuel efuel st2 t
      | r => r
      end
    end
  end.

Definition chosen (st : sstate) : list N :=
  flat_map (fun e => match t_lit e with (VSol s, true) => [s] | _ => [] end) (rev (ps_trail (s_ps st))).

Definition solve (fuel efuel : nat) (a0 : A) (order : option (list task)) : outcome * sstate :=
  let st0 := mkS (estate0 cache0) [mkCl KRoot [(VRoot, true)]] ps0 [] [] a0 0 [] order true [] in
  match run_sat fuel efuel st0 None with
  | ROk st1 true =>
    match soft_loop fuel efuel st1 (pr_soft P) with
    | ROk st2 _ => (OSat (chosen st2), st2)
    | RErr st2 core => (OUnsat core, st2)
    | RunPanic => (OPanic, st1)
    | RunFuel => (OFuel, st1)
    end
  | ROk st1 false => (OPanic, st1)                        (* assert!: the root cannot be rejected *)
  | RErr st1 core => (OUnsat core, st1)
  | RunPanic => (OPanic, st0)
  | RunFuel => (OFuel, st0)
  end.

End Solver.

Arguments mkS {A}. Arguments s_enc {A}. Arguments s_db {A}. Arguments s_ps {A}. Arguments s_asserts {A}.
Arguments s_units {A}. Arguments s_act {A}. Arguments s_start {A}. Arguments s_log {A}. Arguments s_order {A}. Arguments s_ok {A}. Arguments set_ok {A}. Arguments s_born {A}. Arguments with_born {A}.
Arguments with_ps {A}. Arguments tr_lits {A}. Arguments top_lv {A}. Arguments s_assign {A}. Arguments s_undo_last {A}.
Arguments s_pop_above {A}. Arguments s_undo_until {A}. Arguments add_clause {A}. Arguments absorb {A}.
Arguments encode U P {A}. Arguments clause_falsified {A}. Arguments s_propagate {A}. Arguments s_pops {A}.
Arguments learn U {A}. Arguments prop_learn U {A}. Arguments resolve U {A}. Arguments new_solvables {A}.
Arguments reject {A}. Arguments run_loop U P {A}. Arguments run_sat U P {A}. Arguments soft_loop U P {A}.
Arguments chosen {A}. Arguments solve U P {A}.
Arguments RLevel {A}. Arguments RUnsat {A}. Arguments RPanic {A}. Arguments RFuel {A}.
Arguments ROk {A}. Arguments RErr {A}. Arguments RunPanic {A}. Arguments RunFuel {A}.
