(* Cdcl/SolverLevels.v -- the level structure of the trail carried through the whole
   solver model, and with it the side conditions the model accumulates in s_ok:

     LInv     the trail is sorted by level (sortedL), every entry is justified by its
              reason clause or opens its level (justL), every registered assertion is
              a clause whose literals are the asserted one or the negated root, the
              recorded antecedents of a learnt clause are older clauses, and s_ok
              is still true
     Rooted   the root assignment is at the bottom of the trail (between the first
              decision of a run and the end of the run)

   solve_ok: whatever the provider, the problem, the fuel, the activity function
   and the completion order, the state the model ends in has s_ok = true -- every
   conflict analysis of the run met analysis_ok, and the conflict report met the
   side condition of core_unsat.  Hence solve_never_false_unsat: the model never
   answers Unsolvable for a problem that has a valid selection, without any
   per-run side condition. *)
From Resolvo Require Export Cdcl.SolverSound Cdcl.TrailLevels.
From Coq Require Import Lia.

Section Levels.
Variable U : provider.
Variable P : problem.
Hypothesis HW : WF U.
Variable A : Type.
Variable a_ge : A -> N -> N -> bool.
Variable a_conflict : A -> list N -> A.

Notation sst := (sstate A).
Notation trail st := (ps_trail (s_ps st)).

Definition AStruct (db : list cl) (l : list (lit * N)) : Prop :=
  forall x, In x l -> exists c, nth_error db (N.to_nat (snd x)) = Some c /\
    forall l', In l' (cl_lits c) -> l' = fst x \/ l' = (VRoot, false).

Record LInv (st : sst) : Prop := mkLInv {
  li_sorted : sortedL (trail st);
  li_just : justL (s_db st) (trail st);
  li_asserts : AStruct (s_db st) (s_asserts st);
  li_units : AStruct (s_db st) (s_units st);
  li_why : why_older (s_db st);
  li_ok : s_ok st = true
}.

(* ---------- small facts ---------- *)

Lemma astruct_mono db x l : AStruct db l -> AStruct (db ++ x) l.
Proof.
  intros H y Hy. destruct (H y Hy) as [c [Hn Hl]]. exists c. split; [|exact Hl].
  rewrite nth_error_app1; [exact Hn|]. apply nth_error_Some. rewrite Hn. discriminate.
Qed.

Lemma astruct_snoc db l x c :
  AStruct db l -> nth_error db (N.to_nat (snd x)) = Some c ->
  (forall l', In l' (cl_lits c) -> l' = fst x \/ l' = (VRoot, false)) -> AStruct db (l ++ [x]).
Proof.
  intros H Hn Hl y Hy. apply in_app_or in Hy. destruct Hy as [Hy|[Hy|[]]]; [apply (H y Hy)|].
  subst y. exists c. split; assumption.
Qed.

Lemma astruct_just db (ps : pstate) l :
  AStruct db l -> Rooted (ps_trail ps) -> tnd (ps_trail ps) ->
  forall x, In x l -> assert_just db ps x = true.
Proof.
  intros H Hr Hn x Hx. destruct (H x Hx) as [c [Hc Hl]]. unfold assert_just. rewrite Hc.
  apply forallb_forall. intros l' Hl'. destruct (Hl l' Hl') as [E|E]; subst l'.
  - rewrite lit_eqb_refl. reflexivity.
  - apply orb_true_iff. right. apply plit_false_spec. simpl. unfold pvalue. apply (rooted_val _ Hr Hn).
Qed.

Lemma why_older_snoc db c :
  why_older db -> (forall j, In j (why_of c) -> (N.to_nat j < length db)%nat) -> why_older (db ++ [c]).
Proof.
  intros H Hc id c0 Hn j Hj. destruct (Nat.lt_ge_cases id (length db)) as [Hlt|Hge].
  - rewrite nth_error_app1 in Hn by exact Hlt. apply (H id c0 Hn j Hj).
  - rewrite nth_error_app2 in Hn by exact Hge. destruct (id - length db)%nat as [|k] eqn:Ek.
    + simpl in Hn. inversion Hn. subst c0. specialize (Hc j Hj). lia.
    + simpl in Hn. destruct k; discriminate.
Qed.

(* the parts of the state that only clauses change *)
Definition same_static (st st' : sst) : Prop :=
  s_db st' = s_db st /\ s_asserts st' = s_asserts st /\ s_units st' = s_units st /\ s_ok st' = s_ok st.

Lemma same_static_refl st : same_static st st.
Proof. repeat split. Qed.

Lemma same_static_trans a b c : same_static a b -> same_static b c -> same_static a c.
Proof. intros [A1 [A2 [A3 A4]]] [B1 [B2 [B3 B4]]]. repeat split; congruence. Qed.

Lemma linv_static st st' :
  LInv st -> same_static st st' -> sortedL (trail st') -> justL (s_db st) (trail st') -> LInv st'.
Proof.
  intros [L1 L2 L3 L4 L5 L6] [E1 [E2 [E3 E4]]] Hs Hj. constructor; rewrite ?E1, ?E2, ?E3, ?E4; assumption.
Qed.

(* ---------- assignments outside propagate ---------- *)

Lemma s_assign_cases (st : sst) l level reason st' : s_assign st l level reason = Some st' ->
  (st' = st /\ pvalue (s_ps st) (fst l) = Some (snd l)) \/
  (pvalue (s_ps st) (fst l) = None /\
   st' = with_ps st (push_entry (s_ps st) (mkT l level reason)) (LAssign l level reason :: s_log st)).
Proof.
  unfold s_assign. destruct (pvalue (s_ps st) (fst l)) as [b|] eqn:E.
  - destruct (Bool.eqb b (snd l)) eqn:Eb; [|discriminate]. intro H. inversion H. subst. left. split; [reflexivity|].
    apply Bool.eqb_prop in Eb. subst. reflexivity.
  - intro H. inversion H. right. split; reflexivity.
Qed.

(* a decision: the first assignment of a new level *)
Lemma linv_assign_dec st l level reason st' :
  LInv st -> (top_lv st < level)%N -> s_assign st l level reason = Some st' ->
  LInv st' /\ (top_lv st' <= level)%N /\ (Rooted (trail st) -> Rooted (trail st')).
Proof.
  intros HL Hlt H. destruct (s_assign_cases _ _ _ _ _ H) as [[E _]|[_ E]]; subst st'.
  - split; [exact HL|]. split; [lia | auto].
  - split; [|split; [unfold top_lv; simpl; lia | intro Hr; simpl; apply rooted_push; exact Hr]].
    apply (linv_static st); [exact HL | repeat split | |]; cbn [with_ps s_ps push_entry ps_trail s_db].
    + apply sortedL_push; [apply (li_sorted _ HL) | cbn [t_level]; unfold top_lv in Hlt; fold (top_level (trail st)) in Hlt; lia].
    + split; [|apply (li_just _ HL)]. right. cbn [t_level]. exact Hlt.
Qed.

(* ---------- backtracking ---------- *)

Lemma undo_last_static (st : sst) : same_static st (s_undo_last st) /\ trail (s_undo_last st) = tl (trail st).
Proof. split; [repeat split | reflexivity]. Qed.

Lemma pop_above_spec lv : forall fuel (st : sst), (length (trail st) <= fuel)%nat ->
  same_static st (s_pop_above fuel lv st) /\ trail (s_pop_above fuel lv st) = drop_above lv (trail st).
Proof.
  induction fuel as [|f IH]; intros st Hf; cbn [s_pop_above].
  - destruct (trail st) as [|e t] eqn:E; [|simpl in Hf; lia]. split; [apply same_static_refl | reflexivity].
  - destruct (trail st) as [|e t] eqn:E; [split; [apply same_static_refl | rewrite ?E; reflexivity]|].
    cbn [drop_above]. destruct (N.leb (t_level e) lv); [split; [apply same_static_refl | rewrite ?E; reflexivity]|].
    destruct (IH (s_undo_last st)) as [I1 I2].
    { simpl. rewrite E. simpl in *. lia. }
    split; [eapply same_static_trans; [apply undo_last_static | exact I1]|].
    rewrite I2. simpl. rewrite E. reflexivity.
Qed.

Lemma undo_until_spec (st : sst) lv :
  same_static st (s_undo_until st lv) /\
  trail (s_undo_until st lv) = if N.eqb lv 0 then [] else drop_above lv (trail st).
Proof.
  unfold s_undo_until. destruct (N.eqb lv 0).
  - split; [repeat split | reflexivity].
  - match goal with |- context [s_pop_above ?F lv ?X] => destruct (pop_above_spec lv F X (le_n _)) as [I1 I2] end.
    split; [exact I1 | rewrite I2; reflexivity].
Qed.

Lemma linv_undo_until st lv :
  LInv st -> tnd (trail st) ->
  LInv (s_undo_until st lv) /\ (top_lv (s_undo_until st lv) <= lv)%N /\
  ((1 <= lv)%N -> Rooted (trail st) -> Rooted (trail (s_undo_until st lv))) /\
  (lv = 0%N -> trail (s_undo_until st lv) = []).
Proof.
  intros HL Hn. destruct (undo_until_spec st lv) as [Hst Etr].
  assert (Htop : (top_lv (s_undo_until st lv) <= lv)%N).
  { unfold top_lv. fold (top_level (trail (s_undo_until st lv))). rewrite Etr.
    destruct (N.eqb lv 0); [simpl; lia | apply drop_above_top]. }
  split; [|split; [exact Htop|split]].
  - apply (linv_static st); [exact HL | exact Hst | |]; rewrite Etr; destruct (N.eqb lv 0); try exact I.
    + apply drop_above_sorted. apply (li_sorted _ HL).
    + apply drop_above_just. apply (li_just _ HL).
  - intros H1 Hr. rewrite Etr. destruct (N.eqb lv 0) eqn:E; [apply N.eqb_eq in E; lia|].
    apply drop_above_rooted; assumption.
  - intro E. rewrite Etr. subst lv. reflexivity.
Qed.

Lemma pops_spec n : forall (st : sst), same_static st (s_pops n st) /\ trail (s_pops n st) = skipn n (trail st).
Proof.
  induction n as [|n IH]; intro st; cbn [s_pops]; [split; [apply same_static_refl | reflexivity]|].
  destruct (IH (s_undo_last st)) as [I1 I2]. split; [eapply same_static_trans; [apply undo_last_static | exact I1]|].
  rewrite I2. simpl. destruct (trail st); [destruct n; reflexivity | reflexivity].
Qed.

(* ---------- clauses entering the database ---------- *)

Lemma factb_not_learnt idx c : factb U P idx c = true -> why_of c = [].
Proof. unfold factb, why_of. destruct (ck c); auto. discriminate. Qed.

Lemma linv_add_clause st confl c idx :
  LInv st -> factb U P idx c = true ->
  LInv (fst (add_clause (st, confl) c)) /\ trail (fst (add_clause (st, confl) c)) = trail st.
Proof.
  intros [L1 L2 L3 L4 L5 L6] Hf. unfold add_clause. cbn [fst].
  split; [|cbn [s_ps]; destruct (w_watch (create (tr_lits st) c)); reflexivity].
  constructor; cbn [s_db s_ps s_asserts s_units s_ok].
  - destruct (w_watch (create (tr_lits st) c)); exact L1.
  - destruct (w_watch (create (tr_lits st) c)); apply justL_mono; exact L2.
  - destruct (w_assert (create (tr_lits st) c)) as [v|] eqn:Ea; [|apply astruct_mono; exact L3].
    apply (astruct_snoc _ _ _ c); [apply astruct_mono; exact L3 | apply nth_error_snoc|]. cbn [fst snd].
    unfold create in Ea. unfold factb in Hf.
    destruct (ck c) as [|p r cands|n|p f v0|l o|x rs|why] eqn:Ek; cbn [w_assert] in Ea; try discriminate.
    + apply andb_true_iff in Hf. destruct Hf as [_ Hl]. apply lits_eqb_eq in Hl.
      destruct (concat cands) as [|first rest]; [|destruct (find _ _); discriminate].
      simpl in Ea. inversion Ea. subst v. rewrite Hl. simpl. intros l' [E|[]]. left. symmetry. exact E.
    + destruct (cl_lits c) as [|a0 [|b0 [|z t]]]; discriminate.
    + apply andb_true_iff in Hf. destruct Hf as [_ Hl]. apply lits_eqb_eq in Hl.
      destruct (var_eqb p (VSol f)) eqn:Ev; simpl in Ea; [|discriminate]. inversion Ea. subst v.
      apply var_eqb_eq in Ev. rewrite Hl. simpl. intros l' [E|[E|[]]]; left; [symmetry; exact E|].
      subst l'. unfold nlit. rewrite Ev. reflexivity.
    + apply andb_true_iff in Hf. destruct Hf as [_ Hl]. apply lits_eqb_eq in Hl.
      simpl in Ea. destruct (is_true_in (tr_lits st) (VSol o)); [|discriminate]. inversion Ea. subst v.
      rewrite Hl. simpl. intros l' [E|[E|[]]]; [left | right]; symmetry; exact E.
    + apply andb_true_iff in Hf. destruct Hf as [_ Hl]. apply lits_eqb_eq in Hl.
      simpl in Ea. inversion Ea. subst v. rewrite Hl. simpl. intros l' [E|[]]. left. symmetry. exact E.
  - apply astruct_mono. exact L4.
  - apply why_older_snoc; [exact L5|]. rewrite (factb_not_learnt _ _ Hf). intros j [].
  - exact L6.
Qed.

Lemma linv_add_clauses idx : forall new st confl,
  LInv st -> Forall (fun c => factb U P idx c = true) new ->
  LInv (fst (fold_left add_clause new (st, confl))) /\ trail (fst (fold_left add_clause new (st, confl))) = trail st.
Proof.
  induction new as [|c t IH]; intros st confl HL Hf; cbn [fold_left]; [split; [exact HL | reflexivity]|].
  inversion Hf as [|? ? Hf1 Hf2]. subst.
  destruct (linv_add_clause st confl c idx HL Hf1) as [H1 H2].
  destruct (add_clause (st, confl) c) as [st1 confl1] eqn:E. cbn [fst] in H1, H2.
  destruct (IH st1 confl1 H1 Hf2) as [I1 I2]. split; [exact I1 | rewrite I2; exact H2].
Qed.

Lemma linv_absorb st enc1 :
  LInv st -> EInv U P enc1 -> ext (s_enc st) enc1 ->
  LInv (fst (absorb st enc1)) /\ trail (fst (absorb st enc1)) = trail st.
Proof.
  intros HL HE [x [Ex Fx]]. unfold absorb.
  assert (Hnew : skipn (length (e_db (s_enc st))) (e_db enc1) = x).
  { rewrite Ex. rewrite skipn_app, skipn_all, Nat.sub_diag. reflexivity. }
  rewrite Hnew.
  match goal with |- context [fold_left add_clause x (?X, [])] =>
    destruct (linv_add_clauses (trk_idx (e_trk enc1)) x X []) as [I1 I2]
  end.
  - destruct HL as [L1 L2 L3 L4 L5 L6]. constructor; assumption.
  - apply Forall_forall. intros c Hc. apply (einv_facts U P enc1 HE). rewrite Ex. apply in_or_app. right. exact Hc.
  - split; [exact I1 | exact I2].
Qed.

Lemma linv_encode fuel st sos st' confl :
  SInv U P A st -> LInv st -> encode U P fuel st sos = Some (st', confl) -> LInv st' /\ trail st' = trail st.
Proof.
  intros HS HL H. unfold encode in H.
  destruct (queue_solvables (s_enc st) sos) as [enc1 w] eqn:Eq.
  pose proof (einv_queue_solvables U P sos _ _ _ (si_enc _ _ _ _ _ HS) Eq) as HE1.
  pose proof (queue_solvables_tasks U P sos _ _ _ Eq) as Hw.
  pose proof (ext_queue_solvables sos _ _ _ Eq) as Hx1.
  destruct (s_order st) as [order|].
  - destruct (enc_ordered U P (falses_of (tr_lits st)) enc1 w order) as [[enc2 order']|] eqn:Eo; [|discriminate].
    destruct (enc_ordered_inv U P HW _ _ _ _ _ _ HE1 Hw Eo) as [HE2 Hx2].
    destruct (linv_absorb st enc2 HL HE2 (ext_trans _ _ _ Hx1 Hx2)) as [I1 I2].
    destruct (absorb st enc2) as [st1 confl1]. inversion H. subst. cbn [fst] in I1, I2.
    split; [|exact I2]. destruct I1 as [L1 L2 L3 L4 L5 L6]. constructor; assumption.
  - destruct (enc_fifo U P fuel (falses_of (tr_lits st)) enc1 w) as [enc2|] eqn:Ef; [|discriminate].
    destruct (enc_fifo_inv U P HW _ _ _ _ _ HE1 Hw Ef) as [HE2 Hx2].
    destruct (linv_absorb st enc2 HL HE2 (ext_trans _ _ _ Hx1 Hx2)) as [I1 I2].
    inversion H as [H1]. rewrite H1 in I1, I2. cbn [fst] in I1, I2. split; assumption.
Qed.

(* ---------- propagate ---------- *)

Lemma lgrows_top level base cur : lgrows level base cur -> top_level base = level -> top_level cur = level.
Proof.
  intros [new [E F]] Hb. subst cur. destruct new as [|e t]; [exact Hb|].
  inversion F as [|x l He Ft]. subst x l. simpl. exact He.
Qed.

Lemma linv_propagate st level st' r :
  SInv U P A st -> LInv st -> Rooted (trail st) -> (top_lv st <= level)%N ->
  s_propagate st level = Some (st', r) ->
  LInv st' /\ Rooted (trail st') /\ (top_lv st' <= level)%N /\ lgrows level (trail st) (trail st') /\
  (forall id, r = Some id -> exists c, nth_error (s_db st') (N.to_nat id) = Some c /\
                                         falsified (trail st') (cl_lits c) = true).
Proof.
  intros HS HL Hr Htop H.
  assert (Hj : forall x, In x (s_asserts st ++ s_units st) -> assert_just (s_db st) (s_ps st) x = true).
  { intros x Hx. apply in_app_or in Hx. destruct Hx as [Hx|Hx].
    - apply (astruct_just _ _ _ (li_asserts _ HL) Hr (si_nodup _ _ _ _ _ HS) x Hx).
    - apply (astruct_just _ _ _ (li_units _ HL) Hr (si_nodup _ _ _ _ _ HS) x Hx). }
  destruct (sinv_propagate_sound U P A st level st' r HS Hj H) as [Hg Hc].
  unfold s_propagate in H.
  destruct (propagate (s_db st) level (s_asserts st) (s_units st) (s_ps st)) as [[ps1 conf]|] eqn:Ep; [|discriminate].
  pose proof (propagate_lg _ _ _ _ _ _ _ Ep) as Hlg.
  inversion H. subst st' r. clear H. cbn [with_ps s_ps s_db] in *.
  destruct (sortedL_lgrows level _ _ (li_sorted _ HL) Htop Hlg) as [Hs1 Ht1].
  split; [|split; [|split; [exact Ht1 | split; [exact Hlg | exact Hc]]]].
  - apply (linv_static st); [exact HL | repeat split | exact Hs1|]. cbn [with_ps s_ps].
    apply (justL_grows _ _ _ (li_just _ HL) Hg).
  - destruct Hlg as [new [E _]]. rewrite E. apply rooted_app. exact Hr.
Qed.

(* ---------- learning ---------- *)

Lemma analyze_why_in db tr conf r :
  analyze db tr conf = Some r -> forall j, In j (r_why r) -> exists c, nth_error db (N.to_nat j) = Some c.
Proof.
  unfold analyze. destruct tr as [|top rest]; [discriminate|].
  destruct (nth_error db (N.to_nat conf)) as [c|] eqn:Ec; [|discriminate].
  destruct (visit (top :: rest) (t_level top) None (cl_lits c) (mkA [] [] 0 0)) as [st|]; [|discriminate].
  assert (G : forall tr0 st0 why pops ok r0, go db tr0 st0 why pops ok = Some r0 ->
              (forall j, In j why -> exists c0, nth_error db (N.to_nat j) = Some c0) ->
              forall j, In j (r_why r0) -> exists c0, nth_error db (N.to_nat j) = Some c0).
  { clear. induction tr0 as [|e t IH]; intros st0 why pops ok r0; cbn [go]; [discriminate|].
    destruct (memv (tvar e) (a_seen st0)).
    - destruct (pred (a_causes st0)).
      + intros H Hw. inversion H. subst. simpl. exact Hw.
      + destruct t as [|top' t']; [discriminate|].
        destruct (nth_error db (N.to_nat (t_reason e))) as [c0|] eqn:E0; [|discriminate].
        destruct (visit _ _ _ _ _) as [st'|]; [|discriminate]. intros H Hw. apply (IH _ _ _ _ _ H).
        intros j Hj. apply in_app_or in Hj. destruct Hj as [Hj|[Hj|[]]]; [apply Hw; exact Hj|].
        subst j. exists c0. exact E0.
    - apply IH. }
  intro H. apply (G _ _ _ _ _ _ H). intros j [Hj|[]]. subst j. exists c. exact Ec.
Qed.

Lemma tnd_app_r pre : forall tr, tnd (pre ++ tr) -> tnd tr.
Proof. induction pre as [|e t IH]; intros tr H; [exact H|]. apply IH. apply (tnd_tl e). exact H. Qed.

Lemma rooted_suffix pre tr : Rooted (pre ++ tr) -> tr <> [] -> Rooted tr.
Proof.
  intros [q E] Hne. destruct (exists_last Hne) as [tr' [x Ex]]. subst tr.
  rewrite app_assoc in E. apply app_inj_tail in E. destruct E as [_ E]. subst x. exists tr'. reflexivity.
Qed.

Lemma skipn_app_cons {X} (pre : list X) e rest : skipn (S (length pre)) (pre ++ e :: rest) = rest.
Proof. induction pre as [|x t IH]; [reflexivity | exact IH]. Qed.

(* the end of learn_from_conflict: the clause is in the database, the trail is cut back to the target
   level and the literal the clause asserts is assigned there *)
Lemma learn_finish (st1 : sst) c ps2 units2 act2 ok born target last st4 :
  ps_trail ps2 = trail st1 ->
  sortedL (trail st1) -> justL (s_db st1) (trail st1) -> tnd (trail st1) -> Rooted (trail st1) ->
  AStruct (s_db st1) (s_asserts st1) -> AStruct (s_db st1 ++ [c]) units2 -> why_older (s_db st1 ++ [c]) ->
  ok = true -> (1 <= target)%N ->
  pval (tl_lits (trail st1)) (fst last) = None ->
  (forall l, In l (cl_lits c) ->
     l = last \/ (fst l <> fst last /\ pval (tl_lits (trail st1)) (fst l) = Some (negb (snd l)) /\
                  exists lv, level_of (trail st1) (fst l) = Some lv /\ (lv <= target)%N)) ->
  s_assign (s_undo_until (mkS (s_enc st1) (s_db st1 ++ [c]) ps2 (s_asserts st1) units2 act2
                              (s_start st1) (s_log st1) (s_order st1) ok born) target)
           last target (N.of_nat (length (s_db st1))) = Some st4 ->
  LInv st4 /\ Rooted (trail st4) /\ top_lv st4 = target.
Proof.
  intros Etr Hs Hj Hn Hr Ha Hu Hw Hok H1 Hnone Hl H.
  set (st2 := mkS (s_enc st1) (s_db st1 ++ [c]) ps2 (s_asserts st1) units2 act2 (s_start st1) (s_log st1) (s_order st1) ok born) in *.
  assert (HL2 : LInv st2).
  { constructor; cbn [st2 s_ps s_db s_asserts s_units s_ok]; try rewrite Etr; auto.
    - apply justL_mono. exact Hj.
    - apply astruct_mono. exact Ha. }
  assert (Hn2 : tnd (trail st2)) by (cbn [st2 s_ps]; rewrite Etr; exact Hn).
  destruct (linv_undo_until st2 target HL2 Hn2) as [HL3 [Htop3 [Hr3 _]]].
  destruct (undo_until_spec st2 target) as [Hst3 Etr3].
  assert (Ez : N.eqb target 0 = false) by (apply N.eqb_neq; lia). rewrite Ez in Etr3.
  assert (Etr3' : trail (s_undo_until st2 target) = drop_above target (trail st1)) by (rewrite Etr3; cbn [st2 s_ps]; rewrite Etr; reflexivity).
  assert (Hnone3 : pvalue (s_ps (s_undo_until st2 target)) (fst last) = None).
  { unfold pvalue. rewrite Etr3'. apply drop_above_none; assumption. }
  destruct (s_assign_cases _ _ _ _ _ H) as [[_ E]|[_ E]]; [rewrite Hnone3 in E; discriminate|].
  subst st4. cbn [with_ps s_ps push_entry ps_trail].
  split; [|split; [apply rooted_push; apply Hr3; [exact H1 | cbn [st2 s_ps]; rewrite Etr; exact Hr] | reflexivity]].
  destruct Hst3 as [E1 [E2 [E3 E4]]].
  apply (linv_static (s_undo_until st2 target)); [exact HL3 | repeat split | |]; cbn [with_ps s_ps push_entry ps_trail s_db].
  - apply sortedL_push; [apply (li_sorted _ HL3) | cbn [t_level]; exact Htop3].
  - split; [|apply (li_just _ HL3)]. left.
    unfold reason_ok. cbn [t_reason t_lit]. rewrite E1. cbn [st2 s_db]. rewrite nth_error_snoc.
    apply forallb_forall. intros l Hin. unfold tvar. cbn [t_lit]. rewrite Etr3'.
    destruct (Hl l Hin) as [E|[Hne [Hp [lv [Hlv Hle]]]]].
    + subst l. rewrite var_eqb_refl. apply lit_eqb_refl.
    + apply var_eqb_neq in Hne. rewrite Hne.
      rewrite (drop_above_pval target _ _ lv Hn Hlv Hle), Hp. apply Bool.eqb_reflx.
Qed.

Lemma linv_learn st conf st' lv :
  SInv U P A st -> LInv st -> Rooted (trail st) -> (2 <= top_lv st)%N ->
  (exists c, nth_error (s_db st) (N.to_nat conf) = Some c /\ falsified (trail st) (cl_lits c) = true) ->
  learn U a_conflict st conf = Some (st', lv) ->
  LInv st' /\ Rooted (trail st') /\ top_lv st' = lv.
Proof.
  intros HS HL Hr Htop [c0 [Hc0 Hf0]] H. unfold learn in H.
  destruct (analyze (s_db st) (trail st) conf) as [r|] eqn:Han; [|discriminate]. cbv zeta in H.
  pose proof (si_nodup _ _ _ _ _ HS) as Hn. change (tnd (trail st)) in Hn.
  destruct (analyze_ok (s_db st) (trail st) conf r Han Hn (li_sorted _ HL) (li_just _ HL)) as [Hok Hfacts].
  { intros c Hc. rewrite Hc0 in Hc. inversion Hc. subst c. exact Hf0. }
  destruct Hfacts as [_ [_ [pre [e [la [Etr [Elits [Epops [Hla Huip]]]]]]]]].
  set (last := (tvar e, negb (snd (t_lit e)))) in *.
  destruct (pops_spec (r_pops r) st) as [Hst1 Etr1]. set (st1 := s_pops (r_pops r) st) in *.
  rewrite Epops, Etr in Etr1. cbn [plus] in Etr1. rewrite skipn_app_cons in Etr1.
  destruct Hst1 as [D1 [D2 [D3 D4]]].
  assert (Hn_e : tnd (e :: r_rest r)) by (apply (tnd_app_r pre); rewrite <- Etr; exact Hn).
  assert (Hnone : pval (tl_lits (trail st1)) (fst last) = None) by (rewrite Etr1; apply (tnd_head _ _ Hn_e)).
  assert (Hs1 : sortedL (trail st1)).
  { rewrite Etr1. assert (X : r_rest r = skipn (S (length pre)) (trail st)) by (rewrite Etr, skipn_app_cons; reflexivity).
    rewrite X. apply skipn_sorted. apply (li_sorted _ HL). }
  assert (Hj1 : justL (s_db st1) (trail st1)).
  { rewrite D1, Etr1. assert (X : r_rest r = skipn (S (length pre)) (trail st)) by (rewrite Etr, skipn_app_cons; reflexivity).
    rewrite X. apply skipn_just. apply (li_just _ HL). }
  assert (Hn1 : tnd (trail st1)) by (rewrite Etr1; apply (tnd_tl _ _ Hn_e)).
  assert (Hw1 : why_older (s_db st1 ++ [mkCl (KLearnt (r_why r)) (r_learnt r)])).
  { rewrite D1. apply why_older_snoc; [apply (li_why _ HL)|]. cbn [why_of ck]. intros j Hj.
    destruct (analyze_why_in _ _ _ _ Han j Hj) as [cj Hcj]. apply nth_error_Some. rewrite Hcj. discriminate. }
  assert (Hok1 : (s_ok st1 && analysis_ok (s_db st) (trail st) conf r)%bool = true) by (rewrite D4, (li_ok _ HL), Hok; reflexivity).
  assert (Htl : (1 <= target_level (r_btl r) (s_start st))%N) by (unfold target_level; lia).
  assert (Hbt : (r_btl r <= target_level (r_btl r) (s_start st))%N) by (unfold target_level; lia).
  (* what the learnt literals look like from the trail that is left *)
  assert (Hlits : forall l, In l (r_learnt r) ->
            l = last \/ (fst l <> fst last /\ pval (tl_lits (trail st1)) (fst l) = Some (negb (snd l)) /\
                         exists lv0, level_of (trail st1) (fst l) = Some lv0 /\ (lv0 <= target_level (r_btl r) (s_start st))%N)).
  { intros [v p] Hin. rewrite Elits in Hin. apply in_app_or in Hin. destruct Hin as [Hin|[Hin|[]]]; [|left; symmetry; exact Hin].
    destruct (Hla v p Hin) as [[E|[Hne Hp]] [lv0 [Hlv0 Hle0]]]; [left; exact E|]. right. cbn [fst snd].
    split; [exact Hne|]. rewrite Etr1. split; [exact Hp|]. exists lv0. split; [|lia].
    rewrite level_of_tail in Hlv0 by exact Hne. exact Hlv0. }
  (* the root is still below: otherwise the clause would consist of copies of one literal *)
  assert (Hrest : r_rest r <> [] \/ (r_rest r = [] /\ In last la /\ forall x, In x la -> x = last)).
  { destruct (r_rest r) as [|x rest'] eqn:Er; [right | left; discriminate]. split; [reflexivity|].
    assert (He : e = root_entry).
    { destruct Hr as [q Eq]. rewrite Etr in Eq.
      assert (X : pre ++ [e] = q ++ [root_entry]) by exact Eq. apply app_inj_tail in X. apply X. }
    split.
    - destruct Huip as [Hlv|Hin]; [|exact Hin]. exfalso. subst e. cbn [t_level root_entry] in Hlv.
      unfold top_lv in Htop. fold (top_level (trail st)) in Htop. lia.
    - intros [v p] Hx. destruct (Hla v p Hx) as [[E|[_ Hp]] _]; [exact E|]. discriminate Hp. }
  assert (Hrev : rev (r_learnt r) = last :: rev la) by (rewrite Elits, rev_app_distr; reflexivity).
  assert (Hr1 : r_rest r <> [] -> Rooted (trail st1)).
  { intro Hne. rewrite Etr1. apply (rooted_suffix (pre ++ [e])); [rewrite <- app_assoc; simpl; rewrite <- Etr; exact Hr | exact Hne]. }
  destruct (r_learnt r) as [|f [|g t]] eqn:El.
  - simpl in H. discriminate.
  - (* a unit clause *)
    assert (Ela : la = [] /\ f = last).
    { destruct la as [|a [|b la']]; simpl in Elits; inversion Elits; auto. }
    destruct Ela as [Ela Ef]. subst la. subst f.
    destruct Hrest as [Hne|[_ [Hin _]]]; [|destruct Hin].
    cbn [rev app] in H. cbn [negb] in H.
    match type of H with
    | context [s_assign ?X ?L ?T ?I] => destruct (s_assign X L T I) as [st4|] eqn:Ea; [|discriminate]
    end.
    inversion H. subst st' lv.
    eapply (learn_finish st1 _ _ _ _ _ _ _ last st4); [| | | | | | | | | | | | exact Ea]; try assumption.
    + reflexivity.
    + apply Hr1. exact Hne.
    + rewrite D1, D2. apply (li_asserts _ HL).
    + apply (astruct_snoc _ _ _ (mkCl (KLearnt (r_why r)) [last])).
      * rewrite D1, D3. apply astruct_mono. apply (li_units _ HL).
      * cbn [snd]. apply nth_error_snoc.
      * cbn [cl_lits fst]. intros l' [E|[]]. left. symmetry. exact E.
  - (* at least two literals *)
    rewrite Hrev in H. cbn [negb] in H.
    destruct (lit_eqb f last) eqn:Efl; cbn [negb] in H; [discriminate|].
    assert (Hne : r_rest r <> []).
    { destruct Hrest as [Hne|[_ [Hin Hall]]]; [exact Hne|]. exfalso.
      destruct la as [|a la']; [destruct Hin|]. simpl in Elits. injection Elits as Ef _.
      rewrite (Hall a (or_introl eq_refl)) in Ef. rewrite Ef, lit_eqb_refl in Efl. discriminate. }
    match type of H with
    | context [s_assign ?X ?L ?T ?I] => destruct (s_assign X L T I) as [st4|] eqn:Ea; [|discriminate]
    end.
    inversion H. subst st' lv.
    eapply (learn_finish st1 _ _ _ _ _ _ _ last st4); [| | | | | | | | | | | | exact Ea]; try assumption.
    + reflexivity.
    + apply Hr1. exact Hne.
    + rewrite D1, D2. apply (li_asserts _ HL).
    + rewrite D1, D3. apply astruct_mono. apply (li_units _ HL).
Qed.

(* ---------- the loops ---------- *)

Definition step_lv (r : step_res A) : Prop :=
  match r with
  | RLevel st lv => LInv st /\ Rooted (trail st) /\ (top_lv st <= lv)%N /\ (1 <= lv)%N
  | RUnsat st _ => s_ok st = true
  | _ => True
  end.

Definition run_lv (r : run_res A) : Prop :=
  match r with
  | ROk st _ => LInv st /\ Rooted (trail st)
  | RErr st _ => s_ok st = true
  | _ => True
  end.

Lemma top_lv_level (st : sst) : top_lv st = top_level (trail st).
Proof. reflexivity. Qed.

Lemma linv_unsolvable st conf core ok :
  SInv U P A st -> LInv st -> Rooted (trail st) -> (top_lv st <= 1)%N ->
  (exists c, nth_error (s_db st) (N.to_nat conf) = Some c /\ falsified (trail st) (cl_lits c) = true) ->
  unsolvable (s_db st) (trail st) conf = Some (core, ok) -> s_ok (set_ok st (s_ok st && ok)) = true.
Proof.
  intros HS HL Hr Htop [c0 [Hc0 Hf0]] Hu. cbn [set_ok s_ok]. rewrite (li_ok _ HL).
  rewrite (unsolvable_ok (s_db st) (trail st) conf core ok Hu Hr (si_nodup _ _ _ _ _ HS) (li_sorted _ HL) (li_just _ HL) Htop (li_why _ HL)); [reflexivity|].
  intros c Hc. rewrite Hc0 in Hc. inversion Hc. subst c. exact Hf0.
Qed.

Lemma linv_prop_learn : forall fuel st level,
  SInv U P A st -> LInv st -> Rooted (trail st) -> top_lv st = level ->
  step_lv (prop_learn U a_conflict fuel st level).
Proof.
  induction fuel as [|f IH]; intros st level HS HL Hr Htop; cbn [prop_learn]; [exact I|].
  destruct (s_propagate st level) as [[st1 conf]|] eqn:Ep; [|exact I].
  assert (Hle : (top_lv st <= level)%N) by lia.
  destruct (linv_propagate st level st1 conf HS HL Hr Hle Ep) as [HL1 [Hr1 [Ht1 [Hlg Hc]]]].
  pose proof (sinv_propagate U P A _ _ _ _ HS Ep) as HS1.
  assert (Htop1 : top_lv st1 = level) by (rewrite top_lv_level; apply (lgrows_top _ _ _ Hlg); exact Htop).
  pose proof (rooted_top _ Hr1 (li_sorted _ HL1)) as H1.
  destruct conf as [conf|].
  - specialize (Hc conf eq_refl). destruct (N.eqb level 1) eqn:E1.
    + apply N.eqb_eq in E1.
      destruct (unsolvable (s_db st1) (trail st1) conf) as [[core ok]|] eqn:Eu; [|exact I].
      cbn [step_lv]. apply (linv_unsolvable st1 conf core ok HS1 HL1 Hr1); [lia | exact Hc | exact Eu].
    + apply N.eqb_neq in E1.
      destruct (learn U a_conflict st1 conf) as [[st2 lv]|] eqn:El; [|exact I].
      assert (H2 : (2 <= top_lv st1)%N) by (rewrite top_lv_level in *; lia).
      destruct (linv_learn st1 conf st2 lv HS1 HL1 Hr1 H2 Hc El) as [HL2 [Hr2 Ht2]].
      apply IH; [apply (sinv_learn U P A a_conflict _ _ _ _ HS1 El) | exact HL2 | exact Hr2 | exact Ht2].
  - cbn [step_lv]. rewrite top_lv_level in *. split; [exact HL1|]. split; [exact Hr1|]. split; lia.
Qed.

Lemma linv_resolve : forall fuel st level,
  SInv U P A st -> LInv st -> Rooted (trail st) -> (top_lv st <= level)%N ->
  step_lv (resolve U a_ge a_conflict fuel st level).
Proof.
  induction fuel as [|f IH]; intros st level HS HL Hr Htop; cbn [resolve]; [exact I|].
  pose proof (rooted_top _ Hr (li_sorted _ HL)) as H1.
  destruct (decide U (a_ge (s_act st)) (s_db st) (tr_lits st)) as [[d|]|] eqn:Ed; [| | exact I].
  2:{ cbn [step_lv]. rewrite top_lv_level in *. split; [exact HL|]. split; [exact Hr|]. split; lia. }
  pose proof (decide_undecided U (a_ge (s_act st)) (tr_lits st) (s_db st) (sinv_req_wf U P A st HS) d Ed) as Hun.
  destruct (s_assign st (VSol (pd_cand d), true) (N.succ level) (pd_clause d)) as [st1|] eqn:Ea; [|exact I].
  assert (Hlt : (top_lv st < N.succ level)%N) by lia.
  destruct (linv_assign_dec _ _ _ _ _ HL Hlt Ea) as [HL1 [_ Hr1]].
  pose proof (sinv_assign U P A _ _ _ _ _ _ HS Ea) as HS1.
  assert (Htop1 : top_lv st1 = N.succ level).
  { destruct (s_assign_cases _ _ _ _ _ Ea) as [[_ E]|[_ E]].
    - cbn [fst] in E. unfold pvalue in E. unfold tr_lits in Hun. rewrite Hun in E. discriminate.
    - subst st1. reflexivity. }
  pose proof (linv_prop_learn f st1 (N.succ level) HS1 HL1 (Hr1 Hr) Htop1) as H2.
  pose proof (sinv_prop_learn U P A a_conflict f st1 (N.succ level) HS1) as HS2.
  destruct (prop_learn U a_conflict f st1 (N.succ level)) as [st2 lv|st2 core| |]; try exact I.
  - destruct H2 as [HL2 [Hr2 [Ht2 _]]]. apply IH; assumption.
  - exact H2.
Qed.

Lemma linv_reject st so start conf :
  SInv U P A st -> LInv st -> Rooted (trail st) ->
  (start = 0%N -> (top_lv st <= 1)%N /\
     exists c, nth_error (s_db st) (N.to_nat conf) = Some c /\ falsified (trail st) (cl_lits c) = true) ->
  run_lv (reject st so start conf).
Proof.
  intros HS HL Hr H0. unfold reject. destruct (N.eqb start 0) eqn:E0.
  - apply N.eqb_eq in E0. destruct (H0 E0) as [Htop Hc].
    destruct (unsolvable (s_db st) (trail st) conf) as [[core ok]|] eqn:Eu; [|exact I].
    cbn [run_lv]. apply (linv_unsolvable st conf core ok HS HL Hr Htop Hc Eu).
  - apply N.eqb_neq in E0.
    destruct (linv_undo_until st start HL (si_nodup _ _ _ _ _ HS)) as [HL1 [Ht1 [Hr1 _]]].
    destruct (s_assign (s_undo_until st start) (so_var so, false) (N.succ start) 0) as [st2|] eqn:Ea; [|exact I].
    assert (Hlt : (top_lv (s_undo_until st start) < N.succ start)%N) by lia.
    destruct (linv_assign_dec _ _ _ _ _ HL1 Hlt Ea) as [HL2 [_ Hr2]].
    cbn [run_lv]. split; [exact HL2|]. apply Hr2. apply Hr1; [lia | exact Hr].
Qed.

(* the trail at the (re)start of a run: the root run starts on the empty trail, a run for a soft
   requirement on a trail that holds the root *)
Definition run_pre (st : sst) (so : option N) (start level : N) : Prop :=
  ((1 <= start)%N /\ Rooted (trail st)) \/
  (start = 0%N /\ so = None /\ ((Rooted (trail st) /\ level <> 0%N) \/ (level = 0%N /\ trail st = []))).

Lemma clause_falsified_spec (st : sst) id : clause_falsified st id = true ->
  exists c, nth_error (s_db st) (N.to_nat id) = Some c /\ falsified (trail st) (cl_lits c) = true.
Proof.
  unfold clause_falsified. destruct (nth_error (s_db st) (N.to_nat id)) as [c|]; [|discriminate].
  intro H. exists c. split; [reflexivity | exact H].
Qed.

Lemma run_pre_restart (st : sst) so start level :
  run_pre st so start level -> SInv U P A st -> LInv st ->
  LInv (s_undo_until st start) /\ (top_lv (s_undo_until st start) <= start)%N /\ run_pre (s_undo_until st start) so start start.
Proof.
  intros Hp HS HL. destruct (linv_undo_until st start HL (si_nodup _ _ _ _ _ HS)) as [HL1 [Ht1 [Hr1 He1]]].
  split; [exact HL1|]. split; [exact Ht1|].
  destruct Hp as [[H1 Hr]|[E0 [Eso _]]].
  - left. split; [exact H1 | apply Hr1; assumption].
  - right. split; [exact E0|]. split; [exact Eso|]. right. split; [exact E0 | apply He1; exact E0].
Qed.

Lemma linv_run_loop efuel so start : forall fuel st level,
  SInv U P A st -> LInv st -> (top_lv st <= level)%N -> run_pre st so start level ->
  run_lv (run_loop U P a_ge a_conflict fuel efuel st so start level).
Proof.
  induction fuel as [|f IH]; intros st level HS HL Htop Hpre; cbn [run_loop]; [exact I|].
  set (first := if N.eqb level start then
                  match s_assign st (so_var so, true) (N.succ start) 0 with
                  | None => None
                  | Some st1 => match encode U P efuel st1 [so] with
                                | None => None
                                | Some (st2, confl) => Some (st2, N.succ start, find (clause_falsified st2) confl)
                                end
                  end
                else Some (st, level, None)).
  assert (Hfirst : match first with
                   | Some (st2, level2, conf) =>
                       SInv U P A st2 /\ LInv st2 /\ Rooted (trail st2) /\ (top_lv st2 <= level2)%N /\
                       (start = 0%N -> (1 <= level2)%N) /\
                       (forall id, conf = Some id ->
                          (start = 0%N -> (top_lv st2 <= 1)%N) /\
                          exists c, nth_error (s_db st2) (N.to_nat id) = Some c /\ falsified (trail st2) (cl_lits c) = true)
                   | None => True end).
  { unfold first. destruct (N.eqb level start) eqn:El.
    2:{ apply N.eqb_neq in El. split; [exact HS|]. split; [exact HL|].
        assert (Hr : Rooted (trail st) /\ (start = 0%N -> level <> 0%N)).
        { destruct Hpre as [[_ Hr]|[E0 [_ [[Hr Hne]|[E _]]]]]; [split; [exact Hr | lia] | split; [exact Hr | auto] | lia]. }
        destruct Hr as [Hr Hne]. split; [exact Hr|]. split; [exact Htop|]. split; [intro E0; specialize (Hne E0); lia|].
        intros id E. discriminate E. }
    apply N.eqb_eq in El. subst level.
    destruct (s_assign st (so_var so, true) (N.succ start) 0) as [st1|] eqn:Ea; [|exact I].
    pose proof (sinv_assign U P A _ _ _ _ _ _ HS Ea) as HS1.
    assert (Hlt : (top_lv st < N.succ start)%N) by lia.
    destruct (linv_assign_dec _ _ _ _ _ HL Hlt Ea) as [HL1 [Ht1 Hr1]].
    assert (Hroot1 : Rooted (trail st1) /\ (start = 0%N -> (top_lv st1 <= 1)%N)).
    { destruct Hpre as [[H1 Hr]|[E0 [Eso [[Hr Hne]|[_ Ee]]]]].
      - split; [apply Hr1; exact Hr | lia].
      - exfalso. apply Hne. exact E0.
      - subst so start. destruct (s_assign_cases _ _ _ _ _ Ea) as [[_ E]|[_ E]].
        + unfold pvalue in E. rewrite Ee in E. discriminate.
        + subst st1. cbn [with_ps s_ps push_entry ps_trail so_var]. rewrite Ee. split; [exists []; reflexivity|].
          intros _. unfold top_lv. cbn [with_ps s_ps push_entry ps_trail t_level]. lia. }
    destruct Hroot1 as [Hroot1 Htop01].
    destruct (encode U P efuel st1 [so]) as [[st2 confl]|] eqn:Ee; [|exact I].
    destruct (linv_encode _ _ _ _ _ HS1 HL1 Ee) as [HL2 Etr2].
    split; [apply (sinv_encode U P HW A _ _ _ _ _ HS1 Ee)|]. split; [exact HL2|].
    rewrite top_lv_level, Etr2, <- top_lv_level. split; [exact Hroot1|]. split; [exact Ht1|]. split; [lia|].
    intros id Hid. apply find_some in Hid. destruct Hid as [_ Hid]. split; [exact Htop01|].
    rewrite <- Etr2. apply clause_falsified_spec. exact Hid. }
  destruct first as [[[st2 level2] [conf|]]|]; [| |exact I].
  - destruct Hfirst as [HS2 [HL2 [Hr2 [Ht2 [_ Hc]]]]]. destruct (Hc conf eq_refl) as [Hc1 Hc2].
    apply (linv_reject st2 so start conf HS2 HL2 Hr2). intro E0. split; [apply Hc1; exact E0 | exact Hc2].
  - destruct Hfirst as [HS2 [HL2 [Hr2 [Ht2 [Hl2 _]]]]].
    assert (Hpre2 : forall st' lv, Rooted (trail st') -> (1 <= lv)%N -> run_pre st' so start lv).
    { intros st' lv Hr' Hlv. destruct Hpre as [[H1 _]|[E0 [Eso _]]].
      - left. split; assumption.
      - right. split; [exact E0|]. split; [exact Eso|]. left. split; [exact Hr' | lia]. }
    destruct (s_propagate st2 level2) as [[st3 conf]|] eqn:Ep; [|exact I].
    destruct (linv_propagate st2 level2 st3 conf HS2 HL2 Hr2 Ht2 Ep) as [HL3 [Hr3 [Ht3 [_ Hc3]]]].
    pose proof (sinv_propagate U P A _ _ _ _ HS2 Ep) as HS3.
    pose proof (rooted_top _ Hr3 (li_sorted _ HL3)) as H13. rewrite <- top_lv_level in H13.
    destruct conf as [conf|].
    + destruct (N.eqb level2 (N.succ start)) eqn:E2.
      * apply N.eqb_eq in E2. apply (linv_reject st3 so start conf HS3 HL3 Hr3).
        intro E0. split; [lia | apply Hc3; reflexivity].
      * destruct (run_pre_restart st3 so start level2 (Hpre2 st3 level2 Hr3 ltac:(lia)) HS3 HL3) as [HLr [Htr Hpr]].
        apply IH; [apply (sinv_undo_until U P A); exact HS3 | exact HLr | exact Htr | exact Hpr].
    + pose proof (linv_resolve f st3 level2 HS3 HL3 Hr3 Ht3) as H4.
      pose proof (sinv_resolve U P A a_ge a_conflict f st3 level2 HS3) as HS4.
      destruct (resolve U a_ge a_conflict f st3 level2) as [st4 level4|st4 core| |]; try exact I; [|exact H4].
      cbn [step_lv] in H4. destruct H4 as [HL4 [Hr4 [Ht4 H14]]]. simpl in HS4.
      destruct (new_solvables st4) as [|s0 sos]; [split; assumption|].
      destruct (encode U P efuel st4 (s0 :: sos)) as [[st5 confl]|] eqn:Ee; [|exact I].
      destruct (linv_encode _ _ _ _ _ HS4 HL4 Ee) as [HL5 Etr5].
      pose proof (sinv_encode U P HW A _ _ _ _ _ HS4 Ee) as HS5.
      assert (Hr5 : Rooted (trail st5)) by (rewrite Etr5; exact Hr4).
      assert (Ht5 : (top_lv st5 <= level4)%N) by (rewrite top_lv_level, Etr5, <- top_lv_level; exact Ht4).
      destruct confl as [|c0 confl].
      * apply IH; [exact HS5 | exact HL5 | exact Ht5 | apply Hpre2; assumption].
      * destruct (run_pre_restart st5 so start level4 (Hpre2 st5 level4 Hr5 H14) HS5 HL5) as [HLr [Htr Hpr]].
        apply IH; [apply (sinv_undo_until U P A); exact HS5 | exact HLr | exact Htr | exact Hpr].
Qed.

Lemma linv_run_sat fuel efuel st so :
  SInv U P A st -> LInv st -> (Rooted (trail st) \/ (so = None /\ trail st = [])) ->
  run_lv (run_sat U P a_ge a_conflict fuel efuel st so).
Proof.
  intros HS HL Hr. unfold run_sat. apply linv_run_loop.
  - apply (sinv_eq U P A st); auto.
  - destruct HL as [L1 L2 L3 L4 L5 L6]. constructor; assumption.
  - unfold top_lv. cbn [s_ps]. lia.
  - cbn [s_ps]. destruct Hr as [Hr|[Eso Ee]].
    + left. split; [|exact Hr]. rewrite top_lv_level. apply (rooted_top _ Hr (li_sorted _ HL)).
    + right. assert (E0 : top_lv st = 0%N) by (unfold top_lv; rewrite Ee; reflexivity).
      rewrite E0. split; [reflexivity|]. split; [exact Eso|]. right. split; [reflexivity | cbn [s_ps]; exact Ee].
Qed.

Lemma linv_soft_loop fuel efuel : forall softs st,
  SInv U P A st -> LInv st -> Rooted (trail st) ->
  run_lv (soft_loop U P a_ge a_conflict fuel efuel st softs).
Proof.
  induction softs as [|s t IH]; intros st HS HL Hr; cbn [soft_loop]; [split; assumption|].
  destruct (pvalue (s_ps st) (VSol s)); [apply IH; assumption|].
  match goal with |- context [absorb ?X ?E] =>
    assert (H0 : SInv U P A X) by (apply (sinv_eq U P A st); auto);
    assert (HL0 : LInv X) by (destruct HL as [L1 L2 L3 L4 L5 L6]; constructor; assumption);
    pose proof (sinv_absorb U P A X E H0 (einv_register U P _ s (si_enc _ _ _ _ _ H0)) (ext_register U _ s)) as H1;
    destruct (linv_absorb X E HL0 (einv_register U P _ s (si_enc _ _ _ _ _ H0)) (ext_register U _ s)) as [HL1 Etr1];
    destruct (absorb X E) as [st1 c1]
  end. cbn [fst] in H1, HL1, Etr1. cbn [s_ps] in Etr1.
  pose proof (sinv_run_sat U P HW A a_ge a_conflict fuel efuel st1 (Some s) H1) as HS2.
  assert (Hr1 : Rooted (trail st1)) by (rewrite Etr1; exact Hr).
  pose proof (linv_run_sat fuel efuel st1 (Some s) H1 HL1 (or_introl Hr1)) as H2.
  destruct (run_sat U P a_ge a_conflict fuel efuel st1 (Some s)) as [st2 acc|st2 core| |]; try exact I.
  - destruct H2 as [HL2 Hr2]. apply IH; assumption.
  - exact H2.
Qed.

(* THE statement: the side conditions accumulated by the model hold on every run *)
Theorem solve_ok fuel efuel a0 order o st :
  solve U P a_ge a_conflict fuel efuel a0 order = (o, st) -> s_ok st = true.
Proof.
  unfold solve.
  set (st0 := mkS (estate0 cache0) [mkCl KRoot [(VRoot, true)]] ps0 [] [] a0 0 [] order true []).
  assert (H0 : SInv U P A st0).
  { constructor; simpl; [apply einv0 | reflexivity | apply winv0 | reflexivity]. }
  assert (HL0 : LInv st0).
  { constructor; simpl; try exact I; try reflexivity.
    - intros x [].
    - intros x [].
    - intros id c Hn j Hj. destruct id as [|[|id]]; simpl in Hn; try discriminate. inversion Hn. subst c. destruct Hj. }
  pose proof (sinv_run_sat U P HW A a_ge a_conflict fuel efuel st0 None H0) as H1.
  pose proof (linv_run_sat fuel efuel st0 None H0 HL0 (or_intror (conj eq_refl eq_refl))) as HL1.
  destruct (run_sat U P a_ge a_conflict fuel efuel st0 None) as [st1 [|]|st1 core| |].
  - destruct HL1 as [HL1 Hr1].
    pose proof (linv_soft_loop fuel efuel (pr_soft P) st1 H1 HL1 Hr1) as H2.
    destruct (soft_loop U P a_ge a_conflict fuel efuel st1 (pr_soft P)) as [st2 acc|st2 core| |];
      intro H; inversion H; subst; try exact (li_ok _ HL1); [apply (li_ok _ (proj1 H2)) | exact H2].
  - intro H. inversion H. subst. apply (li_ok _ (proj1 HL1)).
  - intro H. inversion H. subst. exact HL1.
  - intro H. inversion H. subst. reflexivity.
  - intro H. inversion H. subst. reflexivity.
Qed.

(* hence: the solver model never answers Unsolvable for a problem that has a valid selection *)
Theorem solve_never_false_unsat fuel efuel a0 order core st :
  solve U P a_ge a_conflict fuel efuel a0 order = (OUnsat core, st) -> forall Sel, ~ valid U P Sel [].
Proof.
  intro H. apply (solve_no_false_unsat U P HW A a_ge a_conflict fuel efuel a0 order core st H).
  apply (solve_ok _ _ _ _ _ _ H).
Qed.

End Levels.
