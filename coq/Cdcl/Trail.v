(* Cdcl/Trail.v -- the abstract CDCL machine: which assignments may be pushed on
   the trail, and runs as sequences of trail events.

   An assignment is legal if it is
     - the root decision or a soft-requirement (pseudo) decision,
     - a propagation: its reason clause is unit under the current trail,
     - a decision (rule D1): the first non-false candidate, in clause order, of a
       Requires clause whose parent is true and none of whose candidates is
       true; and (rule D2) if it is not a requirement of the root, no
       requirement of the root is open.                                       *)
From Resolvo Require Export Cdcl.Final.

Inductive ekind := EPseudo | EProp | ERootDec | EDec.
Definition ekind_eqb (a b : ekind) : bool :=
  match a, b with
  | EPseudo, EPseudo | EProp, EProp | ERootDec, ERootDec | EDec, EDec => true
  | _, _ => false
  end.
Lemma ekind_eqb_eq a b : ekind_eqb a b = true <-> a = b.
Proof. destruct a, b; simpl; split; intro H; try reflexivity; try discriminate. Qed.

Record ent := mkEnt { e_lit : lit; e_reason : N; e_kind : ekind }.
Definition tlits (tr : list ent) : list lit := map e_lit tr.

Inductive event := EvAssign (l : lit) (reason : N) | EvUndoLast | EvClear.

Definition unit_under (pa : list lit) (ls : list lit) (l : lit) : bool :=
  existsb (lit_eqb l) ls && forallb (fun x => lit_eqb x l || lit_false pa x) ls.

Definition none_true (pa : list lit) (cs : list lit) : bool :=
  forallb (fun x => negb (lit_istrue pa x)) cs.

Definition first_nonfalse (pa : list lit) (cs : list lit) : option lit :=
  find (fun x => negb (lit_false pa x)) cs.

(* an open requirement of the root: no candidate true, some candidate unassigned *)
Definition open_root (pa : list lit) (c : cl) : bool :=
  match ck c, cl_lits c with
  | KRequires VRoot _ _, _ :: cs => none_true pa cs && existsb (lit_unassigned pa) cs
  | _, _ => false
  end.

Definition opt_lit_eqb (o : option lit) (l : lit) : bool :=
  match o with Some x => lit_eqb x l | None => false end.

Definition is_vroot (v : var) : bool := match v with VRoot => true | _ => false end.

Section Machine.
Variable soft : list N.
Variable db : list cl.

Definition decision_kind (pa : list lit) (c : cl) (l : lit) : option ekind :=
  match ck c, cl_lits c with
  | KRequires p _ _, (p', false) :: cs =>
      if var_eqb p p' && snd l && lit_istrue pa (p, true) && none_true pa cs &&
         opt_lit_eqb (first_nonfalse pa cs) l
      then if is_vroot p then Some ERootDec
           else if existsb (open_root pa) db then None else Some EDec
      else None
  | _, _ => None
  end.

Definition classify (pa : list lit) (l : lit) (reason : N) : option ekind :=
  match pval pa (fst l) with
  | Some _ => None
  | None =>
    if N.eqb reason 0 then
      match l with
      | (VRoot, true) => Some EPseudo
      | (VSol s, _) => if memN s soft then Some EPseudo else None
      | _ => None
      end
    else
      match nth_error db (N.to_nat reason) with
      | None => None
      | Some c => if unit_under pa (cl_lits c) l then Some EProp else decision_kind pa c l
      end
  end.

Definition opt_kind_eqb (o : option ekind) (k : ekind) : bool :=
  match o with Some x => ekind_eqb x k | None => false end.

(* every entry was legal w.r.t. the older part of the trail *)
Fixpoint trail_ok (tr : list ent) : bool :=
  match tr with
  | [] => true
  | e :: t => opt_kind_eqb (classify (tlits t) (e_lit e) (e_reason e)) (e_kind e) && trail_ok t
  end.

Fixpoint run_events (evs : list event) (tr : list ent) : option (list ent) :=
  match evs with
  | [] => Some tr
  | EvAssign l r :: es =>
      match classify (tlits tr) l r with
      | Some k => run_events es (mkEnt l r k :: tr)
      | None => None
      end
  | EvUndoLast :: es => match tr with [] => None | _ :: t => run_events es t end
  | EvClear :: es => run_events es []
  end.

(* invariant over every run: the trail of every reachable state is legal *)
Theorem run_trail_ok evs : forall tr tr',
  trail_ok tr = true -> run_events evs tr = Some tr' -> trail_ok tr' = true.
Proof.
  induction evs as [|ev es IH]; intros tr tr' Hok H; cbn [run_events] in H.
  - inversion H. subst. exact Hok.
  - destruct ev as [l r| |].
    + destruct (classify (tlits tr) l r) as [k|] eqn:Ec; [|discriminate].
      refine (IH _ _ _ H). cbn [trail_ok e_lit e_reason e_kind].
      rewrite Ec. simpl. rewrite (proj2 (ekind_eqb_eq k k) eq_refl). exact Hok.
    + destruct tr as [|e t]; [discriminate|]. refine (IH _ _ _ H).
      cbn [trail_ok] in Hok. apply andb_true_iff in Hok. apply Hok.
    + refine (IH _ _ _ H). reflexivity.
Qed.

Lemma classify_unassigned pa l r k : classify pa l r = Some k -> pval pa (fst l) = None.
Proof. unfold classify. destruct (pval pa (fst l)); [discriminate | reflexivity]. Qed.

Lemma trail_ok_nodup tr : trail_ok tr = true -> vars_nodup (tlits tr) = true.
Proof.
  induction tr as [|e t IH]; [reflexivity|]. cbn [trail_ok]. intro H.
  apply andb_true_iff in H. destruct H as [Hc Ht].
  destruct (classify (tlits t) (e_lit e) (e_reason e)) as [k|] eqn:Ec; [|discriminate].
  apply classify_unassigned in Ec. cbn [tlits map vars_nodup].
  destruct (e_lit e) as [v b]. simpl in Ec. fold (tlits t). rewrite Ec. apply IH. exact Ht.
Qed.

End Machine.

(* values in an older part of a duplicate-free trail are final *)
Lemma pval_app_old new old v b :
  vars_nodup (new ++ old) = true -> pval old v = Some b -> pval (new ++ old) v = Some b.
Proof.
  induction new as [|[w p] t IH]; simpl; [intros _ H; exact H|].
  destruct (pval (t ++ old) w) eqn:Ep; [discriminate|]. intros Hnd Ho.
  destruct (var_eqb w v) eqn:E.
  - apply var_eqb_eq in E. subst. rewrite (IH Hnd Ho) in Ep. discriminate.
  - apply IH; assumption.
Qed.

Lemma vars_nodup_app_r new old : vars_nodup (new ++ old) = true -> vars_nodup old = true.
Proof.
  induction new as [|[w p] t IH]; simpl; [intro H; exact H|].
  destruct (pval (t ++ old) w); [discriminate | exact IH].
Qed.
