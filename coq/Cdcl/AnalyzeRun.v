(* Cdcl/AnalyzeRun.v -- replaying a hook log against the analyze model: every
   conflict analysis of a run (recognised by the bare undo_last events that only
   analyze produces) must give the learnt clause, the derivation list, the
   number of pops, the backjump level and the asserted literal of the model. *)
From Resolvo Require Export Cdcl.Analyze.

Inductive levent :=
| LAssign (l : lit) (level reason : N)
| LUndoLast
| LUndoUntil (level : N)
| LSoft.                         (* a soft requirement's run_sat starts on top of the current trail *)

Inductive mode :=
| MNormal
| MUntil                         (* inside undo_until *)
| MAnalysing (left : nat) (r : aresult) (id : N)   (* pops still expected, model result, learnt clause id *)
| MBackjump (r : aresult) (id : N) (target : N).

Definition top_level (tr : list tent) : N := match tr with e :: _ => t_level e | [] => 0 end.

(* ids of the learnt clauses in allocation order *)
Fixpoint learnt_ids (db : list cl) (i : N) : list N :=
  match db with
  | [] => []
  | c :: t => if is_learnt c then i :: learnt_ids t (N.succ i) else learnt_ids t (N.succ i)
  end.

Definition why_of (c : cl) : list N := match ck c with KLearnt w => w | _ => [] end.

Fixpoint nl_eqb' (a b : list N) : bool :=
  match a, b with
  | [], [] => true
  | x :: a', y :: b' => N.eqb x y && nl_eqb' a' b'
  | _, _ => false
  end.

(* start one analysis on trail [tr]: the next learnt clause [id] must be what the model derives *)
Definition start_analysis (db : list cl) (tr : list tent) (id : N) : option aresult :=
  match nth_error db (N.to_nat id) with
  | Some c =>
    match why_of c with
    | conf :: _ =>
      match analyze db tr conf with
      | Some r =>
        if lits_eqb (r_learnt r) (cl_lits c) && nl_eqb' (r_why r) (why_of c) && analysis_ok db tr conf r
        then Some r else None
      | None => None
      end
    | [] => None
    end
  | None => None
  end.

(* returns (number of analyses checked, all fine) *)
Fixpoint replay (db : list cl) (evs : list levent) (tr : list tent) (start : N) (ids : list N) (m : mode) (n : N)
  : N * bool :=
  match evs with
  | [] => (n, match m with MNormal | MUntil => match ids with [] => true | _ => false end | _ => false end)
  | e :: t =>
    match m, e with
    | MAnalysing (S k) r id, LUndoLast => replay db t (tl tr) start ids (MAnalysing k r id) n
    | MAnalysing O r id, LUndoUntil lv =>
        let target := target_level (r_btl r) start in
        if N.eqb lv target && lits_eqb (tl_lits tr) (tl_lits (r_rest r)) then replay db t tr start ids (MBackjump r id target) n
        else (n, false)
    | MAnalysing _ _ _, _ => (n, false)
    | MBackjump r id target, LUndoLast =>
        if N.ltb target (top_level tr) then replay db t (tl tr) start ids (MBackjump r id target) n else (n, false)
    | MBackjump r id target, LAssign l lv reason =>
        let expect := match rev (r_learnt r) with x :: _ => x | [] => l end in
        if N.leb (top_level tr) target && lit_eqb l expect && N.eqb lv target && N.eqb reason id
        then replay db t (mkT l lv reason :: tr) start ids MNormal (N.succ n) else (N.succ n, false)
    | MBackjump _ _ _, _ => (n, false)
    | _, LAssign l lv reason => replay db t (mkT l lv reason :: tr) start ids MNormal n
    | _, LUndoUntil lv => replay db t (if N.eqb lv 0 then [] else tr) start ids MUntil n
    | MUntil, LUndoLast => replay db t (tl tr) start ids MUntil n
    | MNormal, LUndoLast =>
        match ids with
        | id :: ids' =>
          match start_analysis db tr id with
          | Some r =>
            match r_pops r with
            | S k => replay db t (tl tr) start ids' (MAnalysing k r id) n
            | O => (n, false)
            end
          | None => (n, false)
          end
        | [] => (n, false)
        end
    | _, LSoft => replay db t tr (top_level tr) ids MNormal n
    end
  end.

Definition check_analyses (db : list cl) (evs : list levent) : N * bool :=
  replay db evs [] 0 (learnt_ids db 0) MNormal 0.
