(* Cdcl/TrailLevels.v -- the level structure of the trail, operation by operation:

     lgrows    every assignment a call of propagate makes is made on the level the
               call was given
     drop_above / undo   what backtracking leaves of a trail, and that it keeps the
               level structure (sortedL, justL, the root at the bottom) and the
               value of every variable assigned on a level that survives
     walk_ok   on a trail whose entries are all justified by their clauses (the
               root assignment apart) the side condition of analyze_unsolvable
               holds by itself *)
From Resolvo Require Export Cdcl.PropagateProofs Cdcl.AnalyzeOk Cdcl.UnsolvableProofs.
From Coq Require Import Lia.

(* ---------- assignments of one call of propagate ---------- *)

Definition lgrows (level : N) (base cur : list tent) : Prop :=
  exists new, cur = new ++ base /\ Forall (fun e => t_level e = level) new.

Lemma lgrows_refl level base : lgrows level base base.
Proof. exists []. split; [reflexivity | constructor]. Qed.

Lemma lgrows_trans level a b c : lgrows level a b -> lgrows level b c -> lgrows level a c.
Proof.
  intros [n1 [E1 F1]] [n2 [E2 F2]]. exists (n2 ++ n1). subst. split; [rewrite app_assoc; reflexivity|].
  apply Forall_app. split; assumption.
Qed.

Lemma try_add_lg st l level reason st1 :
  try_add st l level reason = Some st1 -> lgrows level (ps_trail st) (ps_trail st1).
Proof.
  intro H. pose proof (try_add_gen st l level reason) as G. rewrite H in G.
  destruct G as [[E _]|[_ E]]; subst st1; [apply lgrows_refl|].
  exists [mkT l level reason]. split; [reflexivity|]. constructor; [reflexivity | constructor].
Qed.

Lemma visit_list_lg db L level : forall ids kept st st' r,
  visit_list db L level ids kept st = Some (st', r) -> lgrows level (ps_trail st) (ps_trail st').
Proof.
  induction ids as [|id rest IH]; intros kept st st' r H; cbn [visit_list] in H.
  - inversion H. subst. apply lgrows_refl.
  - destruct (wget (ps_watch st) id) as [[w0 w1]|]; [|discriminate].
    destruct (nth_error db (N.to_nat id)) as [c|]; [|discriminate].
    destruct (plit_true st (if lit_eqb w0 L then w1 else w0)); [apply (IH _ _ _ _ H)|].
    destruct (next_unwatched st c (if lit_eqb w0 L then w1 else w0)) as [|nl|]; [| |discriminate].
    + destruct (try_add st (if lit_eqb w0 L then w1 else w0) level id) as [st1|] eqn:Et.
      * eapply lgrows_trans; [apply (try_add_lg _ _ _ _ _ Et) | apply (IH _ _ _ _ H)].
      * inversion H. subst. apply lgrows_refl.
    + apply (IH _ _ _ _ H).
Qed.

Lemma prop_loop_lg db level : forall fuel st st' r,
  prop_loop fuel db level st = Some (st', r) -> lgrows level (ps_trail st) (ps_trail st').
Proof.
  induction fuel as [|f IH]; intros st st' r H; cbn [prop_loop] in H; [discriminate|].
  destruct (Nat.ltb (ps_pidx st) (length (ps_trail st))); [|inversion H; subst; apply lgrows_refl].
  destruct (nth_error (ps_trail st) (length (ps_trail st) - 1 - ps_pidx st)) as [e|]; [|discriminate].
  destruct (visit_list db (tvar e, negb (snd (t_lit e))) level (lget (ps_lists st) (tvar e, negb (snd (t_lit e)))) [] st)
    as [[st1 [c|]]|] eqn:Ev; [| |discriminate].
  - inversion H. subst. apply (visit_list_lg _ _ _ _ _ _ _ _ Ev).
  - eapply lgrows_trans; [apply (visit_list_lg _ _ _ _ _ _ _ _ Ev)|]. apply (IH _ _ _ H).
Qed.

Lemma assert_all_lg level : forall l st st' r,
  assert_all level l st = (st', r) -> lgrows level (ps_trail st) (ps_trail st').
Proof.
  induction l as [|[x id] t IH]; intros st st' r H; simpl in H.
  - inversion H. subst. apply lgrows_refl.
  - destruct (try_add st x level id) as [st1|] eqn:Et.
    + eapply lgrows_trans; [apply (try_add_lg _ _ _ _ _ Et) | apply (IH _ _ _ H)].
    + inversion H. subst. apply lgrows_refl.
Qed.

Theorem propagate_lg db level asserts units st st' r :
  propagate db level asserts units st = Some (st', r) -> lgrows level (ps_trail st) (ps_trail st').
Proof.
  unfold propagate. intro H.
  destruct (assert_all level asserts st) as [st1 [c1|]] eqn:E1.
  - inversion H. subst. apply (assert_all_lg _ _ _ _ _ E1).
  - destruct (assert_all level units st1) as [st2 [c2|]] eqn:E2.
    + inversion H. subst. eapply lgrows_trans; [apply (assert_all_lg _ _ _ _ _ E1) | apply (assert_all_lg _ _ _ _ _ E2)].
    + eapply lgrows_trans; [apply (assert_all_lg _ _ _ _ _ E1)|].
      eapply lgrows_trans; [apply (assert_all_lg _ _ _ _ _ E2) | apply (prop_loop_lg _ _ _ _ _ _ H)].
Qed.

(* ---------- the level structure under pushes ---------- *)

Lemma sortedL_push e tr : sortedL tr -> (top_level tr <= t_level e)%N -> sortedL (e :: tr).
Proof. intros Hs Hle. split; [|exact Hs]. destruct tr as [|x t]; [exact I | exact Hle]. Qed.

Lemma sortedL_lgrows level base cur :
  sortedL base -> (top_level base <= level)%N -> lgrows level base cur ->
  sortedL cur /\ (top_level cur <= level)%N.
Proof.
  intros Hs Hle [new [E F]]. subst cur. induction new as [|e t IH]; [split; assumption|].
  inversion F as [|x l He Ft]. subst x l. destruct (IH Ft) as [I1 I2]. split.
  - apply sortedL_push; [exact I1 | rewrite He; exact I2].
  - simpl. rewrite He. lia.
Qed.

Lemma reason_ok_mono db x e rest : reason_ok db e rest = true -> reason_ok (db ++ x) e rest = true.
Proof.
  unfold reason_ok. destruct (nth_error db (N.to_nat (t_reason e))) as [c|] eqn:E; [|discriminate].
  rewrite nth_error_app1; [rewrite E; auto|]. apply nth_error_Some. rewrite E. discriminate.
Qed.

Lemma justL_mono db x : forall tr, justL db tr -> justL (db ++ x) tr.
Proof.
  induction tr as [|e t IH]; [auto|]. intros [[H|H] Ht]; split; try (apply IH; exact Ht).
  - left. apply reason_ok_mono. exact H.
  - right. exact H.
Qed.

Lemma justL_grows db base cur : justL db base -> grows db base cur -> justL db cur.
Proof. intros Hb Hg. induction Hg as [|cur e Hg IH Hr]; [exact Hb|]. split; [left; exact Hr | exact IH]. Qed.

Lemma justL_tl db e t : justL db (e :: t) -> justL db t.
Proof. intros [_ H]. exact H. Qed.

(* ---------- the root at the bottom ---------- *)

Definition root_entry : tent := mkT (VRoot, true) 1 0.
Definition Rooted (tr : list tent) : Prop := exists pre, tr = pre ++ [root_entry].

Lemma rooted_push e tr : Rooted tr -> Rooted (e :: tr).
Proof. intros [pre E]. exists (e :: pre). subst. reflexivity. Qed.

Lemma rooted_app new tr : Rooted tr -> Rooted (new ++ tr).
Proof. intros [pre E]. exists (new ++ pre). subst. rewrite app_assoc. reflexivity. Qed.

Lemma rooted_nonempty tr : Rooted tr -> tr <> [].
Proof. intros [pre E] H. subst. destruct pre; discriminate. Qed.

Lemma rooted_val tr : Rooted tr -> tnd tr -> pval (tl_lits tr) VRoot = Some true.
Proof.
  intros [pre E] Hn. subst. induction pre as [|e t IH]; [reflexivity|].
  rewrite <- app_comm_cons in Hn. pose proof (tnd_head _ _ Hn) as Hh. specialize (IH (tnd_tl _ _ Hn)).
  rewrite <- app_comm_cons. rewrite pval_tail; [exact IH|]. intro Ev. rewrite <- Ev in Hh. rewrite IH in Hh. discriminate.
Qed.

(* all levels of a sorted rooted trail are at least 1 *)
Lemma rooted_levels tr : Rooted tr -> sortedL tr -> forall e, In e tr -> (1 <= t_level e)%N.
Proof.
  intros [pre E]. subst. induction pre as [|x t IH]; intros Hs e Hin.
  - destruct Hin as [Hin|[]]. subst. simpl. lia.
  - destruct Hin as [Hin|Hin]; [|apply (IH (sorted_tl _ _ Hs) e Hin)]. subst x.
    destruct Hs as [Hle Hs]. destruct (t ++ [root_entry]) as [|y u] eqn:Ey; [destruct t; discriminate|].
    assert (Hy : (1 <= t_level y)%N) by (apply (IH Hs); left; reflexivity). lia.
Qed.

Lemma rooted_top tr : Rooted tr -> sortedL tr -> (1 <= top_level tr)%N.
Proof.
  intros Hr Hs. destruct tr as [|e t]; [exfalso; apply (rooted_nonempty _ Hr); reflexivity|].
  simpl. apply (rooted_levels _ Hr Hs). left. reflexivity.
Qed.

(* an entry of a rooted trail without repetition that is not on the root variable has something below it *)
Lemma rooted_tail e t : Rooted (e :: t) -> tnd (e :: t) -> tvar e <> VRoot -> Rooted t.
Proof.
  intros [pre E] Hn Hne. destruct pre as [|x pre].
  - simpl in E. inversion E. subst. exfalso. apply Hne. reflexivity.
  - simpl in E. inversion E. subst. exists pre. reflexivity.
Qed.

Lemma rooted_root_entry e t : Rooted (e :: t) -> tnd (e :: t) -> tvar e = VRoot -> e = root_entry /\ t = [].
Proof.
  intros [pre E] Hn Hv. destruct pre as [|x pre].
  - simpl in E. inversion E. subst. auto.
  - simpl in E. inversion E. subst. exfalso.
    pose proof (tnd_head _ _ Hn) as Hh. rewrite Hv in Hh.
    assert (Hr : Rooted (pre ++ [root_entry])) by (exists pre; reflexivity).
    rewrite (rooted_val _ Hr (tnd_tl _ _ Hn)) in Hh. discriminate.
Qed.

(* ---------- backtracking ---------- *)

Fixpoint drop_above (lv : N) (tr : list tent) : list tent :=
  match tr with
  | [] => []
  | e :: t => if N.leb (t_level e) lv then tr else drop_above lv t
  end.

Lemma drop_above_top lv tr : (top_level (drop_above lv tr) <= lv)%N.
Proof.
  induction tr as [|e t IH]; simpl; [lia|]. destruct (N.leb (t_level e) lv) eqn:E; [|exact IH].
  simpl. apply N.leb_le. exact E.
Qed.

Lemma drop_above_sorted lv tr : sortedL tr -> sortedL (drop_above lv tr).
Proof.
  induction tr as [|e t IH]; intro Hs; simpl; [exact I|].
  destruct (N.leb (t_level e) lv); [exact Hs | apply IH; apply (sorted_tl _ _ Hs)].
Qed.

Lemma drop_above_just db lv tr : justL db tr -> justL db (drop_above lv tr).
Proof.
  induction tr as [|e t IH]; intro Hj; simpl; [exact I|].
  destruct (N.leb (t_level e) lv); [exact Hj | apply IH; apply (justL_tl _ _ _ Hj)].
Qed.

Lemma drop_above_tnd lv tr : tnd tr -> tnd (drop_above lv tr).
Proof.
  induction tr as [|e t IH]; intro Hn; simpl; [exact Hn|].
  destruct (N.leb (t_level e) lv); [exact Hn | apply IH; apply (tnd_tl _ _ Hn)].
Qed.

Lemma drop_above_rooted lv tr : (1 <= lv)%N -> Rooted tr -> Rooted (drop_above lv tr).
Proof.
  intros Hlv [pre E]. subst. induction pre as [|e t IH]; simpl.
  - assert (H : N.leb 1 lv = true) by (apply N.leb_le; exact Hlv). rewrite H. exists []. reflexivity.
  - destruct (N.leb (t_level e) lv); [exists (e :: t); reflexivity | exact IH].
Qed.

(* a variable assigned on a level that survives keeps its value *)
Lemma drop_above_pval lv : forall tr v l, tnd tr -> level_of tr v = Some l -> (l <= lv)%N ->
  pval (tl_lits (drop_above lv tr)) v = pval (tl_lits tr) v.
Proof.
  induction tr as [|e t IH]; intros v l Hn Hl Hle; cbn [drop_above]; [reflexivity|].
  destruct (N.leb (t_level e) lv) eqn:E; [reflexivity|].
  simpl in Hl. destruct (var_eqb (tvar e) v) eqn:Ev.
  - inversion Hl. subst l. apply N.leb_gt in E. lia.
  - apply var_eqb_neq in Ev. rewrite pval_tail by (intro X; apply Ev; symmetry; exact X).
    apply (IH _ _ (tnd_tl _ _ Hn) Hl Hle).
Qed.

(* a variable that is unassigned stays unassigned *)
Lemma drop_above_none lv : forall tr v, tnd tr -> pval (tl_lits tr) v = None -> pval (tl_lits (drop_above lv tr)) v = None.
Proof.
  induction tr as [|e t IH]; intros v Hn Hp; cbn [drop_above]; [reflexivity|].
  destruct (N.leb (t_level e) lv); [exact Hp|].
  apply IH; [apply (tnd_tl _ _ Hn)|].
  destruct (var_eqb (tvar e) v) eqn:Ev.
  - apply var_eqb_eq in Ev. subst v. rewrite pval_head in Hp. discriminate.
  - apply var_eqb_neq in Ev. rewrite pval_tail in Hp by (intro X; apply Ev; symmetry; exact X). exact Hp.
Qed.

Lemma skipn_sorted n : forall tr, sortedL tr -> sortedL (skipn n tr).
Proof. induction n as [|n IH]; intros [|e t] H; simpl; auto. apply IH. apply (sorted_tl _ _ H). Qed.

Lemma skipn_just db n : forall tr, justL db tr -> justL db (skipn n tr).
Proof. induction n as [|n IH]; intros [|e t] H; simpl; auto. apply IH. apply (justL_tl _ _ _ H). Qed.

(* ---------- the side condition of analyze_unsolvable ---------- *)

Section Walk.
Variable db : list cl.

(* every entry is the root assignment or is justified by its clause *)
Fixpoint allJust (tr : list tent) : Prop :=
  match tr with
  | [] => True
  | e :: rest => (if is_root (tvar e) then snd (t_lit e) = true else reason_ok db e rest = true) /\ allJust rest
  end.

Lemma walk_ok full : forall tr inv core seen ok coreF seenF okF,
  allJust tr -> ok = true -> walk db full tr inv core seen ok = Some (coreF, seenF, okF) -> okF = true.
Proof.
  induction tr as [|e rest IH]; intros inv core seen ok coreF seenF okF Ha Hok H; cbn [walk] in H.
  - inversion H. subst. reflexivity.
  - destruct Ha as [He Ha]. destruct (is_root (tvar e)).
    + apply (IH _ _ _ _ _ _ _ Ha) in H; [exact H|]. rewrite Hok, He. reflexivity.
    + destruct (negb (memv (tvar e) inv)); [apply (IH _ _ _ _ _ _ _ Ha Hok H)|].
      destruct (N.eqb (t_reason e) 0); [discriminate|].
      destruct (expand db (expand_fuel db) [t_reason e] core seen) as [[core' seen']|];
        [|destruct (nth_error db (N.to_nat (t_reason e))); discriminate].
      destruct (nth_error db (N.to_nat (t_reason e))) as [c|]; [|discriminate].
      destruct (mark full (tvar e) (cl_lits c) inv) as [inv'|]; [|discriminate].
      apply (IH _ _ _ _ _ _ _ Ha) in H; [exact H|]. rewrite Hok, He. reflexivity.
Qed.

(* on one level with the root at the bottom, justL is allJust *)
Lemma allJust_level1 : forall tr, Rooted tr -> tnd tr -> sortedL tr -> justL db tr ->
  (top_level tr <= 1)%N -> allJust tr.
Proof.
  induction tr as [|e t IH]; intros Hr Hn Hs Hj Htop; [exact I|].
  destruct (is_root (tvar e)) eqn:Er.
  - apply is_root_eq in Er. destruct (rooted_root_entry _ _ Hr Hn Er) as [E1 E2]. subst. simpl. auto.
  - assert (Hne : tvar e <> VRoot) by (intro X; rewrite X in Er; discriminate).
    pose proof (rooted_tail _ _ Hr Hn Hne) as Hrt.
    pose proof (rooted_top _ Hrt (sorted_tl _ _ Hs)) as H1.
    assert (Htop' : (top_level t <= 1)%N).
    { destruct t as [|x u]; [simpl; lia|]. destruct Hs as [Hle _]. simpl in *. lia. }
    split; [|apply (IH Hrt (tnd_tl _ _ Hn) (sorted_tl _ _ Hs) (proj2 Hj) Htop')].
    simpl. rewrite Er. destruct Hj as [[Hj1|Hj1] _]; [exact Hj1|]. simpl in Htop. lia.
Qed.

Definition why_older : Prop :=
  forall id c, nth_error db id = Some c -> forall j, In j (why_of c) -> (N.to_nat j < id)%nat.

Lemma why_lt_intro : forall l i,
  (forall k c, nth_error l k = Some c -> forall j, In j (why_of c) -> (j < i + N.of_nat k)%N) -> why_lt l i = true.
Proof.
  induction l as [|c t IH]; intros i H; simpl; [reflexivity|]. apply andb_true_iff. split.
  - apply forallb_forall. intros j Hj. apply N.ltb_lt. specialize (H O c eq_refl j Hj). simpl in H. lia.
  - apply IH. intros k c0 Hk j Hj. specialize (H (S k) c0 Hk j Hj). lia.
Qed.

Theorem unsolvable_ok tr conf core ok :
  unsolvable db tr conf = Some (core, ok) ->
  Rooted tr -> tnd tr -> sortedL tr -> justL db tr -> (top_level tr <= 1)%N -> why_older ->
  (forall c, nth_error db (N.to_nat conf) = Some c -> falsified tr (cl_lits c) = true) ->
  ok = true.
Proof.
  unfold unsolvable. intros H Hr Hn Hs Hj Htop Hwhy Hf.
  destruct (nth_error db (N.to_nat conf)) as [c|] eqn:Ec; [|discriminate].
  destruct (expand db (expand_fuel db) [conf] [] []) as [[core0 seen0]|]; [|discriminate].
  destruct (walk db tr tr (map fst (cl_lits c)) core0 seen0 (falsified tr (cl_lits c) && why_lt db 0)) as [[[cF sF] okF]|] eqn:Ew;
    [|discriminate].
  inversion H. subst. eapply walk_ok; [| |exact Ew].
  - apply allJust_level1; assumption.
  - rewrite (Hf c eq_refl). simpl. apply why_lt_intro. intros k c0 Hk j Hjw.
    specialize (Hwhy k c0 Hk j Hjw). lia.
Qed.

End Walk.
