(* Cdcl/DecideProofs.v -- what the decide model guarantees, for every clause
   database, assignment and activity comparison:

   decide_legal      the assignment it proposes is a legal decision of the abstract
                     machine (Cdcl/Trail.v): rule D1 (first non-false candidate of a
                     Requires clause whose parent is installed and none of whose
                     candidates is) and rule D2 (a requirement of the root while one
                     is open) -- so everything proven about runs of the machine (C07,
                     C08, C05) applies to runs whose decisions come from decide;
   decide_complete   when it proposes nothing, every Requires clause of an installed
                     parent has an installed candidate;
   decide_panic      the unreachable!() is reached only with a Requires clause that
                     is falsified by the assignment. *)
From Resolvo Require Export Cdcl.Decide.
From Coq Require Import Lia.

Section Proofs.
Variable U : provider.
Variable act_ge : N -> N -> bool.
Variable pa : list lit.

Definition cfalse (c : N) : Prop := pval pa (VSol c) = Some false.
Definition cnottrue (c : N) : Prop := pval pa (VSol c) <> Some true.

(* ---------- scanning the candidates of one clause ---------- *)

Lemma scan_cands_nottrue vs : forall cs st st', scan_cands pa vs cs st = Some st' -> Forall cnottrue cs.
Proof.
  induction cs as [|c t IH]; intros st st'; simpl; [constructor|].
  destruct (pval pa (VSol c)) as [[|]|] eqn:E; [discriminate| |]; intro H; constructor;
    try (unfold cnottrue; rewrite E; discriminate); eapply IH; exact H.
Qed.

Lemma scan_cands_keep vs : forall cs f fvs n st', scan_cands pa vs cs (Some (f, fvs, n)) = Some st' ->
  exists n', st' = Some (f, fvs, n').
Proof.
  induction cs as [|c t IH]; intros f fvs n st'; simpl.
  - intro H. inversion H. eauto.
  - destruct (pval pa (VSol c)) as [[|]|]; [discriminate | apply IH | apply IH].
Qed.

Lemma scan_cands_none vs : forall cs, scan_cands pa vs cs None = Some None -> Forall cfalse cs.
Proof.
  induction cs as [|c t IH]; simpl; [constructor|].
  destruct (pval pa (VSol c)) as [[|]|] eqn:E; [discriminate| |].
  - intro H. constructor; [exact E | apply IH; exact H].
  - intro H. destruct (scan_cands_keep _ _ _ _ _ _ H) as [n' E']. discriminate E'.
Qed.

Lemma scan_cands_first vs : forall cs f fvs n, scan_cands pa vs cs None = Some (Some (f, fvs, n)) ->
  exists l1 l2, cs = l1 ++ f :: l2 /\ Forall cfalse l1 /\ pval pa (VSol f) = None.
Proof.
  induction cs as [|c t IH]; intros f fvs n; simpl; [discriminate|].
  destruct (pval pa (VSol c)) as [[|]|] eqn:E; [discriminate| |].
  - intro H. destruct (IH _ _ _ H) as [l1 [l2 [E1 [F1 Hf]]]]. exists (c :: l1), l2. subst t.
    split; [reflexivity|]. split; [constructor; assumption | exact Hf].
  - intro H. destruct (scan_cands_keep _ _ _ _ _ _ H) as [n' E']. inversion E'. subst.
    exists [], t. split; [reflexivity|]. split; [constructor | exact E].
Qed.

Lemma scan_cands_break vs : forall cs st, scan_cands pa vs cs st = None -> exists c, In c cs /\ pval pa (VSol c) = Some true.
Proof.
  induction cs as [|c t IH]; intros st; simpl; [discriminate|].
  destruct (pval pa (VSol c)) as [[|]|] eqn:E.
  - intros _. exists c. split; [left; reflexivity | exact E].
  - intro H. destruct (IH _ H) as [x [Hx Ex]]. exists x. split; [right; exact Hx | exact Ex].
  - intro H. destruct (IH _ H) as [x [Hx Ex]]. exists x. split; [right; exact Hx | exact Ex].
Qed.

Definition all_cs (zs : list (N * list N)) : list N := concat (map snd zs).

Lemma scan_req_nottrue : forall zs st st', scan_req pa zs st = Some st' -> Forall cnottrue (all_cs zs).
Proof.
  induction zs as [|[vs cs] t IH]; intros st st'; simpl; [constructor|].
  destruct (scan_cands pa vs cs st) as [st1|] eqn:E; [|discriminate]. intro H.
  unfold all_cs. simpl. apply Forall_app. split; [eapply scan_cands_nottrue; exact E | eapply IH; exact H].
Qed.

Lemma scan_req_keep : forall zs f fvs n st', scan_req pa zs (Some (f, fvs, n)) = Some st' -> exists n', st' = Some (f, fvs, n').
Proof.
  induction zs as [|[vs cs] t IH]; intros f fvs n st'; simpl.
  - intro H. inversion H. eauto.
  - destruct (scan_cands pa vs cs (Some (f, fvs, n))) as [st1|] eqn:E; [|discriminate].
    destruct (scan_cands_keep _ _ _ _ _ _ E) as [n1 E1]. subst st1. apply IH.
Qed.

Lemma scan_req_none : forall zs, scan_req pa zs None = Some None -> Forall cfalse (all_cs zs).
Proof.
  induction zs as [|[vs cs] t IH]; simpl; [constructor|].
  destruct (scan_cands pa vs cs None) as [[[[f fvs] n]|]|] eqn:E; [| |discriminate].
  - intro H. destruct (scan_req_keep _ _ _ _ _ H) as [n' E']. discriminate E'.
  - intro H. unfold all_cs. simpl. apply Forall_app. split; [apply (scan_cands_none _ _ E) | apply IH; exact H].
Qed.

Lemma scan_req_first : forall zs f fvs n, scan_req pa zs None = Some (Some (f, fvs, n)) ->
  exists l1 l2, all_cs zs = l1 ++ f :: l2 /\ Forall cfalse l1 /\ pval pa (VSol f) = None.
Proof.
  induction zs as [|[vs cs] t IH]; intros f fvs n; simpl; [discriminate|].
  destruct (scan_cands pa vs cs None) as [[[[f1 fvs1] n1]|]|] eqn:E; [| |discriminate].
  - intro H. destruct (scan_req_keep _ _ _ _ _ H) as [n' E']. inversion E'. subst f1 fvs1.
    destruct (scan_cands_first _ _ _ _ _ E) as [l1 [l2 [E1 [F1 Hf]]]].
    exists l1, (l2 ++ all_cs t). unfold all_cs. simpl. rewrite E1, <- app_assoc. split; [reflexivity|]. split; assumption.
  - intro H. destruct (IH _ _ _ H) as [l1 [l2 [E1 [F1 Hf]]]].
    exists (cs ++ l1), l2. unfold all_cs in *. simpl. rewrite E1, <- app_assoc. split; [reflexivity|].
    split; [apply Forall_app; split; [apply (scan_cands_none _ _ E) | exact F1] | exact Hf].
Qed.

Lemma scan_req_break : forall zs st, scan_req pa zs st = None -> exists c, In c (all_cs zs) /\ pval pa (VSol c) = Some true.
Proof.
  induction zs as [|[vs cs] t IH]; intros st; simpl; [discriminate|].
  destruct (scan_cands pa vs cs st) as [st1|] eqn:E.
  - intro H. destruct (IH _ H) as [c [Hc Ec]]. exists c. split; [|exact Ec]. unfold all_cs. simpl. apply in_or_app. right. exact Hc.
  - intros _. destruct (scan_cands_break _ _ _ E) as [c [Hc Ec]]. exists c. split; [|exact Ec].
    unfold all_cs. simpl. apply in_or_app. left. exact Hc.
Qed.

(* ---------- candidates as literals ---------- *)

Lemma lit_false_pos c : lit_false pa (pos c) = true <-> cfalse c.
Proof.
  unfold lit_false, lit_val, cfalse, pos. simpl. destruct (pval pa (VSol c)) as [[|]|]; simpl; split; intro H; try discriminate; reflexivity.
Qed.

Lemma lit_istrue_pos c : lit_istrue pa (pos c) = true <-> pval pa (VSol c) = Some true.
Proof.
  unfold lit_istrue, lit_val, pos. simpl. destruct (pval pa (VSol c)) as [[|]|]; simpl; split; intro H; try discriminate; reflexivity.
Qed.

Lemma none_true_pos cs : Forall cnottrue cs -> none_true pa (map pos cs) = true.
Proof.
  intro H. unfold none_true. apply forallb_forall. intros x Hx. apply in_map_iff in Hx. destruct Hx as [c [Ex Hc]]. subst x.
  rewrite Forall_forall in H. specialize (H c Hc). unfold cnottrue in H.
  destruct (lit_istrue pa (pos c)) eqn:E; [|reflexivity]. apply lit_istrue_pos in E. contradiction.
Qed.

Lemma first_nonfalse_pos l1 f l2 : Forall cfalse l1 -> pval pa (VSol f) = None ->
  first_nonfalse pa (map pos (l1 ++ f :: l2)) = Some (pos f).
Proof.
  intros H Hf. unfold first_nonfalse. induction l1 as [|c t IH]; simpl.
  - unfold lit_false, lit_val, pos. simpl. rewrite Hf. reflexivity.
  - inversion H as [|? ? Hc Ht]. subst. rewrite (proj2 (lit_false_pos c) Hc). simpl. apply IH. exact Ht.
Qed.

(* ---------- one clause ---------- *)

Lemma map_snd_combine {A B} : forall (a : list A) (b : list B), length b = length a -> map snd (combine a b) = b.
Proof.
  induction a as [|x a IH]; intros [|y b]; simpl; intro H; try discriminate; [reflexivity|].
  f_equal. apply IH. lia.
Qed.

Lemma zipped_all c p r cands : ck c = KRequires p r cands -> req_wf U c = true -> all_cs (zipped U c) = concat cands.
Proof.
  intros Hk Hw. unfold zipped, req_wf in *. rewrite Hk in *. apply andb_true_iff in Hw. destruct Hw as [Hl _].
  apply Nat.eqb_eq in Hl. unfold all_cs. rewrite map_snd_combine; [reflexivity | exact Hl].
Qed.

Lemma wf_lits c p r cands : ck c = KRequires p r cands -> req_wf U c = true -> cl_lits c = (p, false) :: map pos (concat cands).
Proof.
  intros Hk Hw. unfold req_wf in Hw. rewrite Hk in Hw. apply andb_true_iff in Hw. destruct Hw as [_ Hl]. apply lits_eqb_eq in Hl. exact Hl.
Qed.

(* a proposal: none of the candidates is installed and the proposed one is the first that is not false *)
Lemma clause_scan_cand c p r cands f vs n :
  ck c = KRequires p r cands -> req_wf U c = true -> clause_scan U pa c = CCand f vs n ->
  none_true pa (map pos (concat cands)) = true /\ first_nonfalse pa (map pos (concat cands)) = Some (pos f) /\
  pval pa (VSol f) = None.
Proof.
  intros Hk Hw H. unfold clause_scan in H. rewrite <- (zipped_all c p r cands Hk Hw).
  destruct (zipped U c) as [|z zs] eqn:Ez; [discriminate|].
  destruct (scan_req pa (z :: zs) None) as [[[[f1 vs1] n1]|]|] eqn:Es; try discriminate. inversion H. subst f1 vs1 n1.
  split.
  - apply none_true_pos. eapply scan_req_nottrue. exact Es.
  - destruct (scan_req_first _ _ _ _ Es) as [l1 [l2 [E1 [F1 Hf]]]]. rewrite E1. split; [apply first_nonfalse_pos; assumption | exact Hf].
Qed.

(* skipped: a candidate is installed, or the requirement has no candidates at all *)
Lemma clause_scan_skip c p r cands :
  ck c = KRequires p r cands -> req_wf U c = true -> clause_scan U pa c = CSkip ->
  concat cands = [] \/ exists x, In x (concat cands) /\ pval pa (VSol x) = Some true.
Proof.
  intros Hk Hw H. unfold clause_scan in H. rewrite <- (zipped_all c p r cands Hk Hw).
  destruct (zipped U c) as [|z zs] eqn:Ez; [left; reflexivity|].
  destruct (scan_req pa (z :: zs) None) as [[[[f1 vs1] n1]|]|] eqn:Es; try discriminate.
  right. apply (scan_req_break _ _ Es).
Qed.

(* unreachable!(): there are candidates and all of them are false *)
Lemma clause_scan_panic c p r cands :
  ck c = KRequires p r cands -> req_wf U c = true -> clause_scan U pa c = CPanic ->
  Forall cfalse (concat cands).
Proof.
  intros Hk Hw H. unfold clause_scan in H. rewrite <- (zipped_all c p r cands Hk Hw).
  destruct (zipped U c) as [|z zs] eqn:Ez; [discriminate|].
  destruct (scan_req pa (z :: zs) None) as [[[[f1 vs1] n1]|]|] eqn:Es; try discriminate.
  apply (scan_req_none _ Es).
Qed.


(* ---------- requires_clauses as groups ---------- *)

Definition entry_ok (db : list cl) (p : var) (x : N * cl) : Prop :=
  nth_error db (N.to_nat (fst x)) = Some (snd x) /\ exists r cands, ck (snd x) = KRequires p r cands.

Definition groups_ok (db : list cl) (g : list (var * list (N * cl))) : Prop :=
  forall p l x, In (p, l) g -> In x l -> entry_ok db p x.

Lemma add_group_in p x : forall g q l y, In (q, l) (add_group p x g) -> In y l ->
  (exists l0, In (q, l0) g /\ In y l0) \/ (q = p /\ y = x).
Proof.
  induction g as [|[q0 l0] t IH]; intros q l y Hin Hy; simpl in Hin.
  - destruct Hin as [E|[]]. inversion E. subst. destruct Hy as [E'|[]]. right. split; [reflexivity | symmetry; exact E'].
  - destruct (var_eqb p q0) eqn:Ev.
    + apply var_eqb_eq in Ev. subst q0. destruct Hin as [E|Hin].
      * inversion E. subst. apply in_app_or in Hy. destruct Hy as [Hy|[Hy|[]]].
        -- left. exists l0. split; [left; reflexivity | exact Hy].
        -- right. split; [reflexivity | symmetry; exact Hy].
      * left. exists l. split; [right; exact Hin | exact Hy].
    + destruct Hin as [E|Hin].
      * inversion E. subst. left. exists l. split; [left; reflexivity | exact Hy].
      * destruct (IH _ _ _ Hin Hy) as [[l1 [H1 H2]]|R]; [left; exists l1; split; [right; exact H1 | exact H2] | right; exact R].
Qed.

Lemma add_group_has p x : forall g, exists l, In (p, l) (add_group p x g) /\ In x l.
Proof.
  induction g as [|[q0 l0] t IH]; simpl.
  - exists [x]. split; left; reflexivity.
  - destruct (var_eqb p q0) eqn:Ev.
    + apply var_eqb_eq in Ev. subst. exists (l0 ++ [x]). split; [left; reflexivity | apply in_or_app; right; left; reflexivity].
    + destruct IH as [l [H1 H2]]. exists l. split; [right; exact H1 | exact H2].
Qed.

Lemma add_group_mono p x : forall g q l0, In (q, l0) g -> exists l, In (q, l) (add_group p x g) /\ incl l0 l.
Proof.
  induction g as [|[q0 l1] t IH]; intros q l0 Hin; [destruct Hin|]. simpl.
  destruct (var_eqb p q0) eqn:Ev.
  - destruct Hin as [E|Hin].
    + inversion E. subst. exists (l0 ++ [x]). split; [left; reflexivity | apply incl_appl; apply incl_refl].
    + exists l0. split; [right; exact Hin | apply incl_refl].
  - destruct Hin as [E|Hin].
    + inversion E. subst. exists l0. split; [left; reflexivity | apply incl_refl].
    + destruct (IH _ _ Hin) as [l [H1 H2]]. exists l. split; [right; exact H1 | exact H2].
Qed.

Lemma add_group_keys p x : forall g,
  map fst (add_group p x g) = if existsb (var_eqb p) (map fst g) then map fst g else map fst g ++ [p].
Proof.
  induction g as [|[q0 l0] t IH]; simpl; [reflexivity|].
  destruct (var_eqb p q0) eqn:Ev; simpl; [reflexivity|]. rewrite IH.
  destruct (existsb (var_eqb p) (map fst t)); reflexivity.
Qed.

Lemma nodup_snoc {A} (l : list A) (a : A) : NoDup l -> ~ In a l -> NoDup (l ++ [a]).
Proof.
  induction l as [|b t IH]; simpl; intros H Hn; [constructor; [intros [] | constructor]|].
  inversion H as [|? ? Hb Ht]. subst. constructor.
  - intro Hin. apply in_app_or in Hin. destruct Hin as [Hin|[E|[]]]; [contradiction | subst; apply Hn; left; reflexivity].
  - apply IH; [exact Ht | intro Hin; apply Hn; right; exact Hin].
Qed.

Lemma add_group_nodup p x g : NoDup (map fst g) -> NoDup (map fst (add_group p x g)).
Proof.
  intro H. rewrite add_group_keys. destruct (existsb (var_eqb p) (map fst g)) eqn:E; [exact H|].
  apply nodup_snoc; [exact H|]. intro Hin.
  assert (existsb (var_eqb p) (map fst g) = true) by (apply existsb_exists; exists p; split; [exact Hin | apply var_eqb_refl]).
  congruence.
Qed.

Lemma groups_from_ok : forall suf pre g, groups_ok (pre ++ suf) g ->
  groups_ok (pre ++ suf) (groups_from suf (N.of_nat (length pre)) g).
Proof.
  induction suf as [|c t IH]; intros pre g Hg; simpl; [exact Hg|].
  replace (pre ++ c :: t) with ((pre ++ [c]) ++ t) in * by (rewrite <- app_assoc; reflexivity).
  replace (N.succ (N.of_nat (length pre))) with (N.of_nat (length (pre ++ [c]))) by (rewrite app_length; simpl; lia).
  apply IH. destruct (ck c) as [|p r cands| | | | |] eqn:Ek; try exact Hg.
  intros q l y Hin Hy. destruct (add_group_in _ _ _ _ _ _ Hin Hy) as [[l0 [H1 H2]]|[Eq Ey]]; [apply (Hg q l0 y H1 H2)|].
  subst q y. split; simpl.
  - rewrite Nat2N.id, <- app_assoc. simpl. rewrite nth_error_app2 by lia. rewrite Nat.sub_diag. reflexivity.
  - eauto.
Qed.

Lemma groups_from_mono : forall suf i g q l0, In (q, l0) g -> exists l, In (q, l) (groups_from suf i g) /\ incl l0 l.
Proof.
  induction suf as [|c t IH]; intros i g q l0 Hin; simpl; [exists l0; split; [exact Hin | apply incl_refl]|].
  destruct (ck c) as [|p r cands| | | | |]; try (apply IH; exact Hin).
  destruct (add_group_mono p (i, c) g q l0 Hin) as [l1 [H1 H2]].
  destruct (IH (N.succ i) _ _ _ H1) as [l [H3 H4]]. exists l. split; [exact H3 | eapply incl_tran; eauto].
Qed.

Lemma groups_from_complete : forall suf i g k c p r cands,
  nth_error suf k = Some c -> ck c = KRequires p r cands ->
  exists l, In (p, l) (groups_from suf i g) /\ In ((i + N.of_nat k)%N, c) l.
Proof.
  induction suf as [|c0 t IH]; intros i g k c p r cands Hk Hc; [destruct k; discriminate|].
  destruct k as [|k]; simpl in Hk.
  - inversion Hk. subst c0. simpl. rewrite Hc.
    destruct (add_group_has p (i, c) g) as [l1 [H1 H2]].
    destruct (groups_from_mono t (N.succ i) _ _ _ H1) as [l [H3 H4]]. exists l. split; [exact H3|].
    apply H4. change (N.of_nat 0) with 0%N. rewrite N.add_0_r. exact H2.
  - simpl. destruct (IH (N.succ i) (match ck c0 with KRequires p0 _ _ => add_group p0 (i, c0) g | _ => g end) k c p r cands Hk Hc) as [l [H1 H2]].
    exists l. split; [exact H1|]. change (N.pos (Pos.of_succ_nat k)) with (N.of_nat (S k)). replace (i + N.of_nat (S k))%N with (N.succ i + N.of_nat k)%N by lia. exact H2.
Qed.

Lemma groups_from_nodup : forall suf i g, NoDup (map fst g) -> NoDup (map fst (groups_from suf i g)).
Proof.
  induction suf as [|c t IH]; intros i g H; simpl; [exact H|].
  apply IH. destruct (ck c); try exact H. apply add_group_nodup. exact H.
Qed.

Lemma groups_ok_db db : groups_ok db (groups db).
Proof. apply (groups_from_ok db [] []). intros p l x []. Qed.

Lemma groups_nodup db : NoDup (map fst (groups db)).
Proof. apply groups_from_nodup. constructor. Qed.

Lemma groups_complete db k c p r cands : nth_error db k = Some c -> ck c = KRequires p r cands ->
  exists l, In (p, l) (groups db) /\ In (N.of_nat k, c) l.
Proof. intros Hk Hc. destruct (groups_from_complete db 0 [] k c p r cands Hk Hc) as [l [H1 H2]]. exists l. split; assumption. Qed.

(* ---------- choosing among the proposals ---------- *)

Variable db : list cl.
Hypothesis Hwf : forall c, In c db -> req_wf U c = true.

Definition pd_ok (d : pdec) : Prop :=
  exists c r cands vs,
    nth_error db (N.to_nat (pd_clause d)) = Some c /\ ck c = KRequires (pd_parent d) r cands /\
    clause_scan U pa c = CCand (pd_cand d) vs (pd_count d) /\ pd_explicit d = is_vroot (pd_parent d) /\
    lit_istrue pa (pd_parent d, true) = true.

Definition opt_ok (b : option pdec) : Prop := forall d, b = Some d -> pd_ok d.

Lemma better_cases best new : better act_ge best new = best \/ better act_ge best new = Some new.
Proof.
  unfold better. destruct best as [b|]; [|right; reflexivity].
  destruct (pd_explicit b && negb (pd_explicit new)); [left; reflexivity|].
  destruct (act_ge (pd_name b) (pd_name new)); [left; reflexivity|].
  destruct (N.leb (pd_count b) (pd_count new)); [left; reflexivity | right; reflexivity].
Qed.

Lemma better_explicit best new : best_explicit best = true -> best_explicit (better act_ge best new) = true.
Proof.
  destruct best as [b|]; simpl; [|discriminate]. intro Hb. rewrite Hb. simpl.
  destruct (pd_explicit new) eqn:En; simpl; [|exact Hb].
  destruct (act_ge (pd_name b) (pd_name new)); [exact Hb|].
  destruct (N.leb (pd_count b) (pd_count new)); [exact Hb | exact En].
Qed.

Lemma better_not_none best new : better act_ge best new <> None.
Proof. destruct (better_cases best new) as [E|E]; rewrite E; [|discriminate]. unfold better. destruct best; discriminate. Qed.

Lemma better_explicit_new best new : pd_explicit new = true -> best = None \/ best_explicit best = true ->
  best_explicit (better act_ge best new) = true.
Proof.
  intros Hn [E|E]; [subst; simpl; exact Hn | apply better_explicit; exact E].
Qed.

Lemma dec_clauses_spec p : forall l best best',
  dec_clauses U act_ge pa p l best = Some best' ->
  (forall x, In x l -> entry_ok db p x) -> lit_istrue pa (p, true) = true ->
  (opt_ok best -> opt_ok best') /\
  (best_explicit best = true -> best_explicit best' = true) /\
  (is_vroot p = true -> best = None \/ best_explicit best = true -> best' = None \/ best_explicit best' = true) /\
  (best' = None -> best = None /\ forall x, In x l -> clause_scan U pa (snd x) = CSkip).
Proof.
  induction l as [|[i c] t IH]; intros best best' H Hl Hp; simpl in H.
  - inversion H. subst. split; [auto|]. split; [auto|]. split; [auto|]. intro Hn. split; [exact Hn | intros x []].
  - assert (Ht : forall x, In x t -> entry_ok db p x) by (intros x Hx; apply Hl; right; exact Hx).
    destruct (clause_scan U pa c) as [| |f vs n] eqn:Ec; [| discriminate |].
    + destruct (IH _ _ H Ht Hp) as [A [B [C D]]]. split; [exact A|]. split; [exact B|]. split; [exact C|].
      intro Hn. destruct (D Hn) as [D1 D2]. split; [exact D1|].
      intros x [E|Hx]; [subst x; exact Ec | apply D2; exact Hx].
    + set (new := mkPd (is_vroot p) (p_vs_name U vs) n f p i) in *.
      destruct (IH _ _ H Ht Hp) as [A [B [C D]]]. split; [|split; [|split]].
      * intro Hb. apply A. intros d Hd. destruct (better_cases best new) as [E|E]; rewrite E in Hd.
        -- apply Hb; exact Hd.
        -- inversion Hd. subst d. destruct (Hl (i, c) (or_introl eq_refl)) as [Hn [r [cands Hk]]]. simpl in Hn, Hk.
           exists c, r, cands, vs. unfold new; simpl. repeat split; assumption.
      * intro Hb. apply B. apply better_explicit. exact Hb.
      * intros Hr Hb. apply C; [exact Hr|]. right. apply better_explicit_new; [exact Hr | exact Hb].
      * intro Hn. destruct (D Hn) as [E _]. exfalso. apply (better_not_none _ _ E).
Qed.

Lemma dec_clauses_panic p : forall l best, dec_clauses U act_ge pa p l best = None ->
  exists x, In x l /\ clause_scan U pa (snd x) = CPanic.
Proof.
  induction l as [|[i c] t IH]; intros best H; simpl in H; [discriminate|].
  destruct (clause_scan U pa c) as [| |f vs n] eqn:Ec.
  - destruct (IH _ H) as [x [Hx Ex]]. exists x. split; [right; exact Hx | exact Ex].
  - exists (i, c). split; [left; reflexivity | exact Ec].
  - destruct (IH _ H) as [x [Hx Ex]]. exists x. split; [right; exact Hx | exact Ex].
Qed.

Lemma dec_groups_spec : forall g best best',
  dec_groups U act_ge pa g best = Some best' -> groups_ok db g ->
  (opt_ok best -> opt_ok best') /\
  (best_explicit best = true -> best_explicit best' = true) /\
  (best' = None -> best = None /\
     forall p l x, In (p, l) g -> lit_istrue pa (p, true) = true -> In x l -> clause_scan U pa (snd x) = CSkip).
Proof.
  induction g as [|[p l] t IH]; intros best best' H Hg; simpl in H.
  - inversion H. subst. split; [auto|]. split; [auto|]. intro Hn. split; [exact Hn | intros p l x []].
  - assert (Ht : groups_ok db t) by (intros q l0 x Hin Hx; apply (Hg q l0 x); [right; exact Hin | exact Hx]).
    assert (Hl : forall x, In x l -> entry_ok db p x) by (intros x Hx; apply (Hg p l x); [left; reflexivity | exact Hx]).
    destruct (best_explicit best && negb (is_vroot p)) eqn:Esk.
    + destruct (IH _ _ H Ht) as [A [B C]]. split; [exact A|]. split; [exact B|].
      intro Hn. destruct (C Hn) as [E _]. subst best. discriminate Esk.
    + destruct (negb (lit_istrue pa (p, true))) eqn:Ep.
      * destruct (IH _ _ H Ht) as [A [B C]]. split; [exact A|]. split; [exact B|].
        intro Hn. destruct (C Hn) as [C1 C2]. split; [exact C1|].
        intros q l0 x [E|Hin] Hq Hx; [inversion E; subst; rewrite Hq in Ep; discriminate | apply (C2 q l0 x Hin Hq Hx)].
      * apply negb_false_iff in Ep.
        destruct (dec_clauses U act_ge pa p l best) as [b1|] eqn:Ed; [|discriminate].
        destruct (dec_clauses_spec p l best b1 Ed Hl Ep) as [A1 [B1 [_ D1]]].
        destruct (IH _ _ H Ht) as [A [B C]]. split; [auto|]. split; [auto|].
        intro Hn. destruct (C Hn) as [C1 C2]. destruct (D1 C1) as [D2 D3]. split; [exact D2|].
        intros q l0 x [E|Hin] Hq Hx.
        -- inversion E. subst q l0. apply D3; exact Hx.
        -- apply (C2 q l0 x Hin Hq Hx).
Qed.

Lemma dec_groups_panic : forall g best, dec_groups U act_ge pa g best = None ->
  exists p l x, In (p, l) g /\ lit_istrue pa (p, true) = true /\ In x l /\ clause_scan U pa (snd x) = CPanic.
Proof.
  induction g as [|[p l] t IH]; intros best H; simpl in H; [discriminate|].
  destruct (best_explicit best && negb (is_vroot p)).
  - destruct (IH _ H) as [q [l0 [x [H1 H2]]]]. exists q, l0, x. split; [right; exact H1 | exact H2].
  - destruct (negb (lit_istrue pa (p, true))) eqn:Ep.
    + destruct (IH _ H) as [q [l0 [x [H1 H2]]]]. exists q, l0, x. split; [right; exact H1 | exact H2].
    + apply negb_false_iff in Ep. destruct (dec_clauses U act_ge pa p l best) as [b1|] eqn:Ed.
      * destruct (IH _ H) as [q [l0 [x [H1 H2]]]]. exists q, l0, x. split; [right; exact H1 | exact H2].
      * destruct (dec_clauses_panic p l best Ed) as [x [Hx Ex]]. exists p, l, x. repeat split; [left; reflexivity | exact Ep | exact Hx | exact Ex].
Qed.


(* ---------- the theorems ---------- *)

Lemma nth_error_In' {A} (l : list A) n x : nth_error l n = Some x -> In x l.
Proof. apply nth_error_In. Qed.

Lemma open_root_skip c r cands :
  ck c = KRequires VRoot r cands -> req_wf U c = true -> clause_scan U pa c = CSkip -> open_root pa c = false.
Proof.
  intros Hk Hw Hs. unfold open_root. rewrite Hk, (wf_lits c VRoot r cands Hk Hw).
  destruct (clause_scan_skip c VRoot r cands Hk Hw Hs) as [E|[x [Hx Ex]]].
  - rewrite E. simpl. reflexivity.
  - apply andb_false_iff. left. unfold none_true.
    destruct (forallb (fun y => negb (lit_istrue pa y)) (map pos (concat cands))) eqn:F; [|reflexivity].
    rewrite forallb_forall in F. specialize (F (pos x) (in_map pos _ _ Hx)).
    rewrite (proj2 (lit_istrue_pos x) Ex) in F. discriminate F.
Qed.

(* D1 + D2: the proposal is a legal decision of the abstract machine *)
Theorem decide_legal d :
  root_first db = true -> lit_istrue pa (VRoot, true) = true ->
  decide U act_ge db pa = Some (Some d) ->
  exists c, nth_error db (N.to_nat (pd_clause d)) = Some c /\
            decision_kind db pa c (VSol (pd_cand d), true) = Some (if is_vroot (pd_parent d) then ERootDec else EDec).
Proof.
  intros Hrf Hroot H. unfold decide in H.
  destruct (dec_groups_spec _ _ _ H (groups_ok_db db)) as [A _].
  assert (Hd : pd_ok d) by (apply A; [intros d0 E; discriminate E | reflexivity]).
  destruct Hd as [c [r [cands [vs [Hn [Hk [Hs [He Hp]]]]]]]].
  exists c. split; [exact Hn|].
  assert (Hw : req_wf U c = true) by (apply Hwf; eapply nth_error_In; exact Hn).
  destruct (clause_scan_cand c _ r cands _ _ _ Hk Hw Hs) as [Hnt [Hff _]].
  unfold decision_kind. rewrite Hk, (wf_lits c _ r cands Hk Hw).
  rewrite var_eqb_refl, Hp, Hnt, Hff. cbn [snd andb opt_lit_eqb]. rewrite lit_eqb_refl.
  destruct (is_vroot (pd_parent d)) eqn:Er; [reflexivity|].
  (* D2: no requirement of the root is open *)
  assert (Hno : existsb (open_root pa) db = false).
  { destruct (existsb (open_root pa) db) eqn:Ex; [|reflexivity]. exfalso.
    apply existsb_exists in Ex. destruct Ex as [c0 [Hc0 Ho]].
    assert (Hk0 : exists r0 cands0, ck c0 = KRequires VRoot r0 cands0).
    { unfold open_root in Ho. destruct (ck c0) as [|p0 r0 cands0| | | | |]; try discriminate Ho.
      destruct p0; try discriminate Ho. eauto. }
    destruct Hk0 as [r0 [cands0 Hk0]].
    destruct (In_nth_error _ _ Hc0) as [k Hk'].
    destruct (groups_complete db k c0 VRoot r0 cands0 Hk' Hk0) as [l [Hg Hx]].
    unfold root_first in Hrf. destruct (groups db) as [|[p0 l0] rest] eqn:Eg; [destruct Hg|].
    apply orb_true_iff in Hrf. destruct Hrf as [Hp0|Hne].
    2:{ apply negb_true_iff in Hne.
        assert (existsb (fun c1 => match ck c1 with KRequires VRoot _ _ => true | _ => false end) db = true)
          by (apply existsb_exists; exists c0; split; [exact Hc0 | rewrite Hk0; reflexivity]).
        congruence. }
    assert (p0 = VRoot) by (destruct p0; try discriminate Hp0; reflexivity). subst p0.
    assert (l = l0).
    { destruct Hg as [E|Hin]; [inversion E; reflexivity|]. exfalso.
      pose proof (groups_nodup db) as Hnd. rewrite Eg in Hnd. simpl in Hnd. inversion Hnd as [|? ? Hni _]. subst.
      apply Hni. apply in_map_iff. exists (VRoot, l). split; [reflexivity | exact Hin]. }
    subst l0.
    assert (Hgo : groups_ok db ((VRoot, l) :: rest)) by (rewrite <- Eg; apply groups_ok_db).
    cbn [dec_groups best_explicit andb is_vroot negb] in H. rewrite Hroot in H. cbn [negb] in H.
    destruct (dec_clauses U act_ge pa VRoot l None) as [b1|] eqn:Ed; [|discriminate].
    assert (Hl : forall x, In x l -> entry_ok db VRoot x) by (intros x Hx'; apply (Hgo VRoot l x); [left; reflexivity | exact Hx']).
    destruct (dec_clauses_spec VRoot l None b1 Ed Hl Hroot) as [_ [_ [C D]]].
    assert (Hrest : groups_ok db rest) by (intros q l1 x Hin Hx'; apply (Hgo q l1 x); [right; exact Hin | exact Hx']).
    destruct (dec_groups_spec _ _ _ H Hrest) as [_ [B _]].
    destruct (C eq_refl (or_introl eq_refl)) as [Eb|Eb].
    - destruct (D Eb) as [_ Dall]. specialize (Dall (N.of_nat k, c0) Hx). simpl in Dall.
      rewrite (open_root_skip c0 r0 cands0 Hk0 (Hwf c0 Hc0) Dall) in Ho. discriminate Ho.
    - specialize (B Eb). simpl in B. rewrite He in B. discriminate B. }
  rewrite Hno. reflexivity.
Qed.

(* in the machine's own terms: pushing the proposal with its clause as reason is a legal step *)
Corollary decide_classified soft d :
  root_first db = true -> lit_istrue pa (VRoot, true) = true -> pd_clause d <> 0%N ->
  decide U act_ge db pa = Some (Some d) ->
  classify soft db pa (VSol (pd_cand d), true) (pd_clause d) = Some EProp \/
  classify soft db pa (VSol (pd_cand d), true) (pd_clause d) = Some (if is_vroot (pd_parent d) then ERootDec else EDec).
Proof.
  intros Hrf Hroot Hnz H. destruct (decide_legal d Hrf Hroot H) as [c [Hn Hdk]].
  unfold decide in H. destruct (dec_groups_spec _ _ _ H (groups_ok_db db)) as [A _].
  assert (Hd : pd_ok d) by (apply A; [intros d0 E; discriminate E | reflexivity]).
  destruct Hd as [c' [r [cands [vs [Hn' [Hk [Hs _]]]]]]]. rewrite Hn in Hn'. inversion Hn'. subst c'.
  assert (Hw : req_wf U c = true) by (apply Hwf; eapply nth_error_In; exact Hn).
  destruct (clause_scan_cand c _ r cands _ _ _ Hk Hw Hs) as [_ [_ Hun]].
  unfold classify. cbn [fst]. rewrite Hun. apply N.eqb_neq in Hnz. rewrite Hnz, Hn.
  destruct (unit_under pa (cl_lits c) (VSol (pd_cand d), true)); [left; reflexivity | right; exact Hdk].
Qed.

(* nothing proposed: every requirement of an installed solvable is met (or has no candidates at all) *)
Theorem decide_complete :
  decide U act_ge db pa = Some None ->
  forall c p r cands, In c db -> ck c = KRequires p r cands -> lit_istrue pa (p, true) = true ->
  concat cands = [] \/ exists x, In x (concat cands) /\ pval pa (VSol x) = Some true.
Proof.
  intros H c p r cands Hc Hk Hp. unfold decide in H.
  destruct (dec_groups_spec _ _ _ H (groups_ok_db db)) as [_ [_ C]].
  destruct (C eq_refl) as [_ Call].
  destruct (In_nth_error _ _ Hc) as [k Hk'].
  destruct (groups_complete db k c p r cands Hk' Hk) as [l [Hg Hx]].
  specialize (Call p l (N.of_nat k, c) Hg Hp Hx). simpl in Call.
  apply (clause_scan_skip c p r cands Hk (Hwf c Hc) Call).
Qed.

(* the unreachable!() of the code needs a Requires clause that the assignment falsifies *)
Theorem decide_panic :
  decide U act_ge db pa = None ->
  exists c p r cands, In c db /\ ck c = KRequires p r cands /\ lit_istrue pa (p, true) = true /\
                      Forall cfalse (concat cands).
Proof.
  intro H. unfold decide in H.
  destruct (dec_groups_panic _ _ H) as [p [l [x [Hg [Hp [Hx Hs]]]]]].
  destruct (groups_ok_db db p l x Hg Hx) as [Hn [r [cands Hk]]].
  assert (Hc : In (snd x) db) by (eapply nth_error_In; exact Hn).
  exists (snd x), p, r, cands. repeat split; try assumption.
  apply (clause_scan_panic (snd x) p r cands Hk (Hwf _ Hc) Hs).
Qed.

(* what decide proposes is undecided *)
Theorem decide_undecided d :
  decide U act_ge db pa = Some (Some d) -> pval pa (VSol (pd_cand d)) = None.
Proof.
  intro H. unfold decide in H.
  destruct (dec_groups_spec _ _ _ H (groups_ok_db db)) as [A _].
  assert (Hd : pd_ok d) by (apply A; [intros d0 E; discriminate E | reflexivity]).
  destruct Hd as [c [r [cands [vs [Hn [Hk [Hs [He Hp]]]]]]]].
  assert (Hw : req_wf U c = true) by (apply Hwf; eapply nth_error_In; exact Hn).
  destruct (clause_scan_cand c _ r cands _ _ _ Hk Hw Hs) as [_ [_ Hu]]. exact Hu.
Qed.

(* what decide proposes is a literal of the clause it names *)
Theorem decide_lit_in d :
  decide U act_ge db pa = Some (Some d) ->
  exists c, nth_error db (N.to_nat (pd_clause d)) = Some c /\ In (VSol (pd_cand d), true) (cl_lits c).
Proof.
  intro H. unfold decide in H.
  destruct (dec_groups_spec _ _ _ H (groups_ok_db db)) as [A _].
  assert (Hd : pd_ok d) by (apply A; [intros d0 E; discriminate E | reflexivity]).
  destruct Hd as [c [r [cands [vs [Hn [Hk [Hs [He Hp]]]]]]]].
  assert (Hw : req_wf U c = true) by (apply Hwf; eapply nth_error_In; exact Hn).
  destruct (clause_scan_cand c _ r cands _ _ _ Hk Hw Hs) as [_ [Hf _]].
  exists c. split; [exact Hn|]. rewrite (wf_lits c _ r cands Hk Hw). right.
  unfold first_nonfalse in Hf. apply find_some in Hf. destruct Hf as [Hin _]. exact Hin.
Qed.

End Proofs.
