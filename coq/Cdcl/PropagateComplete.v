(* Cdcl/PropagateComplete.v -- the two-watched-literal scheme of Solver::propagate does
   not lose a clause: the SAFETY half of unit-propagation completeness.

     pfalse st l    l is false by an entry of the trail that has been propagated
                    (its index from the oldest entry is below propagate_index)
     Inv2 st        no watched clause has BOTH watched literals pfalse
     WComp ws ls    a clause that watches a literal is in that literal's list

   propagate_complete: from a state with the watch invariant, WComp and Inv2, a call
   of propagate that ends without conflict ends with every entry propagated, Inv2 and
   WComp again -- so no watched clause has both watched literals false, in particular
   no watched clause is falsified -- and with every asserted literal true.

   The induction over the walk of one watch list (visit_list_complete) carries: every
   clause that watches the literal being walked and has been visited already (and is
   kept in the list) has its other watched literal TRUE.  This is where an entry that
   is counted as propagated although its list was only partly walked (F29) breaks the
   proof: marking the entry is justified by the walk having reached the end of the
   list.

   Inv2 is preserved by everything else that touches the state: an assignment outside
   propagate (the new entry is not propagated), undo (the propagated part shrinks),
   and a new clause whose two watched literals are not both false (watch_created_ok). *)
From Resolvo Require Export Cdcl.PropagateProofs.
From Coq Require Import Lia.

Section Comp.
Variable db : list cl.
(* clauses exempt from the invariant: those that were falsified on their watched literals when they were
   created (the constructors report them as conflicts; the solver answers by backtracking, or -- for a
   package-level clause of an accepted soft requirement -- leaves them falsified) *)
Variable XS : N -> Prop.

Definition pfalse (st : pstate) (l : lit) : Prop :=
  exists k e, nth_error (rev (ps_trail st)) k = Some e /\ (k < ps_pidx st)%nat /\ t_lit e = (fst l, negb (snd l)).

Definition Inv2 (st : pstate) : Prop :=
  forall id w, wget (ps_watch st) id = Some w -> XS id \/ ~ (pfalse st (fst w) /\ pfalse st (snd w)).

Lemma inv2_transfer st st' :
  (forall l, pfalse st' l -> pfalse st l) -> ps_watch st' = ps_watch st -> Inv2 st -> Inv2 st'.
Proof.
  intros Q E HI id w Hw. rewrite E in Hw. destruct (HI id w Hw) as [Hx|Hn]; [left; exact Hx|].
  right. intros [P1 P2]. apply Hn. split; apply Q; assumption.
Qed.

Definition WComp (ws : list (N * (lit * lit))) (ls : list (lit * list N)) : Prop :=
  forall id w, wget ws id = Some w -> In id (lget ls (fst w)) /\ In id (lget ls (snd w)).

Definition PIdx (st : pstate) : Prop := (ps_pidx st <= length (ps_trail st))%nat.

(* ---------- pfalse ---------- *)

Lemma pfalse_plit st l : tnodup st -> pfalse st l -> plit_false st l = true.
Proof.
  intros Hn [k [e [Hk [_ He]]]]. apply plit_false_spec. unfold pvalue. apply nodup_pval; [exact Hn|].
  apply nth_error_In in Hk. apply in_rev in Hk. unfold tl_lits. apply in_map_iff. exists e. split; [exact He | exact Hk].
Qed.

Lemma plit_pfalse st l : (length (ps_trail st) <= ps_pidx st)%nat -> plit_false st l = true -> pfalse st l.
Proof.
  intros Hp H. apply plit_false_spec in H. unfold pvalue in H. apply pval_In in H.
  unfold tl_lits in H. apply in_map_iff in H. destruct H as [e [He Hin]].
  apply in_rev in Hin. destruct (In_nth_error _ _ Hin) as [k Hk]. exists k, e. split; [exact Hk|]. split; [|exact He].
  assert (k < length (rev (ps_trail st)))%nat by (apply nth_error_Some; rewrite Hk; discriminate).
  rewrite rev_length in H. lia.
Qed.

(* pfalse only looks at the trail and the index *)
Lemma pfalse_ext st st' l :
  ps_trail st' = ps_trail st -> ps_pidx st' = ps_pidx st -> pfalse st' l -> pfalse st l.
Proof. intros E1 E2 [k [e [Hk [Hlt He]]]]. exists k, e. rewrite <- E1, <- E2. auto. Qed.

(* a new entry on top is not propagated *)
Lemma pfalse_push st e ws ls l :
  PIdx st -> pfalse (mkPS (e :: ps_trail st) (ps_pidx st) ws ls) l -> pfalse st l.
Proof.
  intros Hp [k [e0 [Hk [Hlt He]]]]. cbn [ps_trail ps_pidx] in *. exists k, e0. split; [|split; assumption].
  simpl in Hk. rewrite nth_error_app1 in Hk; [exact Hk|]. rewrite rev_length. unfold PIdx in Hp. lia.
Qed.

(* undoing the newest entry: the propagated part can only shrink *)
Lemma pfalse_undo st l : pfalse (undo_last st) l -> pfalse st l.
Proof.
  intros [k [e [Hk [Hlt He]]]]. unfold undo_last in *. cbn [ps_trail ps_pidx] in *.
  exists k, e. split; [|split; [lia | exact He]].
  destruct (ps_trail st) as [|x t]; [simpl in *; destruct k; discriminate|]. cbn [tl] in *.
  simpl. rewrite nth_error_app1; [exact Hk|]. rewrite rev_length. lia.
Qed.

(* marking the next entry as propagated *)
Lemma pfalse_mark st e l :
  nth_error (rev (ps_trail st)) (ps_pidx st) = Some e ->
  pfalse (mkPS (ps_trail st) (S (ps_pidx st)) (ps_watch st) (ps_lists st)) l ->
  pfalse st l \/ l = (tvar e, negb (snd (t_lit e))).
Proof.
  intros He [k [e0 [Hk [Hlt Hl]]]]. cbn [ps_trail ps_pidx] in *.
  destruct (Nat.eq_dec k (ps_pidx st)) as [E|E].
  - right. subst k. rewrite He in Hk. inversion Hk. subst e0. unfold tvar. rewrite Hl. simpl.
    rewrite Bool.negb_involutive. destruct l; reflexivity.
  - left. exists k, e0. split; [exact Hk|]. split; [lia | exact Hl].
Qed.

Lemma plit_true_push st e ws ls l :
  pvalue st (tvar e) = None -> plit_true st l = true -> plit_true (mkPS (e :: ps_trail st) (ps_pidx st) ws ls) l = true.
Proof.
  intros Hu H. apply plit_true_spec in H. apply plit_true_spec. unfold pvalue. cbn [ps_trail].
  rewrite pvalue_push; [exact H|]. intro E. rewrite E in H. rewrite Hu in H. discriminate.
Qed.

Lemma true_not_false st l : plit_true st l = true -> plit_false st l = true -> False.
Proof.
  intros H1 H2. apply plit_true_spec in H1. apply plit_false_spec in H2. rewrite H1 in H2. inversion H2.
  destruct (snd l); discriminate.
Qed.

(* ---------- walking one list ---------- *)

Record CWalk (L : lit) (ids kept : list N) (st : pstate) : Prop := mkCWalk {
  cw_inv2 : Inv2 st;
  cw_pidx : PIdx st;
  cw_other : forall id w L', wget (ps_watch st) id = Some w -> L' <> L -> (fst w = L' \/ snd w = L') ->
             In id (lget (ps_lists st) L');
  cw_this : forall id w, wget (ps_watch st) id = Some w -> (fst w = L \/ snd w = L) -> In id (rev kept ++ ids);
  cw_done : forall id w, wget (ps_watch st) id = Some w -> In id kept ->
            (fst w = L -> plit_true st (snd w) = true) /\ (snd w = L -> plit_true st (fst w) = true)
}.

Definition walked (L : lit) (st : pstate) : Prop :=
  forall id w, wget (ps_watch st) id = Some w ->
    (fst w = L -> plit_true st (snd w) = true) /\ (snd w = L -> plit_true st (fst w) = true).

Theorem visit_list_complete L level : forall ids kept st st' r,
  WalkInv db L ids kept st -> CWalk L ids kept st -> tnodup st -> plit_false st L = true ->
  visit_list db L level ids kept st = Some (st', r) ->
  Inv2 st' /\ PIdx st' /\ WComp (ps_watch st') (ps_lists st') /\ ps_pidx st' = ps_pidx st /\ (r = None -> walked L st').
Proof.
  induction ids as [|id rest IH]; intros kept st st' r HW HC Hnd HL H; cbn [visit_list] in H.
  - inversion H. subst st' r. clear H. destruct HC as [C1 C2 C3 C4 C5]. rewrite app_nil_r in C4.
    split; [apply (inv2_transfer st); [intros l Q; eapply (pfalse_ext st); eauto; reflexivity | reflexivity | exact C1]|].
    split; [exact C2|]. split; [|split; [reflexivity | intros _]].
    + intros id w Hw. cbn [ps_watch ps_lists] in *.
      assert (G : forall X, (fst w = X \/ snd w = X) -> In id (lget (lset (ps_lists st) L (rev kept)) X)).
      { intros X HX. destruct (lit_eq_dec X L) as [E|E].
        - subst X. rewrite lget_lset_same. apply (C4 id w Hw HX).
        - rewrite lget_lset_other by exact E. apply (C3 id w X Hw E HX). }
      split; apply G; [left | right]; reflexivity.
    + intros id w Hw. cbn [ps_watch] in Hw.
      assert (Hk : (fst w = L \/ snd w = L) -> In id kept) by (intro HX; apply in_rev; apply (C4 id w Hw HX)).
      split; intro E.
      * destruct (C5 id w Hw (Hk (or_introl E))) as [G _]. apply plit_true_spec. apply plit_true_spec in G; [exact G | exact E].
      * destruct (C5 id w Hw (Hk (or_intror E))) as [_ G]. apply plit_true_spec. apply plit_true_spec in G; [exact G | exact E].
  - destruct (wget (ps_watch st) id) as [[w0 w1]|] eqn:Ew; [|discriminate].
    destruct (nth_error db (N.to_nat id)) as [c|] eqn:Ec; [|discriminate].
    pose proof (wk_watch _ _ _ _ _ HW id (w0, w1) Ew) as [c' [Hc' [H0 [H1 [Hne Hk]]]]]. simpl in H0, H1, Hne, Hk.
    rewrite Ec in Hc'. inversion Hc'. subst c'. clear Hc'.
    assert (HidL : w0 = L \/ w1 = L).
    { destruct (wk_this _ _ _ _ _ HW id) as [w [E Hw]]; [apply in_or_app; right; left; reflexivity|].
      rewrite Ew in E. inversion E. subst w. exact Hw. }
    set (idx0 := lit_eqb w0 L) in *. set (other := if idx0 then w1 else w0) in *.
    assert (Hpair : (w0 = L /\ other = w1) \/ (w1 = L /\ other = w0 /\ w0 <> L)).
    { unfold other, idx0. destruct (lit_eqb w0 L) eqn:E0.
      - left. split; [apply lit_eqb_eq; exact E0 | reflexivity].
      - right. assert (w0 <> L) by (intro E; subst; rewrite lit_eqb_refl in E0; discriminate).
        destruct HidL as [E|E]; [contradiction | repeat split; assumption]. }
    assert (Hother_ne : other <> L) by (destruct Hpair as [[E1 E2]|[E1 [E2 E3]]]; rewrite E2; congruence).
    assert (Hnd_this : NoDup (rev kept ++ id :: rest)) by (apply (wk_nodup_this _ _ _ _ _ HW)).
    assert (Hid_fresh : ~ In id (rev kept ++ rest)) by (apply NoDup_remove_2; exact Hnd_this).
    assert (Hid_kept : ~ In id kept) by (intro X; apply Hid_fresh; apply in_or_app; left; apply in_rev in X; exact X).
    (* what "done" means for the clause being visited, once its other watch is true *)
    assert (Hdone_id : forall st1, wget (ps_watch st1) id = Some (w0, w1) -> plit_true st1 other = true ->
              (fst (w0, w1) = L -> plit_true st1 (snd (w0, w1)) = true) /\ (snd (w0, w1) = L -> plit_true st1 (fst (w0, w1)) = true)).
    { intros st1 _ Ht. cbn [fst snd]. destruct Hpair as [[E1 E2]|[E1 [E2 E3]]]; rewrite E2 in Ht.
      - split; [intros _; exact Ht | intro E; exfalso; apply Hne; congruence].
      - split; [intro E; contradiction | intros _; exact Ht]. }
    destruct (plit_true st other) eqn:Et.
    + (* satisfied: the clause stays *)
      assert (HW' : WalkInv db L rest (id :: kept) st).
      { destruct HW as [A B C D E]. constructor; auto; rewrite rev_cons_app; assumption. }
      assert (HC' : CWalk L rest (id :: kept) st).
      { destruct HC as [C1 C2 C3 C4 C5]. constructor; auto.
        - intros id' w Hw HX. rewrite rev_cons_app. apply (C4 id' w Hw HX).
        - intros id' w Hw [E|Hin]; [|apply (C5 id' w Hw Hin)]. subst id'. rewrite Ew in Hw. inversion Hw. subst w.
          apply (Hdone_id st Ew Et). }
      apply (IH _ _ _ _ HW' HC' Hnd HL H).
    + destruct (next_unwatched st c other) as [|nl|] eqn:En; [| |discriminate].
      * (* no other literal: assign [other] *)
        pose proof (try_add_cases st other level id Et) as Hta.
        destruct (try_add st other level id) as [st1|] eqn:Eta.
        2:{ (* conflict: the walk stops, nothing is marked *)
            inversion H. subst st' r. clear H. destruct HC as [C1 C2 C3 C4 C5].
            split; [apply (inv2_transfer st); [intros l Q; eapply (pfalse_ext st); eauto; reflexivity | reflexivity | exact C1]|].
            split; [exact C2|]. split; [|split; [reflexivity | intro E; discriminate E]].
            intros id' w Hw. cbn [ps_watch ps_lists] in *.
            assert (G : forall Y, (fst w = Y \/ snd w = Y) -> In id' (lget (lset (ps_lists st) L (rev kept ++ id :: rest)) Y)).
            { intros Y HY. destruct (lit_eq_dec Y L) as [E|E].
              - subst Y. rewrite lget_lset_same. apply (C4 id' w Hw HY).
              - rewrite lget_lset_other by exact E. apply (C3 id' w Y Hw E HY). }
            split; apply G; [left | right]; reflexivity. }
        destruct Hta as [Hun Est1]. subst st1.
        set (st1 := mkPS (mkT other level id :: ps_trail st) (ps_pidx st) (ps_watch st) (ps_lists st)) in *.
        assert (HW' : WalkInv db L rest (id :: kept) st1).
        { destruct HW as [A B C D E]. constructor; auto; rewrite rev_cons_app; assumption. }
        assert (Hnd' : tnodup st1).
        { unfold tnodup, st1. simpl. unfold tl_lits. simpl. destruct other as [ov ob]. simpl in *.
          fold (tl_lits (ps_trail st)). unfold pvalue in Hun. rewrite Hun. exact Hnd. }
        assert (HL' : plit_false st1 L = true).
        { apply plit_false_spec. apply plit_false_spec in HL. unfold pvalue, st1. simpl.
          change (pval (tl_lits (mkT other level id :: ps_trail st)) (fst L) = Some (negb (snd L))).
          rewrite pvalue_push; [exact HL|]. unfold tvar. simpl. intro E. rewrite E in HL. congruence. }
        assert (Hother1 : plit_true st1 other = true).
        { apply plit_true_spec. unfold pvalue, st1. cbn [ps_trail].
          unfold tl_lits. simpl. destruct other as [ov ob]. simpl. rewrite var_eqb_refl. reflexivity. }
        assert (HC' : CWalk L rest (id :: kept) st1).
        { destruct HC as [C1 C2 C3 C4 C5]. constructor.
          - apply (inv2_transfer st); [intros l Q; eapply pfalse_push; eauto | reflexivity | exact C1].
          - unfold PIdx, st1 in *. simpl. lia.
          - exact C3.
          - intros id' w Hw HX. rewrite rev_cons_app. apply (C4 id' w Hw HX).
          - intros id' w Hw [E|Hin].
            + subst id'. cbn [st1 ps_watch] in Hw. rewrite Ew in Hw. inversion Hw. subst w. apply (Hdone_id st1 Ew Hother1).
            + destruct (C5 id' w Hw Hin) as [G1 G2].
              split; intro E; apply (plit_true_push st (mkT other level id)); auto. }
        apply (IH _ _ _ _ HW' HC' Hnd' HL' H).
      * (* the watch moves to nl *)
        destruct (next_unwatched_some st c other nl En) as [Hm [Hnl_in [Hnl_ne Hnl_nf]]].
        assert (Hnl_L : nl <> L) by (intro E; subst; congruence).
        set (w' := if idx0 then (nl, w1) else (w0, nl)) in *.
        assert (Hw' : (fst w' = nl /\ snd w' = other) \/ (fst w' = other /\ snd w' = nl)).
        { unfold w', other. destruct idx0; simpl; [left | right]; split; reflexivity. }
        set (st1 := mkPS (ps_trail st) (ps_pidx st) (wset (ps_watch st) id w')
                         (lset (ps_lists st) nl (id :: lget (ps_lists st) nl))) in *.
        assert (Hnot_in_nl : ~ In id (lget (ps_lists st) nl)).
        { intro Hin. destruct (wk_list _ _ _ _ _ HW nl id Hnl_L Hin) as [w [E Hw]]. rewrite Ew in E. inversion E. subst w. simpl in Hw.
          destruct Hpair as [[E1 E2]|[E1 [E2 E3]]]; destruct Hw as [Hw|Hw]; congruence. }
        assert (HW' : WalkInv db L rest kept st1).
        { destruct HW as [A B C D E]. constructor; unfold st1; simpl.
          - intros id' w H'. destruct (N.eq_dec id' id) as [Eq|Neq].
            + subst id'. rewrite wget_wset_same in H'. inversion H'. subst w. exists c.
              split; [exact Ec|]. destruct Hw' as [[F1 F2]|[F1 F2]]; rewrite F1, F2; repeat split; auto;
                destruct Hpair as [[_ E2]|[_ [E2 _]]]; rewrite E2; assumption.
            + rewrite wget_wset_other in H' by exact Neq. apply A. exact H'.
          - intros L' id' HL'0 Hin. destruct (lit_eq_dec L' nl) as [Eq|Neq].
            + subst L'. rewrite lget_lset_same in Hin. destruct Hin as [E'|Hin].
              * subst id'. exists w'. split; [apply wget_wset_same|]. destruct Hw' as [[F1 _]|[_ F2]]; [left | right]; assumption.
              * destruct (B nl id' HL'0 Hin) as [w [E' Hw]]. exists w. split; [|exact Hw].
                rewrite wget_wset_other; [exact E' | intro; subst; contradiction].
            + rewrite lget_lset_other in Hin by exact Neq. destruct (B L' id' HL'0 Hin) as [w [E' Hw]].
              destruct (N.eq_dec id' id) as [Eq'|Neq'].
              * subst id'. rewrite Ew in E'. inversion E'. subst w. simpl in Hw. exists w'. split; [apply wget_wset_same|].
                assert (L' = other) by (destruct Hpair as [[E1 E2]|[E1 [E2 E3]]]; destruct Hw as [Hw|Hw]; congruence).
                subst L'. destruct Hw' as [[_ F2]|[F1 _]]; [right | left]; assumption.
              * exists w. split; [rewrite wget_wset_other by exact Neq'; exact E' | exact Hw].
          - intros L' HL'0. destruct (lit_eq_dec L' nl) as [Eq|Neq].
            + subst L'. rewrite lget_lset_same. constructor; [exact Hnot_in_nl | apply C; exact HL'0].
            + rewrite lget_lset_other by exact Neq. apply C. exact HL'0.
          - intros id' Hin. assert (id' <> id) by (intro; subst; contradiction).
            destruct (D id') as [w [E' Hw]]; [apply in_app_or in Hin; apply in_or_app; destruct Hin; [left | right; right]; assumption|].
            exists w. split; [rewrite wget_wset_other by assumption; exact E' | exact Hw].
          - apply NoDup_remove_1 in Hnd_this. exact Hnd_this. }
        assert (Hw'L : fst w' <> L /\ snd w' <> L) by (destruct Hw' as [[F1 F2]|[F1 F2]]; rewrite F1, F2; split; assumption).
        assert (HC' : CWalk L rest kept st1).
        { destruct HC as [C1 C2 C3 C4 C5]. constructor.
          - (* Inv2: the new watch is not false at all *)
            intros id' w Hw. cbn [st1 ps_watch] in Hw.
            assert (Q : forall l, pfalse st1 l -> pfalse st l) by (intros l Q; eapply (pfalse_ext st st1); eauto).
            destruct (N.eq_dec id' id) as [Eq|Neq].
            + subst id'. rewrite wget_wset_same in Hw. inversion Hw. subst w. right. intros [P1 P2].
              assert (Hf : pfalse st nl) by (destruct Hw' as [[F1 _]|[_ F2]]; [rewrite F1 in P1; apply Q; exact P1 | rewrite F2 in P2; apply Q; exact P2]).
              apply (pfalse_plit st nl Hnd) in Hf. rewrite Hf in Hnl_nf. discriminate.
            + rewrite wget_wset_other in Hw by exact Neq. destruct (C1 id' w Hw) as [Hx|Hn0]; [left; exact Hx|].
              right. intros [P1 P2]. apply Hn0. split; apply Q; assumption.
          - exact C2.
          - intros id' w L' Hw HL'0 HX. cbn [st1 ps_watch ps_lists] in *.
            destruct (N.eq_dec id' id) as [Eq|Neq].
            + subst id'. rewrite wget_wset_same in Hw. inversion Hw. subst w.
              destruct (lit_eq_dec L' nl) as [E|E]; [subst L'; rewrite lget_lset_same; left; reflexivity|].
              rewrite lget_lset_other by exact E.
              assert (L' = other) by (destruct Hw' as [[F1 F2]|[F1 F2]]; destruct HX as [HX|HX]; congruence).
              subst L'. apply (C3 id (w0, w1) other Ew HL'0). cbn [fst snd].
              destruct Hpair as [[_ E2]|[_ [E2 _]]]; [right | left]; symmetry; exact E2.
            + rewrite wget_wset_other in Hw by exact Neq.
              destruct (lit_eq_dec L' nl) as [E|E]; [subst L'; rewrite lget_lset_same; right; apply (C3 id' w nl Hw HL'0 HX)|].
              rewrite lget_lset_other by exact E. apply (C3 id' w L' Hw HL'0 HX).
          - intros id' w Hw HX. cbn [st1 ps_watch] in Hw.
            destruct (N.eq_dec id' id) as [Eq|Neq].
            + subst id'. rewrite wget_wset_same in Hw. inversion Hw. subst w. destruct Hw'L as [G1 G2]. destruct HX; contradiction.
            + rewrite wget_wset_other in Hw by exact Neq. pose proof (C4 id' w Hw HX) as Hin.
              apply in_app_or in Hin. apply in_or_app. destruct Hin as [Hin|[Hin|Hin]]; [left; exact Hin | congruence | right; exact Hin].
          - intros id' w Hw Hin. cbn [st1 ps_watch] in Hw.
            assert (Neq : id' <> id) by (intro; subst; contradiction).
            rewrite wget_wset_other in Hw by exact Neq. destruct (C5 id' w Hw Hin) as [G1 G2].
            split; intro E; apply plit_true_spec; [apply plit_true_spec in G1 | apply plit_true_spec in G2]; auto. }
        apply (IH _ _ _ _ HW' HC' Hnd HL H).
Qed.

(* ---------- the loop over the unpropagated entries ---------- *)

Lemma nth_error_rev {X} : forall (l : list X) k, (k < length l)%nat -> nth_error (rev l) k = nth_error l (length l - 1 - k).
Proof.
  induction l as [|x t IH]; intros k Hk; simpl in Hk; [lia|]. simpl rev.
  destruct (Nat.eq_dec k (length t)) as [E|E].
  - subst k. rewrite nth_error_app2 by (rewrite rev_length; lia). rewrite rev_length, Nat.sub_diag.
    replace (length (x :: t) - 1 - length t)%nat with O by (simpl; lia). reflexivity.
  - rewrite nth_error_app1 by (rewrite rev_length; lia). rewrite IH by lia.
    replace (length (x :: t) - 1 - k)%nat with (S (length t - 1 - k)) by (simpl; lia). reflexivity.
Qed.

Lemma grows_app base cur : grows db base cur -> exists new, cur = new ++ base.
Proof. induction 1 as [|cur e Hg [new E] Hr]; [exists []; reflexivity | exists (e :: new); subst; reflexivity]. Qed.

Theorem prop_loop_complete level : forall fuel st st' r,
  WInv db (ps_watch st) (ps_lists st) -> WComp (ps_watch st) (ps_lists st) -> tnodup st -> Inv2 st -> PIdx st ->
  prop_loop fuel db level st = Some (st', r) ->
  Inv2 st' /\ WComp (ps_watch st') (ps_lists st') /\ PIdx st' /\ (r = None -> (length (ps_trail st') <= ps_pidx st')%nat) /\
  tnodup st' /\ WInv db (ps_watch st') (ps_lists st').
Proof.
  induction fuel as [|f IH]; intros st st' r HW HC Hnd HI HP H; cbn [prop_loop] in H; [discriminate|].
  destruct (Nat.ltb (ps_pidx st) (length (ps_trail st))) eqn:Elt.
  2:{ inversion H. subst. apply Nat.ltb_ge in Elt. auto 10. }
  apply Nat.ltb_lt in Elt.
  destruct (nth_error (ps_trail st) (length (ps_trail st) - 1 - ps_pidx st)) as [e|] eqn:Ee; [|discriminate].
  set (L := (tvar e, negb (snd (t_lit e)))) in *.
  assert (HWalk : WalkInv db L (lget (ps_lists st) L) [] st).
  { destruct HW as [A B C]. constructor; simpl; auto. }
  assert (HL : plit_false st L = true).
  { apply plit_false_spec. unfold L. simpl. rewrite Bool.negb_involutive. apply (nth_pvalue st _ e Hnd Ee). }
  assert (HCW : CWalk L (lget (ps_lists st) L) [] st).
  { constructor; [exact HI | exact HP | | |].
    - intros id w L' Hw _ [E|E]; destruct (HC id w Hw) as [G1 G2]; [rewrite <- E; exact G1 | rewrite <- E; exact G2].
    - intros id w Hw [E|E]; destruct (HC id w Hw) as [G1 G2]; simpl; [rewrite <- E; exact G1 | rewrite <- E; exact G2].
    - intros id w _ []. }
  destruct (visit_list db L level (lget (ps_lists st) L) [] st) as [[st1 r1]|] eqn:Ev; [|discriminate].
  destruct (visit_list_sound db L level _ _ _ _ _ HWalk Hnd HL Ev) as [R1 [R2 [R3 _]]].
  destruct (visit_list_complete L level _ _ _ _ _ HWalk HCW Hnd HL Ev) as [Q1 [Q2 [Q3 [Q4 Q5]]]].
  destruct r1 as [cf|].
  { inversion H. subst st' r. split; [exact Q1|]. split; [exact Q3|]. split; [exact Q2|]. split; [intro E; discriminate E|]. split; assumption. }
  specialize (Q5 eq_refl).
  destruct (grows_app _ _ R3) as [new Enew].
  assert (He1 : nth_error (rev (ps_trail st1)) (ps_pidx st1) = Some e).
  { rewrite Q4, Enew, rev_app_distr. rewrite nth_error_app1 by (rewrite rev_length; exact Elt).
    rewrite nth_error_rev by exact Elt. exact Ee. }
  assert (HL1 : plit_false st1 L = true).
  { apply plit_false_spec. unfold pvalue. apply nodup_pval; [exact R2|]. unfold L. simpl. rewrite Bool.negb_involutive.
    unfold tl_lits. apply in_map_iff. exists e. split; [unfold tvar; destruct (t_lit e); reflexivity|].
    rewrite Enew. apply in_or_app. right. apply nth_error_In in Ee. exact Ee. }
  set (st2 := mkPS (ps_trail st1) (S (ps_pidx st1)) (ps_watch st1) (ps_lists st1)) in *.
  assert (HI2 : Inv2 st2).
  { intros id w Hw. cbn [st2 ps_watch] in Hw. destruct (Q5 id w Hw) as [G1 G2].
    destruct (Q1 id w Hw) as [Hx|Hn0]; [left; exact Hx|]. right. intros [P1 P2].
    destruct (pfalse_mark st1 e _ He1 P1) as [F1|F1]; destruct (pfalse_mark st1 e _ He1 P2) as [F2|F2].
    - apply Hn0. split; assumption.
    - fold L in F2. specialize (G2 F2). apply (true_not_false st1 (fst w) G2). apply (pfalse_plit st1 _ R2 F1).
    - fold L in F1. specialize (G1 F1). apply (true_not_false st1 (snd w) G1). apply (pfalse_plit st1 _ R2 F2).
    - fold L in F1, F2. specialize (G1 F1). rewrite F2 in G1. apply (true_not_false st1 L G1 HL1). }
  assert (HP2 : PIdx st2).
  { unfold PIdx, st2. cbn [ps_pidx ps_trail]. rewrite Q4, Enew, app_length. lia. }
  apply (IH st2 st' r R1 Q3 R2 HI2 HP2 H).
Qed.

(* ---------- assertions ---------- *)

Lemma assert_all_complete level : forall l st st' r,
  tnodup st -> Inv2 st -> PIdx st -> assert_all level l st = (st', r) ->
  tnodup st' /\ Inv2 st' /\ PIdx st' /\ ps_watch st' = ps_watch st /\ ps_lists st' = ps_lists st /\
  (r = None -> forall x, In x l -> plit_true st' (fst x) = true) /\
  (forall l0, plit_true st l0 = true -> plit_true st' l0 = true).
Proof.
  induction l as [|[x id] t IH]; intros st st' r Hn HI HP H; simpl in H.
  - inversion H. subst. repeat split; auto; try (intros _ x []).
  - pose proof (try_add_gen st x level id) as Hta. destruct (try_add st x level id) as [st1|] eqn:Eta.
    2:{ inversion H. subst. repeat split; auto. intro E; discriminate E. }
    destruct Hta as [[E Ht]|[Hun E]].
    + subst st1. destruct (IH _ _ _ Hn HI HP H) as [R1 [R2 [R3 [R4 [R5 [R6 R7]]]]]].
      repeat split; auto. intros Er y [Ey|Hy]; [subst y; simpl; apply R7; exact Ht | apply (R6 Er); exact Hy].
    + assert (Hn1 : tnodup st1).
      { subst st1. unfold tnodup. simpl. unfold tl_lits. simpl. destruct x as [xv xb]. simpl in *.
        fold (tl_lits (ps_trail st)). unfold pvalue in Hun. rewrite Hun. exact Hn. }
      assert (HI1 : Inv2 st1).
      { subst st1. apply (inv2_transfer st); [intros l0 Q; eapply pfalse_push; eauto | reflexivity | exact HI]. }
      assert (HP1 : PIdx st1) by (subst st1; unfold PIdx in *; simpl; lia).
      assert (Hmono : forall l0, plit_true st l0 = true -> plit_true st1 l0 = true).
      { intros l0 Hl0. subst st1. apply (plit_true_push st (mkT x level id)); [exact Hun | exact Hl0]. }
      assert (Hx : plit_true st1 x = true).
      { subst st1. apply plit_true_spec. unfold pvalue. cbn [ps_trail]. unfold tl_lits. simpl.
        destruct x as [xv xb]. simpl. rewrite var_eqb_refl. reflexivity. }
      destruct (IH _ _ _ Hn1 HI1 HP1 H) as [R1 [R2 [R3 [R4 [R5 [R6 R7]]]]]].
      subst st1. simpl in R4, R5. repeat split; auto.
      intros Er y [Ey|Hy]; [subst y; simpl; apply R7; exact Hx | apply (R6 Er); exact Hy].
Qed.

Lemma grows_true base cur l :
  grows db base cur -> vars_nodup (tl_lits cur) = true ->
  (match pval (tl_lits base) (fst l) with Some b => Bool.eqb b (snd l) | None => false end) = true ->
  (match pval (tl_lits cur) (fst l) with Some b => Bool.eqb b (snd l) | None => false end) = true.
Proof.
  intros Hg. induction Hg as [|cur e Hg IH Hr]; intros Hn H; [exact H|].
  assert (Hn' : vars_nodup (tl_lits cur) = true).
  { unfold tl_lits in *. simpl in Hn. destruct (t_lit e) as [v b]. destruct (pval (map t_lit cur) v); [discriminate | exact Hn]. }
  specialize (IH Hn' H).
  destruct (pval (tl_lits cur) (fst l)) as [b0|] eqn:Ep; [|discriminate].
  assert (Hne : fst l <> tvar e).
  { intro E. unfold tl_lits, tvar in *. simpl in Hn. destruct (t_lit e) as [v b]. simpl in E. subst v.
    rewrite Ep in Hn. discriminate. }
  unfold tl_lits in *. simpl. unfold tvar in Hne. destruct (t_lit e) as [v b]. simpl in *.
  destruct (var_eqb v (fst l)) eqn:Ev; [apply var_eqb_eq in Ev; congruence|]. rewrite Ep. exact IH.
Qed.

(* ---------- propagate ---------- *)

(* whatever the outcome, propagate keeps the invariants *)
Theorem propagate_keeps level asserts units st st' r :
  WInv db (ps_watch st) (ps_lists st) -> WComp (ps_watch st) (ps_lists st) -> tnodup st -> Inv2 st -> PIdx st ->
  propagate db level asserts units st = Some (st', r) ->
  Inv2 st' /\ WComp (ps_watch st') (ps_lists st') /\ PIdx st'.
Proof.
  intros HW HC Hn HI HP H. unfold propagate in H.
  destruct (assert_all level asserts st) as [st1 r1] eqn:E1.
  destruct (assert_all_complete level _ _ _ _ Hn HI HP E1) as [A1 [A2 [A3 [A4 [A5 [A6 A7]]]]]].
  destruct r1 as [c1|].
  { inversion H. subst. rewrite A4, A5. auto. }
  destruct (assert_all level units st1) as [st2 r2] eqn:E2.
  destruct (assert_all_complete level _ _ _ _ A1 A2 A3 E2) as [B1 [B2 [B3 [B4 [B5 [B6 B7]]]]]].
  destruct r2 as [c2|].
  { inversion H. subst. rewrite B4, B5, A4, A5. auto. }
  assert (HW2 : WInv db (ps_watch st2) (ps_lists st2)) by (rewrite B4, B5, A4, A5; exact HW).
  assert (HC2 : WComp (ps_watch st2) (ps_lists st2)) by (rewrite B4, B5, A4, A5; exact HC).
  destruct (prop_loop_complete level _ _ _ _ HW2 HC2 B1 B2 B3 H) as [R1 [R2 [R3 _]]]. auto.
Qed.

Theorem propagate_complete level asserts units st st' :
  WInv db (ps_watch st) (ps_lists st) -> WComp (ps_watch st) (ps_lists st) -> tnodup st -> Inv2 st -> PIdx st ->
  propagate db level asserts units st = Some (st', None) ->
  Inv2 st' /\ WComp (ps_watch st') (ps_lists st') /\ (length (ps_trail st') <= ps_pidx st')%nat /\ tnodup st' /\
  WInv db (ps_watch st') (ps_lists st') /\
  (forall x, In x (asserts ++ units) -> plit_true st' (fst x) = true).
Proof.
  intros HW HC Hn HI HP H. unfold propagate in H.
  destruct (assert_all level asserts st) as [st1 [c1|]] eqn:E1; [discriminate|].
  destruct (assert_all_complete level _ _ _ _ Hn HI HP E1) as [A1 [A2 [A3 [A4 [A5 [A6 A7]]]]]].
  destruct (assert_all level units st1) as [st2 [c2|]] eqn:E2; [discriminate|].
  destruct (assert_all_complete level _ _ _ _ A1 A2 A3 E2) as [B1 [B2 [B3 [B4 [B5 [B6 B7]]]]]].
  assert (HW2 : WInv db (ps_watch st2) (ps_lists st2)) by (rewrite B4, B5, A4, A5; exact HW).
  assert (HC2 : WComp (ps_watch st2) (ps_lists st2)) by (rewrite B4, B5, A4, A5; exact HC).
  destruct (prop_loop_complete level _ _ _ _ HW2 HC2 B1 B2 B3 H) as [R1 [R2 [_ [R3 [R4 R5]]]]]. specialize (R3 eq_refl).
  destruct (prop_loop_sound db level _ _ _ _ HW2 B1 H) as [_ [_ [Hg _]]].
  split; [exact R1|]. split; [exact R2|]. split; [exact R3|]. split; [exact R4|]. split; [exact R5|].
  intros x Hx. assert (Hx2 : plit_true st2 (fst x) = true).
  { apply in_app_or in Hx. destruct Hx as [Hx|Hx]; [apply B7; apply (A6 eq_refl); exact Hx | apply (B6 eq_refl); exact Hx]. }
  unfold plit_true, pvalue in *. apply (grows_true _ _ _ Hg R4 Hx2).
Qed.

(* with every entry propagated, Inv2 speaks about the whole trail: no watched clause has both watched
   literals false -- in particular no watched clause is falsified *)
Theorem complete_no_watched_falsified st :
  Inv2 st -> (length (ps_trail st) <= ps_pidx st)%nat -> WInv db (ps_watch st) (ps_lists st) ->
  forall id w, wget (ps_watch st) id = Some w -> ~ XS id ->
    ~ (plit_false st (fst w) = true /\ plit_false st (snd w) = true) /\
    exists c, nth_error db (N.to_nat id) = Some c /\ falsified (ps_trail st) (cl_lits c) = false.
Proof.
  intros HI Hp HW id w Hw Hnx.
  assert (G : ~ (plit_false st (fst w) = true /\ plit_false st (snd w) = true)).
  { intros [F1 F2]. destruct (HI id w Hw) as [Hx|Hn0]; [exact (Hnx Hx)|]. apply Hn0. split; apply plit_pfalse; assumption. }
  split; [exact G|].
  destruct (wi_watch _ _ _ HW id w Hw) as [c [Hc [H0 [H1 _]]]]. exists c. split; [exact Hc|].
  destruct (falsified (ps_trail st) (cl_lits c)) eqn:Ef; [|reflexivity]. exfalso. apply G.
  unfold falsified in Ef. rewrite forallb_forall in Ef. split; [apply (Ef _ H0) | apply (Ef _ H1)].
Qed.

(* ---------- everything else that touches the state keeps Inv2 ---------- *)

Lemma inv2_push st e : Inv2 st -> PIdx st -> Inv2 (push_entry st e) /\ PIdx (push_entry st e).
Proof.
  intros HI HP. split.
  - apply (inv2_transfer st); [intros l Q; eapply pfalse_push; eauto | reflexivity | exact HI].
  - unfold PIdx, push_entry in *. simpl. lia.
Qed.

Lemma inv2_undo st : Inv2 st -> Inv2 (undo_last st) /\ PIdx (undo_last st).
Proof.
  intro HI. split.
  - apply (inv2_transfer st); [intros l Q; apply pfalse_undo; exact Q | reflexivity | exact HI].
  - unfold PIdx, undo_last. simpl. lia.
Qed.

Lemma inv2_clear st : Inv2 (clear_trail st) /\ PIdx (clear_trail st).
Proof.
  split; [|unfold PIdx, clear_trail; simpl; lia].
  intros id w _. right. intros [[k [e [_ [Hlt _]]]] _]. unfold clear_trail in Hlt. simpl in Hlt. lia.
Qed.

(* a clause that starts being watched with its two watched literals not both false *)
Lemma inv2_start st id w :
  Inv2 st -> XS id \/ ~ (pfalse st (fst w) /\ pfalse st (snd w)) ->
  Inv2 (start_watching st id w).
Proof.
  intros HI Hw id' w' Hw'. unfold start_watching in Hw'. cbn [ps_watch] in Hw'.
  assert (Q : forall l, pfalse (start_watching st id w) l -> pfalse st l) by (intros l Q; eapply (pfalse_ext st); eauto; reflexivity).
  destruct (N.eq_dec id' id) as [E|E].
  - subst id'. rewrite wget_wset_same in Hw'. inversion Hw'. subst w'. destruct Hw as [Hx|Hn0]; [left; exact Hx|].
    right. intros [P1 P2]. apply Hn0. split; apply Q; assumption.
  - rewrite wget_wset_other in Hw' by exact E. destruct (HI id' w' Hw') as [Hx|Hn0]; [left; exact Hx|].
    right. intros [P1 P2]. apply Hn0. split; apply Q; assumption.
Qed.

Lemma wcomp_start st id w :
  WComp (ps_watch st) (ps_lists st) -> WComp (ps_watch (start_watching st id w)) (ps_lists (start_watching st id w)).
Proof.
  intros HC id' w' Hw'. unfold start_watching in *. cbn [ps_watch ps_lists] in *.
  set (ls1 := lset (ps_lists st) (fst w) (id :: lget (ps_lists st) (fst w))) in *.
  assert (G : forall X i, In i (lget (ps_lists st) X) -> In i (lget (lset ls1 (snd w) (id :: lget ls1 (snd w))) X)).
  { intros X i Hi. assert (H1 : In i (lget ls1 X)).
    { unfold ls1. destruct (lit_eq_dec X (fst w)) as [E|E]; [subst; rewrite lget_lset_same; right; exact Hi | rewrite lget_lset_other by exact E; exact Hi]. }
    destruct (lit_eq_dec X (snd w)) as [E|E]; [subst; rewrite lget_lset_same; right; exact H1 | rewrite lget_lset_other by exact E; exact H1]. }
  destruct (N.eq_dec id' id) as [E|E].
  - subst id'. rewrite wget_wset_same in Hw'. inversion Hw'. subst w'. split.
    + destruct (lit_eq_dec (fst w) (snd w)) as [E|E].
      * rewrite E. rewrite lget_lset_same. left. reflexivity.
      * rewrite lget_lset_other by exact E. unfold ls1. rewrite lget_lset_same. left. reflexivity.
    + rewrite lget_lset_same. left. reflexivity.
  - rewrite wget_wset_other in Hw' by exact E. destruct (HC id' w' Hw') as [G1 G2]. split; apply G; assumption.
Qed.

Theorem inv2_kept_outside st :
  Inv2 st ->
  (forall e, PIdx st -> Inv2 (push_entry st e) /\ PIdx (push_entry st e)) /\
  (Inv2 (undo_last st) /\ PIdx (undo_last st)) /\
  (Inv2 (clear_trail st) /\ PIdx (clear_trail st)) /\
  (forall id w, XS id \/ ~ (pfalse st (fst w) /\ pfalse st (snd w)) -> Inv2 (start_watching st id w)).
Proof.
  intro HI. split; [intros e HP; apply inv2_push; assumption|]. split; [apply inv2_undo; exact HI|].
  split; [apply inv2_clear | intros id w H; apply inv2_start; assumption].
Qed.

End Comp.

Lemma inv2_mono (XS XS' : N -> Prop) st : (forall id, XS id -> XS' id) -> Inv2 XS st -> Inv2 XS' st.
Proof. intros Hs HI id w Hw. destruct (HI id w Hw) as [Hx|Hn]; [left; apply Hs; exact Hx | right; exact Hn]. Qed.
