(* Cdcl/PropagateHyp.v -- the hypotheses of propagate_sound as boolean functions,
   so that the correspondence check can evaluate them at every call of propagate
   in a log, with their soundness. *)
From Resolvo Require Export Cdcl.PropagateProofs.

Definition memlit (l : lit) (ls : list lit) : bool := existsb (lit_eqb l) ls.

Definition watch_okb (db : list cl) (id : N) (w : lit * lit) : bool :=
  match nth_error db (N.to_nat id) with
  | Some c =>
      memlit (fst w) (cl_lits c) && memlit (snd w) (cl_lits c) && negb (lit_eqb (fst w) (snd w)) &&
      (movable c || (fixed_kind c && forallb (fun l => lit_eqb l (fst w) || lit_eqb l (snd w)) (cl_lits c)))
  | None => false
  end.

Fixpoint nodupN (l : list N) : bool :=
  match l with [] => true | x :: t => negb (memN x t) && nodupN t end.

Definition watches_litb (ws : list (N * (lit * lit))) (L : lit) (id : N) : bool :=
  match wget ws id with Some w => lit_eqb (fst w) L || lit_eqb (snd w) L | None => false end.

Definition winvb (db : list cl) (ws : list (N * (lit * lit))) (ls : list (lit * list N)) : bool :=
  forallb (fun e => match wget ws (fst e) with Some w => watch_okb db (fst e) w | None => false end) ws &&
  forallb (fun e => let ids := lget ls (fst e) in nodupN ids && forallb (watches_litb ws (fst e)) ids) ls.

Lemma memlit_In l ls : memlit l ls = true -> In l ls.
Proof. unfold memlit. intro H. apply existsb_exists in H. destruct H as [x [Hx E]]. apply lit_eqb_eq in E. subst. exact Hx. Qed.

Lemma watch_okb_sound db id w : watch_okb db id w = true -> watch_ok db id w.
Proof.
  unfold watch_okb, watch_ok. destruct (nth_error db (N.to_nat id)) as [c|]; [|discriminate]. intro H.
  apply andb_true_iff in H. destruct H as [H Hk]. apply andb_true_iff in H. destruct H as [H Hne].
  apply andb_true_iff in H. destruct H as [H0 H1].
  exists c. split; [reflexivity|]. split; [apply memlit_In; exact H0|]. split; [apply memlit_In; exact H1|]. split.
  - intro E. rewrite E, lit_eqb_refl in Hne. discriminate.
  - apply orb_true_iff in Hk. destruct Hk as [Hm|Hf]; [left; exact Hm|]. right.
    apply andb_true_iff in Hf. destruct Hf as [Hf Hall]. split; [exact Hf|].
    intros l Hl. rewrite forallb_forall in Hall. specialize (Hall l Hl). apply orb_true_iff in Hall.
    destruct Hall as [E|E]; apply lit_eqb_eq in E; [left | right]; exact E.
Qed.

Lemma nodupN_sound l : nodupN l = true -> NoDup l.
Proof.
  induction l as [|x t IH]; simpl; [constructor|]. intro H. apply andb_true_iff in H. destruct H as [Hn Ht].
  constructor; [|apply IH; exact Ht]. intro Hin. apply memN_In in Hin. rewrite Hin in Hn. discriminate.
Qed.

Lemma wget_key ws id w : wget ws id = Some w -> exists w0, In (id, w0) ws.
Proof.
  induction ws as [|[k y] t IH]; simpl; [discriminate|].
  destruct (N.eqb k id) eqn:E.
  - apply N.eqb_eq in E. subst. intros _. exists y. left. reflexivity.
  - intro H. destruct (IH H) as [w0 Hw]. exists w0. right. exact Hw.
Qed.

Lemma lget_key ls L id : In id (lget ls L) -> exists x, In (L, x) ls.
Proof.
  induction ls as [|[k y] t IH]; simpl; [intros []|].
  destruct (lit_eqb k L) eqn:E.
  - apply lit_eqb_eq in E. subst. intros _. exists y. left. reflexivity.
  - intro H. destruct (IH H) as [x Hx]. exists x. right. exact Hx.
Qed.

Theorem winvb_sound db ws ls : winvb db ws ls = true -> WInv db ws ls.
Proof.
  unfold winvb. intro H. apply andb_true_iff in H. destruct H as [Hw Hl].
  rewrite forallb_forall in Hw, Hl. constructor.
  - intros id w E. destruct (wget_key ws id w E) as [w0 Hin]. specialize (Hw _ Hin). simpl in Hw. rewrite E in Hw.
    apply watch_okb_sound. exact Hw.
  - intros L id Hin. destruct (lget_key ls L id Hin) as [x Hx]. specialize (Hl _ Hx). simpl in Hl.
    apply andb_true_iff in Hl. destruct Hl as [_ Hall]. rewrite forallb_forall in Hall. specialize (Hall id Hin).
    unfold watches_litb in Hall. destruct (wget ws id) as [w|] eqn:E; [|discriminate]. exists w. split; [exact E|].
    apply orb_true_iff in Hall. destruct Hall as [E'|E']; apply lit_eqb_eq in E'; [left | right]; exact E'.
  - intro L. destruct (lget ls L) as [|i t] eqn:E; [constructor|].
    assert (Hin : In i (lget ls L)) by (rewrite E; left; reflexivity).
    destruct (lget_key ls L i Hin) as [x Hx]. specialize (Hl _ Hx). simpl in Hl.
    apply andb_true_iff in Hl. destruct Hl as [Hn _]. rewrite E in Hn. apply nodupN_sound. exact Hn.
Qed.

(* all hypotheses of propagate_sound at one call *)
Definition prop_hyps (db : list cl) (asserts units : list (lit * N)) (st : pstate) : bool :=
  winvb db (ps_watch st) (ps_lists st) && vars_nodup (tl_lits (ps_trail st)) &&
  forallb (assert_just db st) (asserts ++ units).

(* in the form the check uses: where the hypotheses evaluate to true, whatever the model's propagate
   adds to the trail is justified and the conflict it reports is falsified *)
Theorem checked_propagate_sound db level asserts units st st' r :
  prop_hyps db asserts units st = true ->
  propagate db level asserts units st = Some (st', r) ->
  grows db (ps_trail st) (ps_trail st') /\
  (forall o id, r = Some (o, id) -> exists c, nth_error db (N.to_nat id) = Some c /\ falsified (ps_trail st') (cl_lits c) = true).
Proof.
  unfold prop_hyps. intros H Hp. apply andb_true_iff in H. destruct H as [H Hj]. apply andb_true_iff in H. destruct H as [Hw Hn].
  rewrite forallb_forall in Hj.
  destruct (propagate_sound db level asserts units st st' r (winvb_sound _ _ _ Hw) Hn Hj Hp) as [_ [_ [G C]]].
  split; assumption.
Qed.
