(* Cdcl/Rup.v -- reverse unit propagation: an executable entailment check and
   its soundness; certification of learnt clauses from their recorded
   antecedents. *)
From Resolvo Require Export Enc.Clauses.

Inductive cstat := CSat | CConflict | CUnit (l : lit) | COther.

(* status of a clause under a partial assignment; [found] = the unassigned
   literal seen so far *)
Fixpoint cl_status (pa : list lit) (c : list lit) (found : option lit) : cstat :=
  match c with
  | [] => match found with None => CConflict | Some l => CUnit l end
  | l :: t =>
    match lit_val pa l with
    | Some true => CSat
    | Some false => cl_status pa t found
    | None =>
      match found with
      | None => cl_status pa t (Some l)
      | Some l' => if lit_eqb l l' then cl_status pa t found else COther
      end
    end
  end.

Fixpoint up_pass (F : list (list lit)) (pa : list lit) : option (list lit) :=
  match F with
  | [] => Some pa
  | d :: t =>
    match cl_status pa d None with
    | CConflict => None
    | CUnit l => up_pass t (l :: pa)
    | _ => up_pass t pa
    end
  end.

(* true = unit propagation reaches a conflict *)
Fixpoint up (fuel : nat) (F : list (list lit)) (pa : list lit) : bool :=
  match fuel with
  | O => false
  | S f =>
    match up_pass F pa with
    | None => true
    | Some pa' => if Nat.eqb (length pa') (length pa) then false else up f F pa'
    end
  end.

Definition rup (F : list (list lit)) (c : list lit) : bool :=
  up (S (length (concat F))) F (map neg c).

Lemma lit_val_false_ext a pa l : extends a pa -> lit_val pa l = Some false -> lit_true a l = false.
Proof. intros He H. apply (extends_false a pa l He). unfold lit_false. rewrite H. reflexivity. Qed.

(* [found], if set, is an unassigned literal seen earlier in the clause *)
Lemma cl_status_spec a pa c found :
  extends a pa ->
  (forall l, found = Some l -> lit_val pa l = None) ->
  match cl_status pa c found with
  | CConflict => found = None /\ cl_true a c = false
  | CUnit l => (forall l', In l' c -> lit_true a l' = true -> l' = l) /\
               (found = None \/ found = Some l) /\ lit_val pa l = None
  | _ => True
  end.
Proof.
  intro He. revert found. induction c as [|l t IH]; intros found Hf; cbn [cl_status].
  - destruct found as [l|]; [|split; reflexivity].
    split; [intros l' []|]. split; [right; reflexivity | apply Hf; reflexivity].
  - destruct (lit_val pa l) as [[|]|] eqn:Ev; [exact I| |].
    + specialize (IH found Hf). destruct (cl_status pa t found) as [| |u|]; try exact I.
      * destruct IH as [H1 H2]. split; [exact H1|]. cbn [cl_true existsb].
        rewrite (lit_val_false_ext a pa l He Ev). exact H2.
      * destruct IH as [H1 H2]. split; [|exact H2]. intros l' [E|Hin] Ht; [|apply H1; assumption].
        subst l'. rewrite (lit_val_false_ext a pa l He Ev) in Ht. discriminate.
    + destruct found as [l'|].
      * destruct (lit_eqb l l') eqn:El; [|exact I]. apply lit_eqb_eq in El. subst l'.
        specialize (IH (Some l) Hf). destruct (cl_status pa t (Some l)) as [| |u|]; try exact I.
        -- destruct IH as [H1 _]. discriminate.
        -- destruct IH as [H1 [H2 H3]]. split; [|split; [exact H2 | exact H3]].
           intros l' [E|Hin] Ht; [|apply H1; assumption]. subst l'.
           destruct H2 as [H2|H2]; [discriminate | inversion H2; reflexivity].
      * assert (Hf' : forall l0, Some l = Some l0 -> lit_val pa l0 = None).
        { intros l0 E. inversion E. subst. exact Ev. }
        specialize (IH (Some l) Hf'). destruct (cl_status pa t (Some l)) as [| |u|]; try exact I.
        -- destruct IH as [H1 _]. discriminate.
        -- destruct IH as [H1 [H2 H3]]. split; [|split; [left; reflexivity | exact H3]].
           intros l' [E|Hin] Ht; [|apply H1; assumption]. subst l'.
           destruct H2 as [H2|H2]; [discriminate | inversion H2; reflexivity].
Qed.

Lemma cl_true_exists a c : cl_true a c = true -> exists l, In l c /\ lit_true a l = true.
Proof. apply cl_true_iff. Qed.

Lemma lit_val_none_pval pa l : lit_val pa l = None -> pval pa (fst l) = None.
Proof. unfold lit_val. destruct (pval pa (fst l)); [discriminate | reflexivity]. Qed.

Lemma up_pass_sound a F pa :
  (forall d, In d F -> cl_true a d = true) -> extends a pa ->
  match up_pass F pa with
  | None => False
  | Some pa' => extends a pa'
  end.
Proof.
  revert pa. induction F as [|d t IH]; intros pa HF He; cbn [up_pass]; [exact He|].
  assert (HF' : forall d0, In d0 t -> cl_true a d0 = true) by (intros; apply HF; right; assumption).
  pose proof (cl_status_spec a pa d None He ltac:(intros ? H; discriminate H)) as Hs.
  pose proof (HF d (or_introl eq_refl)) as Hd.
  destruct (cl_status pa d None) as [| |u|].
  - apply IH; assumption.
  - destruct Hs as [_ Hs]. congruence.
  - destruct Hs as [H1 [_ H3]]. apply IH; [exact HF'|].
    apply extends_cons; [exact He|]. apply cl_true_exists in Hd. destruct Hd as [l [Hin Ht]].
    rewrite <- (H1 l Hin Ht). exact Ht.
  - apply IH; assumption.
Qed.

Lemma up_sound a fuel F pa :
  (forall d, In d F -> cl_true a d = true) -> extends a pa -> up fuel F pa = false.
Proof.
  revert pa. induction fuel as [|f IH]; intros pa HF He; cbn [up]; [reflexivity|].
  pose proof (up_pass_sound a F pa HF He) as Hp.
  destruct (up_pass F pa) as [pa'|]; [|destruct Hp].
  destruct (Nat.eqb (length pa') (length pa)); [reflexivity|]. apply IH; assumption.
Qed.

Lemma extends_neg a c : cl_true a c = false -> extends a (map neg c).
Proof.
  intros Hc v b. induction c as [|[w p] t IH]; simpl; [discriminate|].
  cbn [cl_true existsb] in Hc. apply orb_false_iff in Hc. destruct Hc as [Hl Ht].
  destruct (var_eqb w v) eqn:E.
  - apply var_eqb_eq in E. subst. intro H. inversion H. subst.
    unfold lit_true in Hl. simpl in Hl. destruct (a v), p; simpl in *; try reflexivity; discriminate.
  - apply IH. exact Ht.
Qed.

Theorem rup_sound F c : rup F c = true -> entails F c.
Proof.
  intros H a HF. destruct (cl_true a c) eqn:E; [reflexivity|]. exfalso.
  unfold rup in H. rewrite (up_sound a _ F (map neg c) HF (extends_neg a c E)) in H. discriminate.
Qed.

(* ---------- learnt clauses certified from their recorded antecedents ---------- *)

Fixpoint select (pre : list cl) (why : list N) : option (list (list lit)) :=
  match why with
  | [] => Some []
  | j :: t =>
    match nth_error pre (N.to_nat j), select pre t with
    | Some c, Some r => Some (cl_lits c :: r)
    | _, _ => None
    end
  end.

Definition learnt_okb (pre : list cl) (c : cl) : bool :=
  match ck c with
  | KLearnt why => match select pre why with Some F => rup F (cl_lits c) | None => false end
  | _ => true
  end.

(* every learnt clause is RUP w.r.t. the clauses it names, all of them older *)
Fixpoint learnts_ok (pre rest : list cl) : bool :=
  match rest with
  | [] => true
  | c :: t => learnt_okb pre c && learnts_ok (pre ++ [c]) t
  end.

Lemma select_In pre why F d : select pre why = Some F -> In d F -> exists c, In c pre /\ cl_lits c = d.
Proof.
  revert F. induction why as [|j t IH]; intros F; cbn [select].
  - intro H. inversion H. intros [].
  - destruct (nth_error pre (N.to_nat j)) as [c|] eqn:En; [|discriminate].
    destruct (select pre t) as [r|]; [|discriminate]. intro H. inversion H. subst.
    intros [E|Hin]; [exists c; split; [eapply nth_error_In; exact En | exact E] | eapply IH; eauto].
Qed.

Lemma learnts_ok_sound a pre rest :
  learnts_ok pre rest = true ->
  (forall c, In c pre -> cl_true a (cl_lits c) = true) ->
  (forall c, In c rest -> is_learnt c = false -> cl_true a (cl_lits c) = true) ->
  forall c, In c rest -> cl_true a (cl_lits c) = true.
Proof.
  revert pre. induction rest as [|c t IH]; intros pre Hok Hpre Hfacts x Hx; [destruct Hx|].
  cbn [learnts_ok] in Hok. apply andb_true_iff in Hok. destruct Hok as [Hc Ht].
  assert (Hcs : cl_true a (cl_lits c) = true).
  { destruct (is_learnt c) eqn:El; [|apply Hfacts; [left; reflexivity | exact El]].
    unfold learnt_okb in Hc. unfold is_learnt in El. destruct (ck c) as [| | | | | |why]; try discriminate.
    destruct (select pre why) as [F|] eqn:Es; [|discriminate].
    apply rup_sound in Hc. apply Hc. intros d Hd.
    destruct (select_In pre why F d Es Hd) as [c' [Hc' E]]. rewrite <- E. apply Hpre. exact Hc'. }
  destruct Hx as [E|Hx]; [subst; exact Hcs|].
  apply (IH (pre ++ [c])); try assumption.
  - intros c' Hin. apply in_app_or in Hin. destruct Hin as [Hin|[E|[]]]; [apply Hpre; exact Hin | subst; exact Hcs].
  - intros c' Hin. apply Hfacts. right. exact Hin.
Qed.

(* all clauses of the database hold in every model of its non-learnt clauses *)
Theorem learnts_entailed a db :
  learnts_ok [] db = true ->
  (forall c, In c db -> is_learnt c = false -> cl_true a (cl_lits c) = true) ->
  forall c, In c db -> cl_true a (cl_lits c) = true.
Proof. intros Hok Hf. apply (learnts_ok_sound a [] db Hok); [intros c [] | exact Hf]. Qed.
