(* Cdcl/CheckRun.v -- the executable trace checker: replays an implementation
   log (clause database dump + trail events + outcome) against the abstract
   machine, and the top-level soundness theorems that turn "checker accepts"
   into the property statements. *)
From Resolvo Require Export Cdcl.Explicit.

Record log := mkLog {
  l_db : list cl;
  l_events : list event;
  l_trail : list lit            (* final trail as dumped, oldest first *)
}.

Lemma Supp_incl U P S S' s : (forall x, In x S -> In x S') -> Supp U P S s -> Supp U P S' s.
Proof.
  intros Hi H. induction H as [s r Hr Hc HS | s Hs HS | p s r Hp IH Hr Hc HS].
  - eapply supp_root; eauto.
  - apply supp_soft; auto.
  - eapply supp_dep; eauto.
Qed.

Section Check.
Variable u : universe.
Variable P : problem.
Let U := table_provider u.

(* every candidate revealed by a Requires clause is registered in the at-most-one
   tracker of its package as soon as a second candidate of that package is known
   (an invariant of the encoder; not needed by the theorems below, which only
   get stronger hypotheses from it) *)
Definition req_cand_names (db : list cl) : list (N * N) :=
  flat_map (fun c => match ck c with
                     | KRequires _ _ cands => map (fun x => (p_sol_name U x, x)) (concat cands)
                     | _ => []
                     end) db.

Definition registered_ok (db : list cl) : bool :=
  let pairs := req_cand_names db in
  forallb (fun nx =>
    if existsb (fun ny => N.eqb (fst ny) (fst nx) && negb (N.eqb (snd ny) (snd nx))) pairs
    then memN (snd nx) (reg_order db (fst nx)) else true) pairs.

(* the clause database is made of facts and certified learnt clauses *)
Definition check_db (lg : log) : bool :=
  wf_universeb u && facts_ok U P (l_db lg) && learnts_ok [] (l_db lg) && registered_ok (l_db lg).

(* the events are a legal run of the machine ending in the dumped trail *)
Definition check_run (lg : log) : option (list ent) :=
  match run_events (pr_soft P) (l_db lg) (l_events lg) [] with
  | Some tr => if lits_eqb (rev (tlits tr)) (l_trail lg) then Some tr else None
  | None => None
  end.

Definition check_sat_log (lg : log) (sol : list N) : bool :=
  check_db lg &&
  match check_run lg with
  | Some tr => check_sat U P (l_db lg) (tlits tr) sol
  | None => false
  end.

(* C01 only: package-level clauses of accepted soft solvables may be falsified *)
Definition check_sat_log_lenient (lg : log) (sol : list N) : bool :=
  check_db lg &&
  match check_run lg with
  | Some tr => check_sat_lenient U P (l_db lg) (tlits tr) sol
  | None => false
  end.

Definition check_unsat_log (lg : log) : bool :=
  wf_universeb u && check_unsat U P (l_db lg).

Lemma check_sat_log_parts lg sol :
  check_sat_log lg sol = true ->
  WF U /\ facts_ok U P (l_db lg) = true /\ learnts_ok [] (l_db lg) = true /\
  exists tr, run_events (pr_soft P) (l_db lg) (l_events lg) [] = Some tr /\
             check_sat U P (l_db lg) (tlits tr) sol = true.
Proof.
  unfold check_sat_log, check_db, check_run. intro H.
  apply andb_true_iff in H. destruct H as [H Hs]. apply andb_true_iff in H. destruct H as [H _].
  apply andb_true_iff in H. destruct H as [H Hl].
  apply andb_true_iff in H. destruct H as [Hw Hf].
  split; [apply wf_universeb_sound; exact Hw|]. split; [exact Hf|]. split; [exact Hl|].
  destruct (run_events (pr_soft P) (l_db lg) (l_events lg) []) as [tr|]; [|discriminate].
  destruct (lits_eqb (rev (tlits tr)) (l_trail lg)); [|discriminate].
  exists tr. split; [reflexivity | exact Hs].
Qed.

(* C01 at trace level *)
Theorem sat_log_valid lg sol :
  check_sat_log_lenient lg sol = true -> valid U P sol (exempt U P sol).
Proof.
  unfold check_sat_log_lenient, check_db, check_run. intro H.
  apply andb_true_iff in H. destruct H as [H Hs]. apply andb_true_iff in H. destruct H as [H _].
  apply andb_true_iff in H. destruct H as [H _].
  apply andb_true_iff in H. destruct H as [Hw _].
  pose proof (wf_universeb_sound u Hw) as HW.
  destruct (run_events (pr_soft P) (l_db lg) (l_events lg) []) as [tr|]; [|discriminate].
  destruct (lits_eqb (rev (tlits tr)) (l_trail lg)); [|discriminate].
  destruct (check_sat_lenient_sound U P HW _ _ _ Hs) as [E Hv]. subst sol.
  assert (Hss : same_set (sel_of (tlits tr)) (rev (sel_of (tlits tr)))) by (intro x; apply in_rev).
  assert (Hex : exempt U P (rev (sel_of (tlits tr))) = exempt U P (sel_of (tlits tr))).
  { apply exempt_same_set. intro x. symmetry. apply in_rev. }
  rewrite Hex. eapply valid_same_set; eauto.
Qed.

(* C05 at trace level *)
Theorem sat_log_supported lg sol :
  check_sat_log lg sol = true -> supported U P sol.
Proof.
  intro H. destruct (check_sat_log_parts lg sol H) as [HW [Hf [Hl [tr [Hrun Hs]]]]].
  pose proof (run_trail_ok (pr_soft P) (l_db lg) _ [] tr eq_refl Hrun) as Hok.
  destruct (check_sat_sound U P HW _ _ _ Hs) as [E _].
  assert (Hall : forall c, In c (l_db lg) -> cl_true (asg_of U (l_db lg) (tlits tr)) (cl_lits c) = true).
  { unfold check_sat in Hs. apply andb_true_iff in Hs. destruct Hs as [Hs _].
    apply andb_true_iff in Hs. destruct Hs as [_ Hall]. rewrite forallb_forall in Hall. exact Hall. }
  pose proof (support_sound U P HW (l_db lg) tr Hf Hl Hok Hall) as Hsup.
  intros x Hx. subst sol. apply in_rev in Hx. specialize (Hsup x Hx).
  apply (Supp_incl U P (sel_of (tlits tr))); [|exact Hsup].
  intros y Hy. apply -> in_rev. exact Hy.
Qed.

(* C07 at trace level *)
Theorem sat_log_greedy lg sol G :
  check_sat_log lg sol = true -> pr_soft P = [] -> greedy_ok U P G -> same_set sol G.
Proof.
  intros H Hsoft Hg. destruct (check_sat_log_parts lg sol H) as [HW [Hf [Hl [tr [Hrun Hs]]]]].
  eapply greedy_final; eauto.
Qed.

(* C08 at trace level *)
Theorem sat_log_explicit lg sol Sx :
  check_sat_log lg sol = true -> pr_soft P = [] -> root_singles P ->
  valid U P Sx [] -> has_root_firsts U P Sx ->
  forall r f, In r (pr_reqs P) -> first_choice U r = Some f -> In f sol.
Proof.
  intros H Hsoft Hsing Hv Hfirst. destruct (check_sat_log_parts lg sol H) as [HW [Hf [Hl [tr [Hrun Hs]]]]].
  eapply explicit_final; eauto.
Qed.

(* C02 at trace level: an accepted refutation means no valid selection exists *)
Theorem unsat_log_sound lg :
  check_unsat_log lg = true -> ~ solvable U P.
Proof.
  unfold check_unsat_log. intro H. apply andb_true_iff in H. destruct H as [Hw Hu].
  apply (check_unsat_sound U P (wf_universeb_sound u Hw) _ Hu).
Qed.

(* C02, other direction, for runs that end: a solvable problem is never refuted *)
Corollary solvable_not_refuted lg :
  solvable U P -> check_unsat_log lg = false.
Proof.
  intro Hs. destruct (check_unsat_log lg) eqn:E; [|reflexivity].
  exfalso. apply (unsat_log_sound lg E Hs).
Qed.

End Check.

(* verdicts of accepted runs agree, whatever the two runs did in between (completion
   order of provider futures, activity, ...): for a problem without soft
   requirements an accepted Unsolvable log and an accepted solution log cannot coexist *)
Theorem verdicts_agree u P lg1 lg2 sol :
  pr_soft P = [] -> check_unsat_log u P lg1 = true -> check_sat_log_lenient u P lg2 sol = true -> False.
Proof.
  intros Hs H1 H2. apply (unsat_log_sound u P lg1 H1). exists sol.
  pose proof (sat_log_valid u P lg2 sol H2) as Hv. unfold exempt in Hv. rewrite Hs in Hv. exact Hv.
Qed.
