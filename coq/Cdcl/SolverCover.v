(* Cdcl/SolverCover.v -- every clause of the solver model's database is looked after by something: it is
   watched, or it is registered as an assertion / a unit learnt clause on a literal it consists of (besides
   the negated root), or it is the root clause.  With solve_sat_no_clause_lost this turns "no WATCHED clause
   is falsified" into: the trail a solution (of a problem without soft requirements) is read from falsifies
   NO clause of the database -- solve_sat_no_clause_falsified. *)
From Resolvo Require Export Cdcl.SolverRegistered.
From Coq Require Import Lia.

Section Cover.
Variable U : provider.
Variable P : problem.
Hypothesis HW : WF U.
Variable A : Type.
Variable a_ge : A -> N -> N -> bool.
Variable a_conflict : A -> list N -> A.

Notation sst := (sstate A).
Notation trail st := (ps_trail (s_ps st)).

Definition covered (st : sst) (id : N) (c : cl) : Prop :=
  (exists w, wget (ps_watch (s_ps st)) id = Some w) \/
  (exists l, In (l, id) (s_asserts st ++ s_units st) /\ In l (cl_lits c)) \/
  c = mkCl KRoot [(VRoot, true)].

Definition KInv (st : sst) : Prop :=
  forall id c, nth_error (s_db st) (N.to_nat id) = Some c -> covered st id c.

(* coverage only depends on the watch map, the registered assertions and the database *)
Lemma kinv_eq (st st' : sst) :
  s_db st' = s_db st -> ps_watch (s_ps st') = ps_watch (s_ps st) -> s_asserts st' = s_asserts st -> s_units st' = s_units st ->
  KInv st -> KInv st'.
Proof. intros E1 E2 E3 E4 H id c Hc. unfold covered. rewrite E2, E3, E4. rewrite E1 in Hc. apply (H id c Hc). Qed.

(* a watch map that only gains or updates entries *)
Definition wgrow (a b : list (N * (lit * lit))) : Prop := forall id w, wget a id = Some w -> exists w', wget b id = Some w'.

Lemma kinv_wgrow (st st' : sst) :
  s_db st' = s_db st -> wgrow (ps_watch (s_ps st)) (ps_watch (s_ps st')) -> s_asserts st' = s_asserts st -> s_units st' = s_units st ->
  KInv st -> KInv st'.
Proof.
  intros E1 Hw E3 E4 H id c Hc. rewrite E1 in Hc. destruct (H id c Hc) as [[w G]|[G|G]].
  - left. apply (Hw id w G).
  - right. left. rewrite E3, E4. exact G.
  - right. right. exact G.
Qed.

Lemma wgrow_refl a : wgrow a a.
Proof. intros id w H. exists w. exact H. Qed.

Lemma wgrow_trans a b c : wgrow a b -> wgrow b c -> wgrow a c.
Proof. intros H1 H2 id w H. destruct (H1 id w H) as [w' H']. apply (H2 id w' H'). Qed.

Lemma wgrow_wset a id x : wgrow a (wset a id x).
Proof.
  intros id' w H. destruct (N.eq_dec id' id) as [E|E].
  - subst. exists x. apply wget_wset_same.
  - exists w. rewrite wget_wset_other by exact E. exact H.
Qed.

(* ---------- propagate only updates watches ---------- *)

Lemma visit_list_wgrow db L level : forall ids kept st st' r,
  visit_list db L level ids kept st = Some (st', r) -> wgrow (ps_watch st) (ps_watch st').
Proof.
  induction ids as [|id rest IH]; intros kept st st' r H; cbn [visit_list] in H.
  - inversion H. subst. apply wgrow_refl.
  - destruct (wget (ps_watch st) id) as [[w0 w1]|]; [|discriminate].
    destruct (nth_error db (N.to_nat id)) as [c|]; [|discriminate].
    destruct (plit_true st (if lit_eqb w0 L then w1 else w0)); [apply (IH _ _ _ _ H)|].
    destruct (next_unwatched st c (if lit_eqb w0 L then w1 else w0)) as [|nl|]; [| |discriminate].
    + destruct (try_add st (if lit_eqb w0 L then w1 else w0) level id) as [st1|] eqn:Et.
      * pose proof (try_add_gen st (if lit_eqb w0 L then w1 else w0) level id) as G. rewrite Et in G.
        assert (Ew : ps_watch st1 = ps_watch st) by (destruct G as [[E _]|[_ E]]; subst st1; reflexivity).
        rewrite <- Ew. apply (IH _ _ _ _ H).
      * inversion H. subst. apply wgrow_refl.
    + eapply wgrow_trans; [|apply (IH _ _ _ _ H)]. cbn [ps_watch]. apply wgrow_wset.
Qed.

Lemma prop_loop_wgrow db level : forall fuel st st' r,
  prop_loop fuel db level st = Some (st', r) -> wgrow (ps_watch st) (ps_watch st').
Proof.
  induction fuel as [|f IH]; intros st st' r H; cbn [prop_loop] in H; [discriminate|].
  destruct (Nat.ltb (ps_pidx st) (length (ps_trail st))); [|inversion H; subst; apply wgrow_refl].
  destruct (nth_error (ps_trail st) (length (ps_trail st) - 1 - ps_pidx st)) as [e|]; [|discriminate].
  destruct (visit_list db (tvar e, negb (snd (t_lit e))) level (lget (ps_lists st) (tvar e, negb (snd (t_lit e)))) [] st)
    as [[st1 [c|]]|] eqn:Ev; [| |discriminate].
  - inversion H. subst. apply (visit_list_wgrow _ _ _ _ _ _ _ _ Ev).
  - eapply wgrow_trans; [apply (visit_list_wgrow _ _ _ _ _ _ _ _ Ev)|].
    apply (IH (mkPS (ps_trail st1) (S (ps_pidx st1)) (ps_watch st1) (ps_lists st1)) _ _ H).
Qed.

Lemma assert_all_watch level : forall l st st' r, assert_all level l st = (st', r) -> ps_watch st' = ps_watch st.
Proof.
  induction l as [|[x id] t IH]; intros st st' r H; simpl in H; [inversion H; reflexivity|].
  pose proof (try_add_gen st x level id) as G. destruct (try_add st x level id) as [st1|]; [|inversion H; reflexivity].
  rewrite (IH _ _ _ H). destruct G as [[E _]|[_ E]]; subst st1; reflexivity.
Qed.

Lemma propagate_wgrow db level asserts units st st' r :
  propagate db level asserts units st = Some (st', r) -> wgrow (ps_watch st) (ps_watch st').
Proof.
  unfold propagate. intro H.
  destruct (assert_all level asserts st) as [st1 r1] eqn:E1. pose proof (assert_all_watch _ _ _ _ _ E1) as A1.
  destruct r1 as [c1|]; [inversion H; subst; rewrite A1; apply wgrow_refl|].
  destruct (assert_all level units st1) as [st2 r2] eqn:E2. pose proof (assert_all_watch _ _ _ _ _ E2) as A2.
  destruct r2 as [c2|]; [inversion H; subst; rewrite A2, A1; apply wgrow_refl|].
  rewrite <- A1, <- A2. apply (prop_loop_wgrow _ _ _ _ _ _ H).
Qed.

(* ---------- the invariant through the solver ---------- *)

Lemma kinv_assign (st : sst) l level reason st' : KInv st -> s_assign st l level reason = Some st' -> KInv st'.
Proof.
  intros HK H. destruct (s_assign_cases _ _ _ _ _ _ H) as [[E _]|[_ E]]; subst st'; [exact HK|].
  apply (kinv_eq st); auto.
Qed.

Lemma kinv_undo_last (st : sst) : KInv st -> KInv (s_undo_last st).
Proof. intro H. apply (kinv_eq st); auto. Qed.

Lemma kinv_pop_above fuel lv : forall (st : sst), KInv st -> KInv (s_pop_above fuel lv st).
Proof.
  induction fuel as [|f IH]; intros st H; simpl; [exact H|].
  destruct (ps_trail (s_ps st)) as [|e t]; [exact H|]. destruct (N.leb (t_level e) lv); [exact H|].
  apply IH. apply kinv_undo_last. exact H.
Qed.

Lemma kinv_undo_until (st : sst) lv : KInv st -> KInv (s_undo_until st lv).
Proof.
  intro H. unfold s_undo_until. destruct (N.eqb lv 0).
  - apply (kinv_eq st); auto.
  - apply kinv_pop_above. apply (kinv_eq st); auto.
Qed.

Lemma kinv_pops n : forall (st : sst), KInv st -> KInv (s_pops n st).
Proof. induction n as [|n IH]; intros st H; simpl; [exact H | apply IH; apply kinv_undo_last; exact H]. Qed.

Lemma kinv_propagate (st : sst) level st' r : KInv st -> s_propagate st level = Some (st', r) -> KInv st'.
Proof.
  intros HK H. unfold s_propagate in H.
  destruct (propagate (s_db st) level (s_asserts st) (s_units st) (s_ps st)) as [[ps1 conf]|] eqn:Ep; [|discriminate].
  inversion H. subst. apply (kinv_wgrow st); auto. cbn [with_ps s_ps]. apply (propagate_wgrow _ _ _ _ _ _ _ Ep).
Qed.

(* a new clause: it gets watches, or it is registered as an assertion on one of its literals *)
Lemma covered_mono (st st' : sst) id c :
  wgrow (ps_watch (s_ps st)) (ps_watch (s_ps st')) ->
  (forall x, In x (s_asserts st ++ s_units st) -> In x (s_asserts st' ++ s_units st')) ->
  covered st id c -> covered st' id c.
Proof.
  intros Hw Ha [[w G]|[[l [G1 G2]]|G]].
  - left. apply (Hw id w G).
  - right. left. exists l. split; [apply Ha; exact G1 | exact G2].
  - right. right. exact G.
Qed.

Lemma kinv_add_clause (st : sst) confl c idx :
  KInv st -> factb U P idx c = true -> enc_kind c = true -> KInv (fst (add_clause (st, confl) c)).
Proof.
  intros HK Hf Hek id c0 Hc0.
  assert (Hmono : forall i ci, covered st i ci -> covered (fst (add_clause (st, confl) c)) i ci).
  { intros i ci. apply covered_mono; unfold add_clause; cbn [fst s_ps s_asserts s_units].
    - destruct (w_watch (create (tr_lits st) c)) as [x|]; [cbn [start_watching ps_watch]; apply wgrow_wset | apply wgrow_refl].
    - intros x Hx. destruct (w_assert (create (tr_lits st) c)) as [v|]; [|exact Hx].
      apply in_app_or in Hx. apply in_or_app. destruct Hx as [Hx|Hx]; [left; apply in_or_app; left; exact Hx | right; exact Hx]. }
  assert (Edb : s_db (fst (add_clause (st, confl) c)) = s_db st ++ [c]) by reflexivity.
  rewrite Edb in Hc0.
  destruct (Nat.lt_ge_cases (N.to_nat id) (length (s_db st))) as [Hlt|Hge].
  - rewrite nth_error_app1 in Hc0 by exact Hlt. apply Hmono. apply (HK id c0 Hc0).
  - rewrite nth_error_app2 in Hc0 by exact Hge. destruct (N.to_nat id - length (s_db st))%nat as [|k] eqn:Ek;
      [|simpl in Hc0; destruct k; discriminate].
    simpl in Hc0. inversion Hc0. subst c0. clear Hc0.
    assert (Eid : id = N.of_nat (length (s_db st))) by lia. subst id.
    unfold covered, add_clause. cbn [fst s_ps s_asserts s_units].
    destruct (w_watch (create (tr_lits st) c)) as [x|] eqn:Ew.
    + left. exists x. cbn [start_watching ps_watch]. apply wget_wset_same.
    + right. left. unfold create in *. unfold factb in Hf. unfold enc_kind in Hek.
      destruct (ck c) as [|p r cands|n|p f v0|l o|x rs|why] eqn:Ek'; try discriminate Hek.
      * apply andb_true_iff in Hf. destruct Hf as [_ Hl]. apply lits_eqb_eq in Hl.
        destruct (concat cands) as [|first rest]; [|destruct (find _ _); discriminate Ew].
        cbn [w_assert]. exists (p, false). split; [apply in_or_app; left; apply in_or_app; right; left; reflexivity|].
        rewrite Hl. left. reflexivity.
      * destruct (cl_lits c) as [|[[|xa|na ka] [|]] [|[[|xb|nb kb] bb] [|z t]]]; simpl in Hf, Ew; try discriminate Hf; discriminate Ew.
      * apply andb_true_iff in Hf. destruct Hf as [_ Hl]. apply lits_eqb_eq in Hl.
        destruct (var_eqb p (VSol f)) eqn:Ev; [|discriminate Ew].
        cbn [w_assert]. exists (p, false). split; [apply in_or_app; left; apply in_or_app; right; left; reflexivity|].
        rewrite Hl. left. reflexivity.
      * discriminate Ew.
      * apply andb_true_iff in Hf. destruct Hf as [_ Hl]. apply lits_eqb_eq in Hl.
        cbn [w_assert]. exists (VSol x, false). split; [apply in_or_app; left; apply in_or_app; right; left; reflexivity|].
        rewrite Hl. left. reflexivity.
Qed.

Lemma kinv_add_clauses idx : forall new (st : sst) confl,
  KInv st -> Forall (fun c => factb U P idx c = true) new -> Forall (fun c => enc_kind c = true) new ->
  KInv (fst (fold_left add_clause new (st, confl))).
Proof.
  induction new as [|c t IH]; intros st confl HK Hf Hk; cbn [fold_left]; [exact HK|].
  inversion Hf as [|? ? Hf1 Hf2]. inversion Hk as [|? ? Hk1 Hk2]. subst.
  pose proof (kinv_add_clause st confl c idx HK Hf1 Hk1) as H1.
  destruct (add_clause (st, confl) c) as [st1 confl1]. cbn [fst] in H1. apply IH; assumption.
Qed.

Lemma kinv_absorb (st : sst) enc1 :
  KInv st -> EInv U P enc1 -> ext (s_enc st) enc1 -> KInv (fst (absorb st enc1)).
Proof.
  intros HK HE [x [Ex Fx]]. unfold absorb. cbv zeta.
  assert (Hnew : skipn (length (e_db (s_enc st))) (e_db enc1) = x).
  { rewrite Ex. rewrite skipn_app, skipn_all, Nat.sub_diag. reflexivity. }
  rewrite Hnew. apply (kinv_add_clauses (trk_idx (e_trk enc1))); [apply (kinv_eq st); auto | | exact Fx].
  apply Forall_forall. intros c Hc. apply (einv_facts U P enc1 HE). rewrite Ex. apply in_or_app. right. exact Hc.
Qed.

Lemma kinv_encode fuel (st : sst) sos st' confl :
  SInv U P A st -> KInv st -> encode U P fuel st sos = Some (st', confl) -> KInv st'.
Proof.
  intros HS HK H. unfold encode in H.
  destruct (queue_solvables (s_enc st) sos) as [enc1 w] eqn:Eq.
  pose proof (einv_queue_solvables U P sos _ _ _ (si_enc _ _ _ _ _ HS) Eq) as HE1.
  pose proof (queue_solvables_tasks U P sos _ _ _ Eq) as Hw.
  pose proof (ext_queue_solvables sos _ _ _ Eq) as Hx1.
  destruct (s_order st) as [order|].
  - destruct (enc_ordered U P (falses_of (tr_lits st)) enc1 w order) as [[enc2 order']|] eqn:Eo; [|discriminate].
    destruct (enc_ordered_inv U P HW _ _ _ _ _ _ HE1 Hw Eo) as [HE2 Hx2].
    pose proof (kinv_absorb st enc2 HK HE2 (ext_trans _ _ _ Hx1 Hx2)) as HA.
    destruct (absorb st enc2) as [st1 confl1]. inversion H. subst. cbn [fst] in HA. apply (kinv_eq st1); auto.
  - destruct (enc_fifo U P fuel (falses_of (tr_lits st)) enc1 w) as [enc2|] eqn:Ef; [|discriminate].
    destruct (enc_fifo_inv U P HW _ _ _ _ _ HE1 Hw Ef) as [HE2 Hx2].
    pose proof (kinv_absorb st enc2 HK HE2 (ext_trans _ _ _ Hx1 Hx2)) as HA. inversion H as [H1]. rewrite H1 in HA. exact HA.
Qed.

(* a learnt clause: watched when it has two literals or more, a registered unit otherwise *)
Lemma kinv_learn (st : sst) conf st' lv : KInv st -> learn U a_conflict st conf = Some (st', lv) -> KInv st'.
Proof.
  intros HK H. unfold learn in H.
  destruct (analyze (s_db st) (ps_trail (s_ps st)) conf) as [r|]; [|discriminate]. cbv zeta in H.
  pose proof (kinv_pops (r_pops r) st HK) as H1. set (st1 := s_pops (r_pops r) st) in *.
  assert (Hnew : forall (st2 : sst),
            s_db st2 = s_db st1 ++ [mkCl (KLearnt (r_why r)) (r_learnt r)] ->
            wgrow (ps_watch (s_ps st1)) (ps_watch (s_ps st2)) ->
            (forall x, In x (s_asserts st1 ++ s_units st1) -> In x (s_asserts st2 ++ s_units st2)) ->
            covered st2 (N.of_nat (length (s_db st1))) (mkCl (KLearnt (r_why r)) (r_learnt r)) -> KInv st2).
  { intros st2 Edb Hw Ha Hcov id c Hc. rewrite Edb in Hc.
    destruct (Nat.lt_ge_cases (N.to_nat id) (length (s_db st1))) as [Hlt|Hge].
    - rewrite nth_error_app1 in Hc by exact Hlt. apply (covered_mono st1 st2 id c Hw Ha). apply (H1 id c Hc).
    - rewrite nth_error_app2 in Hc by exact Hge. destruct (N.to_nat id - length (s_db st1))%nat as [|k] eqn:Ek;
        [|simpl in Hc; destruct k; discriminate].
      simpl in Hc. inversion Hc. subst c. assert (Eid : id = N.of_nat (length (s_db st1))) by lia. subst id. exact Hcov. }
  destruct (r_learnt r) as [|f [|g t]] eqn:El.
  - simpl in H. discriminate.
  - simpl in H.
    match type of H with
    | context [s_undo_until ?X ?T] =>
        assert (H2 : KInv X);
        [ apply Hnew; [reflexivity | apply wgrow_refl | |]
        | pose proof (kinv_undo_until X T H2) as H3 ]
    end.
    + cbn [s_asserts s_units]. intros x Hx. apply in_app_or in Hx. apply in_or_app.
      destruct Hx as [Hx|Hx]; [left; exact Hx | right; apply in_or_app; left; exact Hx].
    + right. left. exists f. cbn [s_asserts s_units cl_lits]. split; [|left; reflexivity].
      apply in_or_app. right. apply in_or_app. right. left. reflexivity.
    + match type of H with
      | context [s_assign ?X ?L ?T ?I] => destruct (s_assign X L T I) as [st4|] eqn:Ea; [|discriminate]
      end.
      inversion H. subst. eapply kinv_assign; [exact H3 | exact Ea].
  - destruct (rev (f :: g :: t)) as [|last rl] eqn:Er; [simpl in H; discriminate|].
    destruct (lit_eqb f last) eqn:Efl; cbn [negb] in H; [discriminate|].
    match type of H with
    | context [s_undo_until ?X ?T] =>
        assert (H2 : KInv X);
        [ apply Hnew; [reflexivity | cbn [s_ps start_watching ps_watch]; apply wgrow_wset | intros x Hx; exact Hx |]
        | pose proof (kinv_undo_until X T H2) as H3 ]
    end.
    + left. exists (f, last). cbn [s_ps start_watching ps_watch]. apply wget_wset_same.
    + match type of H with
      | context [s_assign ?X ?L ?T ?I] => destruct (s_assign X L T I) as [st4|] eqn:Ea; [|discriminate]
      end.
      inversion H. subst. eapply kinv_assign; [exact H3 | exact Ea].
Qed.

(* ---------- the loops ---------- *)

Definition step_k (r : step_res A) : Prop := match r with RLevel st _ => KInv st | _ => True end.
Definition run_k (r : run_res A) : Prop := match r with ROk st _ => KInv st | _ => True end.

Lemma kinv_prop_learn : forall fuel st level, KInv st -> step_k (prop_learn U a_conflict fuel st level).
Proof.
  induction fuel as [|f IH]; intros st level HK; cbn [prop_learn]; [exact I|].
  destruct (s_propagate st level) as [[st1 [conf|]]|] eqn:Ep; [| |exact I].
  - pose proof (kinv_propagate _ _ _ _ HK Ep) as H1. destruct (N.eqb level 1).
    + destruct (unsolvable (s_db st1) (ps_trail (s_ps st1)) conf) as [[core ok]|]; exact I.
    + destruct (learn U a_conflict st1 conf) as [[st2 lv]|] eqn:El; [|exact I]. apply IH. apply (kinv_learn _ _ _ _ H1 El).
  - apply (kinv_propagate _ _ _ _ HK Ep).
Qed.

Lemma kinv_resolve : forall fuel st level, KInv st -> step_k (resolve U a_ge a_conflict fuel st level).
Proof.
  induction fuel as [|f IH]; intros st level HK; cbn [resolve]; [exact I|].
  destruct (decide U (a_ge (s_act st)) (s_db st) (tr_lits st)) as [[d|]|]; [| exact HK | exact I].
  destruct (s_assign st (VSol (pd_cand d), true) (N.succ level) (pd_clause d)) as [st1|] eqn:Ea; [|exact I].
  pose proof (kinv_prop_learn f st1 (N.succ level) (kinv_assign _ _ _ _ _ HK Ea)) as H2.
  destruct (prop_learn U a_conflict f st1 (N.succ level)) as [st2 lv|st2 core| |]; try exact I. apply IH. exact H2.
Qed.

Lemma kinv_reject (st : sst) so start conf : KInv st -> run_k (reject st so start conf).
Proof.
  intro HK. unfold reject. destruct (N.eqb start 0).
  - destruct (unsolvable (s_db st) (ps_trail (s_ps st)) conf) as [[core ok]|]; exact I.
  - destruct (s_assign (s_undo_until st start) (so_var so, false) (N.succ start) 0) as [st2|] eqn:Ea; [|exact I].
    apply (kinv_assign _ _ _ _ _ (kinv_undo_until _ _ HK) Ea).
Qed.

Lemma kinv_run_loop efuel so start : forall fuel st level,
  SInv U P A st -> KInv st -> run_k (run_loop U P a_ge a_conflict fuel efuel st so start level).
Proof.
  induction fuel as [|f IH]; intros st level HS HK; cbn [run_loop]; [exact I|].
  set (first := if N.eqb level start then
                  match s_assign st (so_var so, true) (N.succ start) 0 with
                  | None => None
                  | Some st1 => match encode U P efuel st1 [so] with
                                | None => None
                                | Some (st2, confl) => Some (st2, N.succ start, find (clause_falsified st2) confl)
                                end
                  end
                else Some (st, level, None)).
  assert (Hfirst : match first with Some (st2, _, _) => SInv U P A st2 /\ KInv st2 | None => True end).
  { unfold first. destruct (N.eqb level start); [|split; assumption].
    destruct (s_assign st (so_var so, true) (N.succ start) 0) as [st1|] eqn:Ea; [|exact I].
    pose proof (sinv_assign U P A _ _ _ _ _ _ HS Ea) as HS1.
    destruct (encode U P efuel st1 [so]) as [[st2 confl]|] eqn:Ee; [|exact I].
    split; [apply (sinv_encode U P HW A _ _ _ _ _ HS1 Ee) | apply (kinv_encode _ _ _ _ _ HS1 (kinv_assign _ _ _ _ _ HK Ea) Ee)]. }
  destruct first as [[[st2 level2] [conf|]]|]; [| |exact I].
  - apply kinv_reject. apply Hfirst.
  - destruct Hfirst as [HS2 HK2].
    destruct (s_propagate st2 level2) as [[st3 conf]|] eqn:Ep; [|exact I].
    pose proof (kinv_propagate _ _ _ _ HK2 Ep) as HK3. pose proof (sinv_propagate U P A _ _ _ _ HS2 Ep) as HS3.
    destruct conf as [conf|].
    + destruct (N.eqb level2 (N.succ start)); [apply kinv_reject; exact HK3|].
      apply IH; [apply (sinv_undo_until U P A); exact HS3 | apply kinv_undo_until; exact HK3].
    + pose proof (kinv_resolve f st3 level2 HK3) as H4.
      pose proof (sinv_resolve U P A a_ge a_conflict f st3 level2 HS3) as HS4.
      destruct (resolve U a_ge a_conflict f st3 level2) as [st4 level4|st4 core| |]; try exact I.
      simpl in HS4. destruct (new_solvables st4) as [|s0 sos]; [exact H4|].
      destruct (encode U P efuel st4 (s0 :: sos)) as [[st5 confl]|] eqn:Ee; [|exact I].
      pose proof (sinv_encode U P HW A _ _ _ _ _ HS4 Ee) as HS5. pose proof (kinv_encode _ _ _ _ _ HS4 H4 Ee) as HK5.
      destruct confl as [|c0 confl]; [apply IH; assumption|].
      apply IH; [apply (sinv_undo_until U P A); exact HS5 | apply kinv_undo_until; exact HK5].
Qed.

(* the trail a solution of a problem without soft requirements is read from falsifies NO clause of the database *)
Theorem solve_sat_no_clause_falsified fuel efuel a0 order sol st :
  solve U P a_ge a_conflict fuel efuel a0 order = (OSat sol, st) -> pr_soft P = [] ->
  forall id c, nth_error (s_db st) (N.to_nat id) = Some c -> falsified (trail st) (cl_lits c) = false.
Proof.
  intros H Es.
  destruct (solve_sat_no_clause_lost U P HW A a_ge a_conflict _ _ _ _ _ _ H Es) as [Hw Ha].
  assert (HK : KInv st /\ plit_true (s_ps st) (VRoot, true) = true).
  { unfold solve in H.
    set (st0 := mkS (estate0 cache0) [mkCl KRoot [(VRoot, true)]] ps0 [] [] a0 0 [] order true []) in *.
    assert (H0 : SInv U P A st0).
    { constructor; simpl; [apply einv0 | reflexivity | apply winv0 | reflexivity]. }
    assert (HK0 : KInv st0).
    { intros id c Hc. simpl in Hc. destruct (N.to_nat id) as [|[|k]]; simpl in Hc; try discriminate.
      inversion Hc. subst c. right. right. reflexivity. }
    assert (Hrun : run_k (run_sat U P a_ge a_conflict fuel efuel st0 None)).
    { unfold run_sat. apply kinv_run_loop; [apply (sinv_eq U P A st0); auto | apply (kinv_eq st0); auto]. }
    assert (HL : run_lv A (run_sat U P a_ge a_conflict fuel efuel st0 None)).
    { apply (linv_run_sat U P HW A a_ge a_conflict); [exact H0 | | right; split; reflexivity].
      constructor; simpl; try exact I; try reflexivity.
      - intros x [].
      - intros x [].
      - intros id c Hn j Hj. destruct id as [|[|id]]; simpl in Hn; try discriminate. inversion Hn. subst c. destruct Hj. }
    pose proof (sinv_run_sat U P HW A a_ge a_conflict fuel efuel st0 None H0) as HSr.
    destruct (run_sat U P a_ge a_conflict fuel efuel st0 None) as [st1 [|]|st1 core| |]; try discriminate H.
    rewrite Es in H. cbn [soft_loop] in H. inversion H. subst. split; [exact Hrun|].
    destruct HL as [HL1 Hr1]. apply plit_true_spec. unfold pvalue. cbn [fst snd].
    apply (rooted_val _ Hr1 (si_nodup _ _ _ _ _ HSr)). }
  destruct HK as [HK Hroot].
  intros id c Hc. destruct (HK id c Hc) as [[w G]|[[l [G1 G2]]|G]].
  - destruct (Hw id w G) as [c' [Hc' Hf]]. rewrite Hc in Hc'. inversion Hc'. subst c'. exact Hf.
  - specialize (Ha (l, id) G1). cbn [fst] in Ha.
    destruct (falsified (trail st) (cl_lits c)) eqn:Ef; [|reflexivity]. exfalso.
    unfold falsified in Ef. rewrite forallb_forall in Ef. specialize (Ef l G2).
    change (plit_false (s_ps st) l = true) in Ef. apply (true_not_false _ _ Ha Ef).
  - subst c. destruct (falsified (trail st) (cl_lits (mkCl KRoot [(VRoot, true)]))) eqn:Ef; [|reflexivity]. exfalso.
    unfold falsified in Ef. rewrite forallb_forall in Ef. specialize (Ef (VRoot, true) (or_introl eq_refl)).
    change (plit_false (s_ps st) (VRoot, true) = true) in Ef. apply (true_not_false _ _ Hroot Ef).
Qed.

(* ---------- the unreachable!() of decide ---------- *)

(* state-level form of solve_sat_no_clause_falsified: where the invariants hold, every entry is propagated, the
   assertions are in force and the exempt set is empty, no clause of the database is falsified *)
Lemma no_clause_falsified_at (st : sst) :
  SInv U P A st -> KInv st -> CInv A st -> Done A st -> s_born st = [] -> Rooted (trail st) ->
  forall id c, nth_error (s_db st) (N.to_nat id) = Some c -> falsified (trail st) (cl_lits c) = false.
Proof.
  intros HS HK [C1 C2 C3] [D1 D2] Hb Hr id c Hc.
  assert (Hroot : plit_true (s_ps st) (VRoot, true) = true).
  { apply plit_true_spec. unfold pvalue. cbn [fst snd]. apply (rooted_val _ Hr (si_nodup _ _ _ _ _ HS)). }
  destruct (HK id c Hc) as [[w G]|[[l [G1 G2]]|G]].
  - assert (Hnb : ~ XB A st id) by (unfold XB; rewrite Hb; intros []).
    destruct (complete_no_watched_falsified (s_db st) (XB A st) (s_ps st) C2 D1 (si_winv _ _ _ _ _ HS) id w G Hnb) as [_ [c' [Hc' Hf]]].
    rewrite Hc in Hc'. inversion Hc'. subst c'. exact Hf.
  - specialize (D2 (l, id) G1). cbn [fst] in D2.
    destruct (falsified (trail st) (cl_lits c)) eqn:Ef; [|reflexivity]. exfalso.
    unfold falsified in Ef. rewrite forallb_forall in Ef. specialize (Ef l G2).
    change (plit_false (s_ps st) l = true) in Ef. apply (true_not_false _ _ D2 Ef).
  - subst c. destruct (falsified (trail st) (cl_lits (mkCl KRoot [(VRoot, true)]))) eqn:Ef; [|reflexivity]. exfalso.
    unfold falsified in Ef. rewrite forallb_forall in Ef. specialize (Ef (VRoot, true) (or_introl eq_refl)).
    change (plit_false (s_ps st) (VRoot, true) = true) in Ef. apply (true_not_false _ _ Hroot Ef).
Qed.

(* ... and there decide cannot reach its unreachable!(): that needs a Requires clause whose parent is installed
   and all of whose candidates are false -- a falsified clause *)
Theorem decide_no_panic_at (st : sst) :
  SInv U P A st -> KInv st -> CInv A st -> Done A st -> s_born st = [] -> Rooted (trail st) ->
  decide U (a_ge (s_act st)) (s_db st) (tr_lits st) <> None.
Proof.
  intros HS HK HC HD Hb Hr Hd.
  destruct (decide_panic U (a_ge (s_act st)) (tr_lits st) (s_db st) (sinv_req_wf U P A st HS) Hd) as [c [p [r [cands [Hc [Hk [Hp Hall]]]]]]].
  destruct (In_nth_error _ _ Hc) as [k Hk'].
  assert (Hf : falsified (trail st) (cl_lits c) = false).
  { apply (no_clause_falsified_at st HS HK HC HD Hb Hr (N.of_nat k) c). rewrite Nat2N.id. exact Hk'. }
  assert (Ht : falsified (trail st) (cl_lits c) = true).
  { rewrite (wf_lits U c p r cands Hk (sinv_req_wf U P A st HS c Hc)). unfold falsified. apply forallb_forall.
    intros l [E|Hl].
    - subst l. cbn [fst snd negb]. unfold lit_istrue, lit_val in Hp. cbn [fst snd] in Hp. unfold tr_lits in Hp.
      destruct (pval (tl_lits (trail st)) p) as [b|]; [|discriminate]. destruct b; [reflexivity | discriminate].
    - apply in_map_iff in Hl. destruct Hl as [x [E Hx]]. subst l. rewrite Forall_forall in Hall. specialize (Hall x Hx).
      unfold cfalse, tr_lits in Hall. unfold pos. cbn [fst snd negb]. rewrite Hall. reflexivity. }
  rewrite Hf in Ht. discriminate.
Qed.

End Cover.
