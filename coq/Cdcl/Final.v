(* Cdcl/Final.v -- what may be announced.

   [check_unsat]: the clause database certifies that no valid selection exists
                  (facts + RUP-certified learnt clauses + root-level conflict).
   [check_sat]:   the final trail, completed, is a model of a closed clause
                  database, hence the reported selection is valid. *)
From Resolvo Require Export Enc.Encoding Cdcl.Rup.

(* ---------- tracker indices read off the clause database ---------- *)

Definition forbid_sols (db : list cl) (n : N) : list N :=
  flat_map (fun c => match ck c, cl_lits c with
                     | KForbid m, (VSol x, false) :: _ => if N.eqb m n then [x] else []
                     | _, _ => []
                     end) db.

(* first occurrences, in order *)
Fixpoint dedup (l : list N) : list N :=
  match l with
  | [] => []
  | x :: t => x :: filter (fun y => negb (N.eqb y x)) (dedup t)
  end.

Fixpoint index_of (x : N) (l : list N) : option nat :=
  match l with
  | [] => None
  | y :: t => if N.eqb y x then Some O else option_map S (index_of x t)
  end.

Definition reg_order (db : list cl) (n : N) : list N := dedup (forbid_sols db n).
Definition db_idx (db : list cl) (n x : N) : option nat := index_of x (reg_order db n).

(* ---------- Unsolvable ---------- *)

Definition facts_ok (U : provider) (P : problem) (db : list cl) : bool :=
  forallb (fun c => is_learnt c || factb U P (db_idx db) c) db.

Definition check_unsat (U : provider) (P : problem) (db : list cl) : bool :=
  facts_ok U P db && learnts_ok [] db && rup (map cl_lits db) [].

Lemma db_model U P (HW : WF U) db S :
  valid U P S [] -> facts_ok U P db = true -> learnts_ok [] db = true ->
  forall c, In c db -> cl_true (a_sel U (db_idx db) S) (cl_lits c) = true.
Proof.
  intros Hv Hf Hl. apply learnts_entailed; [exact Hl|].
  intros c Hc Hnl. unfold facts_ok in Hf. rewrite forallb_forall in Hf.
  specialize (Hf c Hc). rewrite Hnl in Hf. simpl in Hf.
  eapply E1; eauto.
Qed.

(* if the database is accepted as a refutation, no valid selection exists *)
Theorem check_unsat_sound U P (HW : WF U) db :
  check_unsat U P db = true -> ~ solvable U P.
Proof.
  unfold check_unsat. intro H. apply andb_true_iff in H. destruct H as [H Hr].
  apply andb_true_iff in H. destruct H as [Hf Hl]. intros [S Hv].
  apply rup_sound in Hr.
  specialize (Hr (a_sel U (db_idx db) S)). simpl in Hr.
  assert (Hall : forall d, In d (map cl_lits db) -> cl_true (a_sel U (db_idx db) S) d = true).
  { intros d Hd. apply in_map_iff in Hd. destruct Hd as [c [E Hc]]. subst d.
    eapply db_model; eauto. }
  specialize (Hr Hall). discriminate.
Qed.

(* ---------- Ok(solution) ---------- *)

(* positively assigned solvables of a trail (newest first), newest first *)
Fixpoint sel_of (tr : list lit) : list N :=
  match tr with
  | [] => []
  | (VSol s, true) :: t => s :: sel_of t
  | _ :: t => sel_of t
  end.

Fixpoint vars_nodup (tr : list lit) : bool :=
  match tr with
  | [] => true
  | (v, _) :: t => match pval t v with None => vars_nodup t | Some _ => false end
  end.

(* the trail completed to a total assignment: unassigned solvables are not
   selected; unassigned helper bits follow the chosen candidate of the package *)
Definition asg_of (U : provider) (db : list cl) (tr : list lit) : asg := fun v =>
  match pval tr v with
  | Some b => b
  | None =>
    match v with
    | VHelp n k =>
      match find (fun s => N.eqb (p_sol_name U s) n) (sel_of tr) with
      | Some x => match db_idx db n x with Some i => Nat.testbit i (N.to_nat k) | None => false end
      | None => false
      end
    | _ => false
    end
  end.

Definition check_sat (U : provider) (P : problem) (db : list cl) (tr : list lit) (sol : list N) : bool :=
  let a := asg_of U db tr in
  let S := sel_of tr in
  vars_nodup tr &&
  nl_eqb sol (rev S) &&
  a VRoot &&
  forallb (fun c => cl_true a (cl_lits c)) db &&
  closedb U P db S (exempt U P S).

(* the same, tolerating falsified package-level clauses of exempt (accepted soft)
   solvables -- the documented exemption *)
Definition check_sat_lenient (U : provider) (P : problem) (db : list cl) (tr : list lit) (sol : list N) : bool :=
  let a := asg_of U db tr in
  let S := sel_of tr in
  vars_nodup tr &&
  nl_eqb sol (rev S) &&
  a VRoot &&
  forallb (sat_or_exempt U a (exempt U P S)) db &&
  closedb U P db S (exempt U P S).

Lemma pval_In tr v b : pval tr v = Some b -> In (v, b) tr.
Proof.
  induction tr as [|[w p] t IH]; simpl; [discriminate|].
  destruct (var_eqb w v) eqn:E.
  - apply var_eqb_eq in E. subst. intro H. inversion H. left. reflexivity.
  - intro H. right. apply IH. exact H.
Qed.

Definition sel_hd (l : lit) : list N :=
  match l with (VSol x, true) => [x] | _ => [] end.

Lemma sel_of_cons l t : sel_of (l :: t) = sel_hd l ++ sel_of t.
Proof. destruct l as [[|x|n k] [|]]; reflexivity. Qed.

Lemma sel_hd_In l s : In s (sel_hd l) <-> l = (VSol s, true).
Proof.
  destruct l as [[|x|n k] [|]]; simpl; split; intro H; try contradiction; try discriminate H.
  - destruct H as [H|[]]. subst. reflexivity.
  - inversion H. left. reflexivity.
Qed.

Lemma sel_of_In tr s : In s (sel_of tr) <-> In (VSol s, true) tr.
Proof.
  induction tr as [|l t IH]; [simpl; tauto|].
  rewrite sel_of_cons, in_app_iff, sel_hd_In, IH. simpl. tauto.
Qed.

Lemma nodup_pval tr v b : vars_nodup tr = true -> In (v, b) tr -> pval tr v = Some b.
Proof.
  induction tr as [|[w p] t IH]; simpl; [intros _ []|].
  destruct (pval t w) eqn:Ep; [discriminate|]. intros Hnd [H|H].
  - inversion H. subst. rewrite var_eqb_refl. reflexivity.
  - destruct (var_eqb w v) eqn:E.
    + apply var_eqb_eq in E. subst. rewrite (IH Hnd H) in Ep. discriminate.
    + apply IH; assumption.
Qed.

Lemma asg_sel_iff U db tr : vars_nodup tr = true ->
  forall s, In s (sel_of tr) <-> asg_of U db tr (VSol s) = true.
Proof.
  intros Hnd s. rewrite sel_of_In. unfold asg_of. split.
  - intro Hin. rewrite (nodup_pval tr _ _ Hnd Hin). reflexivity.
  - destruct (pval tr (VSol s)) as [b|] eqn:E; [|discriminate].
    intro Hb. subst b. apply pval_In. exact E.
Qed.

Theorem check_sat_lenient_sound U P (HW : WF U) db tr sol :
  check_sat_lenient U P db tr sol = true ->
  sol = rev (sel_of tr) /\ valid U P (sel_of tr) (exempt U P (sel_of tr)).
Proof.
  unfold check_sat_lenient. intro H.
  apply andb_true_iff in H. destruct H as [H Hcl]. apply andb_true_iff in H. destruct H as [H Hall].
  apply andb_true_iff in H. destruct H as [H Hroot]. apply andb_true_iff in H. destruct H as [Hnd Hsol].
  apply nl_eqb_eq in Hsol. split; [exact Hsol|].
  rewrite forallb_forall in Hall.
  apply (E2 U P HW db (asg_of U db tr) (sel_of tr) (exempt U P (sel_of tr)));
    [exact Hall | apply (asg_sel_iff U db tr Hnd) | exact Hroot | exact Hcl].
Qed.

Lemma check_sat_lenient_of_strict U P db tr sol :
  check_sat U P db tr sol = true -> check_sat_lenient U P db tr sol = true.
Proof.
  unfold check_sat, check_sat_lenient. intro H.
  apply andb_true_iff in H. destruct H as [H Hcl]. apply andb_true_iff in H. destruct H as [H Hall].
  rewrite H, Hcl. simpl. rewrite andb_true_r. rewrite forallb_forall in *.
  intros c Hc. unfold sat_or_exempt. rewrite (Hall c Hc). reflexivity.
Qed.

Theorem check_sat_sound U P (HW : WF U) db tr sol :
  check_sat U P db tr sol = true ->
  sol = rev (sel_of tr) /\ valid U P (sel_of tr) (exempt U P (sel_of tr)).
Proof.
  intro H. apply (check_sat_lenient_sound U P HW db tr sol). apply check_sat_lenient_of_strict. exact H.
Qed.

(* ---------- table universes: decidable well-formedness ---------- *)

Lemma insert_stable_In rank x l y : In y (insert_stable rank x l) <-> y = x \/ In y l.
Proof.
  induction l as [|z l IH]; simpl; [split; intros [H|H]; auto; destruct H|].
  destruct (N.leb (rank x) (rank z)); simpl; [split; intros [H|H]; auto|].
  rewrite IH. split; intros [H|[H|H]]; auto.
Qed.

Lemma sort_stable_In rank l y : In y (sort_stable rank l) <-> In y l.
Proof.
  induction l as [|x l IH]; simpl; [tauto|].
  rewrite insert_stable_In, IH. split; intros [H|H]; auto.
Qed.

Definition seqN (n : nat) : list N := map N.of_nat (seq 0 n).

Definition wf_universeb (u : universe) : bool :=
  let U := table_provider u in
  forallb (fun n => forallb (fun s => N.eqb (p_sol_name U s) n) (p_cands U n) &&
                    forallb (fun s => N.eqb (p_sol_name U s) n) (p_excluded U n))
          (seqN (length (u_pkgs u))).

Lemma seqN_In n k : In k (seqN n) <-> (N.to_nat k < n)%nat.
Proof.
  unfold seqN. rewrite in_map_iff. split.
  - intros [j [E Hj]]. apply in_seq in Hj. subst. rewrite Nat2N.id. lia.
  - intro H. exists (N.to_nat k). split; [apply N2Nat.id | apply in_seq; lia].
Qed.

Theorem wf_universeb_sound u : wf_universeb u = true -> WF (table_provider u).
Proof.
  unfold wf_universeb. rewrite forallb_forall. intro H.
  assert (Hpk : forall n, (N.to_nat n < length (u_pkgs u))%nat \/
                          (p_cands (table_provider u) n = [] /\ p_excluded (table_provider u) n = [])).
  { intro n. destruct (Nat.lt_ge_cases (N.to_nat n) (length (u_pkgs u))) as [Hl|Hg]; [left; exact Hl|].
    right. simpl. unfold u_pkg, nthN. apply nth_error_None in Hg. rewrite Hg. split; reflexivity. }
  constructor.
  - intros l x. simpl. apply sort_stable_In.
  - intros n s Hs. destruct (Hpk n) as [Hl|[Hc _]]; [|rewrite Hc in Hs; destruct Hs].
    specialize (H n (proj2 (seqN_In _ n) Hl)). apply andb_true_iff in H. destruct H as [H _].
    rewrite forallb_forall in H. apply N.eqb_eq. apply H. exact Hs.
  - intros n s Hs. destruct (Hpk n) as [Hl|[_ Hc]]; [|rewrite Hc in Hs; destruct Hs].
    specialize (H n (proj2 (seqN_In _ n) Hl)). apply andb_true_iff in H. destruct H as [_ H].
    rewrite forallb_forall in H. apply N.eqb_eq. apply H. exact Hs.
Qed.
