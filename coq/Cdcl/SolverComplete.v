(* Cdcl/SolverComplete.v -- the completeness invariant of propagate (Cdcl/PropagateComplete.v)
   carried through the whole solver model.

     CInv st   every watching clause is in the lists of the literals it watches (WComp); no
               watched clause -- outside s_born st, the clauses that started being watched
               with both watched literals false since the trail was last cleared -- has both
               watched literals false by propagated entries (Inv2); propagate_index is within
               the trail
     Done st   every entry of the trail is propagated and every registered assertion is true

   solve_complete: CInv holds in the state the model ends in, for every provider, problem,
   fuel, activity function and completion order; and when the model answers with a solution
   for a problem without soft requirements, that state is Done -- so no watched clause
   outside s_born is falsified by the trail the solution is read from (solve_sat_loses_no_clause).
   s_born is a ghost of the model (it influences nothing); the whole-run correspondence
   reports it. *)
From Resolvo Require Export Cdcl.SolverLevels Cdcl.PropagateComplete.
From Coq Require Import Lia.

Section Complete.
Variable U : provider.
Variable P : problem.
Hypothesis HW : WF U.
Variable A : Type.
Variable a_ge : A -> N -> N -> bool.
Variable a_conflict : A -> list N -> A.

Notation sst := (sstate A).
Notation trail st := (ps_trail (s_ps st)).

Definition XB (st : sst) : N -> Prop := fun id => In id (s_born st).

Record CInv (st : sst) : Prop := mkCInv {
  ci_comp : WComp (ps_watch (s_ps st)) (ps_lists (s_ps st));
  ci_inv2 : Inv2 (XB st) (s_ps st);
  ci_pidx : PIdx (s_ps st)
}.

Definition Done (st : sst) : Prop :=
  (length (trail st) <= ps_pidx (s_ps st))%nat /\
  (forall x, In x (s_asserts st ++ s_units st) -> plit_true (s_ps st) (fst x) = true).

Lemma cinv_eq (st st' : sst) : s_ps st' = s_ps st -> s_born st' = s_born st -> CInv st -> CInv st'.
Proof. intros E1 E2 [C1 C2 C3]. constructor; unfold XB; rewrite ?E1, ?E2; assumption. Qed.

(* ---------- trail operations ---------- *)

Lemma cinv_assign st l level reason st' : CInv st -> s_assign st l level reason = Some st' -> CInv st'.
Proof.
  intros HC H. destruct (s_assign_cases _ _ _ _ _ _ H) as [[E _]|[_ E]]; subst st'; [exact HC|].
  destruct HC as [C1 C2 C3]. destruct (inv2_push (XB st) (s_ps st) (mkT l level reason) C2 C3) as [I1 I2].
  constructor; cbn [with_ps s_ps]; assumption.
Qed.

Lemma cinv_undo_last st : CInv st -> CInv (s_undo_last st).
Proof.
  intros [C1 C2 C3]. destruct (inv2_undo (XB st) (s_ps st) C2) as [I1 I2].
  constructor; unfold s_undo_last; cbn [with_ps s_ps]; assumption.
Qed.

Lemma cinv_pop_above fuel lv : forall st, CInv st -> CInv (s_pop_above fuel lv st).
Proof.
  induction fuel as [|f IH]; intros st H; simpl; [exact H|].
  destruct (ps_trail (s_ps st)) as [|e t]; [exact H|]. destruct (N.leb (t_level e) lv); [exact H|].
  apply IH. apply cinv_undo_last. exact H.
Qed.

Lemma cinv_undo_until st lv : CInv st -> CInv (s_undo_until st lv).
Proof.
  intro H. unfold s_undo_until. destruct (N.eqb lv 0).
  - destruct H as [C1 C2 C3]. destruct (inv2_clear (fun id => In id []) (s_ps st)) as [I1 I2].
    constructor; cbn [with_born with_ps s_ps s_born]; assumption.
  - apply cinv_pop_above. apply (cinv_eq st); [reflexivity | reflexivity | exact H].
Qed.

Lemma cinv_pops n : forall st, CInv st -> CInv (s_pops n st).
Proof. induction n as [|n IH]; intros st H; simpl; [exact H | apply IH; apply cinv_undo_last; exact H]. Qed.

(* ---------- a clause starts being watched ---------- *)

Lemma cinv_watch (st1 st2 : sst) id x :
  CInv st1 -> tnodup (s_ps st1) -> s_ps st2 = start_watching (s_ps st1) id x ->
  s_born st2 = (if plit_false (s_ps st1) (fst x) && plit_false (s_ps st1) (snd x) then id :: s_born st1 else s_born st1) ->
  CInv st2.
Proof.
  intros [C1 C2 C3] Hn Eps Eb. constructor; rewrite Eps.
  - apply wcomp_start. exact C1.
  - apply inv2_start.
    + apply (inv2_mono (XB st1)); [|exact C2]. intros i Hi. unfold XB in *. rewrite Eb.
      destruct (plit_false (s_ps st1) (fst x) && plit_false (s_ps st1) (snd x)); [right; exact Hi | exact Hi].
    + unfold XB. rewrite Eb. destruct (plit_false (s_ps st1) (fst x) && plit_false (s_ps st1) (snd x)) eqn:E.
      * left. left. reflexivity.
      * right. intros [P1 P2]. apply (pfalse_plit _ _ Hn) in P1. apply (pfalse_plit _ _ Hn) in P2. rewrite P1, P2 in E. discriminate.
  - exact C3.
Qed.

Lemma cinv_add_clause st confl c :
  CInv st -> tnodup (s_ps st) ->
  CInv (fst (add_clause (st, confl) c)) /\ tnodup (s_ps (fst (add_clause (st, confl) c))).
Proof.
  intros HC Hn. unfold add_clause. cbn [fst].
  destruct (w_watch (create (tr_lits st) c)) as [x|] eqn:Ew.
  - split; [|exact Hn]. eapply (cinv_watch st _ _ x HC Hn); cbn [s_ps s_born]; reflexivity.
  - split; [|exact Hn]. apply (cinv_eq st); [reflexivity | reflexivity | exact HC].
Qed.

Lemma cinv_add_clauses : forall new st confl,
  CInv st -> tnodup (s_ps st) ->
  CInv (fst (fold_left add_clause new (st, confl))) /\ tnodup (s_ps (fst (fold_left add_clause new (st, confl)))).
Proof.
  induction new as [|c t IH]; intros st confl HC Hn; cbn [fold_left]; [split; assumption|].
  destruct (cinv_add_clause st confl c HC Hn) as [H1 H2].
  destruct (add_clause (st, confl) c) as [st1 confl1]. cbn [fst] in H1, H2. apply IH; assumption.
Qed.

Lemma cinv_absorb st enc1 : CInv st -> tnodup (s_ps st) -> CInv (fst (absorb st enc1)).
Proof.
  intros HC Hn. unfold absorb. apply cinv_add_clauses; [|exact Hn].
  apply (cinv_eq st); [reflexivity | reflexivity | exact HC].
Qed.

Lemma cinv_encode fuel st sos st' confl :
  CInv st -> tnodup (s_ps st) -> encode U P fuel st sos = Some (st', confl) -> CInv st'.
Proof.
  intros HC Hn H. unfold encode in H. destruct (queue_solvables (s_enc st) sos) as [enc1 w].
  destruct (s_order st) as [order|].
  - destruct (enc_ordered U P (falses_of (tr_lits st)) enc1 w order) as [[enc2 order']|]; [|discriminate].
    pose proof (cinv_absorb st enc2 HC Hn) as HA. destruct (absorb st enc2) as [st1 confl1]. inversion H. subst.
    cbn [fst] in HA. apply (cinv_eq st1); [reflexivity | reflexivity | exact HA].
  - destruct (enc_fifo U P fuel (falses_of (tr_lits st)) enc1 w) as [enc2|]; [|discriminate].
    pose proof (cinv_absorb st enc2 HC Hn) as HA. inversion H as [H1]. rewrite H1 in HA. exact HA.
Qed.

(* ---------- propagate ---------- *)

Lemma cinv_propagate st level st' r :
  SInv U P A st -> CInv st -> s_propagate st level = Some (st', r) -> CInv st' /\ (r = None -> Done st').
Proof.
  intros HS [C1 C2 C3] H. unfold s_propagate in H.
  destruct (propagate (s_db st) level (s_asserts st) (s_units st) (s_ps st)) as [[ps1 conf]|] eqn:Ep; [|discriminate].
  inversion H. subst st' r. clear H.
  destruct (propagate_keeps (s_db st) (XB st) level _ _ _ _ _ (si_winv _ _ _ _ _ HS) C1 (si_nodup _ _ _ _ _ HS) C2 C3 Ep) as [K1 [K2 K3]].
  split; [constructor; cbn [with_ps s_ps]; assumption|].
  intro E. destruct conf as [cf|]; [discriminate E|].
  destruct (propagate_complete (s_db st) (XB st) level _ _ _ _ (si_winv _ _ _ _ _ HS) C1 (si_nodup _ _ _ _ _ HS) C2 C3 Ep)
    as [_ [_ [R3 [_ [_ R6]]]]].
  split; cbn [with_ps s_ps s_asserts s_units]; assumption.
Qed.

(* ---------- learning ---------- *)

Lemma cinv_learn st conf st' lv :
  SInv U P A st -> CInv st -> learn U a_conflict st conf = Some (st', lv) -> CInv st'.
Proof.
  intros HS HC H. unfold learn in H.
  destruct (analyze (s_db st) (ps_trail (s_ps st)) conf) as [r|]; [|discriminate]. cbv zeta in H.
  pose proof (cinv_pops (r_pops r) st HC) as H1.
  pose proof (si_nodup _ _ _ _ _ (sinv_pops U P A (r_pops r) st [] HS)) as Hn1.
  set (st1 := s_pops (r_pops r) st) in *.
  destruct (r_learnt r) as [|f [|g t]] eqn:El.
  - simpl in H. discriminate.
  - simpl in H.
    match type of H with
    | context [s_undo_until ?X ?T] =>
        assert (H2 : CInv X) by (apply (cinv_eq st1); [reflexivity | reflexivity | exact H1]);
        pose proof (cinv_undo_until X T H2) as H3
    end.
    match type of H with
    | context [s_assign ?X ?L ?T ?I] => destruct (s_assign X L T I) as [st4|] eqn:Ea; [|discriminate]
    end.
    inversion H. subst. eapply cinv_assign; [exact H3 | exact Ea].
  - destruct (rev (f :: g :: t)) as [|last rl] eqn:Er; [simpl in H; discriminate|].
    destruct (lit_eqb f last) eqn:Efl; cbn [negb] in H; [discriminate|].
    match type of H with
    | context [s_undo_until ?X ?T] =>
        assert (H2 : CInv X) by (eapply (cinv_watch st1 X _ (f, last) H1 Hn1); cbn [s_ps s_born fst snd]; reflexivity);
        pose proof (cinv_undo_until X T H2) as H3
    end.
    match type of H with
    | context [s_assign ?X ?L ?T ?I] => destruct (s_assign X L T I) as [st4|] eqn:Ea; [|discriminate]
    end.
    inversion H. subst. eapply cinv_assign; [exact H3 | exact Ea].
Qed.

(* ---------- the loops ---------- *)

Definition step_cv (r : step_res A) : Prop :=
  match r with RLevel st _ => CInv st /\ Done st | _ => True end.

Definition run_cv (r : run_res A) : Prop :=
  match r with ROk st acc => CInv st /\ (acc = true -> Done st) | _ => True end.

Lemma cinv_prop_learn : forall fuel st level, SInv U P A st -> CInv st -> step_cv (prop_learn U a_conflict fuel st level).
Proof.
  induction fuel as [|f IH]; intros st level HS HC; cbn [prop_learn]; [exact I|].
  destruct (s_propagate st level) as [[st1 conf]|] eqn:Ep; [|exact I].
  destruct (cinv_propagate _ _ _ _ HS HC Ep) as [HC1 HD1].
  pose proof (sinv_propagate U P A _ _ _ _ HS Ep) as HS1.
  destruct conf as [conf|].
  - destruct (N.eqb level 1).
    + destruct (unsolvable (s_db st1) (ps_trail (s_ps st1)) conf) as [[core ok]|]; exact I.
    + destruct (learn U a_conflict st1 conf) as [[st2 lv]|] eqn:El; [|exact I].
      apply IH; [apply (sinv_learn U P A a_conflict _ _ _ _ HS1 El) | apply (cinv_learn _ _ _ _ HS1 HC1 El)].
  - cbn [step_cv]. split; [exact HC1 | apply HD1; reflexivity].
Qed.

Lemma cinv_resolve : forall fuel st level,
  SInv U P A st -> CInv st -> Done st -> step_cv (resolve U a_ge a_conflict fuel st level).
Proof.
  induction fuel as [|f IH]; intros st level HS HC HD; cbn [resolve]; [exact I|].
  destruct (decide U (a_ge (s_act st)) (s_db st) (tr_lits st)) as [[d|]|]; [| split; assumption | exact I].
  destruct (s_assign st (VSol (pd_cand d), true) (N.succ level) (pd_clause d)) as [st1|] eqn:Ea; [|exact I].
  pose proof (sinv_assign U P A _ _ _ _ _ _ HS Ea) as HS1. pose proof (cinv_assign _ _ _ _ _ HC Ea) as HC1.
  pose proof (cinv_prop_learn f st1 (N.succ level) HS1 HC1) as H2.
  pose proof (sinv_prop_learn U P A a_conflict f st1 (N.succ level) HS1) as HS2.
  destruct (prop_learn U a_conflict f st1 (N.succ level)) as [st2 lv|st2 core| |]; try exact I.
  destruct H2 as [HC2 HD2]. apply IH; assumption.
Qed.

Lemma cinv_reject st so start conf : CInv st -> run_cv (reject st so start conf).
Proof.
  intro HC. unfold reject. destruct (N.eqb start 0).
  - destruct (unsolvable (s_db st) (ps_trail (s_ps st)) conf) as [[core ok]|]; exact I.
  - destruct (s_assign (s_undo_until st start) (so_var so, false) (N.succ start) 0) as [st2|] eqn:Ea; [|exact I].
    split; [|intro E; discriminate E]. apply (cinv_assign _ _ _ _ _ (cinv_undo_until _ _ HC) Ea).
Qed.

Lemma cinv_run_loop efuel so start : forall fuel st level,
  SInv U P A st -> CInv st -> run_cv (run_loop U P a_ge a_conflict fuel efuel st so start level).
Proof.
  induction fuel as [|f IH]; intros st level HS HC; cbn [run_loop]; [exact I|].
  set (first := if N.eqb level start then
                  match s_assign st (so_var so, true) (N.succ start) 0 with
                  | None => None
                  | Some st1 => match encode U P efuel st1 [so] with
                                | None => None
                                | Some (st2, confl) => Some (st2, N.succ start, find (clause_falsified st2) confl)
                                end
                  end
                else Some (st, level, None)).
  assert (Hfirst : match first with Some (st2, _, _) => SInv U P A st2 /\ CInv st2 | None => True end).
  { unfold first. destruct (N.eqb level start); [|split; assumption].
    destruct (s_assign st (so_var so, true) (N.succ start) 0) as [st1|] eqn:Ea; [|exact I].
    pose proof (sinv_assign U P A _ _ _ _ _ _ HS Ea) as HS1. pose proof (cinv_assign _ _ _ _ _ HC Ea) as HC1.
    destruct (encode U P efuel st1 [so]) as [[st2 confl]|] eqn:Ee; [|exact I].
    split; [apply (sinv_encode U P HW A _ _ _ _ _ HS1 Ee) | apply (cinv_encode _ _ _ _ _ HC1 (si_nodup _ _ _ _ _ HS1) Ee)]. }
  destruct first as [[[st2 level2] [conf|]]|]; [| |exact I].
  - apply cinv_reject. apply Hfirst.
  - destruct Hfirst as [HS2 HC2].
    destruct (s_propagate st2 level2) as [[st3 conf]|] eqn:Ep; [|exact I].
    destruct (cinv_propagate _ _ _ _ HS2 HC2 Ep) as [HC3 HD3].
    pose proof (sinv_propagate U P A _ _ _ _ HS2 Ep) as HS3.
    destruct conf as [conf|].
    + destruct (N.eqb level2 (N.succ start)); [apply cinv_reject; exact HC3|].
      apply IH; [apply (sinv_undo_until U P A); exact HS3 | apply cinv_undo_until; exact HC3].
    + pose proof (cinv_resolve f st3 level2 HS3 HC3 (HD3 eq_refl)) as H4.
      pose proof (sinv_resolve U P A a_ge a_conflict f st3 level2 HS3) as HS4.
      destruct (resolve U a_ge a_conflict f st3 level2) as [st4 level4|st4 core| |]; try exact I.
      destruct H4 as [HC4 HD4]. simpl in HS4.
      destruct (new_solvables st4) as [|s0 sos]; [split; [exact HC4 | intros _; exact HD4]|].
      destruct (encode U P efuel st4 (s0 :: sos)) as [[st5 confl]|] eqn:Ee; [|exact I].
      pose proof (sinv_encode U P HW A _ _ _ _ _ HS4 Ee) as HS5.
      pose proof (cinv_encode _ _ _ _ _ HC4 (si_nodup _ _ _ _ _ HS4) Ee) as HC5.
      destruct confl as [|c0 confl].
      * apply IH; assumption.
      * apply IH; [apply (sinv_undo_until U P A); exact HS5 | apply cinv_undo_until; exact HC5].
Qed.

Lemma cinv_run_sat fuel efuel st so :
  SInv U P A st -> CInv st -> run_cv (run_sat U P a_ge a_conflict fuel efuel st so).
Proof.
  intros HS HC. unfold run_sat. apply cinv_run_loop; [apply (sinv_eq U P A st); auto|].
  apply (cinv_eq st); [reflexivity | reflexivity | exact HC].
Qed.

Definition run_ci (r : run_res A) : Prop := match r with ROk st _ => CInv st | _ => True end.

Lemma cinv_soft_loop fuel efuel : forall softs st,
  SInv U P A st -> CInv st -> run_ci (soft_loop U P a_ge a_conflict fuel efuel st softs).
Proof.
  induction softs as [|s t IH]; intros st HS HC; cbn [soft_loop]; [exact HC|].
  destruct (pvalue (s_ps st) (VSol s)); [apply IH; assumption|].
  match goal with |- context [absorb ?X ?E] =>
    assert (H0 : SInv U P A X) by (apply (sinv_eq U P A st); auto);
    assert (HC0 : CInv X) by (apply (cinv_eq st); [reflexivity | reflexivity | exact HC]);
    pose proof (sinv_absorb U P A X E H0 (einv_register U P _ s (si_enc _ _ _ _ _ H0)) (ext_register U _ s)) as H1;
    pose proof (cinv_absorb X E HC0 (si_nodup _ _ _ _ _ H0)) as HC1;
    destruct (absorb X E) as [st1 c1]
  end. cbn [fst] in H1, HC1.
  pose proof (sinv_run_sat U P HW A a_ge a_conflict fuel efuel st1 (Some s) H1) as HS2.
  pose proof (cinv_run_sat fuel efuel st1 (Some s) H1 HC1) as H2.
  destruct (run_sat U P a_ge a_conflict fuel efuel st1 (Some s)) as [st2 acc|st2 core| |]; try exact I.
  destruct H2 as [HC2 _]. apply IH; assumption.
Qed.

(* THE statement *)
Theorem solve_complete fuel efuel a0 order sol st :
  solve U P a_ge a_conflict fuel efuel a0 order = (OSat sol, st) ->
  CInv st /\ (pr_soft P = [] -> Done st).
Proof.
  unfold solve.
  set (st0 := mkS (estate0 cache0) [mkCl KRoot [(VRoot, true)]] ps0 [] [] a0 0 [] order true []).
  assert (H0 : SInv U P A st0).
  { constructor; simpl; [apply einv0 | reflexivity | apply winv0 | reflexivity]. }
  assert (HC0 : CInv st0).
  { constructor; simpl.
    - intros id w Hw. discriminate Hw.
    - intros id w Hw. discriminate Hw.
    - unfold PIdx. simpl. lia. }
  pose proof (sinv_run_sat U P HW A a_ge a_conflict fuel efuel st0 None H0) as H1.
  pose proof (cinv_run_sat fuel efuel st0 None H0 HC0) as HC1.
  destruct (run_sat U P a_ge a_conflict fuel efuel st0 None) as [st1 [|]|st1 core| |]; try (intro H; discriminate H).
  destruct HC1 as [HC1 HD1]. specialize (HD1 eq_refl).
  pose proof (cinv_soft_loop fuel efuel (pr_soft P) st1 H1 HC1) as H2.
  destruct (soft_loop U P a_ge a_conflict fuel efuel st1 (pr_soft P)) as [st2 acc|st2 core| |] eqn:Es;
    intro H; inversion H; subst.
  split; [exact H2|]. intro Esoft. rewrite Esoft in Es. cbn [soft_loop] in Es. inversion Es. subst. exact HD1.
Qed.

(* hence: when the model answers with a solution for a problem without soft requirements, the trail the
   solution is read from falsifies no watched clause (outside the reported ghost set s_born: clauses that
   started being watched with both watched literals false after the last restart) and makes every
   registered assertion true *)
Theorem solve_sat_loses_no_clause fuel efuel a0 order sol st :
  solve U P a_ge a_conflict fuel efuel a0 order = (OSat sol, st) -> pr_soft P = [] ->
  (forall id w, wget (ps_watch (s_ps st)) id = Some w -> ~ In id (s_born st) ->
     exists c, nth_error (s_db st) (N.to_nat id) = Some c /\ falsified (trail st) (cl_lits c) = false) /\
  (forall x, In x (s_asserts st ++ s_units st) -> plit_true (s_ps st) (fst x) = true).
Proof.
  intros H Es. destruct (solve_complete _ _ _ _ _ _ H) as [[C1 C2 C3] HD]. destruct (HD Es) as [D1 D2].
  pose proof (solve_inv U P HW A a_ge a_conflict _ _ _ _ _ _ H) as HS.
  split; [|exact D2]. intros id w Hw Hnb.
  apply (complete_no_watched_falsified (s_db st) (XB st) (s_ps st) C2 D1 (si_winv _ _ _ _ _ HS) id w Hw Hnb).
Qed.

(* ---------- nothing is left to decide ---------- *)

Definition Decided (st : sst) : Prop :=
  decide U (a_ge (s_act st)) (s_db st) (tr_lits st) = Some None /\ new_solvables st = [].

Lemma resolve_decided : forall fuel st level st' lv,
  resolve U a_ge a_conflict fuel st level = RLevel st' lv ->
  decide U (a_ge (s_act st')) (s_db st') (tr_lits st') = Some None.
Proof.
  induction fuel as [|f IH]; intros st level st' lv H; cbn [resolve] in H; [discriminate|].
  destruct (decide U (a_ge (s_act st)) (s_db st) (tr_lits st)) as [[d|]|] eqn:Ed; [| | discriminate].
  - destruct (s_assign st (VSol (pd_cand d), true) (N.succ level) (pd_clause d)) as [st1|]; [|discriminate].
    destruct (prop_learn U a_conflict f st1 (N.succ level)) as [st2 lv2|st2 core| |]; try discriminate.
    apply (IH _ _ _ _ H).
  - inversion H. subst. exact Ed.
Qed.

Lemma reject_not_accepted (st : sst) so start conf st' : reject st so start conf <> ROk st' true.
Proof.
  unfold reject. destruct (N.eqb start 0).
  - destruct (unsolvable (s_db st) (ps_trail (s_ps st)) conf) as [[core ok]|]; discriminate.
  - destruct (s_assign (s_undo_until st start) (so_var so, false) (N.succ start) 0); discriminate.
Qed.

Lemma run_loop_decided efuel so start : forall fuel st level st',
  run_loop U P a_ge a_conflict fuel efuel st so start level = ROk st' true -> Decided st'.
Proof.
  induction fuel as [|f IH]; intros st level st' H; cbn [run_loop] in H; [discriminate|].
  match type of H with (match ?F with _ => _ end) = _ => destruct F as [[[st2 level2] [conf|]]|] end;
    [exfalso; apply (reject_not_accepted _ _ _ _ _ H) | | discriminate].
  destruct (s_propagate st2 level2) as [[st3 [conf|]]|]; [| |discriminate].
  - destruct (N.eqb level2 (N.succ start)); [exfalso; apply (reject_not_accepted _ _ _ _ _ H) | apply (IH _ _ _ H)].
  - destruct (resolve U a_ge a_conflict f st3 level2) as [st4 level4|st4 core| |] eqn:Er; try discriminate.
    destruct (new_solvables st4) as [|s0 sos] eqn:En.
    + inversion H. subst. split; [apply (resolve_decided _ _ _ _ _ Er) | exact En].
    + destruct (encode U P efuel st4 (s0 :: sos)) as [[st5 [|c0 confl]]|]; [| |discriminate]; apply (IH _ _ _ H).
Qed.

(* when the model answers with a solution for a problem without soft requirements, decide has nothing left to
   propose on the final state and every installed solvable has been handed to the encoder; hence every
   Requires clause of the database whose parent is installed has an installed candidate (or no candidate
   at all: then it is an assertion) *)
Theorem solve_sat_decided fuel efuel a0 order sol st :
  solve U P a_ge a_conflict fuel efuel a0 order = (OSat sol, st) -> pr_soft P = [] ->
  Decided st /\
  forall c p r cands, In c (s_db st) -> ck c = KRequires p r cands -> lit_istrue (tr_lits st) (p, true) = true ->
    concat cands = [] \/ exists x, In x (concat cands) /\ pval (tr_lits st) (VSol x) = Some true.
Proof.
  intros H Es. pose proof (solve_inv U P HW A a_ge a_conflict _ _ _ _ _ _ H) as HS.
  assert (HD : Decided st).
  { unfold solve in H.
    destruct (run_sat U P a_ge a_conflict fuel efuel _ None) as [st1 [|]|st1 core| |] eqn:Er; try discriminate H.
    rewrite Es in H. cbn [soft_loop] in H. inversion H. subst. unfold run_sat in Er. apply (run_loop_decided _ _ _ _ _ _ _ Er). }
  split; [exact HD|]. destruct HD as [Hd _].
  intros c p r cands Hc Hk Hp.
  apply (decide_complete U (a_ge (s_act st)) (tr_lits st) (s_db st) (sinv_req_wf U P A st HS) Hd c p r cands Hc Hk Hp).
Qed.

End Complete.
