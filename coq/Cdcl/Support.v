(* Cdcl/Support.v -- C05: every solvable on the final trail of a legal run is
   supported.

   The final trail, completed, is a model [a] of the clause database.  Its
   supported part [m'] is again a model of the facts ("supported sub-model":
   every fact other than Requires is negative in solvable variables), hence of
   every learnt clause; an induction along the trail shows every selected
   solvable lies in [m']. *)
From Resolvo Require Export Cdcl.Trail.

Lemma lit_false_pval pa v b : lit_false pa (v, b) = true <-> pval pa v = Some (negb b).
Proof.
  unfold lit_false, lit_val. simpl. destruct (pval pa v) as [x|]; [|split; discriminate].
  destruct x, b; simpl; split; intro H; try reflexivity; try discriminate.
Qed.

Lemma lit_istrue_pval pa v b : lit_istrue pa (v, b) = true <-> pval pa v = Some b.
Proof.
  unfold lit_istrue, lit_val. simpl. destruct (pval pa v) as [x|]; [|split; discriminate].
  destruct x, b; simpl; split; intro H; try reflexivity; try discriminate.
Qed.

Lemma trail_ok_app soft db new old : trail_ok soft db (new ++ old) = true -> trail_ok soft db old = true.
Proof.
  induction new as [|e t IH]; simpl; [intro H; exact H|].
  intro H. apply andb_true_iff in H. apply IH. apply H.
Qed.

Section Support.
Variable U : provider.
Variable P : problem.
Hypothesis HW : WF U.
Variable db : list cl.
Variable tr : list ent.

Let full := tlits tr.
Let a := asg_of U db full.
Let S := sel_of full.

Hypothesis Hfacts : facts_ok U P db = true.
Hypothesis Hlearn : learnts_ok [] db = true.
Hypothesis Hok : trail_ok (pr_soft P) db tr = true.
Hypothesis Hall : forall c, In c db -> cl_true a (cl_lits c) = true.

Let Hnd : vars_nodup full = true := trail_ok_nodup (pr_soft P) db tr Hok.

Definition m' : asg := fun v =>
  match v with
  | VSol s => a (VSol s) && memN s (supp_set U P S)
  | _ => a v
  end.

Lemma supp_mem s : memN s (supp_set U P S) = true <-> Supp U P S s.
Proof.
  rewrite memN_In. split.
  - apply supp_iter_sound.
  - apply supp_set_complete.
Qed.

Lemma a_sel_iff s : a (VSol s) = true <-> In s S.
Proof.
  unfold S. rewrite sel_of_In. unfold a, asg_of. split.
  - destruct (pval full (VSol s)) as [b|] eqn:E; [|discriminate].
    intro Hb. subst b. apply pval_In. exact E.
  - intro Hin. rewrite (nodup_pval full _ _ Hnd Hin). reflexivity.
Qed.

Lemma m'_le v : m' v = true -> a v = true.
Proof.
  destruct v as [|s|n k]; simpl; try (intro H; exact H).
  intro H. apply andb_true_iff in H. apply H.
Qed.

(* negative literals and non-solvable literals carry over from a to m' *)
Lemma lit_mono l :
  lit_true a l = true -> (snd l = false \/ forall s, fst l <> VSol s) -> lit_true m' l = true.
Proof.
  destruct l as [v b]. unfold lit_true. simpl. intros Ht [Hb|Hv].
  - subst b. destruct (a v) eqn:Ea; [discriminate|].
    destruct (m' v) eqn:Em; [|reflexivity]. apply m'_le in Em. congruence.
  - destruct v as [|s|n k]; try exact Ht. exfalso. apply (Hv s). reflexivity.
Qed.

Lemma cl_mono ls :
  (forall l, In l ls -> snd l = false \/ forall s, fst l <> VSol s) ->
  cl_true a ls = true -> cl_true m' ls = true.
Proof.
  intros Hshape Ht. apply cl_true_iff in Ht. destruct Ht as [l [Hin Hl]].
  apply cl_true_iff. exists l. split; [exact Hin|]. apply lit_mono; [exact Hl | apply Hshape; exact Hin].
Qed.

Lemma m'_sol s : m' (VSol s) = true <-> In s S /\ Supp U P S s.
Proof.
  simpl. rewrite andb_true_iff, a_sel_iff, supp_mem. tauto.
Qed.

(* the supported sub-model satisfies every fact *)
Lemma fact_sub c :
  factb U P (db_idx db) c = true -> cl_true a (cl_lits c) = true -> cl_true m' (cl_lits c) = true.
Proof.
  intros Hf Ht. unfold factb in Hf.
  destruct (ck c) as [|p r cands|n|p f v|l o|x rs|why].
  - apply lits_eqb_eq in Hf. rewrite Hf in *. apply cl_mono; [|exact Ht].
    intros l [E|[]]. subst. right. intros s H. discriminate H.
  - apply andb_true_iff in Hf. destruct Hf as [Hf Hl]. apply andb_true_iff in Hf.
    destruct Hf as [Hp Hc]. apply lits_eqb_eq in Hl. apply nll_eqb_eq in Hc. subst cands.
    rewrite concat_map_flat_map in Hl. fold (req_cands U r) in Hl. rewrite Hl in *.
    destruct (m' p) eqn:Emp.
    2:{ apply cl_true_iff. exists (p, false). split; [left; reflexivity|].
        unfold lit_true. simpl. rewrite Emp. reflexivity. }
    apply cl_true_iff in Ht. destruct Ht as [l [[E|Hin] Hl']].
    + subst l. unfold lit_true in Hl'. simpl in Hl'. rewrite (m'_le p Emp) in Hl'. discriminate.
    + apply in_map_iff in Hin. destruct Hin as [x [E Hx]]. subst l.
      rewrite lit_true_pos in Hl'. apply a_sel_iff in Hl'.
      apply cl_true_iff. exists (pos x). split; [right; apply in_map; exact Hx|].
      rewrite lit_true_pos. apply m'_sol. split; [exact Hl'|].
      apply (req_cands_In U HW) in Hx.
      destruct p as [|s|n k]; simpl in Hp.
      * apply existsb_req in Hp. eapply supp_root; eauto.
      * apply existsb_req in Hp. apply m'_sol in Emp. destruct Emp as [_ Hs].
        eapply supp_dep; [exact Hs | apply req_of_some; exact Hp | exact Hx | exact Hl'].
      * discriminate.
  - destruct (cl_lits c) as [|[[|x|? ?] [|]] [|[[|?|n' k] b] [|? ?]]]; try discriminate.
    apply cl_mono; [|exact Ht].
    intros l [E|[E|[]]]; subst; [left; reflexivity | right; intros s H; discriminate H].
  - apply andb_true_iff in Hf. destruct Hf as [_ Hl]. apply lits_eqb_eq in Hl. rewrite Hl in *.
    apply cl_mono; [|exact Ht]. intros l [E|[E|[]]]; subst; left; reflexivity.
  - apply andb_true_iff in Hf. destruct Hf as [_ Hl]. apply lits_eqb_eq in Hl. rewrite Hl in *.
    apply cl_mono; [|exact Ht]. intros l0 [E|[E|[]]]; subst; left; reflexivity.
  - apply andb_true_iff in Hf. destruct Hf as [_ Hl]. apply lits_eqb_eq in Hl. rewrite Hl in *.
    apply cl_mono; [|exact Ht]. intros l0 [E|[]]; subst; left; reflexivity.
  - discriminate.
Qed.

Lemma m'_models c : In c db -> cl_true m' (cl_lits c) = true.
Proof.
  apply learnts_entailed; [exact Hlearn|].
  intros c' Hc Hnl. apply fact_sub; [|apply Hall; exact Hc].
  unfold facts_ok in Hfacts. rewrite forallb_forall in Hfacts. specialize (Hfacts c' Hc).
  rewrite Hnl in Hfacts. exact Hfacts.
Qed.

(* a positive solvable literal of a fact occurs only in a Requires clause *)
Lemma fact_pos_lit c x :
  factb U P (db_idx db) c = true -> In (VSol x, true) (cl_lits c) ->
  exists p r cands, ck c = KRequires p r cands /\ cl_lits c = (p, false) :: map pos (req_cands U r) /\
                    req_parent_ok U P p r = true /\ In x (req_cands U r).
Proof.
  intros Hf Hin. unfold factb in Hf.
  destruct (ck c) as [|p r cands|n|p f v|l o|y rs|why] eqn:Ek.
  - apply lits_eqb_eq in Hf. rewrite Hf in Hin. destruct Hin as [E|[]]. discriminate E.
  - apply andb_true_iff in Hf. destruct Hf as [Hf Hl]. apply andb_true_iff in Hf.
    destruct Hf as [Hp Hc]. apply lits_eqb_eq in Hl. apply nll_eqb_eq in Hc. subst cands.
    rewrite concat_map_flat_map in Hl. fold (req_cands U r) in Hl.
    exists p, r, (map (sorted_cands U) (req_vss U r)). split; [reflexivity|]. split; [exact Hl|].
    split; [exact Hp|]. rewrite Hl in Hin. destruct Hin as [E|Hin]; [discriminate E|].
    apply in_map_iff in Hin. destruct Hin as [y [E Hy]]. inversion E. subst. exact Hy.
  - destruct (cl_lits c) as [|[[|y|? ?] [|]] [|[[|?|n' k] b] [|? ?]]]; try discriminate.
    destruct Hin as [E|[E|[]]]; discriminate E.
  - apply andb_true_iff in Hf. destruct Hf as [_ Hl]. apply lits_eqb_eq in Hl. rewrite Hl in Hin.
    destruct Hin as [E|[E|[]]]; discriminate E.
  - apply andb_true_iff in Hf. destruct Hf as [_ Hl]. apply lits_eqb_eq in Hl. rewrite Hl in Hin.
    destruct Hin as [E|[E|[]]]; discriminate E.
  - apply andb_true_iff in Hf. destruct Hf as [_ Hl]. apply lits_eqb_eq in Hl. rewrite Hl in Hin.
    destruct Hin as [E|[]]; discriminate E.
  - discriminate.
Qed.

Lemma db_fact c : In c db -> is_learnt c = false -> factb U P (db_idx db) c = true.
Proof.
  intros Hc Hnl. unfold facts_ok in Hfacts. rewrite forallb_forall in Hfacts.
  specialize (Hfacts c Hc). rewrite Hnl in Hfacts. exact Hfacts.
Qed.

(* a Requires fact whose parent is true in an older part of the trail supports its candidates *)
Lemma requires_supports old new p r x :
  full = new ++ old ->
  (forall y, In (VSol y, true) old -> Supp U P S y) ->
  req_parent_ok U P p r = true -> In x (req_cands U r) -> In x S ->
  pval old p = Some true -> Supp U P S x.
Proof.
  intros Hsplit IH Hp Hx HxS Hpt. apply (req_cands_In U HW) in Hx.
  destruct p as [|s|n k]; simpl in Hp.
  - apply existsb_req in Hp. eapply supp_root; eauto.
  - apply existsb_req in Hp. eapply supp_dep; [|apply req_of_some; exact Hp | exact Hx | exact HxS].
    apply IH. apply pval_In. exact Hpt.
  - discriminate.
Qed.

Lemma supp_along : forall old new,
  tr = new ++ old -> forall x, In (VSol x, true) (tlits old) -> Supp U P S x.
Proof.
  induction old as [|e old IH]; intros new Hsplit x Hin; [destruct Hin|].
  assert (Hsplit' : tr = (new ++ [e]) ++ old) by (rewrite <- app_assoc; exact Hsplit).
  specialize (IH (new ++ [e]) Hsplit').
  cbn [tlits map] in Hin. destruct Hin as [He|Hin]; [|apply IH; exact Hin].
  assert (HxS : In x S).
  { unfold S, full. apply sel_of_In. rewrite Hsplit. unfold tlits. rewrite map_app. apply in_or_app.
    right. left. exact He. }
  assert (Hfull : full = tlits (new ++ [e]) ++ tlits old).
  { unfold full. rewrite Hsplit'. unfold tlits. apply map_app. }
  assert (Hext : extends a (tlits old)).
  { intros v b Hv. unfold a, asg_of.
    rewrite Hfull. rewrite (pval_app_old _ _ v b ltac:(rewrite <- Hfull; exact Hnd) Hv). reflexivity. }
  pose proof (trail_ok_app _ _ _ _ ltac:(rewrite <- Hsplit; exact Hok)) as Hoke.
  cbn [trail_ok] in Hoke. apply andb_true_iff in Hoke. destruct Hoke as [Hcl _].
  destruct (classify (pr_soft P) db (tlits old) (e_lit e) (e_reason e)) as [k|] eqn:Ec; [|discriminate].
  clear Hcl. rewrite He in Ec. unfold classify in Ec. simpl fst in Ec.
  destruct (pval (tlits old) (VSol x)) eqn:Epx; [discriminate|].
  destruct (N.eqb (e_reason e) 0).
  { (* soft requirement *)
    destruct (memN x (pr_soft P)) eqn:Es; [|discriminate]. apply memN_In in Es.
    apply supp_soft; assumption. }
  destruct (nth_error db (N.to_nat (e_reason e))) as [c|] eqn:En; [|discriminate].
  apply nth_error_In in En.
  destruct (unit_under (tlits old) (cl_lits c) (VSol x, true)) eqn:Eu.
  - (* propagation *)
    unfold unit_under in Eu. apply andb_true_iff in Eu. destruct Eu as [Hmem Hothers].
    apply existsb_exists in Hmem. destruct Hmem as [l0 [Hl0 El0]]. apply lit_eqb_eq in El0. subst l0.
    rewrite forallb_forall in Hothers.
    destruct (is_learnt c) eqn:Elc.
    + (* learnt clause: use the supported sub-model *)
      pose proof (m'_models c En) as Hm. apply cl_true_iff in Hm. destruct Hm as [l [Hl Hlt]].
      specialize (Hothers l Hl). apply orb_true_iff in Hothers. destruct Hothers as [E|Hf].
      * apply lit_eqb_eq in E. subst l. change (VSol x, true) with (pos x) in Hlt.
        rewrite lit_true_pos in Hlt. apply m'_sol in Hlt. apply Hlt.
      * exfalso. destruct l as [v b]. apply lit_false_pval in Hf.
        unfold lit_true in Hlt. simpl in Hlt.
        destruct b; simpl in Hf.
        -- (* positive literal false in the trail: false in a, hence in m' *)
           pose proof (Hext v false Hf) as Ha. destruct (m' v) eqn:Em; [|discriminate].
           apply m'_le in Em. congruence.
        -- (* negative literal false in the trail: v is true earlier *)
           pose proof (Hext v true Hf) as Ha.
           destruct v as [|y|hn hk]; simpl in Hlt.
           ++ rewrite Ha in Hlt. discriminate.
           ++ assert (Hy : Supp U P S y) by (apply IH; apply pval_In; exact Hf).
              assert (HyS : In y S) by (apply a_sel_iff; exact Ha).
              assert (Hm'y : m' (VSol y) = true) by (apply m'_sol; auto).
              simpl in Hm'y. rewrite Hm'y in Hlt. discriminate.
           ++ rewrite Ha in Hlt. discriminate.
    + (* fact: only a Requires clause has a positive solvable literal *)
      destruct (fact_pos_lit c x (db_fact c En Elc) Hl0) as [p [r [cands [Ek [Elits [Hp Hx]]]]]].
      assert (Hpt : pval (tlits old) p = Some true).
      { specialize (Hothers (p, false) ltac:(rewrite Elits; left; reflexivity)).
        apply orb_true_iff in Hothers. destruct Hothers as [E|Hf]; [apply lit_eqb_eq in E; discriminate E|].
        apply lit_false_pval in Hf. exact Hf. }
      eapply requires_supports with (old := tlits old); eauto.
  - (* decision under D1 *)
    unfold decision_kind in Ec. destruct (ck c) as [|p r cands| | | | |] eqn:Ek; try discriminate.
    destruct (cl_lits c) as [|[p' [|]] cs] eqn:Elits; try discriminate.
    match type of Ec with (if ?cond then _ else _) = _ => destruct cond eqn:Econd; [|discriminate] end.
    clear Ec. repeat (apply andb_true_iff in Econd; destruct Econd as [Econd ?]).
    apply var_eqb_eq in Econd. subst p'.
    assert (Hnl : is_learnt c = false) by (unfold is_learnt; rewrite Ek; reflexivity).
    assert (Hxc : In (VSol x, true) (cl_lits c)).
    { rewrite Elits. right. unfold opt_lit_eqb, first_nonfalse in *.
      destruct (find (fun x0 => negb (lit_false (tlits old) x0)) cs) as [l1|] eqn:Ef; [|discriminate].
      apply find_some in Ef. destruct Ef as [Hin1 _].
      match goal with H : lit_eqb l1 _ = true |- _ => apply lit_eqb_eq in H; subst l1 end. exact Hin1. }
    destruct (fact_pos_lit c x (db_fact c En Hnl) Hxc) as [p2 [r2 [cands2 [Ek2 [Elits2 [Hp Hx]]]]]].
    rewrite Ek in Ek2. inversion Ek2. subst p2 r2 cands2.
    match goal with H : lit_istrue (tlits old) (p, true) = true |- _ => apply lit_istrue_pval in H; rename H into Hpt end.
    eapply requires_supports with (old := tlits old); eauto.
Qed.

(* C05: every solvable of the reported selection is supported *)
Theorem support_sound : supported U P S.
Proof.
  intros x Hx. apply (supp_along tr [] eq_refl). apply sel_of_In. exact Hx.
Qed.

End Support.
