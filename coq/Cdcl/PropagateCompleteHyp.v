(* Cdcl/PropagateCompleteHyp.v -- the hypotheses of propagate_complete as boolean functions, so that
   the correspondence check can evaluate them at every call of propagate in a log. *)
From Resolvo Require Export Cdcl.PropagateComplete Cdcl.PropagateHyp.
From Coq Require Import Lia.

Definition pfalseb (st : pstate) (l : lit) : bool :=
  existsb (fun e => lit_eqb (t_lit e) (fst l, negb (snd l))) (firstn (ps_pidx st) (rev (ps_trail st))).

Definition inv2b (xs : list N) (st : pstate) : bool :=
  forallb (fun e => memN (fst e) xs || negb (pfalseb st (fst (snd e)) && pfalseb st (snd (snd e)))) (ps_watch st).

Definition wcompb (ws : list (N * (lit * lit))) (ls : list (lit * list N)) : bool :=
  forallb (fun e => memN (fst e) (lget ls (fst (snd e))) && memN (fst e) (lget ls (snd (snd e)))) ws.

Definition comp_hyps (xs : list N) (st : pstate) : bool :=
  inv2b xs st && wcompb (ps_watch st) (ps_lists st) && Nat.leb (ps_pidx st) (length (ps_trail st)).

Lemma wget_In ws id w : wget ws id = Some w -> In (id, w) ws.
Proof.
  induction ws as [|[k y] t IH]; simpl; [discriminate|]. destruct (N.eqb k id) eqn:E.
  - apply N.eqb_eq in E. subst. intro H. inversion H. subst. left. reflexivity.
  - intro H. right. apply IH. exact H.
Qed.

Lemma nth_error_firstn {X} : forall n (l : list X) k, (k < n)%nat -> nth_error (firstn n l) k = nth_error l k.
Proof.
  induction n as [|n IH]; intros l k Hk; [lia|]. destruct l as [|x t]; [reflexivity|].
  destruct k as [|k]; [reflexivity|]. simpl. apply IH. lia.
Qed.

Lemma pfalse_pfalseb st l : pfalse st l -> pfalseb st l = true.
Proof.
  intros [k [e [Hk [Hlt He]]]]. unfold pfalseb. apply existsb_exists. exists e. split; [|rewrite He; apply lit_eqb_refl].
  rewrite <- (nth_error_firstn (ps_pidx st) _ k Hlt) in Hk. apply nth_error_In in Hk. exact Hk.
Qed.

Lemma inv2b_sound xs st : inv2b xs st = true -> Inv2 (fun id => In id xs) st.
Proof.
  unfold inv2b. intros H id w Hw. rewrite forallb_forall in H. specialize (H _ (wget_In _ _ _ Hw)). simpl in H.
  apply orb_true_iff in H. destruct H as [H|H]; [left; apply memN_In; exact H|]. right. intros [P1 P2].
  rewrite (pfalse_pfalseb _ _ P1), (pfalse_pfalseb _ _ P2) in H. discriminate.
Qed.

Lemma wcompb_sound ws ls : wcompb ws ls = true -> WComp ws ls.
Proof.
  unfold wcompb. intros H id w Hw. rewrite forallb_forall in H. specialize (H _ (wget_In _ _ _ Hw)). simpl in H.
  apply andb_true_iff in H. destruct H as [H1 H2]. split; apply memN_In; assumption.
Qed.

(* in the form the check uses: where the hypotheses evaluate to true at a call of propagate that ends
   without conflict, every entry is propagated afterwards, no watched clause (outside the exempt ones:
   those born with both watched literals false) is falsified and every asserted literal is true *)
Theorem checked_propagate_complete db xs level asserts units st st' :
  prop_hyps db asserts units st = true -> comp_hyps xs st = true ->
  propagate db level asserts units st = Some (st', None) ->
  (length (ps_trail st') <= ps_pidx st')%nat /\
  (forall id w, wget (ps_watch st') id = Some w -> ~ In id xs ->
     exists c, nth_error db (N.to_nat id) = Some c /\ falsified (ps_trail st') (cl_lits c) = false) /\
  (forall x, In x (asserts ++ units) -> plit_true st' (fst x) = true) /\
  Inv2 (fun id => In id xs) st' /\ WComp (ps_watch st') (ps_lists st').
Proof.
  unfold prop_hyps, comp_hyps. intros H HC Hp.
  apply andb_true_iff in H. destruct H as [H _]. apply andb_true_iff in H. destruct H as [Hw Hn].
  apply andb_true_iff in HC. destruct HC as [HC Hpi]. apply andb_true_iff in HC. destruct HC as [Hi Hc].
  apply Nat.leb_le in Hpi.
  destruct (propagate_complete db _ level asserts units st st' (winvb_sound _ _ _ Hw) (wcompb_sound _ _ Hc) Hn (inv2b_sound _ _ Hi) Hpi Hp)
    as [R1 [R2 [R3 [R4 [R5 R6]]]]].
  split; [exact R3|]. split; [|split; [exact R6 | split; assumption]].
  intros id w Hw' Hnx. apply (complete_no_watched_falsified db _ st' R1 R3 R5 id w Hw' Hnx).
Qed.
