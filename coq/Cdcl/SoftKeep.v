(* Cdcl/SoftKeep.v -- what was decided before a soft requirement is tried is never
   taken back: a checker over the hook log and its meaning.

   When solve() turns to a soft requirement (event LSoft, logged right before the
   requirement is decided) the whole current trail -- the solution of the hard
   requirements plus everything accepted so far -- becomes protected: no later
   undo_last may pop one of these entries and no undo_until(0) may clear them,
   whatever the reason for the undo (conflict analysis, a restart of run_sat after
   new clauses, the rejection of the soft requirement).  F14 and F17 were
   violations of exactly this. *)
From Resolvo Require Export Cdcl.AnalyzeRun.
From Coq Require Import Lia.
Local Open Scope nat_scope.

(* [keep] = number of oldest trail entries that are protected *)
Fixpoint keepb (evs : list levent) (tr : list tent) (keep : nat) : bool :=
  match evs with
  | [] => true
  | LAssign l lv reason :: t => keepb t (mkT l lv reason :: tr) keep
  | LUndoLast :: t => Nat.ltb keep (length tr) && keepb t (tl tr) keep
  | LUndoUntil lv :: t => if N.eqb lv 0 then Nat.eqb keep 0 && keepb t [] keep else keepb t tr keep
  | LSoft :: t => keepb t tr (length tr)
  end.

Definition soft_keep (evs : list levent) : bool := keepb evs [] 0.

(* the trail after a log (same replay as the checker's) *)
Fixpoint trail_after (evs : list levent) (tr : list tent) : list tent :=
  match evs with
  | [] => tr
  | LAssign l lv reason :: t => trail_after t (mkT l lv reason :: tr)
  | LUndoLast :: t => trail_after t (tl tr)
  | LUndoUntil lv :: t => trail_after t (if N.eqb lv 0 then [] else tr)
  | LSoft :: t => trail_after t tr
  end.

(* the oldest [k] entries of a trail (the trail is kept newest first) *)
Definition oldest (k : nat) (tr : list tent) : list tent := skipn (length tr - k) tr.

Lemma oldest_all tr : oldest (length tr) tr = tr.
Proof. unfold oldest. rewrite Nat.sub_diag. reflexivity. Qed.

Lemma oldest_cons k e tr : k <= length tr -> oldest k (e :: tr) = oldest k tr.
Proof.
  intro H. unfold oldest. simpl length. replace (S (length tr) - k) with (S (length tr - k)) by lia. reflexivity.
Qed.

Lemma oldest_tl k tr : k < length tr -> oldest k (tl tr) = oldest k tr.
Proof.
  destruct tr as [|e tr]; simpl; [lia|]. intro H. symmetry. apply oldest_cons. lia.
Qed.

Lemma skipn_app_tail {A} (p tr : list A) k : k <= length tr ->
  skipn (length (p ++ tr) - k) (p ++ tr) = skipn (length tr - k) tr.
Proof.
  intro H. rewrite app_length. replace (length p + length tr - k) with (length p + (length tr - k)) by lia.
  rewrite skipn_app. rewrite skipn_all2 by lia. simpl. f_equal. lia.
Qed.

(* an accepted log never touches the protected entries: they are the oldest entries of every later trail *)
Lemma keepb_keeps : forall evs tr keep,
  keepb evs tr keep = true -> keep <= length tr ->
  keep <= length (trail_after evs tr) /\ oldest keep (trail_after evs tr) = oldest keep tr.
Proof.
  induction evs as [|e t IH]; intros tr keep H Hk; simpl in *.
  - split; [exact Hk | reflexivity].
  - destruct e as [l lv reason| |lv|].
    + destruct (IH _ _ H) as [A B]; [simpl; lia|]. split; [exact A|]. rewrite B. apply oldest_cons. exact Hk.
    + apply andb_true_iff in H. destruct H as [H1 H2]. apply Nat.ltb_lt in H1.
      assert (Hl : keep <= length (tl tr)) by (destruct tr; simpl in *; lia).
      destruct (IH _ _ H2 Hl) as [A B]. split; [exact A|]. rewrite B. apply oldest_tl. exact H1.
    + destruct (N.eqb lv 0).
      * apply andb_true_iff in H. destruct H as [H1 H2]. apply Nat.eqb_eq in H1. subst keep.
        destruct (IH _ _ H2 (Nat.le_0_l _)) as [A B]. split; [exact A|].
        unfold oldest. rewrite !Nat.sub_0_r, !skipn_all. reflexivity.
      * apply IH; assumption.
    + (* a new soft requirement: the protected part can only have grown; the old one is inside it *)
      destruct (IH _ _ H (Nat.le_refl _)) as [A B]. split; [lia|].
      rewrite oldest_all in B. unfold oldest in *.
      pose proof (firstn_skipn (length (trail_after t tr) - length tr) (trail_after t tr)) as E. rewrite B in E.
      rewrite <- E. apply skipn_app_tail. exact Hk.
Qed.

(* THE statement: split an accepted log at any soft requirement; the trail at that moment is, entry
   for entry, the oldest part of the trail at the end of the log (hence of the returned solution) *)
Theorem soft_keeps_earlier_decisions evs1 evs2 :
  soft_keep (evs1 ++ LSoft :: evs2) = true ->
  let before := trail_after evs1 [] in
  let final := trail_after (evs1 ++ LSoft :: evs2) [] in
  length before <= length final /\ oldest (length before) final = before.
Proof.
  unfold soft_keep. intro H.
  assert (G : forall evs tr keep, keepb (evs ++ LSoft :: evs2) tr keep = true ->
              keepb evs2 (trail_after evs tr) (length (trail_after evs tr)) = true /\
              trail_after (evs ++ LSoft :: evs2) tr = trail_after evs2 (trail_after evs tr)).
  { induction evs as [|e t IH]; intros tr keep Hk; simpl in *.
    - split; [exact Hk | reflexivity].
    - destruct e as [l lv reason| |lv|].
      + apply (IH _ _ Hk).
      + apply andb_true_iff in Hk. apply (IH _ _ (proj2 Hk)).
      + destruct (N.eqb lv 0); [apply andb_true_iff in Hk; apply (IH _ _ (proj2 Hk)) | apply (IH _ _ Hk)].
      + apply (IH _ _ Hk). }
  destruct (G evs1 [] 0 H) as [Hk E]. simpl. rewrite E.
  destruct (keepb_keeps _ _ _ Hk (Nat.le_refl _)) as [A B]. split; [exact A|].
  rewrite B. apply oldest_all.
Qed.

(* entries, not just counts: every assignment present when a soft requirement is tried is in the final trail *)
Corollary soft_keeps_assignments evs1 evs2 e :
  soft_keep (evs1 ++ LSoft :: evs2) = true ->
  In e (trail_after evs1 []) -> In e (trail_after (evs1 ++ LSoft :: evs2) []).
Proof.
  intros H Hin. destruct (soft_keeps_earlier_decisions evs1 evs2 H) as [_ B].
  rewrite <- B in Hin. unfold oldest in Hin.
  rewrite <- (firstn_skipn (length (trail_after (evs1 ++ LSoft :: evs2) []) - length (trail_after evs1 []))).
  apply in_or_app. right. exact Hin.
Qed.

(* non-vacuity: a log with a rejected soft requirement (undo back to the protected part, then "false") passes;
   popping one protected entry does not *)
Example soft_keep_accepts :
  soft_keep [LAssign (VRoot, true) 1 0; LAssign (VSol 1, true) 1 1; LSoft; LAssign (VSol 2, true) 2 0;
             LAssign (VSol 3, true) 2 4; LUndoUntil 1; LUndoLast; LUndoLast; LAssign (VSol 2, false) 2 0] = true.
Proof. reflexivity. Qed.

Example soft_keep_rejects :
  soft_keep [LAssign (VRoot, true) 1 0; LAssign (VSol 1, true) 1 1; LSoft; LAssign (VSol 2, true) 2 0;
             LUndoUntil 1; LUndoLast; LUndoLast] = false.
Proof. reflexivity. Qed.
