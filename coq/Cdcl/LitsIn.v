(* Cdcl/LitsIn.v -- where the literals on the trail and in learnt clauses come from:

     propagate_lits   every assignment a call of propagate makes is a literal OF its reason
                      clause (a watched literal of it, or the literal of a registered assertion)
     analyze_lits     every literal of a learnt clause is a literal of one of the clauses of its
                      derivation (conflicting clause falsified, resolved entries justified)

   Both are needed to know that a variable can only become true / assigned after some clause
   of the database mentions it -- the step from "the encoder registers a candidate before it
   puts it into a clause" to "a candidate that is not registered yet is not installed". *)
From Resolvo Require Export Cdcl.PropagateProofs Cdcl.AnalyzeOk.
From Coq Require Import Lia.

Section Lits.
Variable db : list cl.

Definition lit_in (e : tent) : Prop :=
  exists c, nth_error db (N.to_nat (t_reason e)) = Some c /\ In (t_lit e) (cl_lits c).

Definition WLits (ws : list (N * (lit * lit))) : Prop :=
  forall id w, wget ws id = Some w ->
    exists c, nth_error db (N.to_nat id) = Some c /\ In (fst w) (cl_lits c) /\ In (snd w) (cl_lits c).

Lemma winv_wlits ws ls : WInv db ws ls -> WLits ws.
Proof.
  intros [A _ _] id w Hw. destruct (A id w Hw) as [c [Hc [H0 [H1 _]]]]. exists c. auto.
Qed.

Definition lgrows_in (base cur : list tent) : Prop :=
  exists new, cur = new ++ base /\ Forall lit_in new.

Lemma lgi_refl base : lgrows_in base base.
Proof. exists []. split; [reflexivity | constructor]. Qed.

Lemma lgi_trans a b c : lgrows_in a b -> lgrows_in b c -> lgrows_in a c.
Proof.
  intros [n1 [E1 F1]] [n2 [E2 F2]]. exists (n2 ++ n1). subst. split; [rewrite app_assoc; reflexivity|].
  apply Forall_app. split; assumption.
Qed.

Lemma try_add_lgi st l level reason st1 c :
  nth_error db (N.to_nat reason) = Some c -> In l (cl_lits c) ->
  try_add st l level reason = Some st1 ->
  lgrows_in (ps_trail st) (ps_trail st1) /\ ps_watch st1 = ps_watch st.
Proof.
  intros Hc Hl H. pose proof (try_add_gen st l level reason) as G. rewrite H in G.
  destruct G as [[E _]|[_ E]]; subst st1; [split; [apply lgi_refl | reflexivity]|].
  split; [|reflexivity]. exists [mkT l level reason]. split; [reflexivity|].
  constructor; [|constructor]. exists c. split; assumption.
Qed.

Lemma visit_list_lits L level : forall ids kept st st' r,
  WLits (ps_watch st) -> visit_list db L level ids kept st = Some (st', r) ->
  WLits (ps_watch st') /\ lgrows_in (ps_trail st) (ps_trail st').
Proof.
  induction ids as [|id rest IH]; intros kept st st' r HW H; cbn [visit_list] in H.
  - inversion H. subst. split; [exact HW | apply lgi_refl].
  - destruct (wget (ps_watch st) id) as [[w0 w1]|] eqn:Ew; [|discriminate].
    destruct (nth_error db (N.to_nat id)) as [c|] eqn:Ec; [|discriminate].
    destruct (HW id (w0, w1) Ew) as [c' [Hc' [H0 H1]]]. rewrite Ec in Hc'. inversion Hc'. subst c'. cbn [fst snd] in H0, H1.
    set (other := if lit_eqb w0 L then w1 else w0) in *.
    assert (Hother : In other (cl_lits c)) by (unfold other; destruct (lit_eqb w0 L); assumption).
    destruct (plit_true st other); [apply (IH _ _ _ _ HW H)|].
    destruct (next_unwatched st c other) as [|nl|] eqn:En; [| |discriminate].
    + destruct (try_add st other level id) as [st1|] eqn:Et.
      * destruct (try_add_lgi _ _ _ _ _ c Ec Hother Et) as [G1 G2].
        assert (HW1 : WLits (ps_watch st1)) by (rewrite G2; exact HW).
        destruct (IH _ _ _ _ HW1 H) as [I1 I2]. split; [exact I1 | eapply lgi_trans; eassumption].
      * inversion H. subst. split; [exact HW | apply lgi_refl].
    + destruct (next_unwatched_some st c other nl En) as [_ [Hnl _]].
      match type of H with
      | visit_list _ _ _ _ _ ?S = _ => assert (HW1 : WLits (ps_watch S))
      end.
      { cbn [ps_watch]. intros id' w Hw. destruct (N.eq_dec id' id) as [E|E].
        - subst id'. rewrite wget_wset_same in Hw. inversion Hw. subst w. exists c. split; [exact Ec|].
          destruct (lit_eqb w0 L); cbn [fst snd]; auto.
        - rewrite wget_wset_other in Hw by exact E. apply (HW id' w Hw). }
      apply (IH _ _ _ _ HW1 H).
Qed.

Lemma prop_loop_lits level : forall fuel st st' r,
  WLits (ps_watch st) -> prop_loop fuel db level st = Some (st', r) ->
  WLits (ps_watch st') /\ lgrows_in (ps_trail st) (ps_trail st').
Proof.
  induction fuel as [|f IH]; intros st st' r HW H; cbn [prop_loop] in H; [discriminate|].
  destruct (Nat.ltb (ps_pidx st) (length (ps_trail st))); [|inversion H; subst; split; [exact HW | apply lgi_refl]].
  destruct (nth_error (ps_trail st) (length (ps_trail st) - 1 - ps_pidx st)) as [e|]; [|discriminate].
  destruct (visit_list db (tvar e, negb (snd (t_lit e))) level (lget (ps_lists st) (tvar e, negb (snd (t_lit e)))) [] st)
    as [[st1 [c|]]|] eqn:Ev; [| |discriminate].
  - inversion H. subst. apply (visit_list_lits _ _ _ _ _ _ _ HW Ev).
  - destruct (visit_list_lits _ _ _ _ _ _ _ HW Ev) as [V1 V2].
    assert (V1' : WLits (ps_watch (mkPS (ps_trail st1) (S (ps_pidx st1)) (ps_watch st1) (ps_lists st1)))) by exact V1.
    destruct (IH _ _ _ V1' H) as [I1 I2]. split; [exact I1 | eapply lgi_trans; [exact V2 | exact I2]].
Qed.

Definition assert_in (x : lit * N) : Prop :=
  exists c, nth_error db (N.to_nat (snd x)) = Some c /\ In (fst x) (cl_lits c).

Lemma assert_all_lits level : forall l st st' r,
  (forall x, In x l -> assert_in x) -> assert_all level l st = (st', r) ->
  lgrows_in (ps_trail st) (ps_trail st') /\ ps_watch st' = ps_watch st.
Proof.
  induction l as [|[x id] t IH]; intros st st' r Hl H; simpl in H.
  - inversion H. subst. split; [apply lgi_refl | reflexivity].
  - destruct (try_add st x level id) as [st1|] eqn:Et.
    + destruct (Hl (x, id) (or_introl eq_refl)) as [c [Hc Hin]]. cbn [fst snd] in Hc, Hin.
      destruct (try_add_lgi _ _ _ _ _ c Hc Hin Et) as [G1 G2].
      destruct (IH _ _ _ (fun y Hy => Hl y (or_intror Hy)) H) as [I1 I2].
      split; [eapply lgi_trans; eassumption | rewrite I2; exact G2].
    + inversion H. subst. split; [apply lgi_refl | reflexivity].
Qed.

Theorem propagate_lits level asserts units st st' r :
  WLits (ps_watch st) -> (forall x, In x (asserts ++ units) -> assert_in x) ->
  propagate db level asserts units st = Some (st', r) ->
  lgrows_in (ps_trail st) (ps_trail st').
Proof.
  intros HW Hl H. unfold propagate in H.
  destruct (assert_all level asserts st) as [st1 r1] eqn:E1.
  destruct (assert_all_lits level _ _ _ _ (fun x Hx => Hl x (in_or_app _ _ _ (or_introl Hx))) E1) as [A1 A2].
  destruct r1 as [c1|]; [inversion H; subst; exact A1|].
  destruct (assert_all level units st1) as [st2 r2] eqn:E2.
  destruct (assert_all_lits level _ _ _ _ (fun x Hx => Hl x (in_or_app _ _ _ (or_intror Hx))) E2) as [B1 B2].
  destruct r2 as [c2|]; [inversion H; subst; eapply lgi_trans; eassumption|].
  assert (HW2 : WLits (ps_watch st2)) by (rewrite B2, A2; exact HW).
  destruct (prop_loop_lits level _ _ _ _ HW2 H) as [_ P].
  eapply lgi_trans; [exact A1|]. eapply lgi_trans; eassumption.
Qed.

(* ---------- the literals of a learnt clause ---------- *)

Definition lit_from (l : lit) (ids : list N) : Prop :=
  exists j c, In j ids /\ nth_error db (N.to_nat j) = Some c /\ In l (cl_lits c).

(* [visit] on a clause all of whose literals (other than those on the skipped variable) are false: what it
   adds to the learnt literals are literals of that clause, and every variable it marks as seen occurs in
   the clause with the literal that is false under the trail *)
Definition seen_ok (tr : list tent) (ids : list N) (seen : list var) : Prop :=
  forall v, In v seen -> forall b, pval (tl_lits tr) v = Some b -> lit_from (v, negb b) ids.

Lemma visit_lits tr cur skip j c : forall lits st st' ids,
  nth_error db (N.to_nat j) = Some c -> In j ids -> (forall l, In l lits -> In l (cl_lits c)) ->
  (forall l, In l lits -> (match skip with Some s => var_eqb (fst l) s | None => false end) = false ->
             pval (tl_lits tr) (fst l) = Some (negb (snd l))) ->
  visit tr cur skip lits st = Some st' ->
  (forall l, In l (a_learnt st) -> lit_from l ids) -> seen_ok tr ids (a_seen st) ->
  (forall l, In l (a_learnt st') -> lit_from l ids) /\ seen_ok tr ids (a_seen st').
Proof.
  intros lits. induction lits as [|[v s] t IH]; intros st st' ids Hc Hj Hsub Hfalse H HL HS; cbn [visit] in H.
  - inversion H. subst. split; assumption.
  - assert (Hsub' : forall l, In l t -> In l (cl_lits c)) by (intros l Hl; apply Hsub; right; exact Hl).
    assert (Hfalse' : forall l, In l t -> (match skip with Some s0 => var_eqb (fst l) s0 | None => false end) = false ->
                                 pval (tl_lits tr) (fst l) = Some (negb (snd l))) by (intros l Hl; apply Hfalse; right; exact Hl).
    destruct (match skip with Some s0 => var_eqb v s0 | None => false end) eqn:Esk; [apply (IH _ _ _ Hc Hj Hsub' Hfalse' H HL HS)|].
    destruct (memv v (a_seen st)); [apply (IH _ _ _ Hc Hj Hsub' Hfalse' H HL HS)|].
    pose proof (Hfalse (v, s) (or_introl eq_refl) Esk) as Hv. cbn [fst snd] in Hv.
    destruct (level_of tr v) as [lv|]; [|discriminate]. rewrite Hv in H.
    assert (Hfrom : lit_from (v, negb (negb s)) ids).
    { rewrite Bool.negb_involutive. exists j, c. split; [exact Hj|]. split; [exact Hc|]. apply Hsub. left. reflexivity. }
    destruct (N.eqb lv cur).
    + apply (IH _ _ _ Hc Hj Hsub' Hfalse' H); cbn [a_learnt a_seen]; [exact HL|].
      intros v0 [E|Hin] b Hb; [subst v0; rewrite Hv in Hb; inversion Hb; subst b; exact Hfrom | apply (HS v0 Hin b Hb)].
    + apply (IH _ _ _ Hc Hj Hsub' Hfalse' H); cbn [a_learnt a_seen].
      * intros l Hl. apply in_app_or in Hl. destruct Hl as [Hl|[Hl|[]]]; [apply HL; exact Hl | subst l; exact Hfrom].
      * intros v0 [E|Hin] b Hb; [subst v0; rewrite Hv in Hb; inversion Hb; subst b; exact Hfrom | apply (HS v0 Hin b Hb)].
Qed.

Lemma lit_from_mono l a b : (forall j, In j a -> In j b) -> lit_from l a -> lit_from l b.
Proof. intros Hs [j [c [Hj H]]]. exists j, c. split; [apply Hs; exact Hj | exact H]. Qed.

Lemma seen_ok_pop e t ids seen : tnd (e :: t) -> seen_ok (e :: t) ids seen -> seen_ok t ids seen.
Proof.
  intros Hn HS v Hv b Hb. apply (HS v Hv b).
  rewrite pval_tail; [exact Hb|]. intro E. subst v. rewrite (tnd_head e t Hn) in Hb. discriminate.
Qed.

Lemma go_lits : forall tr st why pops ok r,
  go db tr st why pops ok = Some r -> r_ok r = true -> tnd tr ->
  (forall l, In l (a_learnt st) -> lit_from l why) -> seen_ok tr why (a_seen st) ->
  forall l, In l (r_learnt r) -> lit_from l (r_why r).
Proof.
  induction tr as [|e rest IH]; intros st why pops ok r H Hrok Hn HL HS; cbn [go] in H; [discriminate|].
  destruct (memv (tvar e) (a_seen st)) eqn:Em.
  2:{ apply (IH _ _ _ _ _ H Hrok (tnd_tl _ _ Hn) HL (seen_ok_pop _ _ _ _ Hn HS)). }
  apply memv_In in Em.
  destruct (pred (a_causes st)) as [|k].
  - inversion H. subst r. clear H. cbn [r_learnt r_why]. intros l Hl. apply in_app_or in Hl.
    destruct Hl as [Hl|[Hl|[]]]; [apply HL; exact Hl|]. subst l.
    apply (HS (tvar e) Em (snd (t_lit e))). apply pval_head.
  - destruct rest as [|top rest']; [discriminate|].
    destruct (nth_error db (N.to_nat (t_reason e))) as [c|] eqn:Ec; [|discriminate].
    destruct (visit (top :: rest') (t_level top) (Some (tvar e)) (cl_lits c) (mkA (a_seen st) (a_learnt st) (S k) (a_btl st))) as [st'|] eqn:Ev; [|discriminate].
    (* r_ok of the result implies reason_ok of this step *)
    assert (Hstep : reason_ok db e (top :: rest') = true).
    { assert (G : forall tr0 st0 why0 pops0 ok0 r0, go db tr0 st0 why0 pops0 ok0 = Some r0 -> r_ok r0 = true -> ok0 = true).
      { clear. induction tr0 as [|e0 t0 IH0]; intros st0 why0 pops0 ok0 r0; cbn [go]; [discriminate|].
        destruct (memv (tvar e0) (a_seen st0)).
        - destruct (pred (a_causes st0)).
          + intros H E. inversion H. subst. exact E.
          + destruct t0 as [|top0 t0']; [discriminate|].
            destruct (nth_error db (N.to_nat (t_reason e0))); [|discriminate].
            destruct (visit _ _ _ _ _); [|discriminate]. intros H E. apply (IH0 _ _ _ _ _ H) in E.
            apply andb_true_iff in E. apply E.
        - apply IH0. }
      pose proof (G _ _ _ _ _ _ H Hrok) as E. apply andb_true_iff in E. apply E. }
    assert (Hfalse : forall l, In l (cl_lits c) -> var_eqb (fst l) (tvar e) = false ->
                               pval (tl_lits (top :: rest')) (fst l) = Some (negb (snd l))).
    { intros l Hl Hne. unfold reason_ok in Hstep. rewrite Ec in Hstep. rewrite forallb_forall in Hstep.
      specialize (Hstep l Hl). rewrite Hne in Hstep.
      destruct (pval (tl_lits (top :: rest')) (fst l)) as [b|]; [|discriminate]. apply Bool.eqb_prop in Hstep. subst b. reflexivity. }
    assert (Hin : In (t_reason e) (why ++ [t_reason e])) by (apply in_or_app; right; left; reflexivity).
    destruct (visit_lits (top :: rest') (t_level top) (Some (tvar e)) (t_reason e) c (cl_lits c) _ st' (why ++ [t_reason e])
                Ec Hin (fun l Hl => Hl) Hfalse Ev) as [HL' HS'].
    + cbn [a_learnt]. intros l Hl. apply (lit_from_mono l why); [intros j Hj; apply in_or_app; left; exact Hj | apply HL; exact Hl].
    + cbn [a_seen]. intros v Hv b Hb. apply (lit_from_mono _ why); [intros j Hj; apply in_or_app; left; exact Hj|].
      apply (seen_ok_pop e (top :: rest') why (a_seen st) Hn HS v Hv b Hb).
    + apply (IH _ _ _ _ _ H Hrok (tnd_tl _ _ Hn) HL' HS').
Qed.

Theorem analyze_lits tr conf r :
  analyze db tr conf = Some r -> analysis_ok db tr conf r = true -> tnd tr ->
  forall l, In l (r_learnt r) -> lit_from l (r_why r).
Proof.
  unfold analyze, analysis_ok. intros H Hok Hn.
  destruct tr as [|top rest]; [discriminate|].
  destruct (nth_error db (N.to_nat conf)) as [c|] eqn:Ec; [|discriminate].
  destruct (visit (top :: rest) (t_level top) None (cl_lits c) (mkA [] [] 0 0)) as [st|] eqn:Ev; [|discriminate].
  apply andb_true_iff in Hok. destruct Hok as [Hok _]. apply andb_true_iff in Hok. destruct Hok as [Hf Hrok].
  assert (Hfalse : forall l, In l (cl_lits c) -> false = false -> pval (tl_lits (top :: rest)) (fst l) = Some (negb (snd l))).
  { intros l Hl _. unfold falsified in Hf. rewrite forallb_forall in Hf. specialize (Hf l Hl).
    destruct (pval (tl_lits (top :: rest)) (fst l)) as [b|]; [|discriminate]. apply Bool.eqb_prop in Hf. subst b. reflexivity. }
  destruct (visit_lits (top :: rest) (t_level top) None conf c (cl_lits c) _ st [conf] Ec (or_introl eq_refl) (fun l Hl => Hl) Hfalse Ev)
    as [HL HS].
  - intros l [].
  - intros v [].
  - apply (go_lits _ _ _ _ _ _ H Hrok Hn HL HS).
Qed.

End Lits.
