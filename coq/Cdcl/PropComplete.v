(* Cdcl/PropComplete.v -- "propagation had done its job when the solver
   branched": a checker over a clause database and an assignment, evaluated at
   every call of Solver::decide in every hook log -- no clause among those
   allocated so far is falsified, and every clause with a single literal (the
   assertions: exclusions, Unknown dependencies, requirements without
   candidates, unit learnt clauses) is in force -- and what it buys: the
   unreachable!() of decide cannot be reached from such a state.

   (Full unit-propagation completeness is NOT an invariant of the code: a
   clause added lazily for a solvable that is already installed and already
   propagated may be unit without being visited -- a Requires clause is then
   picked up by decide, a Constrains clause when its other literal is assigned.)

   The watch scheme of Solver::propagate is not modelled; this is what it has
   to deliver, checked where it is relied upon.  The changes that hoisted
   decide_assertions out of propagate (seeded/C01b, C04b, C02c) violate it many
   calls before a wrong answer or a panic surfaces. *)
From Resolvo Require Export Cdcl.DecideProofs.

Definition falsified_by (pa : list lit) (c : cl) : bool := forallb (lit_false pa) (cl_lits c).

Definition assertion_holds (pa : list lit) (c : cl) : bool :=
  match cl_lits c with [l] => lit_istrue pa l | _ => true end.

Definition prop_complete (db : list cl) (pa : list lit) : bool :=
  forallb (fun c => negb (falsified_by pa c) && assertion_holds pa c) db.

Lemma cfalse_lit_false pa x : cfalse pa x -> lit_false pa (pos x) = true.
Proof. intro H. apply lit_false_pos. exact H. Qed.

(* from a state in which propagation is complete, decide does not reach its unreachable!() *)
Theorem complete_no_panic U act_ge db pa :
  (forall c, In c db -> req_wf U c = true) -> prop_complete db pa = true ->
  decide U act_ge db pa <> None.
Proof.
  intros Hwf Hc Hd. destruct (decide_panic U act_ge pa db Hwf Hd) as [c [p [r [cands [Hin [Hk [Hp Hf]]]]]]].
  unfold prop_complete in Hc. rewrite forallb_forall in Hc. specialize (Hc c Hin).
  apply andb_true_iff in Hc. destruct Hc as [Hnf _]. apply negb_true_iff in Hnf.
  assert (Hf' : falsified_by pa c = true).
  { unfold falsified_by. rewrite (wf_lits U c p r cands Hk (Hwf c Hin)). simpl. apply andb_true_iff. split.
    - unfold lit_istrue, lit_val in Hp. unfold lit_false, lit_val. simpl in *.
      destruct (pval pa p) as [[|]|]; simpl in *; try discriminate; reflexivity.
    - apply forallb_forall. intros x Hx. apply in_map_iff in Hx. destruct Hx as [y [Ey Hy]]. subst x.
      rewrite Forall_forall in Hf. apply cfalse_lit_false. apply Hf. exact Hy. }
  congruence.
Qed.

(* and every assertion (a clause with a single literal) is in force *)
Theorem complete_units_hold db pa c l :
  prop_complete db pa = true -> In c db -> cl_lits c = [l] -> lit_istrue pa l = true.
Proof.
  intros Hc Hin Hl. unfold prop_complete in Hc. rewrite forallb_forall in Hc. specialize (Hc c Hin).
  apply andb_true_iff in Hc. destruct Hc as [_ Ha]. unfold assertion_holds in Ha. rewrite Hl in Ha. exact Ha.
Qed.
