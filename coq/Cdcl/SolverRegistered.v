(* Cdcl/SolverRegistered.v -- in the solver model a candidate is installed, and a helper variable of an
   at-most-one encoding is assigned, only after the encoder has registered it:

     lit_ok st l   a positive solvable literal is on a registered candidate; a helper literal is on a
                   helper bit that exists in the tracker of its package
     RInv st       every literal of every clause of the database and every literal on the trail is
                   lit_ok; every registered assertion is a literal of its clause; the encoder's
                   Requires candidates are registered (EK)

   The invariant goes through the whole loop nest (decisions take a candidate of a Requires clause,
   propagate assigns literals of clauses, a learnt clause consists of literals of its antecedents).
   Consequence (absorb_forbid_side): when the encoder's new clauses enter the database, no new
   at-most-one clause has both literals false -- forbid_side, until now evaluated per run -- so a
   clause that starts being watched with both watched literals false has been REPORTED as a conflict;
   and for a problem without soft requirements the ghost set s_born is empty whenever the model
   answers with a solution (solve_sat_born_empty): solve_sat_no_clause_lost has no exemption left. *)
From Resolvo Require Export Cdcl.SolverComplete Cdcl.LitsIn Async.EncoderRegistered.
From Coq Require Import Lia.

Section Registered.
Variable U : provider.
Variable P : problem.
Hypothesis HW : WF U.
Variable A : Type.
Variable a_ge : A -> N -> N -> bool.
Variable a_conflict : A -> list N -> A.

Notation sst := (sstate A).
Notation trail st := (ps_trail (s_ps st)).

Definition lit_ok (enc : estate) (l : lit) : Prop :=
  match l with
  | (VSol x, true) => registered U enc x
  | (VHelp n k, _) => (N.to_nat k < helper_bits enc n)%nat
  | _ => True
  end.

Lemma lit_ok_mono a b l : mono U a b -> lit_ok a l -> lit_ok b l.
Proof.
  intros [M1 M2] H. destruct l as [[|x|n k] [|]]; simpl in *; auto; specialize (M2 n); lia.
Qed.

Record RInv (st : sst) : Prop := mkRInv {
  r_ek : EK U (s_enc st);
  r_cl : forall c, In c (s_db st) -> forall l, In l (cl_lits c) -> lit_ok (s_enc st) l;
  r_tr : forall e, In e (trail st) -> lit_ok (s_enc st) (t_lit e);
  r_as : forall x, In x (s_asserts st ++ s_units st) -> assert_in (s_db st) x
}.

Lemma rinv_eq (st st' : sst) :
  s_enc st' = s_enc st -> s_db st' = s_db st -> trail st' = trail st ->
  s_asserts st' = s_asserts st -> s_units st' = s_units st -> RInv st -> RInv st'.
Proof. intros E1 E2 E3 E4 E5 [R1 R2 R3 R4]. constructor; rewrite ?E1, ?E2, ?E3, ?E4, ?E5; assumption. Qed.

(* the trail shrinks or stays *)
Lemma rinv_sub (st st' : sst) :
  s_enc st' = s_enc st -> s_db st' = s_db st -> (forall e, In e (trail st') -> In e (trail st)) ->
  s_asserts st' = s_asserts st -> s_units st' = s_units st -> RInv st -> RInv st'.
Proof.
  intros E1 E2 E3 E4 E5 [R1 R2 R3 R4]. constructor; rewrite ?E1, ?E2, ?E4, ?E5; try assumption.
  intros e He. apply R3. apply E3. exact He.
Qed.

Lemma rinv_assign st l level reason st' :
  RInv st -> lit_ok (s_enc st) l -> s_assign st l level reason = Some st' -> RInv st'.
Proof.
  intros HR Hl H. destruct (s_assign_cases _ _ _ _ _ _ H) as [[E _]|[_ E]]; subst st'; [exact HR|].
  destruct HR as [R1 R2 R3 R4]. constructor; cbn [with_ps s_enc s_db s_ps s_asserts s_units push_entry ps_trail]; try assumption.
  intros e [E|He]; [subst e; exact Hl | apply R3; exact He].
Qed.

Lemma in_tl {X} (x : X) l : In x (tl l) -> In x l.
Proof. destruct l; simpl; auto. Qed.

Lemma rinv_undo_last st : RInv st -> RInv (s_undo_last st).
Proof. intro HR. apply (rinv_sub st); auto. intros e He. apply in_tl. exact He. Qed.

Lemma rinv_pop_above fuel lv : forall st, RInv st -> RInv (s_pop_above fuel lv st).
Proof.
  induction fuel as [|f IH]; intros st H; simpl; [exact H|].
  destruct (ps_trail (s_ps st)) as [|e t]; [exact H|]. destruct (N.leb (t_level e) lv); [exact H|].
  apply IH. apply rinv_undo_last. exact H.
Qed.

Lemma rinv_undo_until st lv : RInv st -> RInv (s_undo_until st lv).
Proof.
  intro H. unfold s_undo_until. destruct (N.eqb lv 0).
  - apply (rinv_sub st); auto. intros e [].
  - apply rinv_pop_above. apply (rinv_eq st); auto.
Qed.

Lemma rinv_pops n : forall st, RInv st -> RInv (s_pops n st).
Proof. induction n as [|n IH]; intros st H; simpl; [exact H | apply IH; apply rinv_undo_last; exact H]. Qed.

(* ---------- clauses of the encoder enter the database ---------- *)

(* the shape of an encoder clause: which literals can be positive solvables / helpers *)
Lemma enc_clause_lits enc c :
  EInv U P enc -> EK U enc -> In c (e_db enc) -> forall l, In l (cl_lits c) -> lit_ok enc l.
Proof.
  intros HE HK Hc l Hl. destruct (is_forbid c) eqn:Ef.
  - unfold is_forbid in Ef. destruct (ck c) as [| | n | | | |] eqn:Ek; try discriminate.
    destruct (einv_helper_bits U P enc HE c n Hc Ek) as [x [k [b [El [Hk Hx]]]]]. rewrite El in Hl.
    destruct Hl as [E|[E|[]]]; subst l; simpl; auto.
  - pose proof (i_other U P enc HE c Hc Ef) as Hf. unfold factb in Hf.
    destruct (ck c) as [|p r cands|n|p f v|lk o|x rs|why] eqn:Ek.
    + apply lits_eqb_eq in Hf. rewrite Hf in Hl. destruct Hl as [E|[]]. subst l. exact I.
    + apply andb_true_iff in Hf. destruct Hf as [Hf Hlits]. apply andb_true_iff in Hf. destruct Hf as [Hp _].
      apply lits_eqb_eq in Hlits. rewrite Hlits in Hl.
      destruct Hl as [E|Hl]; [subst l; destruct p; [exact I | exact I | discriminate Hp]|].
      apply in_map_iff in Hl. destruct Hl as [x [E Hx]]. subst l. simpl. apply (HK c Hc p r cands Ek x Hx).
    + unfold is_forbid in Ef. rewrite Ek in Ef. discriminate.
    + apply andb_true_iff in Hf. destruct Hf as [Hf Hlits]. apply andb_true_iff in Hf. destruct Hf as [Hp _].
      apply lits_eqb_eq in Hlits. rewrite Hlits in Hl.
      destruct Hl as [E|[E|[]]]; subst l; [destruct p; [exact I | exact I | discriminate Hp] | exact I].
    + apply andb_true_iff in Hf. destruct Hf as [_ Hlits]. apply lits_eqb_eq in Hlits. rewrite Hlits in Hl.
      destruct Hl as [E|[E|[]]]; subst l; exact I.
    + apply andb_true_iff in Hf. destruct Hf as [_ Hlits]. apply lits_eqb_eq in Hlits. rewrite Hlits in Hl.
      destruct Hl as [E|[]]; subst l; exact I.
    + discriminate Hf.
Qed.

Lemma assert_in_mono db x a : assert_in db a -> assert_in (db ++ x) a.
Proof.
  intros [c [Hc Hl]]. exists c. split; [|exact Hl]. rewrite nth_error_app1; [exact Hc|]. apply nth_error_Some. rewrite Hc. discriminate.
Qed.

Lemma rinv_add_clause st confl c idx :
  RInv st -> factb U P idx c = true -> (forall l, In l (cl_lits c) -> lit_ok (s_enc st) l) ->
  RInv (fst (add_clause (st, confl) c)).
Proof.
  intros [R1 R2 R3 R4] Hf Hlits. unfold add_clause. cbn [fst].
  constructor; cbn [s_enc s_db s_ps s_asserts s_units].
  - exact R1.
  - intros c0 Hc0 l Hl. apply in_app_or in Hc0. destruct Hc0 as [Hc0|[Hc0|[]]]; [apply (R2 c0 Hc0 l Hl) | subst c0; apply Hlits; exact Hl].
  - destruct (w_watch (create (tr_lits st) c)); exact R3.
  - intros x Hx.
    assert (Hold : forall y, In y (s_asserts st ++ s_units st) -> assert_in (s_db st ++ [c]) y)
      by (intros y Hy; apply assert_in_mono; apply R4; exact Hy).
    destruct (w_assert (create (tr_lits st) c)) as [v|] eqn:Ea; [|apply Hold; exact Hx].
    apply in_app_or in Hx. destruct Hx as [Hx|Hx]; [|apply Hold; apply in_or_app; right; exact Hx].
    apply in_app_or in Hx. destruct Hx as [Hx|[Hx|[]]]; [apply Hold; apply in_or_app; left; exact Hx|].
    subst x. exists c. cbn [fst snd]. split; [apply nth_error_snoc|].
    unfold create in Ea. unfold factb in Hf.
    destruct (ck c) as [|p r cands|n|p f v0|l o|x rs|why] eqn:Ek; cbn [w_assert] in Ea; try discriminate.
    + apply andb_true_iff in Hf. destruct Hf as [_ Hl]. apply lits_eqb_eq in Hl.
      destruct (concat cands) as [|first rest]; [|destruct (find _ _); discriminate].
      simpl in Ea. inversion Ea. subst v. rewrite Hl. left. reflexivity.
    + destruct (cl_lits c) as [|a0 [|b0 [|z t]]]; discriminate.
    + apply andb_true_iff in Hf. destruct Hf as [_ Hl]. apply lits_eqb_eq in Hl.
      destruct (var_eqb p (VSol f)) eqn:Ev; simpl in Ea; [|discriminate]. inversion Ea. subst v. rewrite Hl. left. reflexivity.
    + apply andb_true_iff in Hf. destruct Hf as [_ Hl]. apply lits_eqb_eq in Hl.
      simpl in Ea. destruct (is_true_in (tr_lits st) (VSol o)); [|discriminate]. inversion Ea. subst v. rewrite Hl. left. reflexivity.
    + apply andb_true_iff in Hf. destruct Hf as [_ Hl]. apply lits_eqb_eq in Hl.
      simpl in Ea. inversion Ea. subst v. rewrite Hl. left. reflexivity.
Qed.

Lemma add_clause_enc (st : sst) confl c : s_enc (fst (add_clause (st, confl) c)) = s_enc st /\
  trail (fst (add_clause (st, confl) c)) = trail st.
Proof. unfold add_clause. cbn [fst s_enc s_ps]. split; [reflexivity|]. destruct (w_watch (create (tr_lits st) c)); reflexivity. Qed.

Lemma rinv_add_clauses idx : forall new st confl,
  RInv st -> Forall (fun c => factb U P idx c = true) new ->
  Forall (fun c => forall l, In l (cl_lits c) -> lit_ok (s_enc st) l) new ->
  RInv (fst (fold_left add_clause new (st, confl))).
Proof.
  induction new as [|c t IH]; intros st confl HR Hf Hl; cbn [fold_left]; [exact HR|].
  inversion Hf as [|? ? Hf1 Hf2]. inversion Hl as [|? ? Hl1 Hl2]. subst.
  pose proof (rinv_add_clause st confl c idx HR Hf1 Hl1) as H1.
  destruct (add_clause_enc st confl c) as [Ee _].
  destruct (add_clause (st, confl) c) as [st1 confl1]. cbn [fst] in *.
  apply IH; [exact H1 | exact Hf2|]. rewrite Ee. exact Hl2.
Qed.

(* the encoder moved on *)
Lemma rinv_absorb st enc1 :
  SInv U P A st -> RInv st -> EInv U P enc1 -> ext (s_enc st) enc1 -> Reg U (s_enc st) enc1 ->
  RInv (fst (absorb st enc1)).
Proof.
  intros HS [R1 R2 R3 R4] HE [x [Ex Fx]] [[new [En [_ Hm]]] HK]. unfold absorb.
  assert (Hnew : skipn (length (e_db (s_enc st))) (e_db enc1) = x).
  { rewrite Ex. rewrite skipn_app, skipn_all, Nat.sub_diag. reflexivity. }
  rewrite Hnew.
  apply (rinv_add_clauses (trk_idx (e_trk enc1))).
  - constructor; cbn [s_enc s_db s_ps s_asserts s_units].
    + apply HK. exact R1.
    + intros c Hc l Hl. apply (lit_ok_mono _ _ _ Hm). apply (R2 c Hc l Hl).
    + intros e He. apply (lit_ok_mono _ _ _ Hm). apply (R3 e He).
    + exact R4.
  - apply Forall_forall. intros c Hc. apply (einv_facts U P enc1 HE). rewrite Ex. apply in_or_app. right. exact Hc.
  - apply Forall_forall. intros c Hc l Hl. cbn [s_enc]. apply (enc_clause_lits enc1 c HE (HK R1)); [|exact Hl].
    rewrite Ex. apply in_or_app. right. exact Hc.
Qed.

(* ---------- no new clause is born falsified unless it is reported ---------- *)

Lemma trail_entry (tr : list tent) v b : pval (tl_lits tr) v = Some b -> exists e, In e tr /\ t_lit e = (v, b).
Proof.
  intro H. apply pval_In in H. unfold tl_lits in H. apply in_map_iff in H. destruct H as [e [E Hin]]. exists e. auto.
Qed.

(* an at-most-one clause that is fresh with respect to the encoder state the trail was built under *)
Lemma fresh_forbid_side (st : sst) c :
  RInv st -> fresh_wrt U (s_enc st) c -> forbid_side (tr_lits st) c = true.
Proof.
  intros HR Hfr. unfold forbid_side. destruct (ck c) as [| |n| | | |] eqn:Ek; try reflexivity.
  destruct (Hfr n Ek) as [x [k [b [El Hd]]]]. rewrite El.
  apply orb_true_iff. destruct Hd as [Hd|Hd].
  - left. apply negb_true_iff. unfold lit_false_in. cbn [fst snd negb].
    destruct (pval (tr_lits st) (VSol x)) as [[|]|] eqn:Ep; try reflexivity. exfalso. apply Hd.
    destruct (trail_entry _ _ _ Ep) as [e [He Hl]]. pose proof (r_tr _ HR e He) as Hok. rewrite Hl in Hok. exact Hok.
  - right. apply negb_true_iff. unfold lit_false_in. cbn [fst].
    destruct (pval (tr_lits st) (VHelp n k)) as [b0|] eqn:Ep; [|reflexivity]. exfalso.
    destruct (trail_entry _ _ _ Ep) as [e [He Hl]]. pose proof (r_tr _ HR e He) as Hok. rewrite Hl in Hok. simpl in Hok. lia.
Qed.

(* one clause: the ghost set grows only by a clause that is reported *)
Lemma add_clause_born (st : sst) confl c :
  forbid_side (tr_lits st) c = true ->
  forall id, In id (s_born (fst (add_clause (st, confl) c))) ->
    In id (s_born st) \/ In id (snd (add_clause (st, confl) c)).
Proof.
  intros Hfs id. unfold add_clause. cbn [fst snd s_born].
  destruct (w_watch (create (tr_lits st) c)) as [[w1 w2]|] eqn:Ew; [|intro H; left; exact H].
  cbn [fst snd]. destruct (plit_false (s_ps st) w1 && plit_false (s_ps st) w2) eqn:Eb; [|intro H; left; exact H].
  intros [E|H]; [|left; exact H]. subst id.
  destruct (w_conflict (create (tr_lits st) c)) eqn:Ec.
  - right. apply in_or_app. right. left. reflexivity.
  - exfalso. apply andb_true_iff in Eb. destruct Eb as [B1 B2].
    destruct (watch_created_ok (tr_lits st) c w1 w2 Ew Ec Hfs) as [G|G];
      [change (plit_false (s_ps st) w1 = false) in G; rewrite G in B1 | change (plit_false (s_ps st) w2 = false) in G; rewrite G in B2];
      discriminate.
Qed.

Lemma add_clause_confl (st : sst) confl c id : In id confl -> In id (snd (add_clause (st, confl) c)).
Proof.
  unfold add_clause. cbn [snd]. intro H. destruct (w_conflict (create (tr_lits st) c)); [apply in_or_app; left; exact H | exact H].
Qed.

Lemma add_clauses_born : forall new (st : sst) confl,
  Forall (fun c => forbid_side (tr_lits st) c = true) new ->
  forall id, In id (s_born (fst (fold_left add_clause new (st, confl)))) ->
    In id (s_born st) \/ In id (snd (fold_left add_clause new (st, confl))).
Proof.
  induction new as [|c t IH]; intros st confl Hf id; cbn [fold_left]; [intro H; left; exact H|].
  inversion Hf as [|? ? Hf1 Hf2]. subst.
  pose proof (add_clause_born st confl c Hf1 id) as H1.
  destruct (add_clause_enc st confl c) as [_ Etr].
  pose proof (fun i => add_clause_confl st confl c i) as Hc1.
  destruct (add_clause (st, confl) c) as [st1 confl1] eqn:E. cbn [fst snd] in *.
  assert (Hf2' : Forall (fun c0 => forbid_side (tr_lits st1) c0 = true) t).
  { unfold tr_lits in *. rewrite Etr. exact Hf2. }
  intro Hin. destruct (IH st1 confl1 Hf2' id Hin) as [G|G]; [|right; exact G].
  destruct (H1 G) as [G1|G1]; [left; exact G1|]. right.
  (* what is reported stays reported *)
  clear - G1. revert st1 confl1 G1. induction t as [|c0 t0 IHt]; intros st1 confl1 G1; cbn [fold_left]; [exact G1|].
  pose proof (add_clause_confl st1 confl1 c0 id G1) as G2. destruct (add_clause (st1, confl1) c0) as [st2 confl2]. apply IHt. exact G2.
Qed.

(* the encoder's new clauses enter the database: whatever joins the ghost set is reported *)
Lemma absorb_born st enc1 :
  SInv U P A st -> RInv st -> ext (s_enc st) enc1 -> Reg U (s_enc st) enc1 ->
  forall id, In id (s_born (fst (absorb st enc1))) -> In id (s_born st) \/ In id (snd (absorb st enc1)).
Proof.
  intros HS HR [x [Ex Fx]] [[new [En [Hfresh _]]] _]. unfold absorb. cbv zeta.
  assert (Hnew : skipn (length (e_db (s_enc st))) (e_db enc1) = new).
  { rewrite En. rewrite skipn_app, skipn_all, Nat.sub_diag. reflexivity. }
  rewrite Hnew. clear Hnew.
  intros id Hin.
  match type of Hin with In id (s_born (fst (fold_left add_clause new (?X, [])))) =>
    assert (Hf : Forall (fun c => forbid_side (tr_lits X) c = true) new);
    [| destruct (add_clauses_born new X [] Hf id Hin) as [G|G]; [left; exact G | right; exact G]]
  end.
  apply Forall_forall. intros c Hc. rewrite Forall_forall in Hfresh.
  apply (fresh_forbid_side st c HR (Hfresh c Hc)).
Qed.

(* ---------- the encoder as the solver drives it ---------- *)

Lemma reg_enc_fifo : forall fuel falses enc work enc', enc_fifo U P fuel falses enc work = Some enc' -> Reg U enc enc'.
Proof.
  induction fuel as [|f IH]; intros falses enc work enc' H; destruct work as [|k rest]; cbn [enc_fifo] in H; try discriminate.
  - inversion H. subst. apply reg_refl.
  - inversion H. subst. apply reg_refl.
  - destruct (run_one U P falses enc k) as [enc1 w1] eqn:E1.
    eapply reg_trans; [apply (reg_run_one U P _ _ _ _ _ E1) | apply (IH _ _ _ _ H)].
Qed.

Lemma reg_enc_ordered falses : forall order enc work enc' order',
  enc_ordered U P falses enc work order = Some (enc', order') -> Reg U enc enc'.
Proof.
  induction order as [|k order IH]; intros enc work enc' order' H; destruct work as [|t0 rest]; cbn [enc_ordered] in H; try discriminate.
  - inversion H. subst. apply reg_refl.
  - inversion H. subst. apply reg_refl.
  - destruct (remove_task k (t0 :: rest)) as [work'|]; [|discriminate].
    destruct (run_one U P falses enc k) as [enc1 w1] eqn:E1.
    eapply reg_trans; [apply (reg_run_one U P _ _ _ _ _ E1) | apply (IH _ _ _ _ H)].
Qed.

Lemma add_clauses_enc : forall new (st : sst) confl, s_enc (fst (fold_left add_clause new (st, confl))) = s_enc st.
Proof.
  induction new as [|c t IH]; intros st confl; cbn [fold_left]; [reflexivity|].
  destruct (add_clause_enc st confl c) as [E _]. destruct (add_clause (st, confl) c) as [st1 c1]. cbn [fst] in E.
  rewrite IH. exact E.
Qed.

Lemma absorb_enc (st : sst) enc1 : s_enc (fst (absorb st enc1)) = enc1.
Proof. unfold absorb. cbv zeta. rewrite add_clauses_enc. reflexivity. Qed.

Lemma reg_mono a b : Reg U a b -> mono U a b.
Proof. intros [[new [_ [_ M]]] _]. exact M. Qed.

Lemma rinv_encode fuel st sos st' confl :
  SInv U P A st -> RInv st -> encode U P fuel st sos = Some (st', confl) ->
  RInv st' /\ mono U (s_enc st) (s_enc st') /\
  (forall id, In id (s_born st') -> In id (s_born st) \/ In id confl).
Proof.
  intros HS HR H. unfold encode in H.
  destruct (queue_solvables (s_enc st) sos) as [enc1 w] eqn:Eq.
  pose proof (einv_queue_solvables U P sos _ _ _ (si_enc _ _ _ _ _ HS) Eq) as HE1.
  pose proof (queue_solvables_tasks U P sos _ _ _ Eq) as Hw.
  pose proof (ext_queue_solvables sos _ _ _ Eq) as Hx1.
  pose proof (reg_queue_solvables U sos _ _ _ Eq) as Hr1.
  destruct (s_order st) as [order|].
  - destruct (enc_ordered U P (falses_of (tr_lits st)) enc1 w order) as [[enc2 order']|] eqn:Eo; [|discriminate].
    destruct (enc_ordered_inv U P HW _ _ _ _ _ _ HE1 Hw Eo) as [HE2 Hx2].
    pose proof (reg_trans U _ _ _ Hr1 (reg_enc_ordered _ _ _ _ _ _ Eo)) as Hr2.
    pose proof (rinv_absorb st enc2 HS HR HE2 (ext_trans _ _ _ Hx1 Hx2) Hr2) as HA.
    pose proof (absorb_born st enc2 HS HR (ext_trans _ _ _ Hx1 Hx2) Hr2) as HB.
    pose proof (absorb_enc st enc2) as Henc.
    assert (Hm : mono U (s_enc st) (s_enc (fst (absorb st enc2)))) by (rewrite Henc; apply (reg_mono _ _ Hr2)).
    destruct (absorb st enc2) as [st1 confl1]. inversion H. subst. cbn [fst snd] in *.
    split; [apply (rinv_eq st1); auto|]. cbn [s_enc s_born]. split; [exact Hm | exact HB].
  - destruct (enc_fifo U P fuel (falses_of (tr_lits st)) enc1 w) as [enc2|] eqn:Ef; [|discriminate].
    destruct (enc_fifo_inv U P HW _ _ _ _ _ HE1 Hw Ef) as [HE2 Hx2].
    pose proof (reg_trans U _ _ _ Hr1 (reg_enc_fifo _ _ _ _ _ Ef)) as Hr2.
    pose proof (rinv_absorb st enc2 HS HR HE2 (ext_trans _ _ _ Hx1 Hx2) Hr2) as HA.
    pose proof (absorb_born st enc2 HS HR (ext_trans _ _ _ Hx1 Hx2) Hr2) as HB.
    pose proof (absorb_enc st enc2) as Henc.
    assert (Hm : mono U (s_enc st) (s_enc (fst (absorb st enc2)))) by (rewrite Henc; apply (reg_mono _ _ Hr2)).
    inversion H as [H1]. rewrite H1 in HA, HB, Hm. cbn [fst snd] in *.
    split; [exact HA|]. split; [exact Hm | exact HB].
Qed.

(* ---------- propagate ---------- *)

Lemma rinv_propagate st level st' r :
  SInv U P A st -> RInv st -> s_propagate st level = Some (st', r) ->
  RInv st' /\ s_enc st' = s_enc st /\ s_born st' = s_born st.
Proof.
  intros HS HR H. unfold s_propagate in H.
  destruct (propagate (s_db st) level (s_asserts st) (s_units st) (s_ps st)) as [[ps1 conf]|] eqn:Ep; [|discriminate].
  pose proof (propagate_lits (s_db st) level _ _ _ _ _ (winv_wlits _ _ _ (si_winv _ _ _ _ _ HS)) (r_as _ HR) Ep) as [new [En Hnew]].
  inversion H. subst st' r. clear H. split; [|split; reflexivity].
  destruct HR as [R1 R2 R3 R4]. constructor; cbn [with_ps s_enc s_db s_ps s_asserts s_units]; try assumption.
  intros e He. rewrite En in He. apply in_app_or in He. destruct He as [He|He]; [|apply R3; exact He].
  rewrite Forall_forall in Hnew. destruct (Hnew e He) as [c [Hc Hl]]. apply (R2 c (nth_error_In _ _ Hc) _ Hl).
Qed.

(* ---------- the ghost fields through the trail operations ---------- *)

Lemma ghost_assign (st : sst) l level reason st' :
  s_assign st l level reason = Some st' -> s_enc st' = s_enc st /\ s_born st' = s_born st.
Proof. intro H. destruct (s_assign_cases _ _ _ _ _ _ H) as [[E _]|[_ E]]; subst st'; split; reflexivity. Qed.

Lemma ghost_pop_above fuel lv : forall (st : sst),
  s_enc (s_pop_above fuel lv st) = s_enc st /\ s_born (s_pop_above fuel lv st) = s_born st.
Proof.
  induction fuel as [|f IH]; intro st; simpl; [split; reflexivity|].
  destruct (ps_trail (s_ps st)) as [|e t]; [split; reflexivity|]. destruct (N.leb (t_level e) lv); [split; reflexivity|].
  destruct (IH (s_undo_last st)) as [I1 I2]. rewrite I1, I2. split; reflexivity.
Qed.

Lemma ghost_undo_until (st : sst) lv :
  s_enc (s_undo_until st lv) = s_enc st /\ s_born (s_undo_until st lv) = if N.eqb lv 0 then [] else s_born st.
Proof.
  unfold s_undo_until. destruct (N.eqb lv 0); [split; reflexivity|].
  match goal with |- context [s_pop_above ?F lv ?X] => destruct (ghost_pop_above F lv X) as [I1 I2] end.
  rewrite I1, I2. split; reflexivity.
Qed.

Lemma ghost_pops n : forall (st : sst), s_enc (s_pops n st) = s_enc st /\ s_born (s_pops n st) = s_born st.
Proof.
  induction n as [|n IH]; intro st; simpl; [split; reflexivity|].
  destruct (IH (s_undo_last st)) as [I1 I2]. rewrite I1, I2. split; reflexivity.
Qed.

(* ---------- learning ---------- *)

Lemma rinv_learn st conf st' lv :
  SInv U P A st -> LInv A st -> RInv st ->
  (exists c, nth_error (s_db st) (N.to_nat conf) = Some c /\ falsified (trail st) (cl_lits c) = true) ->
  learn U a_conflict st conf = Some (st', lv) ->
  RInv st' /\ s_enc st' = s_enc st /\ s_born st' = s_born st.
Proof.
  intros HS HL HR [c0 [Hc0 Hf0]] H. unfold learn in H.
  destruct (analyze (s_db st) (trail st) conf) as [r|] eqn:Han; [|discriminate]. cbv zeta in H.
  pose proof (si_nodup _ _ _ _ _ HS) as Hn. change (tnd (trail st)) in Hn.
  destruct (analyze_ok (s_db st) (trail st) conf r Han Hn (li_sorted _ _ HL) (li_just _ _ HL)) as [Hok Hfacts].
  { intros c Hc. rewrite Hc0 in Hc. inversion Hc. subst c. exact Hf0. }
  destruct Hfacts as [_ [_ [pre [e [la [Etr [Elits [Epops [Hla Huip]]]]]]]]].
  set (last := (tvar e, negb (snd (t_lit e)))) in *.
  destruct (pops_spec A (r_pops r) st) as [Hst1 Etr1]. destruct (ghost_pops (r_pops r) st) as [Ge1 Gb1].
  pose proof (rinv_pops (r_pops r) st HR) as HR1.
  set (st1 := s_pops (r_pops r) st) in *.
  rewrite Epops, Etr in Etr1. cbn [plus] in Etr1. rewrite skipn_app_cons in Etr1.
  destruct Hst1 as [D1 [D2 [D3 D4]]].
  assert (Hn_e : tnd (e :: r_rest r)) by (apply (tnd_app_r pre); rewrite <- Etr; exact Hn).
  assert (Hlast_none : plit_false (s_ps st1) last = false).
  { unfold plit_false, pvalue. rewrite Etr1. cbn [fst last]. rewrite (tnd_head _ _ Hn_e). reflexivity. }
  (* every literal of the learnt clause is a literal of an older clause *)
  assert (Hlits : forall l, In l (r_learnt r) -> lit_ok (s_enc st1) l).
  { intros l Hl. destruct (analyze_lits (s_db st) (trail st) conf r Han Hok Hn l Hl) as [j [c [_ [Hc Hin]]]].
    rewrite Ge1. apply (r_cl _ HR c (nth_error_In _ _ Hc) l Hin). }
  assert (Hrev : rev (r_learnt r) = last :: rev la) by (rewrite Elits, rev_app_distr; reflexivity).
  assert (Hlast_in : In last (r_learnt r)) by (rewrite Elits; apply in_or_app; right; left; reflexivity).
  set (lc := mkCl (KLearnt (r_why r)) (r_learnt r)) in *.
  (* the state with the learnt clause *)
  assert (HR2 : forall ps2 units2 act2 ok2 born2,
            ps_trail ps2 = trail st1 ->
            (units2 = s_units st1 \/ exists l, r_learnt r = [l] /\ units2 = s_units st1 ++ [(l, N.of_nat (length (s_db st1)))]) ->
            RInv (mkS (s_enc st1) (s_db st1 ++ [lc]) ps2 (s_asserts st1) units2 act2 (s_start st1) (s_log st1) (s_order st1) ok2 born2)).
  { intros ps2 units2 act2 ok2 born2 Ept Hun. destruct HR1 as [R1 R2 R3 R4].
    constructor; cbn [s_enc s_db s_ps s_asserts s_units]; [exact R1 | | rewrite Ept; exact R3 |].
    - intros c Hc l Hl. apply in_app_or in Hc. destruct Hc as [Hc|[Hc|[]]]; [apply (R2 c Hc l Hl)|]. subst c. apply Hlits. exact Hl.
    - intros x Hx.
      assert (Hold : forall y, In y (s_asserts st1 ++ s_units st1) -> assert_in (s_db st1 ++ [lc]) y)
        by (intros y Hy; apply assert_in_mono; apply R4; exact Hy).
      destruct Hun as [Eu|[l [El Eu]]]; subst units2; [apply Hold; exact Hx|].
      apply in_app_or in Hx. destruct Hx as [Hx|Hx]; [apply Hold; apply in_or_app; left; exact Hx|].
      apply in_app_or in Hx. destruct Hx as [Hx|[Hx|[]]]; [apply Hold; apply in_or_app; right; exact Hx|].
      subst x. exists lc. cbn [fst snd]. split; [apply nth_error_snoc|]. cbn [lc cl_lits]. rewrite El. left. reflexivity. }
  destruct (r_learnt r) as [|f [|g t]] eqn:El.
  - simpl in H. discriminate.
  - simpl in H.
    match type of H with
    | context [s_undo_until ?X ?T] =>
        assert (H2 : RInv X) by (apply HR2; [reflexivity | right; exists f; split; reflexivity]);
        pose proof (rinv_undo_until X T H2) as H3; destruct (ghost_undo_until X T) as [Ge3 Gb3]
    end.
    match type of H with
    | context [s_assign ?X ?L ?T ?I] => destruct (s_assign X L T I) as [st4|] eqn:Ea; [|discriminate]
    end.
    inversion H. subst st' lv. destruct (ghost_assign _ _ _ _ _ Ea) as [Ge4 Gb4].
    assert (Ez : N.eqb (target_level (r_btl r) (s_start st)) 0 = false) by (apply N.eqb_neq; unfold target_level; lia).
    rewrite Ez in Gb3. cbn [s_enc s_born] in Ge3, Gb3.
    split; [|split; [rewrite Ge4, Ge3; exact Ge1 | rewrite Gb4, Gb3; exact Gb1]].
    eapply rinv_assign; [exact H3 | | exact Ea]. rewrite Ge3. cbn [s_enc]. apply Hlits. left. reflexivity.
  - rewrite Hrev in H. cbn [negb] in H.
    destruct (lit_eqb f last) eqn:Efl; cbn [negb] in H; [discriminate|].
    rewrite Hlast_none, Bool.andb_false_r in H.
    match type of H with
    | context [s_undo_until ?X ?T] =>
        assert (H2 : RInv X) by (apply HR2; [reflexivity | left; reflexivity]);
        pose proof (rinv_undo_until X T H2) as H3; destruct (ghost_undo_until X T) as [Ge3 Gb3]
    end.
    match type of H with
    | context [s_assign ?X ?L ?T ?I] => destruct (s_assign X L T I) as [st4|] eqn:Ea; [|discriminate]
    end.
    inversion H. subst st' lv. destruct (ghost_assign _ _ _ _ _ Ea) as [Ge4 Gb4].
    assert (Ez : N.eqb (target_level (r_btl r) (s_start st)) 0 = false) by (apply N.eqb_neq; unfold target_level; lia).
    rewrite Ez in Gb3. cbn [s_enc s_born] in Ge3, Gb3.
    split; [|split; [rewrite Ge4, Ge3; exact Ge1 | rewrite Gb4, Gb3; exact Gb1]].
    eapply rinv_assign; [exact H3 | | exact Ea]. rewrite Ge3. cbn [s_enc]. apply Hlits. exact Hlast_in.
Qed.

(* ---------- clauses created while only the root is on the trail are never born falsified ---------- *)

Lemma plit_false_root (ps : pstate) l : ps_trail ps = [root_entry] -> plit_false ps l = true -> l = (VRoot, false).
Proof.
  intros Et H. apply plit_false_spec in H. unfold pvalue in H. rewrite Et in H. unfold tl_lits in H. simpl in H.
  destruct l as [v b]. cbn [fst snd] in H. destruct v; simpl in H; try discriminate. inversion H. destruct b; [discriminate | reflexivity].
Qed.

Lemma add_clause_born_root (st : sst) confl c idx :
  factb U P idx c = true -> trail st = [root_entry] -> s_born (fst (add_clause (st, confl) c)) = s_born st.
Proof.
  intros Hf Et. unfold add_clause. cbn [fst s_born].
  destruct (w_watch (create (tr_lits st) c)) as [[w1 w2]|] eqn:Ew; [|reflexivity]. cbn [fst snd].
  destruct (plit_false (s_ps st) w1 && plit_false (s_ps st) w2) eqn:Eb; [|reflexivity]. exfalso.
  apply andb_true_iff in Eb. destruct Eb as [B1 B2].
  apply (plit_false_root _ _ Et) in B1. apply (plit_false_root _ _ Et) in B2.
  destruct (create_watch_ok U P (s_db st) idx (tr_lits st) c (w1, w2) Hf Ew) as [c' [_ [_ [_ [Hne _]]]]].
  apply Hne. cbn [fst snd]. congruence.
Qed.

Lemma add_clauses_born_root idx : forall new (st : sst) confl,
  Forall (fun c => factb U P idx c = true) new -> trail st = [root_entry] ->
  s_born (fst (fold_left add_clause new (st, confl))) = s_born st.
Proof.
  induction new as [|c t IH]; intros st confl Hf Et; cbn [fold_left]; [reflexivity|].
  inversion Hf as [|? ? Hf1 Hf2]. subst.
  pose proof (add_clause_born_root st confl c idx Hf1 Et) as H1.
  destruct (add_clause_enc st confl c) as [_ Etr].
  destruct (add_clause (st, confl) c) as [st1 confl1]. cbn [fst] in *.
  rewrite (IH st1 confl1 Hf2); [exact H1 | rewrite Etr; exact Et].
Qed.

Lemma encode_born_root fuel st sos st' confl :
  SInv U P A st -> trail st = [root_entry] -> encode U P fuel st sos = Some (st', confl) -> s_born st' = s_born st.
Proof.
  intros HS Et H. unfold encode in H.
  destruct (queue_solvables (s_enc st) sos) as [enc1 w] eqn:Eq.
  pose proof (einv_queue_solvables U P sos _ _ _ (si_enc _ _ _ _ _ HS) Eq) as HE1.
  pose proof (queue_solvables_tasks U P sos _ _ _ Eq) as Hw.
  pose proof (ext_queue_solvables sos _ _ _ Eq) as Hx1.
  assert (G : forall enc2, EInv U P enc2 -> ext (s_enc st) enc2 -> s_born (fst (absorb st enc2)) = s_born st).
  { intros enc2 HE2 [x [Ex Fx]]. unfold absorb. cbv zeta.
    assert (Hnew : skipn (length (e_db (s_enc st))) (e_db enc2) = x).
    { rewrite Ex. rewrite skipn_app, skipn_all, Nat.sub_diag. reflexivity. }
    rewrite Hnew. rewrite (add_clauses_born_root (trk_idx (e_trk enc2))); [reflexivity | | exact Et].
    apply Forall_forall. intros c Hc. apply (einv_facts U P enc2 HE2). rewrite Ex. apply in_or_app. right. exact Hc. }
  destruct (s_order st) as [order|].
  - destruct (enc_ordered U P (falses_of (tr_lits st)) enc1 w order) as [[enc2 order']|] eqn:Eo; [|discriminate].
    destruct (enc_ordered_inv U P HW _ _ _ _ _ _ HE1 Hw Eo) as [HE2 Hx2].
    pose proof (G enc2 HE2 (ext_trans _ _ _ Hx1 Hx2)) as HB.
    destruct (absorb st enc2) as [st1 confl1]. inversion H. subst. exact HB.
  - destruct (enc_fifo U P fuel (falses_of (tr_lits st)) enc1 w) as [enc2|] eqn:Ef; [|discriminate].
    destruct (enc_fifo_inv U P HW _ _ _ _ _ HE1 Hw Ef) as [HE2 Hx2].
    pose proof (G enc2 HE2 (ext_trans _ _ _ Hx1 Hx2)) as HB. inversion H as [H1]. rewrite H1 in HB. exact HB.
Qed.

(* ---------- the loops ---------- *)

Definition G (st : sst) : Prop := SInv U P A st /\ LInv A st /\ Rooted (trail st) /\ RInv st.

Definition step_g (enc0 : estate) (b : list N) (r : step_res A) : Prop :=
  match r with
  | RLevel st lv => G st /\ (top_lv st <= lv)%N /\ (1 <= lv)%N /\ s_born st = b /\ s_enc st = enc0
  | _ => True
  end.

Lemma g_prop_learn : forall fuel st level,
  G st -> top_lv st = level -> step_g (s_enc st) (s_born st) (prop_learn U a_conflict fuel st level).
Proof.
  induction fuel as [|f IH]; intros st level [HS [HL [Hr HR]]] Htop; cbn [prop_learn]; [exact I|].
  destruct (s_propagate st level) as [[st1 conf]|] eqn:Ep; [|exact I].
  assert (Hle : (top_lv st <= level)%N) by lia.
  destruct (linv_propagate U P A st level st1 conf HS HL Hr Hle Ep) as [HL1 [Hr1 [Ht1 [Hlg Hc]]]].
  pose proof (sinv_propagate U P A _ _ _ _ HS Ep) as HS1.
  destruct (rinv_propagate _ _ _ _ HS HR Ep) as [HR1 [Ee1 Eb1]].
  assert (Htop1 : top_lv st1 = level) by (rewrite top_lv_level; apply (lgrows_top _ _ _ Hlg); exact Htop).
  pose proof (rooted_top _ Hr1 (li_sorted _ _ HL1)) as H1.
  destruct conf as [conf|].
  - specialize (Hc conf eq_refl). destruct (N.eqb level 1) eqn:E1.
    + destruct (unsolvable (s_db st1) (trail st1) conf) as [[core ok]|]; exact I.
    + apply N.eqb_neq in E1.
      destruct (learn U a_conflict st1 conf) as [[st2 lv]|] eqn:El; [|exact I].
      assert (H2 : (2 <= top_lv st1)%N) by (rewrite top_lv_level in *; lia).
      destruct (linv_learn U P A a_conflict st1 conf st2 lv HS1 HL1 Hr1 H2 Hc El) as [HL2 [Hr2 Ht2]].
      destruct (rinv_learn st1 conf st2 lv HS1 HL1 HR1 Hc El) as [HR2 [Ee2 Eb2]].
      pose proof (sinv_learn U P A a_conflict _ _ _ _ HS1 El) as HS2.
      rewrite <- Ee1, <- Eb1, <- Ee2, <- Eb2. apply IH; [exact (conj HS2 (conj HL2 (conj Hr2 HR2))) | exact Ht2].
  - cbn [step_g]. rewrite top_lv_level in *. split; [exact (conj HS1 (conj HL1 (conj Hr1 HR1)))|].
    split; [lia|]. split; [lia|]. split; assumption.
Qed.

Lemma g_resolve : forall fuel st level,
  G st -> (top_lv st <= level)%N -> step_g (s_enc st) (s_born st) (resolve U a_ge a_conflict fuel st level).
Proof.
  induction fuel as [|f IH]; intros st level [HS [HL [Hr HR]]] Htop; cbn [resolve]; [exact I|].
  pose proof (rooted_top _ Hr (li_sorted _ _ HL)) as H1.
  destruct (decide U (a_ge (s_act st)) (s_db st) (tr_lits st)) as [[d|]|] eqn:Ed; [| | exact I].
  2:{ cbn [step_g]. rewrite top_lv_level in *. split; [exact (conj HS (conj HL (conj Hr HR)))|].
      split; [lia|]. split; [lia|]. split; reflexivity. }
  pose proof (decide_undecided U (a_ge (s_act st)) (tr_lits st) (s_db st) (sinv_req_wf U P A st HS) d Ed) as Hun.
  destruct (decide_lit_in U (a_ge (s_act st)) (tr_lits st) (s_db st) (sinv_req_wf U P A st HS) d Ed) as [c [Hc Hin]].
  destruct (s_assign st (VSol (pd_cand d), true) (N.succ level) (pd_clause d)) as [st1|] eqn:Ea; [|exact I].
  assert (Hlt : (top_lv st < N.succ level)%N) by lia.
  destruct (linv_assign_dec A _ _ _ _ _ HL Hlt Ea) as [HL1 [_ Hr1]].
  pose proof (sinv_assign U P A _ _ _ _ _ _ HS Ea) as HS1.
  pose proof (rinv_assign _ _ _ _ _ HR (r_cl _ HR c (nth_error_In _ _ Hc) _ Hin) Ea) as HR1.
  destruct (ghost_assign _ _ _ _ _ Ea) as [Ee1 Eb1].
  assert (Htop1 : top_lv st1 = N.succ level).
  { destruct (s_assign_cases _ _ _ _ _ _ Ea) as [[_ E]|[_ E]].
    - cbn [fst] in E. unfold pvalue in E. unfold tr_lits in Hun. rewrite Hun in E. discriminate.
    - subst st1. reflexivity. }
  pose proof (g_prop_learn f st1 (N.succ level) (conj HS1 (conj HL1 (conj (Hr1 Hr) HR1))) Htop1) as H2.
  destruct (prop_learn U a_conflict f st1 (N.succ level)) as [st2 lv|st2 core| |]; try exact I.
  destruct H2 as [HG2 [Ht2 [_ [Eb2 Ee2]]]].
  rewrite <- Ee1, <- Eb1, <- Ee2, <- Eb2. apply IH; assumption.
Qed.

Definition so_reg (enc : estate) (so : option N) : Prop :=
  match so with Some s => registered U enc s | None => True end.

Definition run_g (start : N) (r : run_res A) : Prop :=
  match r with
  | ROk st _ => G st /\ (start = 0%N -> s_born st = [])
  | _ => True
  end.

Lemma g_reject st so start conf :
  G st ->
  (start = 0%N -> (top_lv st <= 1)%N /\
     exists c, nth_error (s_db st) (N.to_nat conf) = Some c /\ falsified (trail st) (cl_lits c) = true) ->
  run_g start (reject st so start conf).
Proof.
  intros [HS [HL [Hr HR]]] H0.
  pose proof (linv_reject U P A st so start conf HS HL Hr H0) as HLr.
  pose proof (sinv_reject U P A st so start conf HS) as HSr.
  unfold reject in *. destruct (N.eqb start 0) eqn:E0.
  - destruct (unsolvable (s_db st) (trail st) conf) as [[core ok]|]; exact I.
  - apply N.eqb_neq in E0.
    destruct (s_assign (s_undo_until st start) (so_var so, false) (N.succ start) 0) as [st2|] eqn:Ea; [|exact I].
    cbn [run_g]. destruct HLr as [HL2 Hr2]. split; [|intro E; contradiction].
    split; [exact HSr|]. split; [exact HL2|]. split; [exact Hr2|].
    eapply rinv_assign; [apply rinv_undo_until; exact HR | | exact Ea]. destruct so; exact I.
Qed.

Lemma so_reg_mono a b so : mono U a b -> so_reg a so -> so_reg b so.
Proof. intros [M _] H. destruct so as [s|]; [apply M; exact H | exact I]. Qed.

Lemma g_run_loop efuel so start : forall fuel st level,
  SInv U P A st -> LInv A st -> RInv st -> (top_lv st <= level)%N -> run_pre A st so start level ->
  so_reg (s_enc st) so -> (start = 0%N -> s_born st = []) ->
  run_g start (run_loop U P a_ge a_conflict fuel efuel st so start level).
Proof.
  induction fuel as [|f IH]; intros st level HS HL HR Htop Hpre Hso Hb; cbn [run_loop]; [exact I|].
  set (first := if N.eqb level start then
                  match s_assign st (so_var so, true) (N.succ start) 0 with
                  | None => None
                  | Some st1 => match encode U P efuel st1 [so] with
                                | None => None
                                | Some (st2, confl) => Some (st2, N.succ start, find (clause_falsified st2) confl)
                                end
                  end
                else Some (st, level, None)).
  assert (Hfirst : match first with
                   | Some (st2, level2, conf) =>
                       G st2 /\ (top_lv st2 <= level2)%N /\ (start = 0%N -> (1 <= level2)%N) /\
                       so_reg (s_enc st2) so /\ (start = 0%N -> s_born st2 = []) /\
                       (forall id, conf = Some id ->
                          (start = 0%N -> (top_lv st2 <= 1)%N) /\
                          exists c, nth_error (s_db st2) (N.to_nat id) = Some c /\ falsified (trail st2) (cl_lits c) = true)
                   | None => True end).
  { unfold first. destruct (N.eqb level start) eqn:El.
    2:{ apply N.eqb_neq in El.
        assert (Hr : Rooted (trail st) /\ (start = 0%N -> level <> 0%N)).
        { destruct Hpre as [[_ Hr]|[E0 [_ [[Hr Hne]|[E _]]]]]; [split; [exact Hr | lia] | split; [exact Hr | auto] | lia]. }
        destruct Hr as [Hr Hne]. split; [exact (conj HS (conj HL (conj Hr HR)))|]. split; [exact Htop|]. split; [intro E0; specialize (Hne E0); lia|].
        split; [exact Hso|]. split; [exact Hb|]. intros id E. discriminate E. }
    apply N.eqb_eq in El. subst level.
    destruct (s_assign st (so_var so, true) (N.succ start) 0) as [st1|] eqn:Ea; [|exact I].
    pose proof (sinv_assign U P A _ _ _ _ _ _ HS Ea) as HS1.
    assert (Hlt : (top_lv st < N.succ start)%N) by lia.
    destruct (linv_assign_dec A _ _ _ _ _ HL Hlt Ea) as [HL1 [Ht1 Hr1]].
    assert (Hlok : lit_ok (s_enc st) (so_var so, true)) by (destruct so as [s|]; [exact Hso | exact I]).
    pose proof (rinv_assign _ _ _ _ _ HR Hlok Ea) as HR1.
    destruct (ghost_assign _ _ _ _ _ Ea) as [Ee1 Eb1].
    assert (Hroot1 : Rooted (trail st1) /\ (start = 0%N -> trail st1 = [root_entry])).
    { destruct Hpre as [[H1 Hr]|[E0 [Eso [[Hr Hne]|[_ Ee]]]]].
      - split; [apply Hr1; exact Hr | lia].
      - exfalso. apply Hne. exact E0.
      - subst so start. destruct (s_assign_cases _ _ _ _ _ _ Ea) as [[_ E]|[_ E]].
        + unfold pvalue in E. rewrite Ee in E. discriminate.
        + subst st1. cbn [with_ps s_ps push_entry ps_trail so_var]. rewrite Ee. split; [exists []; reflexivity | reflexivity]. }
    destruct Hroot1 as [Hroot1 Hsingle].
    destruct (encode U P efuel st1 [so]) as [[st2 confl]|] eqn:Ee; [|exact I].
    destruct (linv_encode U P HW A _ _ _ _ _ HS1 HL1 Ee) as [HL2 Etr2].
    destruct (rinv_encode _ _ _ _ _ HS1 HR1 Ee) as [HR2 [Hm2 _]].
    pose proof (sinv_encode U P HW A _ _ _ _ _ HS1 Ee) as HS2.
    split; [split; [exact HS2|]; split; [exact HL2|]; split; [rewrite Etr2; exact Hroot1 | exact HR2]|].
    split; [rewrite top_lv_level, Etr2, <- top_lv_level; exact Ht1|]. split; [lia|].
    split; [apply (so_reg_mono _ _ _ Hm2); rewrite Ee1; exact Hso|].
    split; [intro E0; rewrite (encode_born_root _ _ _ _ _ HS1 (Hsingle E0) Ee), Eb1; apply Hb; exact E0|].
    intros id Hid. apply find_some in Hid. destruct Hid as [_ Hid]. split.
    - intro E0. rewrite top_lv_level, Etr2, (Hsingle E0). simpl. lia.
    - apply clause_falsified_spec. exact Hid. }
  destruct first as [[[st2 level2] [conf|]]|]; [| |exact I].
  - destruct Hfirst as [HG2 [Ht2 [_ [_ [_ Hc]]]]]. destruct (Hc conf eq_refl) as [Hc1 Hc2].
    apply (g_reject st2 so start conf HG2). intro E0. split; [apply Hc1; exact E0 | exact Hc2].
  - destruct Hfirst as [[HS2 [HL2 [Hr2 HR2]]] [Ht2 [Hl2 [Hso2 [Hb2 _]]]]].
    assert (Hpre2 : forall st' lv, Rooted (trail st') -> (1 <= lv)%N -> run_pre A st' so start lv).
    { intros st' lv Hr' Hlv. destruct Hpre as [[H1 _]|[E0 [Eso _]]].
      - left. split; assumption.
      - right. split; [exact E0|]. split; [exact Eso|]. left. split; [exact Hr' | lia]. }
    destruct (s_propagate st2 level2) as [[st3 conf]|] eqn:Ep; [|exact I].
    destruct (linv_propagate U P A st2 level2 st3 conf HS2 HL2 Hr2 Ht2 Ep) as [HL3 [Hr3 [Ht3 [_ Hc3]]]].
    pose proof (sinv_propagate U P A _ _ _ _ HS2 Ep) as HS3.
    destruct (rinv_propagate _ _ _ _ HS2 HR2 Ep) as [HR3 [Ee3 Eb3]].
    pose proof (rooted_top _ Hr3 (li_sorted _ _ HL3)) as H13. rewrite <- top_lv_level in H13.
    assert (Hso3 : so_reg (s_enc st3) so) by (rewrite Ee3; exact Hso2).
    assert (Hb3 : start = 0%N -> s_born st3 = []) by (intro E0; rewrite Eb3; apply Hb2; exact E0).
    destruct conf as [conf|].
    + destruct (N.eqb level2 (N.succ start)) eqn:E2.
      * apply N.eqb_eq in E2. apply (g_reject st3 so start conf (conj HS3 (conj HL3 (conj Hr3 HR3)))).
        intro E0. split; [lia | apply Hc3; reflexivity].
      * destruct (run_pre_restart U P A st3 so start level2 (Hpre2 st3 level2 Hr3 ltac:(lia)) HS3 HL3) as [HLr [Htr Hpr]].
        destruct (ghost_undo_until st3 start) as [Ger Gbr].
        apply IH; [apply (sinv_undo_until U P A); exact HS3 | exact HLr | apply rinv_undo_until; exact HR3 | exact Htr | exact Hpr | rewrite Ger; exact Hso3|].
        intro E0. rewrite Gbr. subst start. reflexivity.
    + pose proof (g_resolve f st3 level2 (conj HS3 (conj HL3 (conj Hr3 HR3))) Ht3) as H4.
      destruct (resolve U a_ge a_conflict f st3 level2) as [st4 level4|st4 core| |]; try exact I.
      cbn [step_g] in H4. destruct H4 as [[HS4 [HL4 [Hr4 HR4]]] [Ht4 [H14 [Eb4 Ee4]]]].
      assert (Hso4 : so_reg (s_enc st4) so) by (rewrite Ee4; exact Hso3).
      assert (Hb4 : start = 0%N -> s_born st4 = []) by (intro E0; rewrite Eb4; apply Hb3; exact E0).
      destruct (new_solvables st4) as [|s0 sos]; [split; [exact (conj HS4 (conj HL4 (conj Hr4 HR4))) | exact Hb4]|].
      destruct (encode U P efuel st4 (s0 :: sos)) as [[st5 confl]|] eqn:Ee; [|exact I].
      destruct (linv_encode U P HW A _ _ _ _ _ HS4 HL4 Ee) as [HL5 Etr5].
      pose proof (sinv_encode U P HW A _ _ _ _ _ HS4 Ee) as HS5.
      destruct (rinv_encode _ _ _ _ _ HS4 HR4 Ee) as [HR5 [Hm5 Hborn5]].
      assert (Hr5 : Rooted (trail st5)) by (rewrite Etr5; exact Hr4).
      assert (Ht5 : (top_lv st5 <= level4)%N) by (rewrite top_lv_level, Etr5, <- top_lv_level; exact Ht4).
      assert (Hso5 : so_reg (s_enc st5) so) by (apply (so_reg_mono _ _ _ Hm5); exact Hso4).
      destruct confl as [|c0 confl].
      * apply IH; [exact HS5 | exact HL5 | exact HR5 | exact Ht5 | apply Hpre2; assumption | exact Hso5|].
        intro E0. destruct (s_born st5) as [|i t] eqn:Eb5; [reflexivity|]. exfalso.
        destruct (Hborn5 i) as [G1|G1]; [rewrite ?Eb5; left; reflexivity | rewrite (Hb4 E0) in G1; destruct G1 | destruct G1].
      * destruct (run_pre_restart U P A st5 so start level4 (Hpre2 st5 level4 Hr5 H14) HS5 HL5) as [HLr [Htr Hpr]].
        destruct (ghost_undo_until st5 start) as [Ger Gbr].
        apply IH; [apply (sinv_undo_until U P A); exact HS5 | exact HLr | apply rinv_undo_until; exact HR5 | exact Htr | exact Hpr | rewrite Ger; exact Hso5|].
        intro E0. rewrite Gbr. subst start. reflexivity.
Qed.

(* ---------- the theorems ---------- *)

(* for a problem without soft requirements: whenever the model answers with a solution, no clause has
   started being watched with both watched literals false since the last restart *)
Theorem solve_sat_born_empty fuel efuel a0 order sol st :
  solve U P a_ge a_conflict fuel efuel a0 order = (OSat sol, st) -> pr_soft P = [] -> s_born st = [].
Proof.
  unfold solve. intros H Es.
  set (st0 := mkS (estate0 cache0) [mkCl KRoot [(VRoot, true)]] ps0 [] [] a0 0 [] order true []) in *.
  assert (H0 : SInv U P A st0).
  { constructor; simpl; [apply einv0 | reflexivity | apply winv0 | reflexivity]. }
  assert (HL0 : LInv A st0).
  { constructor; simpl; try exact I; try reflexivity.
    - intros x [].
    - intros x [].
    - intros id c Hn j Hj. destruct id as [|[|id]]; simpl in Hn; try discriminate. inversion Hn. subst c. destruct Hj. }
  assert (HR0 : RInv st0).
  { constructor; simpl.
    - intros c [].
    - intros c [Hc|[]] l Hl. subst c. destruct Hl as [E|[]]. subst l. exact I.
    - intros e [].
    - intros x []. }
  assert (Hrun : run_g 0 (run_sat U P a_ge a_conflict fuel efuel st0 None)).
  { unfold run_sat. apply g_run_loop.
    - apply (sinv_eq U P A st0); auto.
    - destruct HL0 as [L1 L2 L3 L4 L5 L6]. constructor; assumption.
    - apply (rinv_eq st0); auto.
    - unfold top_lv. simpl. lia.
    - right. split; [reflexivity|]. split; [reflexivity|]. right. split; reflexivity.
    - exact I.
    - intros _. reflexivity. }
  destruct (run_sat U P a_ge a_conflict fuel efuel st0 None) as [st1 [|]|st1 core| |]; try discriminate H.
  rewrite Es in H. cbn [soft_loop] in H. inversion H. subst. destruct Hrun as [_ Hb]. apply Hb. reflexivity.
Qed.

(* hence, with no exemption left: when the model answers with a solution for a problem without soft
   requirements, the trail the solution is read from falsifies no watched clause and makes every
   registered assertion true *)
Theorem solve_sat_no_clause_lost fuel efuel a0 order sol st :
  solve U P a_ge a_conflict fuel efuel a0 order = (OSat sol, st) -> pr_soft P = [] ->
  (forall id w, wget (ps_watch (s_ps st)) id = Some w ->
     exists c, nth_error (s_db st) (N.to_nat id) = Some c /\ falsified (trail st) (cl_lits c) = false) /\
  (forall x, In x (s_asserts st ++ s_units st) -> plit_true (s_ps st) (fst x) = true).
Proof.
  intros H Es. destruct (solve_sat_loses_no_clause U P HW A a_ge a_conflict _ _ _ _ _ _ H Es) as [H1 H2].
  split; [|exact H2]. intros id w Hw. apply (H1 id w Hw). rewrite (solve_sat_born_empty _ _ _ _ _ _ H Es). intros [].
Qed.

(* ---------- soft requirements: the invariant holds on every run ---------- *)

Definition run_gi (r : run_res A) : Prop := match r with ROk st _ => G st | _ => True end.

Lemma g_soft_loop fuel efuel : forall softs st,
  G st -> run_gi (soft_loop U P a_ge a_conflict fuel efuel st softs).
Proof.
  induction softs as [|s t IH]; intros st HG; cbn [soft_loop]; [exact HG|].
  destruct (pvalue (s_ps st) (VSol s)); [apply IH; exact HG|].
  destruct HG as [HS [HL [Hr HR]]].
  match goal with |- context [absorb ?X ?E] =>
    assert (H0 : SInv U P A X) by (apply (sinv_eq U P A st); auto);
    assert (HL0 : LInv A X) by (destruct HL as [L1 L2 L3 L4 L5 L6]; constructor; assumption);
    assert (HR0 : RInv X) by (apply (rinv_eq st); auto);
    pose proof (sinv_absorb U P A X E H0 (einv_register U P _ s (si_enc _ _ _ _ _ H0)) (ext_register U _ s)) as H1;
    destruct (linv_absorb U P A X E HL0 (einv_register U P _ s (si_enc _ _ _ _ _ H0)) (ext_register U _ s)) as [HL1 Etr1];
    pose proof (rinv_absorb X E H0 HR0 (einv_register U P _ s (si_enc _ _ _ _ _ H0)) (ext_register U _ s) (fext_register U _ s)) as HR1;
    pose proof (absorb_enc X E) as Ee1;
    destruct (absorb X E) as [st1 c1]
  end. cbn [fst] in H1, HL1, Etr1, HR1, Ee1. cbn [s_ps] in Etr1.
  assert (Hr1 : Rooted (trail st1)) by (rewrite Etr1; exact Hr).
  assert (Hrun : run_g (top_lv st1) (run_sat U P a_ge a_conflict fuel efuel st1 (Some s))).
  { unfold run_sat. apply g_run_loop.
    - apply (sinv_eq U P A st1); auto.
    - destruct HL1 as [L1 L2 L3 L4 L5 L6]. constructor; assumption.
    - apply (rinv_eq st1); auto.
    - unfold top_lv. cbn [s_ps]. lia.
    - left. cbn [s_ps]. split; [|exact Hr1]. rewrite top_lv_level. apply (rooted_top _ Hr1 (li_sorted _ _ HL1)).
    - cbn [so_reg s_enc]. rewrite Ee1. apply (proj1 (registered_register U _ s)).
    - intro E0. exfalso. pose proof (rooted_top _ Hr1 (li_sorted _ _ HL1)) as H1'. rewrite <- top_lv_level in H1'. lia. }
  destruct (run_sat U P a_ge a_conflict fuel efuel st1 (Some s)) as [st2 acc|st2 core| |]; try exact I.
  destruct Hrun as [HG2 _]. apply IH. exact HG2.
Qed.

(* whatever the soft requirements: the state a solution is read from satisfies RInv -- in particular every
   solvable of the answer had been registered with the at-most-one tracker of its package *)
Theorem solve_registered fuel efuel a0 order sol st :
  solve U P a_ge a_conflict fuel efuel a0 order = (OSat sol, st) ->
  RInv st /\ forall x, In x sol -> registered U (s_enc st) x.
Proof.
  unfold solve. intro H.
  set (st0 := mkS (estate0 cache0) [mkCl KRoot [(VRoot, true)]] ps0 [] [] a0 0 [] order true []) in *.
  assert (H0 : SInv U P A st0).
  { constructor; simpl; [apply einv0 | reflexivity | apply winv0 | reflexivity]. }
  assert (HL0 : LInv A st0).
  { constructor; simpl; try exact I; try reflexivity.
    - intros x [].
    - intros x [].
    - intros id c Hn j Hj. destruct id as [|[|id]]; simpl in Hn; try discriminate. inversion Hn. subst c. destruct Hj. }
  assert (HR0 : RInv st0).
  { constructor; simpl.
    - intros c [].
    - intros c [Hc|[]] l Hl. subst c. destruct Hl as [E|[]]. subst l. exact I.
    - intros e [].
    - intros x []. }
  assert (Hrun : run_g 0 (run_sat U P a_ge a_conflict fuel efuel st0 None)).
  { unfold run_sat. apply g_run_loop.
    - apply (sinv_eq U P A st0); auto.
    - destruct HL0 as [L1 L2 L3 L4 L5 L6]. constructor; assumption.
    - apply (rinv_eq st0); auto.
    - unfold top_lv. simpl. lia.
    - right. split; [reflexivity|]. split; [reflexivity|]. right. split; reflexivity.
    - exact I.
    - intros _. reflexivity. }
  destruct (run_sat U P a_ge a_conflict fuel efuel st0 None) as [st1 [|]|st1 core| |]; try discriminate H.
  destruct Hrun as [HG1 _].
  pose proof (g_soft_loop fuel efuel (pr_soft P) st1 HG1) as H2.
  destruct (soft_loop U P a_ge a_conflict fuel efuel st1 (pr_soft P)) as [st2 acc|st2 core| |]; try discriminate H.
  inversion H. subst. destruct H2 as [_ [_ [_ HR2]]]. split; [exact HR2|].
  intros x Hx. unfold chosen in Hx. apply in_flat_map in Hx. destruct Hx as [e [He Hx]].
  apply in_rev in He. pose proof (r_tr _ HR2 e He) as Hok.
  destruct (t_lit e) as [[|y|n k] [|]]; simpl in Hx; try contradiction. destruct Hx as [Hx|[]]. subst y. exact Hok.
Qed.

End Registered.
