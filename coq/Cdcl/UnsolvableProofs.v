(* Cdcl/UnsolvableProofs.v -- the conflict reported for an unsolvable problem is a
   genuine refutation: the (non-learnt) clauses the analyze_unsolvable model
   collects cannot all hold together with "the root is installed" -- for every
   clause database, trail and conflicting clause on which the recorded side
   conditions hold (conflicting clause falsified; every reason clause used
   contains the literal it propagated, its other literals false before; learnt
   clauses entailed by their recorded, older antecedents). *)
From Resolvo Require Export Cdcl.Unsolvable Cdcl.AnalyzeRunProofs.
From Coq Require Import Lia.

Section Core.
Variable db : list cl.

Definition learnt_at (id : N) : Prop := exists c, nth_error db (N.to_nat id) = Some c /\ is_learnt c = true.

Record Closed (stack core seen : list N) : Prop := mkClosed {
  c_learnt : forall id, In id seen -> learnt_at id;
  c_why : forall id c, In id seen -> nth_error db (N.to_nat id) = Some c ->
          forall j, In j (why_of c) -> In j core \/ In j seen \/ In j stack
}.

Lemma closed_nil : Closed [] [] [].
Proof. constructor; [intros id [] | intros id c []]. Qed.

Lemma expand_spec : forall fuel stack core seen core' seen',
  expand db fuel stack core seen = Some (core', seen') -> Closed stack core seen ->
  Closed [] core' seen' /\ incl core core' /\ incl seen seen' /\ (forall id, In id stack -> In id core' \/ In id seen').
Proof.
  induction fuel as [|fuel IH]; intros stack core seen core' seen' H HC.
  - destruct stack as [|id rest]; [|discriminate]. simpl in H. inversion H. subst.
    repeat split; try apply incl_refl; [apply (c_learnt _ _ _ HC) | apply (c_why _ _ _ HC) | intros id []].
  - destruct stack as [|id rest].
    + simpl in H. inversion H. subst.
      repeat split; try apply incl_refl; [apply (c_learnt _ _ _ HC) | apply (c_why _ _ _ HC) | intros id []].
    + cbn [expand] in H. destruct (nth_error db (N.to_nat id)) as [c|] eqn:Ec; [|discriminate].
      destruct (is_learnt c) eqn:El.
      * destruct (memN id seen) eqn:Em.
        -- apply memN_In in Em.
           assert (HC' : Closed rest core seen).
           { constructor; [apply (c_learnt _ _ _ HC)|].
             intros id0 c0 Hin Hc0 j Hj. pose proof (c_why _ _ _ HC id0 c0 Hin Hc0 j Hj) as W; simpl in W; destruct W as [A|[A|[A|A]]]; auto.
             subst j. auto. }
           destruct (IH _ _ _ _ _ H HC') as [C1 [I1 [I2 A]]]. split; [exact C1|]. split; [exact I1|]. split; [exact I2|].
           intros id0 Hin0; simpl in Hin0; destruct Hin0 as [E|Hin]; [subst id0; right; apply I2; exact Em | apply A; exact Hin].
        -- assert (HC' : Closed (why_of c ++ rest) core (id :: seen)).
           { constructor.
             - intros id0 Hin0; simpl in Hin0; destruct Hin0 as [E|Hin]; [subst id0; exists c; split; assumption | apply (c_learnt _ _ _ HC); exact Hin].
             - intros id0 c0 Hin0 Hc0 j Hj; simpl in Hin0; destruct Hin0 as [E|Hin].
               + subst id0. rewrite Ec in Hc0. inversion Hc0. subst c0. right. right. apply in_or_app. left. exact Hj.
               + pose proof (c_why _ _ _ HC id0 c0 Hin Hc0 j Hj) as W; simpl in W; destruct W as [A|[A|[A|A]]]; auto.
                 * right. left. right. exact A.
                 * subst j. right. left. left. reflexivity.
                 * right. right. apply in_or_app. right. exact A. }
           destruct (IH _ _ _ _ _ H HC') as [C1 [I1 [I2 A]]]. split; [exact C1|]. split; [exact I1|]. split.
           ++ intros x Hx. apply I2. right. exact Hx.
           ++ intros id0 Hin0; simpl in Hin0; destruct Hin0 as [E|Hin]; [subst id0; right; apply I2; left; reflexivity | apply A; apply in_or_app; right; exact Hin].
      * set (core2 := if memN id core then core else core ++ [id]) in *.
        assert (Hid : In id core2).
        { unfold core2. destruct (memN id core) eqn:Em; [apply memN_In; exact Em | apply in_or_app; right; left; reflexivity]. }
        assert (Hinc : incl core core2).
        { unfold core2. destruct (memN id core); [apply incl_refl | apply incl_appl; apply incl_refl]. }
        assert (HC' : Closed rest core2 seen).
        { constructor; [apply (c_learnt _ _ _ HC)|].
          intros id0 c0 Hin Hc0 j Hj. pose proof (c_why _ _ _ HC id0 c0 Hin Hc0 j Hj) as W; simpl in W; destruct W as [A|[A|[A|A]]]; auto.
          subst j. auto. }
        destruct (IH _ _ _ _ _ H HC') as [C1 [I1 [I2 A]]]. split; [exact C1|]. split; [|split; [exact I2|]].
        -- intros x Hx. apply I1. apply Hinc. exact Hx.
        -- intros id0 Hin0; simpl in Hin0; destruct Hin0 as [E|Hin]; [subst id0; left; apply I1; exact Hid | apply A; exact Hin].
Qed.

(* ---------- antecedents are older ---------- *)

Lemma why_lt_nth : forall l i k c, why_lt l i = true -> nth_error l k = Some c ->
  forall j, In j (why_of c) -> (j < i + N.of_nat k)%N.
Proof.
  induction l as [|x t IH]; intros i k c H Hk j Hj; [destruct k; discriminate|].
  simpl in H. apply andb_true_iff in H. destruct H as [H1 H2]. destruct k as [|k]; simpl in Hk.
  - inversion Hk. subst. rewrite forallb_forall in H1. specialize (H1 _ Hj). apply N.ltb_lt in H1. lia.
  - specialize (IH _ _ _ H2 Hk j Hj). lia.
Qed.

Variable a : asg.

Definition sat (id : N) : Prop := forall c, nth_error db (N.to_nat id) = Some c -> cl_true a (cl_lits c) = true.

(* with every learnt clause entailed by its antecedents and antecedents older, a closed pair
   (core, seen) whose core is satisfied has all of seen satisfied *)
Lemma closed_sat core seen :
  why_lt db 0 = true ->
  (forall id c, nth_error db (N.to_nat id) = Some c -> is_learnt c = true -> learnt_entailed db id) ->
  Closed [] core seen -> (forall id, In id core -> sat id) -> forall id, In id seen -> sat id.
Proof.
  intros Hlt Hent HC Hcore.
  assert (G : forall n id, (N.to_nat id < n)%nat -> In id seen -> sat id).
  { induction n as [|n IHn]; intros id Hn Hin; [lia|].
    intros c Hc. destruct (c_learnt _ _ _ HC id Hin) as [c' [Hc' Hl]]. rewrite Hc in Hc'. inversion Hc'. subst c'.
    apply (Hent id c Hc Hl c Hc a). intros j cj Hj Hcj.
    pose proof (why_lt_nth db 0 (N.to_nat id) c Hlt Hc j Hj) as Hjlt.
    pose proof (c_why _ _ _ HC id c Hin Hc j Hj) as W; simpl in W; destruct W as [A|[A|[]]].
    - apply (Hcore j A cj Hcj).
    - apply (IHn j); [lia | exact A | exact Hcj]. }
  intros id Hin. apply (G (S (N.to_nat id))); [lia | exact Hin].
Qed.

(* ---------- the walk over the trail ---------- *)

Lemma walk_ok_true : forall tr full inv core seen ok coreF seenF,
  walk db full tr inv core seen ok = Some (coreF, seenF, true) -> ok = true.
Proof.
  induction tr as [|e rest IH]; intros full inv core seen ok coreF seenF; cbn [walk].
  - intro H. inversion H. reflexivity.
  - destruct (is_root (tvar e)).
    + intro H. apply IH in H. apply andb_true_iff in H. tauto.
    + destruct (negb (memv (tvar e) inv)); [apply IH|].
      destruct (N.eqb (t_reason e) 0); [discriminate|].
      destruct (expand db (expand_fuel db) [t_reason e] core seen) as [[core' seen']|]; [|destruct (nth_error db (N.to_nat (t_reason e))); discriminate].
      destruct (nth_error db (N.to_nat (t_reason e))) as [c|]; [|discriminate].
      destruct (mark full (tvar e) (cl_lits c) inv) as [inv'|]; [|discriminate].
      intro H. apply IH in H. apply andb_true_iff in H. tauto.
Qed.

(* what [mark] does to the involved set *)
Lemma mark_spec full v : forall lits inv inv',
  mark full v lits inv = Some inv' ->
  (forall w, memv w inv = true -> memv w inv' = true) /\
  (forall l, In l lits -> fst l <> v -> lit_true_in full l = false /\ memv (fst l) inv' = true).
Proof.
  induction lits as [|l t IH]; intros inv inv'; simpl.
  - intro H. inversion H. subst. split; [auto | intros l []].
  - destruct (lit_true_in full l) eqn:Et.
    + destruct (var_eqb (fst l) v) eqn:Ev; [|discriminate]. apply var_eqb_eq in Ev.
      intro H. destruct (IH _ _ H) as [A B]. split; [exact A|].
      intros l0 [E|Hin] Hne; [subst l0; contradiction | apply B; assumption].
    + intro H. destruct (IH _ _ H) as [A B].
      assert (Hl : memv (fst l) inv' = true).
      { apply A. simpl. rewrite (proj2 (var_eqb_eq _ _) eq_refl). reflexivity. }
      split.
      * intros w Hw. apply A. simpl. rewrite Hw. apply orb_true_r.
      * intros l0 [E|Hin] Hne; [subst l0; split; assumption | apply B; assumption].
Qed.

Hypothesis Hroot : a VRoot = true.
Hypothesis Hlt : why_lt db 0 = true.
Hypothesis Hent : forall id c, nth_error db (N.to_nat id) = Some c -> is_learnt c = true -> learnt_entailed db id.

Lemma is_root_eq v : is_root v = true -> v = VRoot.
Proof. destruct v; simpl; [reflexivity | discriminate | discriminate]. Qed.

Lemma walk_sound full : forall tr inv core seen ok coreF seenF,
  walk db full tr inv core seen ok = Some (coreF, seenF, true) -> Closed [] core seen ->
  (Closed [] coreF seenF /\ incl core coreF /\ incl seen seenF) /\
  ((forall id, In id coreF \/ In id seenF -> sat id) -> Inv a tr inv -> False).
Proof.
  induction tr as [|e rest IH]; intros inv core seen ok coreF seenF H HC.
  - simpl in H. inversion H. subst. split; [repeat split; try apply incl_refl; apply HC|].
    intros _ [v [_ [b [Hp _]]]]. discriminate Hp.
  - cbn [walk] in H. destruct (is_root (tvar e)) eqn:Er.
    + destruct (IH _ _ _ _ _ _ H HC) as [S1 S2]. split; [exact S1|].
      intros Hsat HI. apply (S2 Hsat).
      apply walk_ok_true in H. apply andb_true_iff in H. destruct H as [_ Hv].
      destruct HI as [v [Hv1 [b [Hp Hd]]]]. exists v. split; [exact Hv1|].
      apply is_root_eq in Er.
      assert (Hne : v <> tvar e).
      { intro E. subst v. rewrite pval_head in Hp. inversion Hp. subst b. rewrite Er, Hroot, Hv in Hd. apply Hd. reflexivity. }
      exists b. split; [rewrite <- (pval_tail e rest v Hne); exact Hp | exact Hd].
    + destruct (memv (tvar e) inv) eqn:Em; cbn [negb] in H.
      2:{ destruct (IH _ _ _ _ _ _ H HC) as [S1 S2]. split; [exact S1|].
          intros Hsat HI. apply (S2 Hsat). apply (pop_unseen a e rest inv HI Em). }
      destruct (N.eqb (t_reason e) 0); [discriminate|].
      destruct (expand db (expand_fuel db) [t_reason e] core seen) as [[core' seen']|] eqn:Ex; [|destruct (nth_error db (N.to_nat (t_reason e))); discriminate].
      destruct (nth_error db (N.to_nat (t_reason e))) as [c|] eqn:Ec; [|discriminate].
      destruct (mark full (tvar e) (cl_lits c) inv) as [inv'|] eqn:Emk; [|discriminate].
      assert (HC0 : Closed [t_reason e] core seen).
      { constructor; [apply (c_learnt _ _ _ HC)|].
        intros id0 c0 Hin Hc0 j Hj. pose proof (c_why _ _ _ HC id0 c0 Hin Hc0 j Hj) as W; simpl in W; destruct W as [A|[A|[]]]; auto. }
      destruct (expand_spec _ _ _ _ _ _ Ex HC0) as [C1 [I1 [I2 A]]].
      destruct (IH _ _ _ _ _ _ H C1) as [[CF [J1 J2]] S2].
      split; [repeat split; [apply CF | apply CF | eapply incl_tran; eauto | eapply incl_tran; eauto]|].
      intros Hsat HI. apply (S2 Hsat).
      pose proof (walk_ok_true _ _ _ _ _ _ _ _ H) as Hok. apply andb_true_iff in Hok. destruct Hok as [_ Hr].
      destruct (mark_spec _ _ _ _ _ Emk) as [M1 M2].
      (* the reason clause is satisfied *)
      assert (Hs : cl_true a (cl_lits c) = true).
      { assert (Hin : In (t_reason e) coreF \/ In (t_reason e) seenF).
        { destruct (A (t_reason e) (or_introl eq_refl)) as [X|X]; [left; apply J1 | right; apply J2]; exact X. }
        apply (Hsat _ Hin c Ec). }
      destruct HI as [v [Hv [b [Hp Hd]]]].
      destruct (var_eqb v (tvar e)) eqn:Ev.
      * apply var_eqb_eq in Ev. subst v. rewrite pval_head in Hp. inversion Hp. subst b.
        apply cl_true_iff in Hs. destruct Hs as [l [Hl Ht]].
        unfold reason_ok in Hr. rewrite Ec in Hr. rewrite forallb_forall in Hr. specialize (Hr l Hl).
        destruct (var_eqb (fst l) (tvar e)) eqn:El.
        -- apply lit_eqb_eq in Hr. subst l. unfold lit_true in Ht. apply Bool.eqb_prop in Ht.
           exfalso. apply Hd. exact Ht.
        -- assert (Hne : fst l <> tvar e) by (intro E; rewrite E, var_eqb_refl in El; discriminate).
           exists (fst l). split; [apply (M2 l Hl Hne)|]. apply lit_true_diff; assumption.
      * assert (Hne : v <> tvar e) by (intro E; subst; rewrite var_eqb_refl in Ev; discriminate).
        exists v. split; [apply M1; exact Hv|]. exists b. split; [rewrite <- (pval_tail e rest v Hne); exact Hp | exact Hd].
Qed.

End Core.

(* the conflict of the model is a refutation of "the root is installed" *)
Theorem core_unsat db tr conf core :
  unsolvable db tr conf = Some (core, true) ->
  (forall id c, nth_error db (N.to_nat id) = Some c -> is_learnt c = true -> learnt_entailed db id) ->
  forall a : asg, a VRoot = true ->
  (forall i c, In i core -> nth_error db (N.to_nat i) = Some c -> cl_true a (cl_lits c) = true) -> False.
Proof.
  unfold unsolvable. intros H Hent a Hroot Hcore.
  destruct (nth_error db (N.to_nat conf)) as [c|] eqn:Ec; [|discriminate].
  destruct (expand db (expand_fuel db) [conf] [] []) as [[core0 seen0]|] eqn:Ex; [|discriminate].
  destruct (walk db tr tr (map fst (cl_lits c)) core0 seen0 (falsified tr (cl_lits c) && why_lt db 0)) as [[[coreF seenF] ok]|] eqn:Ew; [|discriminate].
  inversion H. subst coreF ok. clear H.
  pose proof (walk_ok_true _ _ _ _ _ _ _ _ _ Ew) as Hok. apply andb_true_iff in Hok. destruct Hok as [Hf Hlt].
  assert (HC0 : Closed db [conf] [] []).
  { constructor; [intros id [] | intros id c0 []]. }
  destruct (expand_spec _ _ _ _ _ _ _ Ex HC0) as [C1 [_ [_ A]]].
  destruct (walk_sound db a Hroot tr _ _ _ _ _ _ _ Ew C1) as [[CF [J1 J2]] S2].
  assert (Hsat : forall id, In id core \/ In id seenF -> sat db a id).
  { intros id [Hin|Hin]; [intros c0 Hc0; apply (Hcore id c0 Hin Hc0)|].
    apply (closed_sat db a core seenF Hlt Hent CF); [|exact Hin].
    intros id0 Hin0 c0 Hc0. apply (Hcore id0 c0 Hin0 Hc0). }
  apply (S2 Hsat).
  (* the conflicting clause is satisfied by [a] and falsified by the trail *)
  assert (Hs : cl_true a (cl_lits c) = true).
  { assert (Hin : In conf core \/ In conf seenF).
    { destruct (A conf (or_introl eq_refl)) as [X|X]; [left; apply J1 | right; apply J2]; exact X. }
    apply (Hsat _ Hin c Ec). }
  apply cl_true_iff in Hs. destruct Hs as [l [Hl Ht]].
  exists (fst l). split.
  - apply memv_In. apply in_map. exact Hl.
  - apply lit_true_diff; [exact Ht|]. unfold falsified in Hf. rewrite forallb_forall in Hf. apply (Hf l Hl).
Qed.

(* tied to a run: an accepted analysis replay provides the entailment of the learnt clauses *)
Theorem checked_conflict_is_refutation db evs n conf core :
  check_analyses db evs = (n, true) ->
  check_unsolvable db evs conf core = (true, true) ->
  forall a : asg, a VRoot = true ->
  (forall i c, In i core -> nth_error db (N.to_nat i) = Some c -> cl_true a (cl_lits c) = true) -> False.
Proof.
  intros Ha Hu. unfold check_unsolvable in Hu.
  destruct (unsolvable db (final_tents evs []) conf) as [[c ok]|] eqn:E; [|discriminate].
  injection Hu as He Hok. apply nl_eqb'_eq in He. subst c. subst ok.
  apply (core_unsat db _ conf core E). apply (analyses_entail db evs n Ha).
Qed.
