(* Cdcl/PropagateRun.v -- replaying a hook log against the propagate model: at
   every call of Solver::propagate (event PEPropagate level n: n clauses were
   allocated at that moment) the clauses allocated since the previous call start
   being watched with the initial watches the implementation recorded for them,
   the model runs, and the assignments the implementation makes until the call
   returns must be the model's -- literal, level and reason clause, in order --
   and the call must end the way the model's does (no conflict / the same
   conflicting clause). *)
From Resolvo Require Export Cdcl.PropagateHyp Cdcl.PropagateCompleteHyp Cdcl.AnalyzeRun.

Inductive pevent :=
| PEAssign (l : lit) (level reason : N)
| PEUndoLast
| PEUndoUntil (level : N)
| PEPropagate (level nclauses : N)
| PEResult (conf : option N)
| PEOther.

(* the literal a clause registered as negative assertion asserts *)
Definition assertion_lit (c : cl) : option lit :=
  match ck c with
  | KRequires p _ _ => Some (p, false)
  | KConstrains p _ _ => Some (p, false)
  | KLock _ o => Some (VSol o, false)
  | KExcluded x _ => Some (VSol x, false)
  | _ => None
  end.

Definition tent_eqb (a b : tent) : bool :=
  lit_eqb (t_lit a) (t_lit b) && N.eqb (t_level a) (t_level b) && N.eqb (t_reason a) (t_reason b).

Definition optn_eqb (a b : option N) : bool :=
  match a, b with Some x, Some y => N.eqb x y | None, None => true | _, _ => false end.

Section Run.
Variable db : list cl.
Variable init : list (option (lit * lit)).     (* initial watches per clause id *)
Variable asserted : list N.                    (* clause ids registered as negative assertions *)

Record rstate := mkRS {
  r_st : pstate;
  r_known : N;                                 (* clauses already watched *)
  r_asserts : list (lit * N);
  r_units : list (lit * N);
  r_exempt : list N                            (* clauses born with both watched literals false *)
}.

(* one clause starts to exist *)
Definition add_clause (rs : rstate) (id : N) : option rstate :=
  match nth_error db (N.to_nat id), nth_error init (N.to_nat id) with
  | Some c, Some w =>
    let st1 := match w with Some w => start_watching (r_st rs) id w | None => r_st rs end in
    let asserts1 := if memN id asserted then
                      match assertion_lit c with Some l => r_asserts rs ++ [(l, id)] | None => r_asserts rs end
                    else r_asserts rs in
    let units1 := if is_learnt c then match cl_lits c with [l] => r_units rs ++ [(l, id)] | _ => r_units rs end
                  else r_units rs in
    let exempt1 := match w with
                   | Some w => if plit_false (r_st rs) (fst w) && plit_false (r_st rs) (snd w) then id :: r_exempt rs else r_exempt rs
                   | None => r_exempt rs
                   end in
    Some (mkRS st1 (N.succ id) asserts1 units1 exempt1)
  | _, _ => None
  end.

Fixpoint add_clauses (fuel : nat) (rs : rstate) (upto : N) : option rstate :=
  if N.leb upto (r_known rs) then Some rs
  else match fuel with
       | O => None
       | S f => match add_clause rs (r_known rs) with Some rs1 => add_clauses f rs1 upto | None => None end
       end.

(* entries the model added, oldest first *)
Definition new_entries (before after : pstate) : list tent :=
  rev (firstn (length (ps_trail after) - length (ps_trail before)) (ps_trail after)).

Inductive expect := ENone | EModel (es : list tent) (conf : option N) (after : pstate).

(* (propagate calls compared, assignments compared, all equal, hypotheses of propagate_sound at every call,
   calls at which the hypotheses of propagate_complete did NOT hold) *)
Fixpoint preplay (evs : list pevent) (rs : rstate) (ex : expect) (nc na : N) (hyp : bool) (nbad : N) : N * N * bool * bool * N :=
  match evs with
  | [] => (nc, na, true, hyp, nbad)
  | e :: t =>
    match ex, e with
    | EModel (x :: xs) conf after, PEAssign l lv reason =>
        if tent_eqb x (mkT l lv reason) then preplay t rs (EModel xs conf after) nc (N.succ na) hyp nbad else (nc, na, false, hyp, nbad)
    | EModel [] conf after, PEResult r =>
        if optn_eqb conf r then preplay t (mkRS after (r_known rs) (r_asserts rs) (r_units rs) (r_exempt rs)) ENone (N.succ nc) na hyp nbad
        else (nc, na, false, hyp, nbad)
    | EModel _ _ _, _ => (nc, na, false, hyp, nbad)
    | ENone, PEAssign l lv reason =>
        preplay t (mkRS (push_entry (r_st rs) (mkT l lv reason)) (r_known rs) (r_asserts rs) (r_units rs) (r_exempt rs)) ENone nc na hyp nbad
    | ENone, PEUndoLast =>
        preplay t (mkRS (undo_last (r_st rs)) (r_known rs) (r_asserts rs) (r_units rs) (r_exempt rs)) ENone nc na hyp nbad
    | ENone, PEUndoUntil lv =>
        preplay t (if N.eqb lv 0 then mkRS (clear_trail (r_st rs)) (r_known rs) (r_asserts rs) (r_units rs) (r_exempt rs) else rs) ENone nc na hyp nbad
    | ENone, PEOther => preplay t rs ENone nc na hyp nbad
    | ENone, PEResult _ => (nc, na, false, hyp, nbad)
    | ENone, PEPropagate lv n =>
        match add_clauses (S (length db)) rs n with
        | None => (nc, na, false, hyp, nbad)
        | Some rs1 =>
          let hyp1 := hyp && prop_hyps db (r_asserts rs1) (r_units rs1) (r_st rs1) in
          let nbad1 := if comp_hyps (r_exempt rs1) (r_st rs1) then nbad else N.succ nbad in
          match propagate db lv (r_asserts rs1) (r_units rs1) (r_st rs1) with
          | None => (nc, na, false, hyp1, nbad1)
          | Some (after, conf) => preplay t rs1 (EModel (new_entries (r_st rs1) after) (option_map snd conf) after) nc na hyp1 nbad1
          end
        end
    end
  end.

Definition check_propagates (evs : list pevent) : N * N * bool * bool * N :=
  preplay evs (mkRS ps0 0 [] [] []) ENone 0 0 true 0.

End Run.
