(* Cdcl/Decide.v -- executable model of Solver::decide (src/solver/mod.rs): which
   requirement is branched on next and with which candidate.

   requires_clauses is an IndexMap from the requiring variable to its Requires
   clauses: parents in order of their first Requires clause, clauses per parent
   in creation order.  For every parent that is installed, every clause is
   scanned version set by version set: a true candidate makes the clause
   irrelevant, otherwise the first undecided candidate is the proposal, with the
   number of undecided candidates of its version set and the activity of that
   version set's package.  A proposal replaces the best one so far only if it
   has strictly higher activity AND strictly fewer candidates; once a proposal
   of the root is the best, other parents are not looked at.  A clause whose
   candidates are all false is the unreachable!() of the code (result None).

   The activity comparison is a parameter: the theorems hold for every activity
   assignment; the correspondence check instantiates it with the IEEE-754
   single-precision values the implementation computes (Cdcl/Activity.v). *)
From Resolvo Require Export Cdcl.Trail.

Section Decide.
Variable U : provider.
Variable act_ge : N -> N -> bool.     (* activity of package a >= activity of package b *)

Definition fstate := option (N * N * N).   (* first undecided candidate, its version set, candidate count *)

Fixpoint scan_cands (pa : list lit) (vs : N) (cs : list N) (st : fstate) : option fstate :=
  match cs with
  | [] => Some st
  | c :: t =>
    match pval pa (VSol c) with
    | Some true => None                                   (* the clause is already true *)
    | Some false => scan_cands pa vs t st
    | None =>
      scan_cands pa vs t (match st with
                          | Some (f, fvs, n) => Some (f, fvs, if N.eqb fvs vs then N.succ n else n)
                          | None => Some (c, vs, 1%N)
                          end)
    end
  end.

Fixpoint scan_req (pa : list lit) (zs : list (N * list N)) (st : fstate) : option fstate :=
  match zs with
  | [] => Some st
  | (vs, cs) :: t => match scan_cands pa vs cs st with None => None | Some st' => scan_req pa t st' end
  end.

Inductive cres := CSkip | CPanic | CCand (f vs n : N).

(* version sets of the requirement zipped with the cached candidate lists *)
Definition zipped (c : cl) : list (N * list N) :=
  match ck c with KRequires _ r cands => combine (req_vss U r) cands | _ => [] end.

Definition clause_scan (pa : list lit) (c : cl) : cres :=
  match zipped c with
  | [] => CSkip                     (* `candidate` keeps its initial Break(()) *)
  | zs => match scan_req pa zs None with
          | None => CSkip
          | Some None => CPanic
          | Some (Some (f, vs, n)) => CCand f vs n
          end
  end.

Record pdec := mkPd { pd_explicit : bool; pd_name : N; pd_count : N; pd_cand : N; pd_parent : var; pd_clause : N }.

Definition better (best : option pdec) (new : pdec) : option pdec :=
  match best with
  | None => Some new
  | Some b =>
    if pd_explicit b && negb (pd_explicit new) then best
    else if act_ge (pd_name b) (pd_name new) then best
    else if N.leb (pd_count b) (pd_count new) then best
    else Some new
  end.

(* the clauses of one parent; None = unreachable!() *)
Fixpoint dec_clauses (pa : list lit) (p : var) (l : list (N * cl)) (best : option pdec) : option (option pdec) :=
  match l with
  | [] => Some best
  | (i, c) :: t =>
    match clause_scan pa c with
    | CSkip => dec_clauses pa p t best
    | CPanic => None
    | CCand f vs n => dec_clauses pa p t (better best (mkPd (is_vroot p) (p_vs_name U vs) n f p i))
    end
  end.

Definition best_explicit (best : option pdec) : bool := match best with Some b => pd_explicit b | None => false end.

Fixpoint dec_groups (pa : list lit) (g : list (var * list (N * cl))) (best : option pdec) : option (option pdec) :=
  match g with
  | [] => Some best
  | (p, l) :: t =>
    if best_explicit best && negb (is_vroot p) then dec_groups pa t best
    else if negb (lit_istrue pa (p, true)) then dec_groups pa t best
    else match dec_clauses pa p l best with None => None | Some b => dec_groups pa t b end
  end.

(* requires_clauses: an IndexMap keyed by the parent *)
Fixpoint add_group (p : var) (x : N * cl) (g : list (var * list (N * cl))) : list (var * list (N * cl)) :=
  match g with
  | [] => [(p, [x])]
  | (q, l) :: t => if var_eqb p q then (q, l ++ [x]) :: t else (q, l) :: add_group p x t
  end.

Fixpoint groups_from (db : list cl) (i : N) (g : list (var * list (N * cl))) : list (var * list (N * cl)) :=
  match db with
  | [] => g
  | c :: t => groups_from t (N.succ i) (match ck c with KRequires p _ _ => add_group p (i, c) g | _ => g end)
  end.

Definition groups (db : list cl) : list (var * list (N * cl)) := groups_from db 0 [].

(* None = unreachable!(), Some None = nothing left to decide, Some (Some d) = the decision *)
Definition decide (db : list cl) (pa : list lit) : option (option pdec) := dec_groups pa (groups db) None.

(* ---------- well-formedness of the Requires clauses (implied by factb) ---------- *)

Definition req_wf (c : cl) : bool :=
  match ck c with
  | KRequires p r cands =>
      Nat.eqb (length cands) (length (req_vss U r)) && lits_eqb (cl_lits c) ((p, false) :: map pos (concat cands))
  | _ => true
  end.

(* the root's requirements are the first ones to be encoded *)
Definition root_first (db : list cl) : bool :=
  match groups db with
  | [] => true
  | (p, _) :: _ => is_vroot p || negb (existsb (fun c => match ck c with KRequires VRoot _ _ => true | _ => false end) db)
  end.

End Decide.
