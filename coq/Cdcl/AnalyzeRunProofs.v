(* Cdcl/AnalyzeRunProofs.v -- an accepted replay means every learnt clause of the
   database is entailed by the clauses recorded as its derivation. *)
From Resolvo Require Export Cdcl.AnalyzeRun Cdcl.AnalyzeProofs.

Definition learnt_entailed (db : list cl) (id : N) : Prop :=
  forall c, nth_error db (N.to_nat id) = Some c ->
  forall a, (forall j cj, In j (why_of c) -> nth_error db (N.to_nat j) = Some cj -> cl_true a (cl_lits cj) = true) ->
  cl_true a (cl_lits c) = true.

Lemma nl_eqb'_eq a b : nl_eqb' a b = true -> a = b.
Proof.
  revert b. induction a as [|x a IH]; intros [|y b]; simpl; try discriminate; [reflexivity|].
  intro H. apply andb_true_iff in H. destruct H as [E H]. apply N.eqb_eq in E. subst. f_equal. apply IH. exact H.
Qed.

Lemma start_analysis_sound db tr id r : start_analysis db tr id = Some r -> learnt_entailed db id.
Proof.
  unfold start_analysis, learnt_entailed. intros H c Hc a Hwhy. rewrite Hc in H.
  destruct (why_of c) as [|conf w] eqn:Ew; [discriminate|].
  destruct (analyze db tr conf) as [r0|] eqn:Ea; [|discriminate].
  destruct (lits_eqb (r_learnt r0) (cl_lits c) && nl_eqb' (r_why r0) (conf :: w) && analysis_ok db tr conf r0) eqn:Ek; [|discriminate].
  apply andb_true_iff in Ek. destruct Ek as [Ek Hok]. apply andb_true_iff in Ek. destruct Ek as [El Ewhy].
  apply lits_eqb_eq in El. apply nl_eqb'_eq in Ewhy. rewrite <- El.
  apply (analyze_sound db tr conf r0 Ea Hok a). rewrite Ewhy. exact Hwhy.
Qed.

Lemma replay_sound db : forall evs tr start ids m n n',
  replay db evs tr start ids m n = (n', true) -> forall id, In id ids -> learnt_entailed db id.
Proof.
  induction evs as [|e t IH]; intros tr start ids m n n'; simpl.
  - intro H. assert (Hb : match m with MNormal | MUntil => match ids with [] => true | _ => false end | _ => false end = true) by (injection H; intros Hx _; exact Hx).
    destruct m; try discriminate Hb; destruct ids; try discriminate Hb; intros id [].
  - destruct m as [| |left r id0|r id0 target]; destruct e as [l lv reason| |lv|];
      repeat (match goal with
      | |- (_, false) = (_, true) -> _ => let H := fresh in intro H; discriminate H
      | |- replay _ _ _ _ ?ids _ _ = _ -> forall id, In id ?ids -> _ => apply IH
      | |- match start_analysis db ?tr ?id with _ => _ end = _ -> _ =>
          let Es := fresh "Es" in destruct (start_analysis db tr id) as [r'|] eqn:Es
      | |- replay _ _ _ _ ?ids' _ _ = _ -> forall id, In id (?i :: ?ids') -> _ =>
          let H := fresh in let x := fresh in intros H x [<-|?];
          [eapply start_analysis_sound; eassumption | eapply IH; eassumption]
      | |- context [match ?x with _ => _ end] => destruct x
      | |- context [if ?x then _ else _] => destruct x
      end).
Qed.

Lemma learnt_ids_complete db : forall i id c, nth_error db id = Some c -> is_learnt c = true ->
  In (i + N.of_nat id)%N (learnt_ids db i).
Proof.
  induction db as [|x t IH]; intros i id c; [destruct id; discriminate|].
  destruct id as [|id]; simpl.
  - intro H. inversion H. subst. intro Hl. rewrite Hl. left. rewrite N.add_0_r. reflexivity.
  - intros H Hl. specialize (IH (N.succ i) id c H Hl).
    replace (i + N.pos (Pos.of_succ_nat id))%N with (N.succ i + N.of_nat id)%N by lia.
    destruct (is_learnt x); [right|]; exact IH.
Qed.

(* what an accepted log gives: every learnt clause follows from its recorded antecedents *)
Theorem analyses_entail db evs n :
  check_analyses db evs = (n, true) ->
  forall id c, nth_error db (N.to_nat id) = Some c -> is_learnt c = true -> learnt_entailed db id.
Proof.
  unfold check_analyses. intros H id c Hc Hl. apply (replay_sound db _ _ _ _ _ _ _ H).
  pose proof (learnt_ids_complete db 0 (N.to_nat id) c Hc Hl) as Hin. rewrite N.add_0_l, N2Nat.id in Hin. exact Hin.
Qed.

(* the backjump of an analysis never goes below the level at which the run_sat in progress started:
   the decisions of the solution completed before (hard requirements, accepted soft requirements)
   are never undone by conflict analysis *)
Lemma target_level_ge_start btl start : (start <= target_level btl start)%N.
Proof. unfold target_level. apply N.le_max_r. Qed.

Lemma target_level_ge_root btl start : (1 <= target_level btl start)%N.
Proof. unfold target_level. eapply N.le_trans; [apply (N.le_max_r btl 1) | apply N.le_max_l]. Qed.
