(* Cdcl/Analyze.v -- executable model of Solver::analyze (src/solver/mod.rs):
   first-UIP conflict analysis over the trail with decision levels, producing
   the learnt clause literal for literal, the list of clauses it was derived
   from, the number of assignments popped, the backjump level (clamped to the
   level at which the current run_sat started) and the asserted literal.

   analyze_sound: the learnt clause is entailed by the clauses it was derived
   from, for every trail and clause database on which the recorded side
   conditions hold (the conflicting clause is falsified by the trail; every
   reason clause used contains the literal it propagated, its other literals
   being false before).  The side conditions are evaluated per analysis by
   [analysis_ok]; the implementation's learnt clause must EQUAL the model's. *)
From Resolvo Require Export Enc.Clauses.
From Coq Require Import Lia.

Record tent := mkT { t_lit : lit; t_level : N; t_reason : N }.

Definition tvar (e : tent) : var := fst (t_lit e).
Definition tl_lits (tr : list tent) : list lit := map t_lit tr.

Fixpoint level_of (tr : list tent) (v : var) : option N :=
  match tr with
  | [] => None
  | e :: t => if var_eqb (tvar e) v then Some (t_level e) else level_of t v
  end.

Definition memv (v : var) (l : list var) : bool := existsb (var_eqb v) l.

Record astate := mkA { a_seen : list var; a_learnt : list lit; a_causes : nat; a_btl : N }.

(* visit_literals of one clause: [skip] = the variable whose propagation is being explained *)
Fixpoint visit (tr : list tent) (cur : N) (skip : option var) (lits : list lit) (st : astate) : option astate :=
  match lits with
  | [] => Some st
  | (v, _) :: t =>
    if match skip with Some s => var_eqb v s | None => false end then visit tr cur skip t st
    else if memv v (a_seen st) then visit tr cur skip t st
    else
      match level_of tr v, pval (tl_lits tr) v with
      | Some lv, Some b =>
        let st' :=
          if N.eqb lv cur then mkA (v :: a_seen st) (a_learnt st) (S (a_causes st)) (a_btl st)
          else mkA (v :: a_seen st) (a_learnt st ++ [(v, negb b)]) (a_causes st) (N.max (a_btl st) lv) in
        visit tr cur skip t st'
      | _, _ => None      (* the code would unwrap None *)
      end
  end.

Definition falsified (tr : list tent) (lits : list lit) : bool :=
  forallb (fun l => match pval (tl_lits tr) (fst l) with Some b => Bool.eqb b (negb (snd l)) | None => false end) lits.

(* side condition of one resolution step (not computed by the code; accumulated by the model so that
   it can be evaluated per analysis): the reason clause of the popped entry contains its literal, every
   literal on its variable is that literal, all other literals are false under the rest of the trail *)
Definition reason_ok (db : list cl) (e : tent) (rest : list tent) : bool :=
  match nth_error db (N.to_nat (t_reason e)) with
  | Some c =>
    forallb (fun l => if var_eqb (fst l) (tvar e) then lit_eqb l (t_lit e)
                      else match pval (tl_lits rest) (fst l) with Some b => Bool.eqb b (negb (snd l)) | None => false end)
            (cl_lits c)
  | None => false
  end.

Record aresult := mkR {
  r_learnt : list lit;       (* the learnt clause, in the order the code pushes literals *)
  r_why : list N;            (* learnt_why *)
  r_rest : list tent;        (* trail after the pops of the analysis loop *)
  r_pops : nat;
  r_btl : N;
  r_seen : list var;
  r_ok : bool                (* all resolution steps met [reason_ok] *)
}.

(* the analysis loop: pop until a seen variable; stop when it was the last cause at the current level *)
Fixpoint go (db : list cl) (tr : list tent) (st : astate) (why : list N) (pops : nat) (ok : bool) : option aresult :=
  match tr with
  | [] => None
  | e :: rest =>
    if memv (tvar e) (a_seen st) then
      let causes := pred (a_causes st) in
      let last := (tvar e, negb (snd (t_lit e))) in
      match causes with
      | O => Some (mkR (a_learnt st ++ [last]) why rest (S pops) (a_btl st) (a_seen st) ok)
      | S _ =>
        match rest, nth_error db (N.to_nat (t_reason e)) with
        | top :: _, Some c =>
          match visit rest (t_level top) (Some (tvar e)) (cl_lits c)
                      (mkA (a_seen st) (a_learnt st) causes (a_btl st)) with
          | Some st' => go db rest st' (why ++ [t_reason e]) (S pops) (ok && reason_ok db e rest)
          | None => None
          end
        | _, _ => None
        end
      end
    else go db rest st why (S pops) ok
  end.

Definition analyze (db : list cl) (tr : list tent) (conf : N) : option aresult :=
  match tr, nth_error db (N.to_nat conf) with
  | top :: _, Some c =>
    match visit tr (t_level top) None (cl_lits c) (mkA [] [] O 0) with
    | Some st => go db tr st [conf] O true
    | None => None
    end
  | _, _ => None
  end.

(* backjump level: at most to the root level, never below the level the current run_sat started at *)
Definition target_level (btl start : N) : N := N.max (N.max btl 1) start.

(* ---------- side conditions, evaluated per analysis ---------- *)

(* every seen variable still on the trail after the pops is in the learnt clause *)
Definition residue_ok (r : aresult) : bool :=
  forallb (fun v => match pval (tl_lits (r_rest r)) v with
                    | Some b => existsb (lit_eqb (v, negb b)) (r_learnt r)
                    | None => true
                    end) (r_seen r).

Definition analysis_ok (db : list cl) (tr : list tent) (conf : N) (r : aresult) : bool :=
  match nth_error db (N.to_nat conf) with Some c => falsified tr (cl_lits c) | None => false end &&
  r_ok r && residue_ok r.
