(* Cdcl/Unsolvable.v -- executable model of Solver::analyze_unsolvable and
   analyze_unsolvable_clause (src/solver/mod.rs): the clauses a conflict report
   is made of.

   Starting from the clause that is falsified at the root level, walk the trail
   from the newest assignment to the oldest; every assignment whose variable is
   "involved" contributes the clause it was derived from and makes the other
   variables of that clause involved.  A learnt clause contributes, depth first,
   the clauses recorded as its derivation (each learnt clause once).  The result
   is the list of clause ids in the order Conflict::add_clause receives them
   (duplicates dropped): the implementation's list must EQUAL it.

   The model also accumulates the side conditions the soundness theorem
   (UnsolvableProofs.core_unsat) needs and the code does not compute. *)
From Resolvo Require Export Cdcl.AnalyzeRun.

Definition lit_true_in (tr : list tent) (l : lit) : bool :=
  match pval (tl_lits tr) (fst l) with Some b => Bool.eqb b (snd l) | None => false end.

(* analyze_unsolvable_clause: explicit stack (head = top), [core] = Conflict.clauses, [seen] = learnt
   clauses already expanded.  None = the code would panic (index / missing derivation) or fuel ran out. *)
Fixpoint expand (db : list cl) (fuel : nat) (stack core seen : list N) : option (list N * list N) :=
  match stack with
  | [] => Some (core, seen)
  | id :: rest =>
    match fuel with
    | O => None
    | S f =>
      match nth_error db (N.to_nat id) with
      | None => None
      | Some c =>
        if is_learnt c then
          if memN id seen then expand db f rest core seen
          else expand db f (why_of c ++ rest) core (id :: seen)
        else expand db f rest (if memN id core then core else core ++ [id]) seen
      end
    end
  end.

(* every element pushed is popped once: one unit per clause plus one per recorded antecedent suffices
   for every call made on behalf of one trail entry *)
Definition expand_fuel (db : list cl) : nat :=
  S (S (length db) + fold_right (fun c n => length (why_of c) + n) 0 db)%nat.

(* visit_literals of a reason clause: a literal that is true must be the propagated one (assert_eq!),
   every other variable becomes involved *)
Fixpoint mark (full : list tent) (v : var) (lits : list lit) (inv : list var) : option (list var) :=
  match lits with
  | [] => Some inv
  | l :: t =>
    if lit_true_in full l then (if var_eqb (fst l) v then mark full v t inv else None)
    else mark full v t (fst l :: inv)
  end.

Definition is_root (v : var) : bool := match v with VRoot => true | _ => false end.

(* the loop over the decision stack, newest first *)
Fixpoint walk (db : list cl) (full tr : list tent) (inv : list var) (core seen : list N) (ok : bool)
  : option (list N * list N * bool) :=
  match tr with
  | [] => Some (core, seen, ok)
  | e :: rest =>
    if is_root (tvar e) then walk db full rest inv core seen (ok && snd (t_lit e))
    else if negb (memv (tvar e) inv) then walk db full rest inv core seen ok
    else if N.eqb (t_reason e) 0 then None                    (* assert_ne!(why, install_root) *)
    else
      match expand db (expand_fuel db) [t_reason e] core seen, nth_error db (N.to_nat (t_reason e)) with
      | Some (core', seen'), Some c =>
        match mark full (tvar e) (cl_lits c) inv with
        | Some inv' => walk db full rest inv' core' seen' (ok && reason_ok db e rest)
        | None => None
        end
      | _, _ => None
      end
  end.

(* recorded antecedents of a learnt clause are older clauses *)
Fixpoint why_lt (db : list cl) (i : N) : bool :=
  match db with
  | [] => true
  | c :: t => forallb (fun j => N.ltb j i) (why_of c) && why_lt t (N.succ i)
  end.

(* (clause ids of the conflict, side conditions of the theorem) *)
Definition unsolvable (db : list cl) (tr : list tent) (conf : N) : option (list N * bool) :=
  match nth_error db (N.to_nat conf) with
  | None => None
  | Some c =>
    match expand db (expand_fuel db) [conf] [] [] with
    | None => None
    | Some (core0, seen0) =>
      match walk db tr tr (map fst (cl_lits c)) core0 seen0 (falsified tr (cl_lits c) && why_lt db 0) with
      | Some (core, _, ok) => Some (core, ok)
      | None => None
      end
    end
  end.

(* ---------- correspondence: the conflict of an unsolvable run ---------- *)

(* the trail at the end of a log *)
Fixpoint final_tents (evs : list levent) (tr : list tent) : list tent :=
  match evs with
  | [] => tr
  | LAssign l lv reason :: t => final_tents t (mkT l lv reason :: tr)
  | LUndoLast :: t => final_tents t (tl tr)
  | LUndoUntil lv :: t => final_tents t (if N.eqb lv 0 then [] else tr)   (* the pops follow as LUndoLast *)
  | LSoft :: t => final_tents t tr
  end.

(* (the model's conflict equals the implementation's, side conditions) *)
Definition check_unsolvable (db : list cl) (evs : list levent) (conf : N) (core : list N) : bool * bool :=
  match unsolvable db (final_tents evs []) conf with
  | Some (c, ok) => (nl_eqb' c core, ok)
  | None => (false, false)
  end.
