(* Cdcl/RootFirst.v -- the root's requirements are the first ones in the clause database: the hypothesis
   `root_first` of decide_legal (Cdcl/DecideProofs.v), so far evaluated on every run, is an invariant of the
   solver model.

     fr db      the parent of the first Requires clause of the database
     RF st      fr (s_db st) = Some VRoot, or the root has no requirements at all (then no Requires clause
                of the root can exist), or the database still is the root clause alone

   Why: a Requires clause of a solvable s is produced by a task of the encoder that exists only after the
   dependencies of s were asked for, which happens when s is revealed as a candidate by the completion of a
   task for ANOTHER requirement -- and that completion adds its own Requires clause first -- or when the
   solver hands s to the encoder, which it only does after the first encode (of the root) has returned; and
   when that first encode returns, every requirement of the root has its clause, whatever the completion
   order of the encoder's futures. *)
From Resolvo Require Export Cdcl.SolverCover.
From Coq Require Import Lia.

(* ---------- the first Requires clause ---------- *)

Fixpoint fr (db : list cl) : option var :=
  match db with
  | [] => None
  | c :: t => match ck c with KRequires p _ _ => Some p | _ => fr t end
  end.

Lemma fr_app_some db x p : fr db = Some p -> fr (db ++ x) = Some p.
Proof. induction db as [|c t IH]; simpl; [discriminate|]. destruct (ck c); auto. Qed.

Lemma fr_app_none db x : fr db = None -> fr (db ++ x) = fr x.
Proof. induction db as [|c t IH]; simpl; [reflexivity|]. destruct (ck c); auto; discriminate. Qed.

Lemma fr_none_no_requires db : fr db = None -> forall c p r cands, In c db -> ck c <> KRequires p r cands.
Proof.
  induction db as [|c0 t IH]; intros H c p r cands Hin; [destruct Hin|]. destruct Hin as [E|Hin].
  - subst c0. simpl in H. intro Hk. rewrite Hk in H. discriminate.
  - simpl in H. destruct (ck c0); try discriminate; apply (IH H c p r cands Hin).
Qed.

(* the first group of the IndexMap model is keyed by the parent of the first Requires clause *)
Lemma add_group_head p x g q l : add_group p x ((q, l) :: g) = (q, l ++ [x]) :: g \/ exists g', add_group p x ((q, l) :: g) = (q, l) :: g'.
Proof. simpl. destruct (var_eqb p q); [left; reflexivity | right; eexists; reflexivity]. Qed.

Lemma groups_from_head : forall db i q l g, exists l' g', groups_from db i ((q, l) :: g) = (q, l') :: g'.
Proof.
  induction db as [|c t IH]; intros i q l g; cbn [groups_from]; [eauto|].
  destruct (ck c) as [|p r cands| | | | |]; try apply IH.
  destruct (add_group_head p (i, c) g q l) as [E|[g' E]]; rewrite E; apply IH.
Qed.

Lemma groups_from_fr : forall db i,
  match fr db with
  | None => groups_from db i [] = []
  | Some p => exists l g, groups_from db i [] = (p, l) :: g
  end.
Proof.
  induction db as [|c t IH]; intro i; cbn [fr groups_from]; [reflexivity|].
  destruct (ck c) as [|p r cands| | | | |] eqn:Ek; try apply IH.
  cbn [add_group]. apply groups_from_head.
Qed.

Section RF.
Variable U : provider.
Variable P : problem.
Hypothesis HW : WF U.

(* no Requires clause of the root when the root requires nothing *)
Lemma no_root_requires db idx :
  pr_reqs P = [] -> (forall c, In c db -> enc_kind c = true -> factb U P idx c = true) ->
  existsb (fun c => match ck c with KRequires VRoot _ _ => true | _ => false end) db = false.
Proof.
  intros E Hf. destruct (existsb _ db) eqn:Ex; [|reflexivity]. exfalso.
  apply existsb_exists in Ex. destruct Ex as [c [Hc Hk]].
  destruct (ck c) as [|p r cands| | | | |] eqn:Ek; try discriminate. destruct p; try discriminate.
  assert (Hek : enc_kind c = true) by (unfold enc_kind; rewrite Ek; reflexivity).
  specialize (Hf c Hc Hek). unfold factb in Hf. rewrite Ek in Hf.
  apply andb_true_iff in Hf. destruct Hf as [Hf _]. apply andb_true_iff in Hf. destruct Hf as [Hp _].
  simpl in Hp. rewrite E in Hp. discriminate.
Qed.

Theorem fr_root_first db idx :
  (forall c, In c db -> enc_kind c = true -> factb U P idx c = true) ->
  (fr db = None \/ fr db = Some VRoot \/ pr_reqs P = []) -> root_first db = true.
Proof.
  intros Hf H. unfold root_first, groups. pose proof (groups_from_fr db 0) as G.
  destruct (fr db) as [p|] eqn:Efr.
  - destruct G as [l [g Eg]]. rewrite Eg. destruct H as [H|[H|H]]; [discriminate | inversion H; reflexivity|].
    apply orb_true_iff. right. rewrite (no_root_requires db idx H Hf). reflexivity.
  - rewrite G. reflexivity.
Qed.

(* ---------- the encoder: which tasks can be pending while there is no Requires clause ---------- *)

Definition rootish (t : task) : Prop :=
  match t with TDeps (Some _) | TReq (Some _) _ => False | _ => True end.

Definition root_work (t : task) : Prop :=
  match t with TDeps None | TReq None _ => True | _ => False end.

(* as long as the database has no Requires clause: every pending task is a task of the root (or of a package),
   and, if the root has requirements, one of them is still pending *)
Definition TI (st : estate) (work : list task) : Prop :=
  fr (e_db st) = None -> Forall rootish work /\ (pr_reqs P <> [] -> Exists root_work work).

Lemma fr_queue_packages ns : forall st st' w, queue_packages st ns = (st', w) ->
  e_db st' = e_db st /\ Forall rootish w /\ Forall (fun t => ~ root_work t) w.
Proof.
  induction ns as [|n t IH]; intros st st' w; simpl.
  - intro H. inversion H. subst. repeat split; constructor.
  - destruct (queue_package st n) as [st1 w1] eqn:E1. destruct (queue_packages st1 t) as [st2 w2] eqn:E2.
    intro H. inversion H. subst. destruct (IH _ _ _ E2) as [I1 [I2 I3]].
    unfold queue_package in E1. destruct (memN n (e_pkgs st)); inversion E1; subst; simpl in *.
    + repeat split; assumption.
    + split; [exact I1|]. split; constructor; simpl; auto.
Qed.

Lemma fr_reveal falses cands : forall st st' w, reveal U falses st cands = (st', w) ->
  fr (e_db st') = fr (e_db st) .
Proof.
  induction cands as [|c cands IH]; intros st st' w; simpl.
  - intro H. inversion H. reflexivity.
  - destruct (if available U (e_cache st) c && negb (memN c falses) then queue_solvable st (Some c) else (st, []))
      as [st1 w1] eqn:E1.
    destruct (reveal U falses (register U st1 c) cands) as [st3 w3] eqn:E3.
    intro H. inversion H. subst. rewrite (IH _ _ _ E3).
    assert (Edb1 : e_db st1 = e_db st).
    { destruct (available U (e_cache st) c && negb (memN c falses)); [|inversion E1; reflexivity].
      unfold queue_solvable in E1. destruct (mem_so (Some c) (e_sols st)); inversion E1; reflexivity. }
    unfold register. destruct (Amo.add (trk_get (p_sol_name U c) (e_trk st1)) (N.to_nat c)) as [t' cs]. simpl. rewrite Edb1.
    (* the at-most-one clauses are not Requires clauses *)
    clear. induction (e_db st) as [|c0 t0 IHd]; simpl.
    + induction cs as [|[[x k] b] cs' IHc]; simpl; auto.
    + destruct (ck c0); auto.
Qed.

(* one task *)
Lemma ti_run_one falses st t rest st' w :
  TI st (t :: rest) -> run_one U P falses st t = (st', w) ->
  (fr (e_db st) = Some VRoot -> fr (e_db st') = Some VRoot) /\
  (fr (e_db st) = None -> fr (e_db st') = None \/ fr (e_db st') = Some VRoot) /\
  TI st' (rest ++ w).
Proof.
  intros HT H.
  assert (Hmono : forall x, e_db st' = e_db st ++ x -> (fr (e_db st) = Some VRoot -> fr (e_db st') = Some VRoot))
    by (intros x E Hs; rewrite E; apply fr_app_some; exact Hs).
  destruct t as [so|n|so r|so v]; cbn [run_one] in H.
  - (* TDeps *)
    set (st1 := match so with None => st | Some s => let '(c, k) := req_deps (e_cache st) s in add_calls st c k end) in *.
    assert (Edb1 : e_db st1 = e_db st) by (unfold st1; destruct so as [s|]; [destruct (req_deps (e_cache st) s); reflexivity | reflexivity]).
    destruct (deps_of U P so) as [rs cs|] eqn:Ed.
    + destruct (queue_packages st1 (map (p_vs_name U) (flat_map (req_vss U) rs ++ cs))) as [st2 w2] eqn:E2.
      inversion H. subst st' w. clear H. destruct (fr_queue_packages _ _ _ _ E2) as [Edb2 [Hr2 Hn2]].
      split; [intro Hs; rewrite Edb2, Edb1; exact Hs|]. split; [intro Hn; left; rewrite Edb2, Edb1; exact Hn|].
      intro Hn. rewrite Edb2, Edb1 in Hn. destruct (HT Hn) as [Hall Hex]. inversion Hall as [|? ? Ht Hrest]. subst.
      destruct so as [s|]; [destruct Ht|]. split.
      * apply Forall_app. split; [exact Hrest|]. apply Forall_app. split; [exact Hr2|].
        apply Forall_app. split; apply Forall_forall; intros t Hin; apply in_map_iff in Hin; destruct Hin as [x [E _]]; subst t; exact I.
      * intro Hne. simpl in Ed. inversion Ed. subst rs cs.
        destruct (pr_reqs P) as [|r0 rt] eqn:Er; [contradiction|].
        apply Exists_exists. exists (TReq None r0). split; [|exact I].
        apply in_or_app. right. apply in_or_app. right. apply in_or_app. left. left. reflexivity.
    + inversion H. subst st' w. clear H.
      assert (Efr : fr (e_db (add_clauses st1 (match so with Some s => [mk_excluded s] | None => [] end))) = fr (e_db st)).
      { simpl. rewrite Edb1. destruct so as [s|]; [|rewrite app_nil_r; reflexivity].
        destruct (fr (e_db st)) as [p|] eqn:E; [apply fr_app_some; exact E | rewrite (fr_app_none _ _ E); reflexivity]. }
      split; [intro Hs; rewrite Efr; exact Hs|]. split; [intro Hn; left; rewrite Efr; exact Hn|].
      intro Hn. rewrite Efr in Hn. destruct (HT Hn) as [Hall Hex]. inversion Hall as [|? ? Ht Hrest]. subst.
      destruct so as [s|]; [destruct Ht|]. simpl in Ed. discriminate Ed.
  - (* TCands *)
    destruct (req_cands_of (e_cache st) n) as [c k]. inversion H. subst st' w. clear H.
    match goal with |- context [add_clauses ?S ?CS] => assert (Efr : fr (e_db (add_clauses S CS)) = fr (e_db st)) end.
    { simpl. assert (Hnr : forall cs, (forall c0, In c0 cs -> match ck c0 with KRequires _ _ _ => False | _ => True end) -> fr cs = None).
      { induction cs as [|c0 t0 IHc]; intros Hc; simpl; [reflexivity|].
        pose proof (Hc c0 (or_introl eq_refl)) as H0. destruct (ck c0); try contradiction; apply IHc; intros c1 H1; apply Hc; right; exact H1. }
      destruct (fr (e_db st)) as [p|] eqn:E; [apply fr_app_some; exact E|]. rewrite (fr_app_none _ _ E). apply Hnr.
      intros c0 Hc0. apply in_app_or in Hc0. destruct Hc0 as [Hc0|Hc0].
      - destruct (p_locked U n) as [l|]; [|destruct Hc0]. apply in_map_iff in Hc0. destruct Hc0 as [o [E0 _]]. subst c0. exact I.
      - apply in_map_iff in Hc0. destruct Hc0 as [x [E0 _]]. subst c0. exact I. }
    split; [intro Hs; rewrite Efr; exact Hs|]. split; [intro Hn; left; rewrite Efr; exact Hn|].
    intro Hn. rewrite Efr in Hn. destruct (HT Hn) as [Hall Hex]. inversion Hall as [|? ? Ht Hrest]. subst.
    rewrite app_nil_r. split; [exact Hrest|]. intro Hne. specialize (Hex Hne). inversion Hex as [? ? Hh|? ? Ht']; [destruct Hh | exact Ht'].
  - (* TReq *)
    destruct (req_sorted_all U (e_cache st) (req_vss U r)) as [c k].
    destruct (reveal U falses (add_calls st c k) (req_cands U r)) as [st2 w2] eqn:E2.
    inversion H. subst st' w. clear H. pose proof (fr_reveal _ _ _ _ _ E2) as Efr2. simpl in Efr2.
    assert (Enew : fr (e_db (add_clauses st2 [mk_requires U so r])) =
                   match fr (e_db st) with Some p => Some p | None => Some (so_var so) end).
    { simpl. destruct (fr (e_db st)) as [p|] eqn:E.
      - apply fr_app_some. exact Efr2.
      - rewrite fr_app_none by exact Efr2. reflexivity. }
    split; [intro Hs; rewrite Enew, Hs; reflexivity|].
    split.
    + intro Hn. right. rewrite Enew, Hn. destruct (HT Hn) as [Hall _]. inversion Hall as [|? ? Ht _]. subst.
      destruct so as [s|]; [destruct Ht | reflexivity].
    + intro Hn. rewrite Enew in Hn. destruct (fr (e_db st)); discriminate.
  - (* TCon *)
    destruct (req_nonmatching U (e_cache st) v) as [c k]. inversion H. subst st' w. clear H.
    match goal with |- context [add_clauses ?S ?CS] => assert (Efr : fr (e_db (add_clauses S CS)) = fr (e_db st)) end.
    { simpl. destruct (fr (e_db st)) as [p|] eqn:E; [apply fr_app_some; exact E|]. rewrite (fr_app_none _ _ E).
      clear. induction (nonmatching U v) as [|f t IHf]; simpl; [reflexivity | exact IHf]. }
    split; [intro Hs; rewrite Efr; exact Hs|]. split; [intro Hn; left; rewrite Efr; exact Hn|].
    intro Hn. rewrite Efr in Hn. destruct (HT Hn) as [Hall Hex]. inversion Hall as [|? ? Ht Hrest]. subst.
    rewrite app_nil_r. split; [exact Hrest|]. intro Hne. specialize (Hex Hne). inversion Hex as [? ? Hh|? ? Ht']; [destruct Hh | exact Ht'].
Qed.

(* what an encode call does to the first Requires clause *)
Definition frok (enc enc' : estate) : Prop :=
  (fr (e_db enc) = Some VRoot -> fr (e_db enc') = Some VRoot) /\
  (fr (e_db enc) = None -> (fr (e_db enc') = None /\ pr_reqs P = []) \/ fr (e_db enc') = Some VRoot).

Lemma ti_done enc : TI enc [] -> frok enc enc.
Proof.
  intro HT. split; [auto|]. intro Hn. left. split; [exact Hn|].
  destruct (HT Hn) as [_ Hex]. destruct (pr_reqs P) as [|r0 rt]; [reflexivity|].
  assert (Hne : r0 :: rt <> []) by discriminate. specialize (Hex Hne). inversion Hex.
Qed.

Lemma frok_step enc enc1 enc' :
  (fr (e_db enc) = Some VRoot -> fr (e_db enc1) = Some VRoot) ->
  (fr (e_db enc) = None -> fr (e_db enc1) = None \/ fr (e_db enc1) = Some VRoot) ->
  frok enc1 enc' -> frok enc enc'.
Proof.
  intros A1 A2 [B1 B2]. split; [auto|]. intro Hn. destruct (A2 Hn) as [E|E]; [apply B2; exact E | right; apply B1; exact E].
Qed.

Lemma ti_enc_fifo : forall fuel falses enc work enc',
  TI enc work -> enc_fifo U P fuel falses enc work = Some enc' -> frok enc enc'.
Proof.
  induction fuel as [|f IH]; intros falses enc work enc' HT H; destruct work as [|k rest]; cbn [enc_fifo] in H; try discriminate.
  - inversion H. subst. apply ti_done. exact HT.
  - inversion H. subst. apply ti_done. exact HT.
  - destruct (run_one U P falses enc k) as [enc1 w1] eqn:E1.
    destruct (ti_run_one _ _ _ _ _ _ HT E1) as [A1 [A2 HT1]].
    apply (frok_step enc enc1 enc' A1 A2). apply (IH _ _ _ _ HT1 H).
Qed.

Lemma ti_remove k work work' enc : remove_task k work = Some work' -> TI enc work -> TI enc (k :: work').
Proof.
  intros Hr HT Hn. destruct (HT Hn) as [Hall Hex]. destruct (remove_task_Forall k _ _ Hr Hall) as [Hk Hw'].
  split; [constructor; assumption|]. intro Hne. specialize (Hex Hne).
  apply Exists_exists in Hex. destruct Hex as [x [Hx Hp]]. apply Exists_exists.
  apply (remove_task_In k _ _ Hr x) in Hx. exists x. split; [|exact Hp]. destruct Hx as [E|Hx]; [left; symmetry; exact E | right; exact Hx].
Qed.

Lemma ti_enc_ordered falses : forall order enc work enc' order',
  TI enc work -> enc_ordered U P falses enc work order = Some (enc', order') -> frok enc enc'.
Proof.
  induction order as [|k order IH]; intros enc work enc' order' HT H; destruct work as [|t0 rest]; cbn [enc_ordered] in H; try discriminate.
  - inversion H. subst. apply ti_done. exact HT.
  - inversion H. subst. apply ti_done. exact HT.
  - destruct (remove_task k (t0 :: rest)) as [work'|] eqn:Er; [|discriminate].
    destruct (run_one U P falses enc k) as [enc1 w1] eqn:E1.
    destruct (ti_run_one _ _ _ _ _ _ (ti_remove _ _ _ _ Er HT) E1) as [A1 [A2 HT1]].
    apply (frok_step enc enc1 enc' A1 A2). apply (IH _ _ _ _ HT1 H).
Qed.

(* the tasks the solver queues *)
Lemma fr_queue_solvables sos : forall st st' w, queue_solvables st sos = (st', w) ->
  e_db st' = e_db st /\ (forall t, In t w -> exists so, In so sos /\ t = TDeps so).
Proof.
  induction sos as [|so t IH]; intros st st' w; simpl.
  - intro H. inversion H. subst. split; [reflexivity | intros t []].
  - destruct (queue_solvable st so) as [st1 w1] eqn:E1. destruct (queue_solvables st1 t) as [st2 w2] eqn:E2.
    intro H. inversion H. subst. destruct (IH _ _ _ E2) as [I1 I2].
    unfold queue_solvable in E1. destruct (mem_so so (e_sols st)); inversion E1; subst; simpl in *.
    + split; [exact I1|]. intros t0 Ht. destruct (I2 t0 Ht) as [s0 [Hs E]]. exists s0. split; [right; exact Hs | exact E].
    + split; [exact I1|]. intros t0 [E|Ht]; [exists so; split; [left; reflexivity | symmetry; exact E]|].
      destruct (I2 t0 Ht) as [s0 [Hs E]]. exists s0. split; [right; exact Hs | exact E].
Qed.

End RF.

(* ---------- the solver ---------- *)

Section RFSolver.
Variable U : provider.
Variable P : problem.
Hypothesis HW : WF U.
Variable A : Type.
Variable a_ge : A -> N -> N -> bool.
Variable a_conflict : A -> list N -> A.

Notation sst := (sstate A).

(* learnt and root clauses aside, the database is the encoder's *)
Lemma fr_filter db : fr (filter enc_kind db) = fr db.
Proof.
  induction db as [|c t IH]; simpl; [reflexivity|]. unfold enc_kind at 1.
  destruct (ck c) eqn:Ek; simpl; rewrite ?Ek; auto.
Qed.

Definition RF (st : sst) : Prop :=
  fr (s_db st) = Some VRoot \/ pr_reqs P = [] \/ (fr (s_db st) = None /\ ~ In None (e_sols (s_enc st))).

Theorem rf_root_first st : SInv U P A st -> RF st -> root_first (s_db st) = true.
Proof.
  intros HS H. apply (fr_root_first U P (s_db st) (trk_idx (e_trk (s_enc st)))).
  - intros c Hc Hk. apply (sinv_facts U P A st HS c Hc Hk).
  - destruct H as [H|[H|[H _]]]; auto.
Qed.

(* after the first encode: *)
Definition RF' (st : sst) : Prop := fr (s_db st) = Some VRoot \/ pr_reqs P = [].

Lemma rf'_rf st : RF' st -> RF st.
Proof. intros [H|H]; [left; exact H | right; left; exact H]. Qed.

Lemma add_clauses_db : forall new (st : sst) confl, exists x, s_db (fst (fold_left add_clause new (st, confl))) = s_db st ++ x.
Proof.
  induction new as [|c t IH]; intros st confl; cbn [fold_left]; [exists []; rewrite app_nil_r; reflexivity|].
  assert (E : s_db (fst (add_clause (st, confl) c)) = s_db st ++ [c]) by reflexivity.
  destruct (add_clause (st, confl) c) as [st1 c1]. cbn [fst] in E. destruct (IH st1 c1) as [x Ex].
  exists ([c] ++ x). rewrite Ex, E, app_assoc. reflexivity.
Qed.

Lemma absorb_db (st : sst) enc1 : exists x, s_db (fst (absorb st enc1)) = s_db st ++ x.
Proof.
  unfold absorb. cbv zeta.
  match goal with |- exists x, s_db (fst (fold_left add_clause ?N (?X, []))) = _ =>
    destruct (add_clauses_db N X []) as [x Ex]; exists x; exact Ex end.
Qed.

Lemma sinv_fr st : SInv U P A st -> fr (s_db st) = fr (e_db (s_enc st)).
Proof. intros [_ B _ _]. rewrite app_nil_r in B. rewrite <- B. symmetry. apply fr_filter. Qed.

(* Encoder::encode *)
Lemma rf_encode fuel st sos st' confl :
  SInv U P A st -> RF st -> (pr_reqs P <> [] -> fr (s_db st) = None -> sos = [None]) ->
  encode U P fuel st sos = Some (st', confl) -> RF' st'.
Proof.
  intros HS HR Hsos H. pose proof (sinv_encode U P HW A _ _ _ _ _ HS H) as HS'.
  destruct (pr_reqs P) as [|r0 rt] eqn:Epr; [right; exact Epr|]. left.
  assert (Hne : pr_reqs P <> []) by (rewrite Epr; discriminate).
  unfold encode in H.
  destruct (queue_solvables (s_enc st) sos) as [enc1 w] eqn:Eq.
  destruct (fr_queue_solvables sos _ _ _ Eq) as [Edb1 Hw].
  (* the pending work satisfies TI *)
  assert (HT : TI P enc1 w).
  { intro Hn. rewrite Edb1, <- (sinv_fr st HS) in Hn. destruct HR as [HR|[HR|[_ Hnone]]]; [rewrite HR in Hn; discriminate | rewrite Epr in HR; discriminate|].
    rewrite (Hsos ltac:(discriminate) Hn) in Eq. simpl in Eq. unfold queue_solvable in Eq.
    destruct (mem_so None (e_sols (s_enc st))) eqn:Em.
    - exfalso. apply Hnone. clear - Em. induction (e_sols (s_enc st)) as [|[x|] t IH]; simpl in Em; [discriminate | right; apply IH; exact Em | left; reflexivity].
    - inversion Eq. subst. split; [constructor; [exact I | constructor]|]. intros _. constructor. exact I. }
  assert (Hend : forall enc2, frok P enc1 enc2 -> s_enc st' = enc2 -> fr (s_db st') = Some VRoot).
  { intros enc2 [F1 F2] Ee. rewrite (sinv_fr st' HS'), Ee. rewrite Edb1, <- (sinv_fr st HS) in F1, F2.
    destruct (fr (s_db st)) as [p|] eqn:Efr.
    - destruct HR as [HR|[HR|[HR _]]]; [rewrite Efr in HR; apply F1; exact HR | rewrite Epr in HR; discriminate | rewrite Efr in HR; discriminate].
    - destruct (F2 eq_refl) as [[_ E]|E]; [rewrite Epr in E; discriminate | exact E]. }
  destruct (s_order st) as [order|].
  - destruct (enc_ordered U P (falses_of (tr_lits st)) enc1 w order) as [[enc2 order']|] eqn:Eo; [|discriminate].
    pose proof (ti_enc_ordered U P _ _ _ _ _ _ HT Eo) as Hf. pose proof (absorb_enc A st enc2) as Ee.
    destruct (absorb st enc2) as [st1 confl1]. cbn [fst] in Ee. apply (Hend enc2 Hf). inversion H. cbn [s_enc]. exact Ee.
  - destruct (enc_fifo U P fuel (falses_of (tr_lits st)) enc1 w) as [enc2|] eqn:Ef; [|discriminate].
    pose proof (ti_enc_fifo U P _ _ _ _ _ HT Ef) as Hf. pose proof (absorb_enc A st enc2) as Ee.
    apply (Hend enc2 Hf). inversion H as [H1]. rewrite H1 in Ee. exact Ee.
Qed.

(* the database only grows at the end *)
Lemma rf'_app (st st' : sst) x : s_db st' = s_db st ++ x -> RF' st -> RF' st'.
Proof. intros E [H|H]; [left; rewrite E; apply fr_app_some; exact H | right; exact H]. Qed.

Lemma rf'_same (st st' : sst) : s_db st' = s_db st -> RF' st -> RF' st'.
Proof. intros E H. apply (rf'_app st st' []); [rewrite app_nil_r; exact E | exact H]. Qed.

Lemma static_db_assign (st : sst) l level reason st' : s_assign st l level reason = Some st' -> s_db st' = s_db st.
Proof. intro H. destruct (s_assign_cases _ _ _ _ _ _ H) as [[E _]|[_ E]]; subst st'; reflexivity. Qed.

Lemma rf'_learn st conf st' lv : RF' st -> learn U a_conflict st conf = Some (st', lv) -> RF' st'.
Proof.
  intros HR H. unfold learn in H.
  destruct (analyze (s_db st) (ps_trail (s_ps st)) conf) as [r|]; [|discriminate]. cbv zeta in H.
  destruct (pops_spec A (r_pops r) st) as [[D1 _] _]. set (st1 := s_pops (r_pops r) st) in *.
  assert (G : forall X T L I st4, s_db X = s_db st1 ++ [mkCl (KLearnt (r_why r)) (r_learnt r)] ->
            s_assign (s_undo_until X T) L T I = Some st4 -> RF' st4).
  { intros X T L I st4 EX Ea. destruct (undo_until_spec A X T) as [[E1 _] _].
    apply (rf'_app st st4 [mkCl (KLearnt (r_why r)) (r_learnt r)]); [|exact HR].
    rewrite (static_db_assign _ _ _ _ _ Ea), E1, EX, D1. reflexivity. }
  destruct (r_learnt r) as [|f [|g t]] eqn:El.
  - simpl in H. discriminate.
  - simpl in H.
    match type of H with
    | context [s_assign (s_undo_until ?X ?T) ?L ?T ?I] => destruct (s_assign (s_undo_until X T) L T I) as [st4|] eqn:Ea; [|discriminate];
        inversion H; subst; apply (G X T L I _ eq_refl Ea)
    end.
  - destruct (rev (f :: g :: t)) as [|last rl] eqn:Er; [simpl in H; discriminate|].
    destruct (lit_eqb f last) eqn:Efl; cbn [negb] in H; [discriminate|].
    match type of H with
    | context [s_assign (s_undo_until ?X ?T) ?L ?T ?I] => destruct (s_assign (s_undo_until X T) L T I) as [st4|] eqn:Ea; [|discriminate];
        inversion H; subst; apply (G X T L I _ eq_refl Ea)
    end.
Qed.

Lemma db_propagate (st : sst) level st' r : s_propagate st level = Some (st', r) -> s_db st' = s_db st.
Proof.
  unfold s_propagate. destruct (propagate (s_db st) level (s_asserts st) (s_units st) (s_ps st)) as [[ps1 conf]|]; [|discriminate].
  intro H. inversion H. reflexivity.
Qed.

Definition step_rf (r : step_res A) : Prop := match r with RLevel st _ => RF' st | _ => True end.
Definition run_rf (r : run_res A) : Prop := match r with ROk st _ => RF' st | _ => True end.

Lemma rf_prop_learn : forall fuel st level, RF' st -> step_rf (prop_learn U a_conflict fuel st level).
Proof.
  induction fuel as [|f IH]; intros st level HR; cbn [prop_learn]; [exact I|].
  destruct (s_propagate st level) as [[st1 [conf|]]|] eqn:Ep; [| |exact I].
  - pose proof (rf'_same st st1 (db_propagate _ _ _ _ Ep) HR) as H1. destruct (N.eqb level 1).
    + destruct (unsolvable (s_db st1) (ps_trail (s_ps st1)) conf) as [[core ok]|]; exact I.
    + destruct (learn U a_conflict st1 conf) as [[st2 lv]|] eqn:El; [|exact I]. apply IH. apply (rf'_learn _ _ _ _ H1 El).
  - apply (rf'_same st st1 (db_propagate _ _ _ _ Ep) HR).
Qed.

Lemma rf_resolve : forall fuel st level, RF' st -> step_rf (resolve U a_ge a_conflict fuel st level).
Proof.
  induction fuel as [|f IH]; intros st level HR; cbn [resolve]; [exact I|].
  destruct (decide U (a_ge (s_act st)) (s_db st) (tr_lits st)) as [[d|]|]; [| exact HR | exact I].
  destruct (s_assign st (VSol (pd_cand d), true) (N.succ level) (pd_clause d)) as [st1|] eqn:Ea; [|exact I].
  pose proof (rf_prop_learn f st1 (N.succ level) (rf'_same st st1 (static_db_assign _ _ _ _ _ Ea) HR)) as H2.
  destruct (prop_learn U a_conflict f st1 (N.succ level)) as [st2 lv|st2 core| |]; try exact I. apply IH. exact H2.
Qed.

Lemma db_undo_until (st : sst) lv : s_db (s_undo_until st lv) = s_db st.
Proof. destruct (undo_until_spec A st lv) as [[E _] _]. exact E. Qed.

Lemma rf_reject (st : sst) so start conf : RF' st -> run_rf (reject st so start conf).
Proof.
  intro HR. unfold reject. destruct (N.eqb start 0).
  - destruct (unsolvable (s_db st) (ps_trail (s_ps st)) conf) as [[core ok]|]; exact I.
  - destruct (s_assign (s_undo_until st start) (so_var so, false) (N.succ start) 0) as [st2|] eqn:Ea; [|exact I].
    apply (rf'_same st st2); [rewrite (static_db_assign _ _ _ _ _ Ea); apply db_undo_until | exact HR].
Qed.

Lemma rf_run_loop efuel so start : forall fuel st level,
  SInv U P A st -> RF st -> (pr_reqs P <> [] -> fr (s_db st) = None -> so = None /\ level = start) ->
  run_rf (run_loop U P a_ge a_conflict fuel efuel st so start level).
Proof.
  induction fuel as [|f IH]; intros st level HS HR Hfirst0; cbn [run_loop]; [exact I|].
  set (first := if N.eqb level start then
                  match s_assign st (so_var so, true) (N.succ start) 0 with
                  | None => None
                  | Some st1 => match encode U P efuel st1 [so] with
                                | None => None
                                | Some (st2, confl) => Some (st2, N.succ start, find (clause_falsified st2) confl)
                                end
                  end
                else Some (st, level, None)).
  assert (Hfirst : match first with Some (st2, _, _) => SInv U P A st2 /\ RF' st2 | None => True end).
  { unfold first. destruct (N.eqb level start) eqn:El.
    2:{ apply N.eqb_neq in El. split; [exact HS|]. destruct HR as [HR|[HR|[HR _]]]; [left; exact HR | right; exact HR|].
        destruct (pr_reqs P) as [|r0 rt] eqn:Epr; [right; exact Epr|].
        assert (Hne : r0 :: rt <> []) by discriminate. destruct (Hfirst0 Hne HR) as [_ E]. contradiction. }
    destruct (s_assign st (so_var so, true) (N.succ start) 0) as [st1|] eqn:Ea; [|exact I].
    pose proof (sinv_assign U P A _ _ _ _ _ _ HS Ea) as HS1.
    destruct (encode U P efuel st1 [so]) as [[st2 confl]|] eqn:Ee; [|exact I].
    split; [apply (sinv_encode U P HW A _ _ _ _ _ HS1 Ee)|].
    assert (Edb1 : s_db st1 = s_db st) by apply (static_db_assign _ _ _ _ _ Ea).
    assert (Eenc1 : s_enc st1 = s_enc st) by (destruct (s_assign_cases _ _ _ _ _ _ Ea) as [[E _]|[_ E]]; subst st1; reflexivity).
    apply (rf_encode efuel st1 [so] st2 confl HS1); [| | exact Ee].
    - unfold RF. rewrite Edb1, Eenc1. exact HR.
    - rewrite Edb1. intros Hne Hn. destruct (Hfirst0 Hne Hn) as [E _]. rewrite E. reflexivity. }
  assert (Hnext : forall st', SInv U P A st' -> RF' st' -> forall lv, run_rf (run_loop U P a_ge a_conflict f efuel st' so start lv)).
  { intros st' HS' HR' lv. apply IH; [exact HS' | apply rf'_rf; exact HR'|]. intros Hne Hn. exfalso.
    destruct HR' as [E|E]; [rewrite E in Hn; discriminate | apply Hne; exact E]. }
  destruct first as [[[st2 level2] [conf|]]|]; [| |exact I].
  - apply rf_reject. apply Hfirst.
  - destruct Hfirst as [HS2 HR2].
    destruct (s_propagate st2 level2) as [[st3 conf]|] eqn:Ep; [|exact I].
    pose proof (rf'_same st2 st3 (db_propagate _ _ _ _ Ep) HR2) as HR3. pose proof (sinv_propagate U P A _ _ _ _ HS2 Ep) as HS3.
    destruct conf as [conf|].
    + destruct (N.eqb level2 (N.succ start)); [apply rf_reject; exact HR3|].
      apply Hnext; [apply (sinv_undo_until U P A); exact HS3 | apply (rf'_same st3); [apply db_undo_until | exact HR3]].
    + pose proof (rf_resolve f st3 level2 HR3) as H4.
      pose proof (sinv_resolve U P A a_ge a_conflict f st3 level2 HS3) as HS4.
      destruct (resolve U a_ge a_conflict f st3 level2) as [st4 level4|st4 core| |]; try exact I.
      simpl in HS4. cbn [step_rf] in H4. destruct (new_solvables st4) as [|s0 sos]; [exact H4|].
      destruct (encode U P efuel st4 (s0 :: sos)) as [[st5 confl]|] eqn:Ee; [|exact I].
      pose proof (sinv_encode U P HW A _ _ _ _ _ HS4 Ee) as HS5.
      assert (HR5 : RF' st5).
      { apply (rf_encode efuel st4 (s0 :: sos) st5 confl HS4 (rf'_rf _ H4)); [|exact Ee].
        intros Hne Hn. exfalso. destruct H4 as [E|E]; [rewrite E in Hn; discriminate | apply Hne; exact E]. }
      destruct confl as [|c0 confl]; [apply Hnext; assumption|].
      apply Hnext; [apply (sinv_undo_until U P A); exact HS5 | apply (rf'_same st5); [apply db_undo_until | exact HR5]].
Qed.

(* the state a solution is read from satisfies RF' (and so does, by the lemmas above, every state in which the
   model calls decide: decide is never called before the first encode has returned) *)
Theorem solve_rf fuel efuel a0 order sol st :
  solve U P a_ge a_conflict fuel efuel a0 order = (OSat sol, st) -> RF' st.
Proof.
  unfold solve.
  set (st0 := mkS (estate0 cache0) [mkCl KRoot [(VRoot, true)]] ps0 [] [] a0 0 [] order true []).
  assert (H0 : SInv U P A st0).
  { constructor; simpl; [apply einv0 | reflexivity | apply winv0 | reflexivity]. }
  assert (HR0 : RF st0) by (right; right; split; [reflexivity | intros []]).
  assert (Hrun : run_rf (run_sat U P a_ge a_conflict fuel efuel st0 None)).
  { unfold run_sat. apply rf_run_loop; [apply (sinv_eq U P A st0); auto | exact HR0 | intros _ _; split; reflexivity]. }
  pose proof (sinv_run_sat U P HW A a_ge a_conflict fuel efuel st0 None H0) as HSr.
  destruct (run_sat U P a_ge a_conflict fuel efuel st0 None) as [st1 [|]|st1 core| |]; try (intro H; discriminate H).
  assert (Hsoft : forall softs s1, SInv U P A s1 -> RF' s1 -> run_rf (soft_loop U P a_ge a_conflict fuel efuel s1 softs)).
  { induction softs as [|s t IHs]; intros s1 HS1 HR1; cbn [soft_loop]; [exact HR1|].
    destruct (pvalue (s_ps s1) (VSol s)); [apply IHs; assumption|].
    match goal with |- context [absorb ?X ?E] =>
      assert (HX : SInv U P A X) by (apply (sinv_eq U P A s1); auto);
      pose proof (sinv_absorb U P A X E HX (einv_register U P _ s (si_enc _ _ _ _ _ HX)) (ext_register U _ s)) as HS2;
      destruct (absorb_db X E) as [x Ex];
      destruct (absorb X E) as [s2 c2]
    end. cbn [fst] in HS2, Ex. cbn [s_db] in Ex.
    assert (HR2 : RF' s2) by (apply (rf'_app s1 s2 x Ex HR1)).
    assert (Hrun2 : run_rf (run_sat U P a_ge a_conflict fuel efuel s2 (Some s))).
    { unfold run_sat. apply rf_run_loop; [apply (sinv_eq U P A s2); auto | apply rf'_rf; exact HR2|].
      intros Hne Hn. exfalso. cbn [s_db] in Hn. destruct HR2 as [E|E]; [rewrite E in Hn; discriminate | apply Hne; exact E]. }
    pose proof (sinv_run_sat U P HW A a_ge a_conflict fuel efuel s2 (Some s) HS2) as HS3.
    destruct (run_sat U P a_ge a_conflict fuel efuel s2 (Some s)) as [s3 acc|s3 core| |]; try exact I.
    apply IHs; assumption. }
  pose proof (Hsoft (pr_soft P) st1 HSr Hrun) as H2.
  destruct (soft_loop U P a_ge a_conflict fuel efuel st1 (pr_soft P)) as [st2 acc|st2 core| |]; intro H; try discriminate H.
  inversion H. subst. exact H2.
Qed.

(* hence, in every state of the model that satisfies the invariants -- the structural one, the level structure
   with the root at the bottom of the trail, and RF -- what decide proposes is a legal decision of the abstract
   machine (rule D1: first non-false candidate of a requirement none of whose candidates is installed; rule D2: a
   requirement of the root as long as one is open), with no hypothesis left to evaluate per run *)
Theorem model_decide_legal st d :
  SInv U P A st -> LInv A st -> Rooted (ps_trail (s_ps st)) -> RF st ->
  decide U (a_ge (s_act st)) (s_db st) (tr_lits st) = Some (Some d) ->
  exists c, nth_error (s_db st) (N.to_nat (pd_clause d)) = Some c /\
            decision_kind (s_db st) (tr_lits st) c (VSol (pd_cand d), true) = Some (if is_vroot (pd_parent d) then ERootDec else EDec).
Proof.
  intros HS HL Hr HR H. apply (sinv_decide_legal U P A a_ge st d HS (rf_root_first st HS HR)); [|exact H].
  pose proof (rooted_val _ Hr (si_nodup _ _ _ _ _ HS)) as Hv. unfold lit_istrue, lit_val, tr_lits. cbn [fst snd]. rewrite Hv. reflexivity.
Qed.

End RFSolver.
