(* Cdcl/SolverProofs.v -- structural invariants of the solver model (Cdcl/Solver.v),
   for every provider, problem, fuel and completion order:

     SInv     the encoder invariant holds (every encoder clause is a fact); the
              non-learnt part of the clause database IS the encoder's database;
              the watch invariant WInv holds; the trail assigns no variable twice;
              only existing clauses are watched.

   SInv holds initially and is preserved by every function of the model, hence in
   every state the model passes through -- in particular at every call of
   propagate and decide, where it supplies the hypotheses of propagate_sound and
   (with the facts) of decide_legal. *)
From Resolvo Require Export Cdcl.Solver Cdcl.PropagateProofs Cdcl.DecideProofs Async.EncoderProofs.
From Coq Require Import Lia.

(* ---------- the encoder only appends encoder clauses ---------- *)

Definition enc_kind (c : cl) : bool := match ck c with KRoot | KLearnt _ => false | _ => true end.

Section Ext.
Variable U : provider.
Variable P : problem.

Definition ext (st st' : estate) : Prop := exists x, e_db st' = e_db st ++ x /\ Forall (fun c => enc_kind c = true) x.

Lemma ext_refl st : ext st st.
Proof. exists []. split; [rewrite app_nil_r; reflexivity | constructor]. Qed.

Lemma ext_trans a b c : ext a b -> ext b c -> ext a c.
Proof.
  intros [x [E1 F1]] [y [E2 F2]]. exists (x ++ y). split; [rewrite E2, E1, app_assoc; reflexivity | apply Forall_app; split; assumption].
Qed.

Lemma ext_same st st' : e_db st' = e_db st -> ext st st'.
Proof. intro E. exists []. split; [rewrite app_nil_r; exact E | constructor]. Qed.

Lemma ext_add_clauses st cs : Forall (fun c => enc_kind c = true) cs -> ext st (add_clauses st cs).
Proof. intro H. exists cs. split; [reflexivity | exact H]. Qed.

Lemma ext_register st x : ext st (register U st x).
Proof.
  unfold register. destruct (Amo.add (trk_get (p_sol_name U x) (e_trk st)) (N.to_nat x)) as [t' cs].
  exists (map (mk_forbid (p_sol_name U x)) cs). split; [reflexivity|].
  apply Forall_forall. intros c Hc. apply in_map_iff in Hc. destruct Hc as [a [E _]]. subst c.
  unfold enc_kind. rewrite mk_forbid_kind. reflexivity.
Qed.

Lemma ext_queue_solvable st so st' w : queue_solvable st so = (st', w) -> ext st st'.
Proof. unfold queue_solvable. destruct (mem_so so (e_sols st)); intro H; inversion H; subst; apply ext_same; reflexivity. Qed.

Lemma ext_queue_package st n st' w : queue_package st n = (st', w) -> ext st st'.
Proof. unfold queue_package. destruct (memN n (e_pkgs st)); intro H; inversion H; subst; apply ext_same; reflexivity. Qed.

Lemma ext_queue_packages ns : forall st st' w, queue_packages st ns = (st', w) -> ext st st'.
Proof.
  induction ns as [|n t IH]; intros st st' w; simpl.
  - intro H. inversion H. apply ext_refl.
  - destruct (queue_package st n) as [st1 w1] eqn:E1. destruct (queue_packages st1 t) as [st2 w2] eqn:E2.
    intro H. inversion H. subst. eapply ext_trans; [eapply ext_queue_package; eauto | eapply IH; eauto].
Qed.

Lemma ext_queue_solvables sos : forall st st' w, queue_solvables st sos = (st', w) -> ext st st'.
Proof.
  induction sos as [|so t IH]; intros st st' w; simpl.
  - intro H. inversion H. apply ext_refl.
  - destruct (queue_solvable st so) as [st1 w1] eqn:E1. destruct (queue_solvables st1 t) as [st2 w2] eqn:E2.
    intro H. inversion H. subst. eapply ext_trans; [eapply ext_queue_solvable; eauto | eapply IH; eauto].
Qed.

Lemma ext_reveal falses cands : forall st st' w, reveal U falses st cands = (st', w) -> ext st st'.
Proof.
  induction cands as [|c t IH]; intros st st' w; simpl.
  - intro H. inversion H. apply ext_refl.
  - destruct (if available U (e_cache st) c && negb (memN c falses) then queue_solvable st (Some c) else (st, [])) as [st1 w1] eqn:E1.
    destruct (reveal U falses (register U st1 c) t) as [st3 w3] eqn:E3.
    intro H. inversion H. subst.
    assert (H1 : ext st st1).
    { destruct (available U (e_cache st) c && negb (memN c falses)); [eapply ext_queue_solvable; eauto | inversion E1; apply ext_refl]. }
    eapply ext_trans; [exact H1|]. eapply ext_trans; [apply ext_register | eapply IH; eauto].
Qed.

Lemma enc_kind_map {X} (f : X -> cl) l : (forall x, enc_kind (f x) = true) -> Forall (fun c => enc_kind c = true) (map f l).
Proof. intro H. apply Forall_forall. intros c Hc. apply in_map_iff in Hc. destruct Hc as [x [E _]]. subst. apply H. Qed.

Lemma ext_run_one falses st t st' w : run_one U P falses st t = (st', w) -> ext st st'.
Proof.
  destruct t as [so|n|so r|so v]; cbn [run_one].
  - set (st1 := match so with None => st | Some s => let '(c, k) := req_deps (e_cache st) s in add_calls st c k end).
    assert (H1 : ext st st1).
    { unfold st1. destruct so as [s|]; [|apply ext_refl]. destruct (req_deps (e_cache st) s) as [c k]. apply ext_same. reflexivity. }
    destruct (deps_of U P so) as [rs cs|].
    + destruct (queue_packages st1 (map (p_vs_name U) (flat_map (req_vss U) rs ++ cs))) as [st2 w2] eqn:E2.
      intro H. inversion H. subst. eapply ext_trans; [exact H1 | eapply ext_queue_packages; eauto].
    + intro H. inversion H. subst. eapply ext_trans; [exact H1|]. apply ext_add_clauses.
      destruct so; [repeat constructor | constructor].
  - destruct (req_cands_of (e_cache st) n) as [c k]. intro H. inversion H. subst.
    eapply ext_trans; [apply (ext_same st (add_calls st c k)); reflexivity|]. apply ext_add_clauses. apply Forall_app. split.
    + destruct (p_locked U n); [apply enc_kind_map; intro; reflexivity | constructor].
    + apply enc_kind_map. intro; reflexivity.
  - destruct (req_sorted_all U (e_cache st) (req_vss U r)) as [c k].
    destruct (reveal U falses (add_calls st c k) (req_cands U r)) as [st2 w2] eqn:E2.
    intro H. inversion H. subst. eapply ext_trans; [apply (ext_same st (add_calls st c k)); reflexivity|].
    eapply ext_trans; [eapply ext_reveal; eauto|]. apply ext_add_clauses. repeat constructor.
  - destruct (req_nonmatching U (e_cache st) v) as [c k]. intro H. inversion H. subst.
    eapply ext_trans; [apply (ext_same st (add_calls st c k)); reflexivity|]. apply ext_add_clauses.
    apply enc_kind_map. intro; reflexivity.
Qed.

End Ext.

(* ---------- the clause constructors produce legitimate watches ---------- *)

Section Create.
Variable U : provider.
Variable P : problem.

Lemma nth_error_snoc {X} (l : list X) (x : X) : nth_error (l ++ [x]) (N.to_nat (N.of_nat (length l))) = Some x.
Proof. rewrite Nat2N.id, nth_error_app2 by lia. rewrite Nat.sub_diag. reflexivity. Qed.

Lemma create_watch_ok db idx tr c w :
  factb U P idx c = true -> w_watch (create tr c) = Some w ->
  watch_ok (db ++ [c]) (N.of_nat (length db)) w.
Proof.
  intros Hf Hw. exists c. split; [apply nth_error_snoc|].
  unfold factb in Hf. unfold create in Hw. unfold movable, fixed_kind.
  destruct (ck c) as [|p r cands|n|p f v|l o|x rs|why] eqn:Ek; simpl in Hw; try discriminate.
  - (* requires *)
    apply andb_true_iff in Hf. destruct Hf as [_ Hl]. apply lits_eqb_eq in Hl.
    destruct (concat cands) as [|first rest] eqn:Ec; [simpl in Hw; discriminate|].
    assert (G : forall x, In x (first :: rest) -> w = ((p, false), pos x) ->
                In (fst w) (cl_lits c) /\ In (snd w) (cl_lits c) /\ fst w <> snd w /\
                (true = true \/ false = true /\ (forall l, In l (cl_lits c) -> l = fst w \/ l = snd w))).
    { intros x Hx E. subst w. rewrite Hl. simpl. split; [left; reflexivity|]. split.
      - right. change (In (pos x) (map pos (first :: rest))). apply in_map. exact Hx.
      - split; [intro E; inversion E | left; reflexivity]. }
    destruct (find (fun x => negb (lit_false_in tr (pos x))) (first :: rest)) as [x|] eqn:Efd; simpl in Hw;
      injection Hw as Hw'.
    + apply (G x); [apply (find_some _ _ Efd) | symmetry; exact Hw'].
    + apply (G first); [left; reflexivity | symmetry; exact Hw'].
  - (* forbid *)
    destruct (cl_lits c) as [|a [|b [|z t]]] eqn:El; simpl in Hw; try discriminate. inversion Hw. subst w. simpl.
    destruct a as [[| xa |] [|]]; try discriminate Hf. destruct b as [[| | n' k] bb]; try discriminate Hf.
    split; [left; reflexivity|]. split; [right; left; reflexivity|]. split; [intro E; inversion E|].
    right. split; [reflexivity|]. intros l [E|[E|[]]]; [left | right]; symmetry; exact E.
  - (* constrains *)
    apply andb_true_iff in Hf. destruct Hf as [_ Hl]. apply lits_eqb_eq in Hl.
    destruct (var_eqb p (VSol f)) eqn:Ev; simpl in Hw; [discriminate|]. inversion Hw. subst w. rewrite Hl. simpl.
    split; [left; reflexivity|]. split; [right; left; reflexivity|]. split.
    + intro E. inversion E. subst. rewrite var_eqb_refl in Ev. discriminate.
    + right. split; [reflexivity|]. intros l0 [E|[E|[]]]; [left | right]; symmetry; exact E.
  - (* lock *)
    apply andb_true_iff in Hf. destruct Hf as [_ Hl]. apply lits_eqb_eq in Hl. inversion Hw. subst w. rewrite Hl. simpl.
    split; [right; left; reflexivity|]. split; [left; reflexivity|]. split; [intro E; inversion E|].
    right. split; [reflexivity|]. intros l0 [E|[E|[]]]; [right | left]; symmetry; exact E.
Qed.

End Create.

(* ---------- the invariant and the primitive operations ---------- *)

Section SolverInv.
Variable U : provider.
Variable P : problem.
Hypothesis HW : WF U.
Variable A : Type.
Variable a_ge : A -> N -> N -> bool.
Variable a_conflict : A -> list N -> A.

Notation sst := (sstate A).

(* [rem]: encoder clauses already in the encoder's database that still have to enter the solver's *)
Record SInvP (st : sst) (rem : list cl) : Prop := mkSInv {
  si_enc : EInv U P (s_enc st);
  si_link : filter enc_kind (s_db st) ++ rem = e_db (s_enc st);
  si_winv : WInv (s_db st) (ps_watch (s_ps st)) (ps_lists (s_ps st));
  si_nodup : tnodup (s_ps st)
}.
Definition SInv (st : sst) : Prop := SInvP st [].

Lemma watch_ok_mono db c id w : watch_ok db id w -> watch_ok (db ++ [c]) id w.
Proof.
  intros [c0 [Hn H]]. exists c0. split; [|exact H]. rewrite nth_error_app1; [exact Hn|].
  apply nth_error_Some. rewrite Hn. discriminate.
Qed.

Lemma winv_mono db c ws ls : WInv db ws ls -> WInv (db ++ [c]) ws ls.
Proof. intros [A1 B C]. constructor; auto. intros id w H. apply watch_ok_mono. apply A1. exact H. Qed.

Lemma winv_fresh db ws ls : WInv db ws ls -> wget ws (N.of_nat (length db)) = None.
Proof.
  intros [A1 _ _]. destruct (wget ws (N.of_nat (length db))) as [w|] eqn:E; [|reflexivity].
  destruct (A1 _ _ E) as [c [Hn _]]. rewrite Nat2N.id in Hn.
  assert (length db < length db)%nat by (apply nth_error_Some; rewrite Hn; discriminate). lia.
Qed.

(* only the trail part of the propagate state changes *)
Lemma sinv_trail st rem ps lg :
  SInvP st rem -> ps_watch ps = ps_watch (s_ps st) -> ps_lists ps = ps_lists (s_ps st) -> tnodup ps ->
  SInvP (with_ps st ps lg) rem.
Proof. intros [A1 B C D] Ew El Hn. constructor; simpl; auto. rewrite Ew, El. exact C. Qed.

Lemma tnodup_push ps e : tnodup ps -> pvalue ps (tvar e) = None -> tnodup (push_entry ps e).
Proof.
  intros Hn Hu. unfold tnodup, push_entry in *. simpl. unfold tl_lits. simpl. unfold tvar, pvalue in Hu.
  destruct (t_lit e) as [v b]. simpl in *. fold (tl_lits (ps_trail ps)). rewrite Hu. exact Hn.
Qed.

Lemma tnodup_tl ps : tnodup ps -> tnodup (undo_last ps).
Proof.
  unfold tnodup, undo_last. simpl. destruct (ps_trail ps) as [|e t]; simpl; [auto|].
  unfold tl_lits. simpl. destruct (t_lit e) as [v b]. fold (tl_lits t). destruct (pval (tl_lits t) v); [discriminate | auto].
Qed.

Lemma sinv_assign st rem l level reason st' : SInvP st rem -> s_assign st l level reason = Some st' -> SInvP st' rem.
Proof.
  intros H. unfold s_assign. destruct (pvalue (s_ps st) (fst l)) as [b|] eqn:E.
  - destruct (Bool.eqb b (snd l)); intro H'; inversion H'; subst; exact H.
  - intro H'. inversion H'. subst. apply sinv_trail; auto. apply tnodup_push; [apply (si_nodup _ _ H) | exact E].
Qed.

Lemma sinv_undo_last st rem : SInvP st rem -> SInvP (s_undo_last st) rem.
Proof. intro H. unfold s_undo_last. apply sinv_trail; auto. apply tnodup_tl. apply (si_nodup _ _ H). Qed.

Lemma sinv_pop_above fuel lv : forall st rem, SInvP st rem -> SInvP (s_pop_above fuel lv st) rem.
Proof.
  induction fuel as [|f IH]; intros st rem H; simpl; [exact H|].
  destruct (ps_trail (s_ps st)) as [|e t]; [exact H|]. destruct (N.leb (t_level e) lv); [exact H|].
  apply IH. apply sinv_undo_last. exact H.
Qed.

Lemma sinv_undo_until st rem lv : SInvP st rem -> SInvP (s_undo_until st lv) rem.
Proof.
  intro H. unfold s_undo_until.
  assert (H1 : SInvP (with_ps st (s_ps st) (LUndoUntil lv :: s_log st)) rem) by (apply sinv_trail; auto; apply (si_nodup _ _ H)).
  destruct (N.eqb lv 0).
  - match goal with |- SInvP (with_born ?X _) _ => assert (HX : SInvP X rem) by (apply sinv_trail; auto; reflexivity);
      destruct HX as [A1 B C D]; constructor; assumption end.
  - apply sinv_pop_above. exact H1.
Qed.

Lemma sinv_pops n : forall st rem, SInvP st rem -> SInvP (s_pops n st) rem.
Proof. induction n as [|n IH]; intros st rem H; simpl; [exact H | apply IH; apply sinv_undo_last; exact H]. Qed.

(* ---------- clauses entering the database ---------- *)

Lemma filter_snoc_true db c : enc_kind c = true -> filter enc_kind (db ++ [c]) = filter enc_kind db ++ [c].
Proof. intro H. rewrite filter_app. simpl. rewrite H. reflexivity. Qed.

Lemma filter_snoc_false db c : enc_kind c = false -> filter enc_kind (db ++ [c]) = filter enc_kind db.
Proof. intro H. rewrite filter_app. simpl. rewrite H. apply app_nil_r. Qed.

Lemma sinv_add_clause st rem confl c idx :
  SInvP st (c :: rem) -> enc_kind c = true -> factb U P idx c = true ->
  SInvP (fst (add_clause (st, confl) c)) rem.
Proof.
  intros [A1 B C D] Hk Hf. unfold add_clause. simpl. constructor; simpl.
  - exact A1.
  - rewrite (filter_snoc_true _ _ Hk), <- app_assoc. exact B.
  - destruct (w_watch (create (tr_lits st) c)) as [w|] eqn:Ew.
    + unfold start_watching. simpl. apply winv_start.
      * apply winv_mono. exact C.
      * apply (winv_fresh _ _ _ C).
      * apply (create_watch_ok U P (s_db st) idx (tr_lits st) c w Hf Ew).
    + apply winv_mono. exact C.
  - destruct (w_watch (create (tr_lits st) c)); exact D.
Qed.

Lemma sinv_add_clauses idx : forall new st confl rem,
  SInvP st (new ++ rem) -> Forall (fun c => enc_kind c = true) new -> Forall (fun c => factb U P idx c = true) new ->
  SInvP (fst (fold_left add_clause new (st, confl))) rem.
Proof.
  induction new as [|c t IH]; intros st confl rem H Hk Hf; cbn [fold_left]; [exact H|].
  inversion Hk as [|? ? Hk1 Hk2]. inversion Hf as [|? ? Hf1 Hf2]. subst.
  pose proof (sinv_add_clause st (t ++ rem) confl c idx H Hk1 Hf1) as Hs.
  destruct (add_clause (st, confl) c) as [st1 confl1] eqn:E. simpl in Hs.
  apply IH; [exact Hs | exact Hk2 | exact Hf2].
Qed.

(* the encoder moved on: its new clauses are absorbed *)
Lemma sinv_absorb st enc1 :
  SInv st -> EInv U P enc1 -> ext (s_enc st) enc1 -> SInv (fst (absorb st enc1)).
Proof.
  intros [A1 B C D] HE [x [Ex Fx]]. unfold absorb. rewrite app_nil_r in B.
  assert (Hnew : skipn (length (e_db (s_enc st))) (e_db enc1) = x).
  { rewrite Ex. rewrite skipn_app, skipn_all, Nat.sub_diag. reflexivity. }
  rewrite Hnew.
  apply (sinv_add_clauses (trk_idx (e_trk enc1))); [| exact Fx |].
  - constructor; simpl; auto. rewrite app_nil_r, B. symmetry. exact Ex.
  - apply Forall_forall. intros c Hc. apply (einv_facts U P enc1 HE). rewrite Ex. apply in_or_app. right. exact Hc.
Qed.


Lemma sinv_eq (st st' : sst) rem :
  s_enc st' = s_enc st -> s_db st' = s_db st -> s_ps st' = s_ps st -> SInvP st rem -> SInvP st' rem.
Proof. intros E1 E2 E3 [A1 B C D]. constructor; rewrite ?E1, ?E2, ?E3; assumption. Qed.

(* ---------- the encoder ---------- *)

Lemma enc_fifo_inv : forall fuel falses enc work enc',
  EInv U P enc -> Forall (task_ok U P) work -> enc_fifo U P fuel falses enc work = Some enc' ->
  EInv U P enc' /\ ext enc enc'.
Proof.
  induction fuel as [|f IH]; intros falses enc work enc' HE Hw H; destruct work as [|k rest]; cbn [enc_fifo] in H; try discriminate.
  - inversion H. subst. split; [exact HE | apply ext_refl].
  - inversion H. subst. split; [exact HE | apply ext_refl].
  - destruct (run_one U P falses enc k) as [enc1 w1] eqn:E1.
    inversion Hw as [|? ? Hk Hrest]. subst.
    destruct (einv_run_one U P HW _ _ _ _ _ HE Hk E1) as [HE1 Hw1].
    destruct (IH _ _ _ _ HE1 (proj2 (Forall_app _ _ _) (conj Hrest Hw1)) H) as [R1 R2].
    split; [exact R1 | eapply ext_trans; [eapply ext_run_one; eauto | exact R2]].
Qed.

Lemma enc_ordered_inv falses : forall order enc work enc' order',
  EInv U P enc -> Forall (task_ok U P) work -> enc_ordered U P falses enc work order = Some (enc', order') ->
  EInv U P enc' /\ ext enc enc'.
Proof.
  induction order as [|k order IH]; intros enc work enc' order' HE Hw H; destruct work as [|t0 rest]; cbn [enc_ordered] in H; try discriminate.
  - inversion H. subst. split; [exact HE | apply ext_refl].
  - inversion H. subst. split; [exact HE | apply ext_refl].
  - destruct (remove_task k (t0 :: rest)) as [work'|] eqn:Er; [|discriminate].
    destruct (remove_task_Forall k _ _ Er Hw) as [Hk Hw'].
    destruct (run_one U P falses enc k) as [enc1 w1] eqn:E1.
    destruct (einv_run_one U P HW _ _ _ _ _ HE Hk E1) as [HE1 Hw1].
    destruct (IH _ _ _ _ HE1 (proj2 (Forall_app _ _ _) (conj Hw' Hw1)) H) as [R1 R2].
    split; [exact R1 | eapply ext_trans; [eapply ext_run_one; eauto | exact R2]].
Qed.

Lemma sinv_encode fuel st sos st' confl : SInv st -> encode U P fuel st sos = Some (st', confl) -> SInv st'.
Proof.
  intros HS H. unfold encode in H.
  destruct (queue_solvables (s_enc st) sos) as [enc1 w] eqn:Eq.
  pose proof (einv_queue_solvables U P sos _ _ _ (si_enc _ _ HS) Eq) as HE1.
  pose proof (queue_solvables_tasks U P sos _ _ _ Eq) as Hw.
  pose proof (ext_queue_solvables sos _ _ _ Eq) as Hx1.
  destruct (s_order st) as [order|].
  - destruct (enc_ordered U P (falses_of (tr_lits st)) enc1 w order) as [[enc2 order']|] eqn:Eo; [|discriminate].
    destruct (enc_ordered_inv _ _ _ _ _ _ HE1 Hw Eo) as [HE2 Hx2].
    pose proof (sinv_absorb st enc2 HS HE2 (ext_trans _ _ _ Hx1 Hx2)) as HA.
    destruct (absorb st enc2) as [st1 confl1]. inversion H. subst. simpl in HA.
    apply (sinv_eq st1); auto.
  - destruct (enc_fifo U P fuel (falses_of (tr_lits st)) enc1 w) as [enc2|] eqn:Ef; [|discriminate].
    destruct (enc_fifo_inv _ _ _ _ _ HE1 Hw Ef) as [HE2 Hx2].
    pose proof (sinv_absorb st enc2 HS HE2 (ext_trans _ _ _ Hx1 Hx2)) as HA.
    inversion H. rewrite H1 in HA. exact HA.
Qed.

(* ---------- propagate ---------- *)

Lemma assert_all_struct level : forall l st st' r,
  tnodup st -> assert_all level l st = (st', r) ->
  tnodup st' /\ ps_watch st' = ps_watch st /\ ps_lists st' = ps_lists st.
Proof.
  induction l as [|[x id] t IH]; intros st st' r Hn H; simpl in H.
  - inversion H. subst. auto.
  - pose proof (try_add_gen st x level id) as Hta. destruct (try_add st x level id) as [st1|] eqn:Eta.
    + destruct Hta as [[E _]|[Hun E]].
      * subst st1. apply (IH _ _ _ Hn H).
      * assert (Hn1 : tnodup st1).
        { subst st1. apply (tnodup_push st (mkT x level id) Hn). exact Hun. }
        destruct (IH _ _ _ Hn1 H) as [R1 [R2 R3]]. subst st1. simpl in R2, R3. auto.
    + inversion H. subst. auto.
Qed.

Lemma propagate_struct db level asserts units st st' r :
  WInv db (ps_watch st) (ps_lists st) -> tnodup st -> propagate db level asserts units st = Some (st', r) ->
  WInv db (ps_watch st') (ps_lists st') /\ tnodup st'.
Proof.
  intros HWi Hn H. unfold propagate in H.
  destruct (assert_all level asserts st) as [st1 r1] eqn:E1.
  destruct (assert_all_struct level _ _ _ _ Hn E1) as [A1 [A2 A3]].
  destruct r1 as [c1|].
  - inversion H. subst. rewrite A2, A3. auto.
  - destruct (assert_all level units st1) as [st2 r2] eqn:E2.
    destruct (assert_all_struct level _ _ _ _ A1 E2) as [B1 [B2 B3]].
    destruct r2 as [c2|].
    + inversion H. subst. rewrite B2, B3, A2, A3. auto.
    + assert (HW2 : WInv db (ps_watch st2) (ps_lists st2)) by (rewrite B2, B3, A2, A3; exact HWi).
      destruct (prop_loop_sound db level _ _ _ _ HW2 B1 H) as [C1 [C2 _]]. auto.
Qed.

Lemma sinv_propagate st level st' r : SInv st -> s_propagate st level = Some (st', r) -> SInv st'.
Proof.
  intros [A1 B C D] H. unfold s_propagate in H.
  destruct (propagate (s_db st) level (s_asserts st) (s_units st) (s_ps st)) as [[ps1 conf]|] eqn:Ep; [|discriminate].
  destruct (propagate_struct _ _ _ _ _ _ _ C D Ep) as [C1 D1]. inversion H. subst. constructor; simpl; auto.
Qed.

(* ---------- learning ---------- *)

Lemma sinv_add_learnt (st1 : sst) why lits (w : option (lit * lit)) units act ok born :
  SInv st1 ->
  (forall x, w = Some x -> In (fst x) lits /\ In (snd x) lits /\ fst x <> snd x) ->
  SInv (mkS (s_enc st1) (s_db st1 ++ [mkCl (KLearnt why) lits])
            (match w with Some x => start_watching (s_ps st1) (N.of_nat (length (s_db st1))) x | None => s_ps st1 end)
            (s_asserts st1) units act (s_start st1) (s_log st1) (s_order st1) ok born).
Proof.
  intros [A1 B C D] Hw. constructor; simpl.
  - exact A1.
  - rewrite filter_snoc_false by reflexivity. exact B.
  - destruct w as [x|]; [|apply winv_mono; exact C].
    destruct (Hw x eq_refl) as [H0 [H1 Hne]]. unfold start_watching. simpl. apply winv_start.
    + apply winv_mono. exact C.
    + apply (winv_fresh _ _ _ C).
    + exists (mkCl (KLearnt why) lits). split; [apply nth_error_snoc|]. simpl. repeat split; auto.
  - destruct w; exact D.
Qed.

Lemma sinv_learn st conf st' lv : SInv st -> learn U a_conflict st conf = Some (st', lv) -> SInv st'.
Proof.
  intros HS H. unfold learn in H.
  destruct (analyze (s_db st) (ps_trail (s_ps st)) conf) as [r|]; [|discriminate]. cbv zeta in H.
  pose proof (sinv_pops (r_pops r) st [] HS) as H1. set (st1 := s_pops (r_pops r) st) in *.
  destruct (r_learnt r) as [|f [|g t]] eqn:El.
  - simpl in H. discriminate.
  - simpl in H.
    match type of H with
    | context [s_undo_until ?X ?T] =>
        assert (H2 : SInv X) by (apply (sinv_add_learnt st1 (r_why r) [f] None _ _ _ _ H1); intros x E; discriminate E);
        pose proof (sinv_undo_until X [] T H2) as H3
    end.
    match type of H with
    | context [s_assign ?X ?L ?T ?I] => destruct (s_assign X L T I) as [st4|] eqn:Ea; [|discriminate]
    end.
    inversion H. subst. eapply sinv_assign; [exact H3 | exact Ea].
  - destruct (rev (f :: g :: t)) as [|last rl] eqn:Er; [simpl in H; discriminate|].
    destruct (lit_eqb f last) eqn:Efl; cbn [negb] in H; [discriminate|].
    match type of H with
    | context [s_undo_until ?X ?T] =>
        assert (H2 : SInv X);
        [ apply (sinv_add_learnt st1 (r_why r) (f :: g :: t) (Some (f, last)) _ _ _ _ H1);
          intros x E; inversion E; subst x; cbn [fst snd];
          split; [left; reflexivity | split; [apply in_rev; rewrite Er; left; reflexivity
                 | intro E'; subst; rewrite lit_eqb_refl in Efl; discriminate]]
        | pose proof (sinv_undo_until X [] T H2) as H3 ]
    end.
    match type of H with
    | context [s_assign ?X ?L ?T ?I] => destruct (s_assign X L T I) as [st4|] eqn:Ea; [|discriminate]
    end.
    inversion H. subst. eapply sinv_assign; [exact H3 | exact Ea].
Qed.


(* ---------- the loops ---------- *)

Definition step_inv (r : step_res A) : Prop :=
  match r with RLevel st _ => SInv st | RUnsat st _ => SInv st | _ => True end.
Definition run_inv (r : run_res A) : Prop :=
  match r with ROk st _ => SInv st | RErr st _ => SInv st | _ => True end.

Lemma sinv_prop_learn : forall fuel st level, SInv st -> step_inv (prop_learn U a_conflict fuel st level).
Proof.
  induction fuel as [|f IH]; intros st level HS; cbn [prop_learn]; [exact I|].
  destruct (s_propagate st level) as [[st1 [conf|]]|] eqn:Ep; [| |exact I].
  - pose proof (sinv_propagate _ _ _ _ HS Ep) as H1.
    destruct (N.eqb level 1).
    + destruct (unsolvable (s_db st1) (ps_trail (s_ps st1)) conf) as [[core ok]|]; [apply (sinv_eq st1); auto | exact I].
    + destruct (learn U a_conflict st1 conf) as [[st2 lv]|] eqn:El; [|exact I].
      apply IH. apply (sinv_learn _ _ _ _ H1 El).
  - apply (sinv_propagate _ _ _ _ HS Ep).
Qed.

Lemma sinv_resolve : forall fuel st level, SInv st -> step_inv (resolve U a_ge a_conflict fuel st level).
Proof.
  induction fuel as [|f IH]; intros st level HS; cbn [resolve]; [exact I|].
  destruct (decide U (a_ge (s_act st)) (s_db st) (tr_lits st)) as [[d|]|]; [| exact HS | exact I].
  destruct (s_assign st (VSol (pd_cand d), true) (N.succ level) (pd_clause d)) as [st1|] eqn:Ea; [|exact I].
  pose proof (sinv_assign _ _ _ _ _ _ HS Ea) as H1.
  pose proof (sinv_prop_learn f st1 (N.succ level) H1) as H2.
  destruct (prop_learn U a_conflict f st1 (N.succ level)) as [st2 lv|st2 core| |]; try exact I.
  - apply IH. exact H2.
  - exact H2.
Qed.

Lemma sinv_reject st so start conf : SInv st -> run_inv (reject st so start conf).
Proof.
  intro HS. unfold reject. destruct (N.eqb start 0).
  - destruct (unsolvable (s_db st) (ps_trail (s_ps st)) conf) as [[core ok]|]; [apply (sinv_eq st); auto | exact I].
  - destruct (s_assign (s_undo_until st start) (so_var so, false) (N.succ start) 0) as [st2|] eqn:Ea; [|exact I].
    apply (sinv_assign _ _ _ _ _ _ (sinv_undo_until _ _ _ HS) Ea).
Qed.

Lemma sinv_run_loop efuel so start : forall fuel st level, SInv st -> run_inv (run_loop U P a_ge a_conflict fuel efuel st so start level).
Proof.
  induction fuel as [|f IH]; intros st level HS; cbn [run_loop]; [exact I|].
  (* the (re)start *)
  set (first := if N.eqb level start then
                  match s_assign st (so_var so, true) (N.succ start) 0 with
                  | None => None
                  | Some st1 => match encode U P efuel st1 [so] with
                                | None => None
                                | Some (st2, confl) => Some (st2, N.succ start, find (clause_falsified st2) confl)
                                end
                  end
                else Some (st, level, None)).
  assert (Hfirst : match first with Some (st2, _, _) => SInv st2 | None => True end).
  { unfold first. destruct (N.eqb level start); [|exact HS].
    destruct (s_assign st (so_var so, true) (N.succ start) 0) as [st1|] eqn:Ea; [|exact I].
    pose proof (sinv_assign _ _ _ _ _ _ HS Ea) as H1.
    destruct (encode U P efuel st1 [so]) as [[st2 confl]|] eqn:Ee; [|exact I].
    apply (sinv_encode _ _ _ _ _ H1 Ee). }
  destruct first as [[[st2 level2] [conf|]]|]; [| |exact I].
  - apply sinv_reject. exact Hfirst.
  - destruct (s_propagate st2 level2) as [[st3 [conf|]]|] eqn:Ep; [| |exact I].
    + pose proof (sinv_propagate _ _ _ _ Hfirst Ep) as H3.
      destruct (N.eqb level2 (N.succ start)); [apply sinv_reject; exact H3|].
      apply IH. apply sinv_undo_until. exact H3.
    + pose proof (sinv_propagate _ _ _ _ Hfirst Ep) as H3.
      pose proof (sinv_resolve f st3 level2 H3) as H4.
      destruct (resolve U a_ge a_conflict f st3 level2) as [st4 level4|st4 core| |]; try exact I; [|exact H4].
      destruct (new_solvables st4) as [|s0 sos]; [exact H4|].
      destruct (encode U P efuel st4 (s0 :: sos)) as [[st5 [|c0 confl]]|] eqn:Ee; [| |exact I].
      * apply IH. apply (sinv_encode _ _ _ _ _ H4 Ee).
      * apply IH. apply sinv_undo_until. apply (sinv_encode _ _ _ _ _ H4 Ee).
Qed.

Lemma sinv_run_sat fuel efuel st so : SInv st -> run_inv (run_sat U P a_ge a_conflict fuel efuel st so).
Proof. intro HS. unfold run_sat. apply sinv_run_loop. apply (sinv_eq st); auto. Qed.

Lemma sinv_soft_loop fuel efuel : forall softs st, SInv st -> run_inv (soft_loop U P a_ge a_conflict fuel efuel st softs).
Proof.
  induction softs as [|s t IH]; intros st HS; cbn [soft_loop]; [exact HS|].
  destruct (pvalue (s_ps st) (VSol s)); [apply IH; exact HS|].
  match goal with |- context [absorb ?X ?E] =>
    assert (H0 : SInv X) by (apply (sinv_eq st); auto);
    pose proof (sinv_absorb X E H0 (einv_register U P _ s (si_enc _ _ H0)) (ext_register U _ s)) as H1;
    destruct (absorb X E) as [st1 c1]
  end. simpl in H1.
  pose proof (sinv_run_sat fuel efuel st1 (Some s) H1) as H2.
  destruct (run_sat U P a_ge a_conflict fuel efuel st1 (Some s)) as [st2 acc|st2 core| |]; try exact I.
  - apply IH. exact H2.
  - exact H2.
Qed.

(* THE statement: whatever the provider, the problem, the fuel and the completion order, the state the
   solver model ends in -- and, by the lemmas above, every state it passes through -- satisfies SInv *)
Theorem solve_inv fuel efuel a0 order o st :
  solve U P a_ge a_conflict fuel efuel a0 order = (o, st) -> SInv st.
Proof.
  unfold solve.
  set (st0 := mkS (estate0 cache0) [mkCl KRoot [(VRoot, true)]] ps0 [] [] a0 0 [] order true []).
  assert (H0 : SInv st0).
  { constructor; simpl; [apply einv0 | reflexivity | apply winv0 | reflexivity]. }
  pose proof (sinv_run_sat fuel efuel st0 None H0) as H1.
  destruct (run_sat U P a_ge a_conflict fuel efuel st0 None) as [st1 [|]|st1 core| |].
  - pose proof (sinv_soft_loop fuel efuel (pr_soft P) st1 H1) as H2.
    destruct (soft_loop U P a_ge a_conflict fuel efuel st1 (pr_soft P)) as [st2 acc|st2 core| |];
      intro H; inversion H; subst; assumption.
  - intro H. inversion H. subst. exact H1.
  - intro H. inversion H. subst. exact H1.
  - intro H. inversion H. subst. exact H0.
  - intro H. inversion H. subst. exact H0.
Qed.


(* ---------- what the invariant gives at the calls of propagate and decide ---------- *)

(* in every state of the solver model, a call of propagate only makes justified assignments and only
   reports falsified clauses -- provided the assertions are justified (single-literal clauses always
   are; a lock assertion needs the root to be installed) *)
Theorem sinv_propagate_sound st level st' r :
  SInv st ->
  (forall x, In x (s_asserts st ++ s_units st) -> assert_just (s_db st) (s_ps st) x = true) ->
  s_propagate st level = Some (st', r) ->
  grows (s_db st) (ps_trail (s_ps st)) (ps_trail (s_ps st')) /\
  (forall id, r = Some id -> exists c, nth_error (s_db st) (N.to_nat id) = Some c /\ falsified (ps_trail (s_ps st')) (cl_lits c) = true).
Proof.
  intros [A1 B C D] Hj H. unfold s_propagate in H.
  destruct (propagate (s_db st) level (s_asserts st) (s_units st) (s_ps st)) as [[ps1 conf]|] eqn:Ep; [|discriminate].
  destruct (propagate_sound _ _ _ _ _ _ _ C D Hj Ep) as [_ [_ [G F]]]. inversion H. subst. simpl. split; [exact G|].
  intros id E. destruct conf as [[o id0]|]; [|discriminate]. simpl in E. inversion E. subst. apply (F o id eq_refl).
Qed.

(* every Requires clause of the database is well-formed (the hypothesis of decide_legal) *)
Lemma factb_req_wf idx c : factb U P idx c = true -> req_wf U c = true.
Proof.
  unfold factb, req_wf. destruct (ck c); auto. intro H.
  apply andb_true_iff in H. destruct H as [H Hl]. apply andb_true_iff in H. destruct H as [_ Hc].
  apply andb_true_iff. split; [|exact Hl]. apply Nat.eqb_eq.
  clear Hl. revert Hc. generalize (req_vss U r). intro vss. revert cands.
  induction vss as [|v t IH]; intros [|x cands]; simpl; try discriminate; [reflexivity|].
  intro H. apply andb_true_iff in H. destruct H as [_ H]. f_equal. apply IH. exact H.
Qed.

Theorem sinv_req_wf st : SInv st -> forall c, In c (s_db st) -> req_wf U c = true.
Proof.
  intros [A1 B C D] c Hc. destruct (enc_kind c) eqn:Ek.
  - assert (Hin : In c (e_db (s_enc st))).
    { rewrite <- B, app_nil_r. apply filter_In. split; assumption. }
    apply (factb_req_wf (trk_idx (e_trk (s_enc st)))). apply (einv_facts U P _ A1 c Hin).
  - unfold enc_kind in Ek. unfold req_wf. destruct (ck c); try reflexivity; discriminate.
Qed.

(* in every state of the solver model, what decide proposes is a legal decision of the abstract machine *)
Theorem sinv_decide_legal st d :
  SInv st -> root_first (s_db st) = true -> lit_istrue (tr_lits st) (VRoot, true) = true ->
  decide U (a_ge (s_act st)) (s_db st) (tr_lits st) = Some (Some d) ->
  exists c, nth_error (s_db st) (N.to_nat (pd_clause d)) = Some c /\
            decision_kind (s_db st) (tr_lits st) c (VSol (pd_cand d), true) = Some (if is_vroot (pd_parent d) then ERootDec else EDec).
Proof.
  intros HS Hrf Hroot H. apply (decide_legal U (a_ge (s_act st)) (tr_lits st) (s_db st) (sinv_req_wf st HS) d Hrf Hroot H).
Qed.

(* the non-learnt part of the database never contains anything but facts *)
Theorem sinv_facts st : SInv st -> forall c, In c (s_db st) -> enc_kind c = true ->
  factb U P (trk_idx (e_trk (s_enc st))) c = true.
Proof.
  intros [A1 B C D] c Hc Hk. apply (einv_facts U P _ A1). rewrite <- B, app_nil_r. apply filter_In. split; assumption.
Qed.

End SolverInv.
