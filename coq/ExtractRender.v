(* Extraction of the conflict message renderer model (Conflict/Render.v) for
   volume runs: ocaml/render_driver.ml, tools/props/render_tie.py.
   string -> char list, ascii -> char (ExtrOcamlString); N / positive / nat
   stay as the extracted inductive datatypes. *)
From Coq Require Import Extraction ExtrOcamlBasic ExtrOcamlString.
From Resolvo Require Import Conflict.Render.
Extraction Language OCaml.
Extraction "render.ml" mkRGraph render_harness graph_wf dfs_post_order installable_set missing_set lin_bound.
