(* Float/SolverRun.v -- the solver model with the activity scores of the
   implementation (binary32), and the whole-run correspondence check: the
   result, the complete sequence of trail events (every assignment with level and
   reason, every undo), the clause database (every clause incl. the learnt ones
   with their derivation lists) and the provider calls of a synchronous solve
   must equal what the model computes from the provider data and the problem
   alone. *)
From Resolvo Require Export Cdcl.Solver Float.Activity.

Definition solve_default (U : provider) (P : problem) (fuel efuel : nat) (order : option (list task)) : outcome * sstate amap :=
  solve U P a_ge (aconflict f_one f_095) fuel efuel [] order.

Definition levent_eqb (a b : levent) : bool :=
  match a, b with
  | LAssign l lv r, LAssign l' lv' r' => lit_eqb l l' && N.eqb lv lv' && N.eqb r r'
  | LUndoLast, LUndoLast => true
  | LUndoUntil x, LUndoUntil y => N.eqb x y
  | LSoft, LSoft => true
  | _, _ => false
  end.

Fixpoint levents_eqb (a b : list levent) : bool :=
  match a, b with
  | [], [] => true
  | x :: a', y :: b' => levent_eqb x y && levents_eqb a' b'
  | _, _ => false
  end.

(* number of leading events on which two logs agree (for diagnostics) *)
Fixpoint common_prefix (a b : list levent) (n : N) : N :=
  match a, b with
  | x :: a', y :: b' => if levent_eqb x y then common_prefix a' b' (N.succ n) else n
  | _, _ => n
  end.

Definition cl_same_full (a b : cl) : bool :=
  match ck a, ck b with
  | KLearnt w, KLearnt w' => nl_eqb' w w' && lits_eqb (cl_lits a) (cl_lits b)
  | _, _ => cl_same a b
  end.

Fixpoint cls_same_full (a b : list cl) : bool :=
  match a, b with
  | [], [] => true
  | x :: a', y :: b' => cl_same_full x y && cls_same_full a' b'
  | _, _ => false
  end.

(* what the implementation did: 0 = solution (in stack order), 1 = Unsolvable with these clause ids *)
Definition outcome_eqb (o : outcome) (kind : N) (l : list N) : bool :=
  match o with
  | OSat s => N.eqb kind 0 && nl_eqb' s l
  | OUnsat c => N.eqb kind 1 && nl_eqb' c l
  | _ => false
  end.

Definition outcome_code (o : outcome) : N :=
  match o with OSat _ => 0 | OUnsat _ => 1 | OPanic => 2 | OFuel => 3 end.

(* (model outcome code, outcome equal, log equal, database equal, provider calls equal, agreeing prefix of the log,
   the model's accumulated side conditions s_ok: hypothesis of solve_no_false_unsat,
   size of the ghost set s_born at the end: the clauses exempt from solve_sat_loses_no_clause,
   provider calls equal as multisets) *)
Definition check_solver (U : provider) (P : problem) (fuel efuel : nat) (order : option (list task))
           (kind : N) (res : list N) (evs : list levent) (db : list cl) (calls : list pcall)
  : N * bool * bool * bool * bool * N * bool * N * bool :=
  let '(o, st) := solve_default U P fuel efuel order in
  let lg := rev (s_log st) in
  (outcome_code o, outcome_eqb o kind res, levents_eqb lg evs, cls_same_full (s_db st) db,
   pcalls_eqb (e_calls (s_enc st)) calls, common_prefix lg evs 0, s_ok st, N.of_nat (length (s_born st)),
   pcalls_permb (e_calls (s_enc st)) calls).
