(* Float/DecideRun.v -- replaying a hook log against the decide model: at every
   call of Solver::decide (event DDecide n: the number of clauses allocated at
   that moment) the model, run on the first n clauses of the dumped database,
   the current assignment and the activity scores accumulated so far, must pick
   the candidate and the clause of the assignment that follows -- or nothing,
   when nothing follows. *)
From Resolvo Require Export Cdcl.Decide Cdcl.PropComplete Cdcl.AnalyzeRun Float.Activity.

Inductive devent :=
| DAssign (l : lit) (reason : N)
| DUndoLast
| DUndoUntil (level : N)
| DDecide (nclauses : N)
| DOther.                         (* anything else that separates an undo_until from a conflict analysis *)

Section Run.
Variable U : provider.
Variable add decay : f32.
Variable db : list cl.

Definition lit_names (ls : list lit) : list N :=
  flat_map (fun l => match fst l with VSol s => [p_sol_name U s] | _ => [] end) ls.

Definition learnt_names (id : N) : list N :=
  match nth_error db (N.to_nat id) with Some c => lit_names (cl_lits c) | None => [] end.

(* what the decide call predicted for the next event *)
Inductive pending := PNone | PNothing | PDec (cand clause : N).

(* (decide calls compared, all equal, propagation complete at every call) *)
Fixpoint dreplay (evs : list devent) (pa : list lit) (m : amap) (ids : list N) (undoing : bool) (p : pending) (n : N) (cok : bool)
  : N * bool * bool :=
  match evs with
  | [] => (n, true, cok)
  | e :: t =>
    match p, e with
    | PDec cand clause, DAssign l reason =>
        if lit_eqb l (VSol cand, true) && N.eqb reason clause then dreplay t (l :: pa) m ids false PNone n cok else (n, false, cok)
    | PDec _ _, _ => (n, false, cok)
    | _, DAssign l reason => dreplay t (l :: pa) m ids false PNone n cok
    | _, DUndoLast =>
        if undoing then dreplay t (tl pa) m ids true PNone n cok
        else (* a bare undo_last: a conflict analysis starts; its learnt clause is the next one *)
          match ids with
          | id :: ids' => dreplay t (tl pa) (aconflict add decay m (learnt_names id)) ids' true PNone n cok
          | [] => (n, false, cok)
          end
    | _, DUndoUntil lv => dreplay t (if N.eqb lv 0 then [] else pa) m ids true PNone n cok
    | _, DOther => dreplay t pa m ids false PNone n cok
    | _, DDecide k =>
        let dbk := firstn (N.to_nat k) db in
        (* hypotheses of decide_legal, evaluated at every call *)
        let cok' := cok && prop_complete dbk pa in
        if negb (root_first dbk && forallb (req_wf U) dbk && lit_istrue pa (VRoot, true)) then (n, false, cok') else
        match decide U (a_ge m) dbk pa with
        | None => (n, false, cok')                            (* the model says unreachable!() *)
        | Some None => dreplay t pa m ids false PNothing (N.succ n) cok'
        | Some (Some d) => dreplay t pa m ids false (PDec (pd_cand d) (pd_clause d)) (N.succ n) cok'
        end
    end
  end.

Definition check_decides (evs : list devent) : N * bool * bool :=
  dreplay evs [] [] (learnt_ids db 0) false PNone 0 true.

End Run.

Definition check_decides_default (U : provider) (db : list cl) (evs : list devent) : N * bool * bool :=
  check_decides U f_one f_095 db evs.
