(* Float/Activity.v -- the per-package activity scores of the solver, in the
   IEEE-754 single-precision arithmetic the implementation uses (Flocq's
   binary32, round to nearest even): every conflict analysis adds
   `activity_add` to the score of the package of every solvable literal of the
   learnt clause, then multiplies every score by `activity_decay`.

   Kept in its own directory: Flocq's files depend on the standard library's
   classical / real-number axioms (sig_not_dec, sig_forall_dec,
   functional_extensionality_dep, classic), which therefore show up under Print
   Assumptions for anything proved ABOUT these definitions.  Nothing is: the
   theorems about decide (Cdcl/DecideProofs.v) hold for every activity
   comparison; this file only supplies the comparison the implementation
   computes, for the correspondence check. *)
From Coq Require Import ZArith List NArith.
From Flocq Require Import IEEE754.BinarySingleNaN IEEE754.Binary IEEE754.Bits.
Import ListNotations.

Definition f32 := binary32.
Definition f_of_bits (z : Z) : f32 := b32_of_bits z.
Definition f_zero : f32 := b32_of_bits 0.
Definition fadd (a b : f32) : f32 := b32_plus mode_NE a b.
Definition fmul (a b : f32) : f32 := b32_mult mode_NE a b.
(* `>=` of f32: false when unordered *)
Definition fge (a b : f32) : bool := match b32_compare a b with Some Gt | Some Eq => true | _ => false end.

Definition amap := list (N * f32).

Fixpoint aget (m : amap) (n : N) : f32 :=
  match m with
  | [] => f_zero
  | (k, x) :: t => if N.eqb k n then x else aget t n
  end.

Fixpoint abump (add : f32) (m : amap) (n : N) : amap :=
  match m with
  | [] => [(n, fadd f_zero add)]
  | (k, x) :: t => if N.eqb k n then (k, fadd x add) :: t else (k, x) :: abump add t n
  end.

Definition adecay (decay : f32) (m : amap) : amap := map (fun kx => (fst kx, fmul (snd kx) decay)) m.

(* one conflict: the packages of the solvable literals of the learnt clause, in clause order *)
Definition aconflict (add decay : f32) (m : amap) (names : list N) : amap :=
  adecay decay (fold_left (abump add) names m).

Definition a_ge (m : amap) (a b : N) : bool := fge (aget m a) (aget m b).

(* 1.0f32 and 0.95f32, the defaults of Solver::new *)
Definition f_one : f32 := b32_of_bits 1065353216.
Definition f_095 : f32 := b32_of_bits 1064514355.
