//! Seeded structured generators. Every random choice derives from one Rng.
use crate::universe::*;

#[derive(Clone)]
pub struct Rng(pub u64);
impl Rng {
    pub fn new(seed: u64) -> Self {
        // splitmix to avoid weak low seeds
        let mut z = seed.wrapping_add(0x9E3779B97F4A7C15);
        z = (z ^ (z >> 30)).wrapping_mul(0xBF58476D1CE4E5B9);
        z = (z ^ (z >> 27)).wrapping_mul(0x94D049BB133111EB);
        Rng((z ^ (z >> 31)) | 1)
    }
    pub fn next(&mut self) -> u64 {
        let mut x = self.0;
        x ^= x << 13;
        x ^= x >> 7;
        x ^= x << 17;
        self.0 = x;
        x
    }
    pub fn below(&mut self, n: u64) -> u64 {
        if n == 0 { 0 } else { (self.next() >> 11) % n }
    }
    pub fn chance(&mut self, num: u64, den: u64) -> bool {
        self.below(den) < num
    }
    pub fn range(&mut self, lo: u64, hi: u64) -> u64 {
        lo + self.below(hi - lo + 1)
    }
    pub fn shuffle<T>(&mut self, v: &mut [T]) {
        for i in (1..v.len()).rev() {
            let j = self.below(i as u64 + 1) as usize;
            v.swap(i, j);
        }
    }
}

pub const F_FAVORED: u32 = 1;
pub const F_LOCKED: u32 = 2;
pub const F_EXCLUDED: u32 = 4;
pub const F_HINTS: u32 = 8;
pub const F_UNIONS: u32 = 16;
pub const F_UNKNOWN: u32 = 32;
pub const F_CONSTRAINS: u32 = 64;
pub const F_SOFT: u32 = 128;
pub const F_ALL: u32 = 255;

pub struct Shape {
    pub names: (u64, u64),
    pub cands: (u64, u64),
    pub reqs_per_sol: u64,
    pub root_reqs: (u64, u64),
    pub vs_per_name: u64,
    /// probability (x/100) that a non-first version set keeps a candidate
    pub keep: u64,
}
pub const SMALL: Shape =
    Shape { names: (2, 5), cands: (0, 3), reqs_per_sol: 2, root_reqs: (1, 3), vs_per_name: 3, keep: 50 };
pub const DENSE: Shape =
    Shape { names: (4, 7), cands: (1, 3), reqs_per_sol: 3, root_reqs: (2, 4), vs_per_name: 4, keep: 45 };

pub fn gen_universe(r: &mut Rng, feat: u32, sh: &Shape) -> (Universe, Prob) {
    let n_names = r.range(sh.names.0, sh.names.1) as u32;
    let mut u = Universe::default();
    for n in 0..n_names {
        let k = r.range(sh.cands.0, sh.cands.1) as u32;
        let mut p = Pkg::default();
        let mut ranks: Vec<u32> = (0..k).collect();
        r.shuffle(&mut ranks);
        for i in 0..k {
            let id = u.sols.len() as u32;
            u.sols.push(Sol { name: n, rank: ranks[i as usize], deps: Some(Known { reqs: vec![], cons: vec![] }) });
            p.cands.push(id);
        }
        if k == 0 && r.chance(1, 2) {
            p.missing = true;
        }
        if feat & F_FAVORED != 0 && k > 0 && r.chance(1, 5) {
            p.favored = Some(p.cands[r.below(k as u64) as usize]);
        }
        if feat & F_LOCKED != 0 && k > 0 && r.chance(1, 8) {
            p.locked = Some(p.cands[r.below(k as u64) as usize]);
        }
        if feat & F_EXCLUDED != 0 {
            for &c in &p.cands.clone() {
                if r.chance(1, 8) {
                    p.excluded.push(c);
                }
            }
        }
        if feat & F_HINTS != 0 {
            p.hint = match r.below(3) {
                0 => Hint::None,
                1 => Hint::All,
                _ => Hint::Some(p.cands.iter().copied().filter(|_| r.chance(1, 2)).collect()),
            };
        }
        u.pkgs.push(p);
    }
    // candidate lists are presented in a shuffled order (the provider's sort decides preference)
    for p in u.pkgs.iter_mut() {
        r.shuffle(&mut p.cands);
    }
    for n in 0..n_names {
        let cands = u.pkgs[n as usize].cands.clone();
        let nvs = 1 + r.below(sh.vs_per_name);
        for j in 0..nvs {
            let matching: Vec<u32> = if j == 0 {
                cands.clone()
            } else {
                cands.iter().copied().filter(|_| r.chance(sh.keep, 100)).collect()
            };
            u.vss.push(Vs { name: n, matching });
        }
    }
    let nvs = u.vss.len() as u64;
    if feat & F_UNIONS != 0 {
        for _ in 0..r.below(3) {
            let k = 2 + r.below(2);
            let mut m = vec![];
            for _ in 0..k {
                m.push(r.below(nvs) as u32);
            }
            u.unions.push(m);
        }
    }
    let nun = u.unions.len() as u64;
    let mkreq = |r: &mut Rng| {
        if nun > 0 && r.chance(1, 5) { Req::Union(r.below(nun) as u32) } else { Req::Single(r.below(nvs) as u32) }
    };
    for s in 0..u.sols.len() {
        if feat & F_UNKNOWN != 0 && r.chance(1, 20) {
            u.sols[s].deps = None;
            continue;
        }
        let mut reqs = vec![];
        for _ in 0..r.below(sh.reqs_per_sol + 1) {
            reqs.push(mkreq(r));
        }
        let mut cons = vec![];
        if feat & F_CONSTRAINS != 0 && r.chance(1, 3) {
            cons.push(r.below(nvs) as u32);
        }
        u.sols[s].deps = Some(Known { reqs, cons });
    }
    let mut reqs = vec![];
    for _ in 0..r.range(sh.root_reqs.0, sh.root_reqs.1) {
        reqs.push(mkreq(r));
    }
    let mut cons = vec![];
    if feat & F_CONSTRAINS != 0 && r.chance(1, 4) {
        cons.push(r.below(nvs) as u32);
    }
    let mut soft = vec![];
    if feat & F_SOFT != 0 && !u.sols.is_empty() {
        for _ in 0..r.below(4) {
            soft.push(r.below(u.sols.len() as u64) as u32);
        }
    }
    (u, Prob { reqs, cons, soft })
}

/// Conflict-free-by-construction universes: chains, diamonds, cycles, unions,
/// favored. Every version set matches all candidates of its package so the
/// first-ranked candidates are mutually compatible.
pub fn gen_greedy(r: &mut Rng, feat: u32) -> (Universe, Prob) {
    let n_names = r.range(2, 8) as u32;
    let mut u = Universe::default();
    for n in 0..n_names {
        let k = r.range(1, 4) as u32;
        let mut p = Pkg::default();
        let mut ranks: Vec<u32> = (0..k).collect();
        r.shuffle(&mut ranks);
        for i in 0..k {
            let id = u.sols.len() as u32;
            u.sols.push(Sol { name: n, rank: ranks[i as usize], deps: Some(Known { reqs: vec![], cons: vec![] }) });
            p.cands.push(id);
        }
        r.shuffle(&mut p.cands);
        if feat & F_FAVORED != 0 && r.chance(1, 3) {
            p.favored = Some(p.cands[r.below(k as u64) as usize]);
        }
        if feat & F_HINTS != 0 {
            p.hint = match r.below(3) {
                0 => Hint::None,
                1 => Hint::All,
                _ => Hint::Some(p.cands.iter().copied().filter(|_| r.chance(1, 2)).collect()),
            };
        }
        u.pkgs.push(p);
        // vs 2n: all candidates; vs 2n+1: a random nonempty subset
        let cands = u.pkgs[n as usize].cands.clone();
        u.vss.push(Vs { name: n, matching: cands.clone() });
        let mut sub: Vec<u32> = cands.iter().copied().filter(|_| r.chance(2, 3)).collect();
        if sub.is_empty() {
            sub = cands.clone();
        }
        u.vss.push(Vs { name: n, matching: sub });
    }
    if feat & F_UNIONS != 0 {
        for _ in 0..r.below(3) {
            let a = r.below(2 * n_names as u64) as u32;
            let b = r.below(2 * n_names as u64) as u32;
            u.unions.push(vec![a, b]);
        }
    }
    let nun = u.unions.len() as u64;
    let nvs = u.vss.len() as u64;
    for s in 0..u.sols.len() {
        let mut reqs = vec![];
        for _ in 0..r.below(3) {
            // mostly "any version" requirements; sometimes a subset (may break greedy_ok: fine)
            let n = r.below(n_names as u64) as u32;
            if nun > 0 && r.chance(1, 6) {
                reqs.push(Req::Union(r.below(nun) as u32));
            } else if r.chance(1, 5) {
                reqs.push(Req::Single(r.below(nvs) as u32));
            } else {
                reqs.push(Req::Single(2 * n));
            }
        }
        u.sols[s].deps = Some(Known { reqs, cons: vec![] });
    }
    let mut reqs = vec![];
    for _ in 0..r.range(1, 3) {
        let n = r.below(n_names as u64) as u32;
        reqs.push(Req::Single(2 * n + if r.chance(1, 4) { 1 } else { 0 }));
    }
    (u, Prob { reqs, cons: vec![], soft: vec![] })
}

/// Conflict-heavy universes: every package has 2-4 candidates, every version
/// set matches a non-empty random half, solvables require and constrain other
/// packages through such halves, the root asks for "any version" of a few
/// packages. First-ranked candidates usually clash somewhere below, so the
/// solver has to learn and backjump, yet most instances stay satisfiable.
pub fn gen_conflict(r: &mut Rng, feat: u32) -> (Universe, Prob) {
    gen_conflict_with(r, feat, false, false)
}

/// `empties`: version sets may match nothing (a requirement nobody can satisfy: its parent is asserted false
/// by a clause without watches), packages may be missing altogether, and hints are more frequent.
pub fn gen_conflict_with(r: &mut Rng, feat: u32, empties: bool, multi_cons: bool) -> (Universe, Prob) {
    let n_names = r.range(4, 7) as u32;
    let mut u = Universe::default();
    for n in 0..n_names {
        let k = r.range(2, 4) as u32;
        let mut p = Pkg::default();
        let mut ranks: Vec<u32> = (0..k).collect();
        r.shuffle(&mut ranks);
        for i in 0..k {
            let id = u.sols.len() as u32;
            u.sols.push(Sol { name: n, rank: ranks[i as usize], deps: Some(Known { reqs: vec![], cons: vec![] }) });
            p.cands.push(id);
        }
        r.shuffle(&mut p.cands);
        if feat & F_FAVORED != 0 && r.chance(1, 6) {
            p.favored = Some(p.cands[r.below(k as u64) as usize]);
        }
        if feat & F_LOCKED != 0 && r.chance(1, 12) {
            p.locked = Some(p.cands[r.below(k as u64) as usize]);
        }
        if feat & F_EXCLUDED != 0 && r.chance(1, 10) {
            p.excluded.push(p.cands[r.below(k as u64) as usize]);
        }
        if feat & F_HINTS != 0 {
            p.hint = match r.below(3) {
                0 => Hint::None,
                1 => Hint::All,
                _ => Hint::Some(p.cands.iter().copied().filter(|_| r.chance(1, 2)).collect()),
            };
        }
        u.pkgs.push(p);
    }
    // version sets: 3n = all, 3n+1 / 3n+2 = random non-empty halves
    for n in 0..n_names {
        let cands = u.pkgs[n as usize].cands.clone();
        u.vss.push(Vs { name: n, matching: cands.clone() });
        for _ in 0..2 {
            let mut m: Vec<u32> = cands.iter().copied().filter(|_| r.chance(1, 2)).collect();
            if m.is_empty() && !(empties && r.chance(1, 2)) {
                m.push(cands[r.below(cands.len() as u64) as usize]);
            }
            if empties && r.chance(1, 5) {
                m.clear();
            }
            u.vss.push(Vs { name: n, matching: m });
        }
    }
    if feat & F_UNIONS != 0 {
        for _ in 0..r.below(3) {
            let a = r.below(3 * n_names as u64) as u32;
            let b = r.below(3 * n_names as u64) as u32;
            u.unions.push(vec![a, b]);
        }
    }
    let nun = u.unions.len() as u64;
    for s in 0..u.sols.len() {
        let me = u.sols[s].name;
        let mut reqs = vec![];
        for _ in 0..r.range(1, 2) {
            let mut n = r.below(n_names as u64) as u32;
            if n == me {
                n = (n + 1) % n_names;
            }
            if nun > 0 && r.chance(1, 8) {
                reqs.push(Req::Union(r.below(nun) as u32));
            } else {
                reqs.push(Req::Single(3 * n + r.below(3) as u32));
            }
        }
        let mut cons = vec![];
        if feat & F_CONSTRAINS != 0 && r.chance(1, 2) {
            let mut n = r.below(n_names as u64) as u32;
            if n == me {
                n = (n + 1) % n_names;
            }
            cons.push(3 * n + 1 + r.below(2) as u32);
        }
        if multi_cons && feat & F_CONSTRAINS != 0 {
            // "conflictc": several constraints per solvable, on distinct packages (a candidate with two or more
            // Constrains edges in one conflict report)
            cons.clear();
            let mut names: Vec<u32> = (0..n_names).filter(|&n| n != me).collect();
            r.shuffle(&mut names);
            for &n in names.iter().take(r.range(2, 3) as usize) {
                cons.push(3 * n + 1 + r.below(2) as u32);
            }
        }
        u.sols[s].deps = if feat & F_UNKNOWN != 0 && r.chance(1, 30) { None } else { Some(Known { reqs, cons }) };
    }
    let mut reqs = vec![];
    let k = r.range(2, 3);
    let mut names: Vec<u32> = (0..n_names).collect();
    r.shuffle(&mut names);
    for i in 0..k as usize {
        reqs.push(Req::Single(3 * names[i] + if r.chance(1, 4) { 1 } else { 0 }));
    }
    let mut soft = vec![];
    if feat & F_SOFT != 0 {
        for _ in 0..r.below(3) {
            soft.push(r.below(u.sols.len() as u64) as u32);
        }
    }
    (u, Prob { reqs, cons: vec![], soft })
}

/// C15: one package with n candidates revealed through group requirements in
/// random order and partition; the problem requires one specific candidate
/// (must be solvable) or two different ones (must be unsolvable).
pub fn gen_amo(r: &mut Rng, n: u32) -> (Universe, Prob) {
    let mut u = Universe::default();
    let mut p = Pkg::default();
    let mut ranks: Vec<u32> = (0..n).collect();
    r.shuffle(&mut ranks);
    for i in 0..n {
        u.sols.push(Sol { name: 0, rank: ranks[i as usize], deps: Some(Known { reqs: vec![], cons: vec![] }) });
        p.cands.push(i);
    }
    r.shuffle(&mut p.cands);
    u.pkgs.push(p);
    let i = r.below(n as u64) as u32;
    let pair = n >= 2 && r.chance(1, 2);
    let mut j = i;
    if pair {
        while j == i {
            j = r.below(n as u64) as u32;
        }
    }
    let targets: Vec<u32> = if pair { vec![i, j] } else { vec![i] };
    // random partition of the other candidates into groups, each group also matching the targets
    let mut others: Vec<u32> = (0..n).filter(|x| !targets.contains(x)).collect();
    r.shuffle(&mut others);
    // sometimes leave a few candidates undiscovered
    let keep = if r.chance(1, 4) { r.below(others.len() as u64 + 1) as usize } else { others.len() };
    others.truncate(keep);
    let mut reqs = vec![];
    let mut k = 0;
    while k < others.len() {
        let sz = 1 + r.below(6) as usize;
        let mut m: Vec<u32> = others[k..(k + sz).min(others.len())].to_vec();
        m.extend(targets.iter().copied());
        r.shuffle(&mut m);
        u.vss.push(Vs { name: 0, matching: m });
        reqs.push(Req::Single(u.vss.len() as u32 - 1));
        k += sz;
    }
    for &t in &targets {
        u.vss.push(Vs { name: 0, matching: vec![t] });
        reqs.push(Req::Single(u.vss.len() as u32 - 1));
    }
    r.shuffle(&mut reqs);
    (u, Prob { reqs, cons: vec![], soft: vec![] })
}

/// C11: wide fan-outs. The root has k requirements on distinct packages (some
/// of them unions), first-level candidates again require several distinct
/// packages, so many candidate requests are implied at once.
pub fn gen_fanout(r: &mut Rng, feat: u32) -> (Universe, Prob) {
    let k = r.range(2, 16) as u32;
    let extra = r.range(0, 6) as u32;
    let n_names = k + extra;
    let mut u = Universe::default();
    for n in 0..n_names {
        let c = r.range(1, 2) as u32;
        let mut p = Pkg::default();
        for i in 0..c {
            let id = u.sols.len() as u32;
            u.sols.push(Sol { name: n, rank: i, deps: Some(Known { reqs: vec![], cons: vec![] }) });
            p.cands.push(id);
        }
        if feat & F_HINTS != 0 && r.chance(1, 3) {
            p.hint = Hint::All;
        }
        u.pkgs.push(p);
        u.vss.push(Vs { name: n, matching: u.pkgs[n as usize].cands.clone() });
    }
    // nested fan-out: candidates of the first packages require a few of the extra packages
    for s in 0..u.sols.len() {
        let me = u.sols[s].name;
        if me < k && extra > 0 && r.chance(1, 2) {
            let mut reqs = vec![];
            for _ in 0..r.range(1, 3) {
                reqs.push(Req::Single(k + r.below(extra as u64) as u32));
            }
            let cons = if feat & F_CONSTRAINS != 0 && r.chance(1, 3) { vec![k + r.below(extra as u64) as u32] } else { vec![] };
            u.sols[s].deps = Some(Known { reqs, cons });
        }
    }
    let mut reqs = vec![];
    let mut n = 0;
    while n < k {
        if feat & F_UNIONS != 0 && n + 1 < k && r.chance(1, 4) {
            u.unions.push(vec![n, n + 1]);
            reqs.push(Req::Union(u.unions.len() as u32 - 1));
            n += 2;
        } else {
            reqs.push(Req::Single(n));
            n += 1;
        }
    }
    (u, Prob { reqs, cons: vec![], soft: vec![] })
}


/// Soft requirements whose conflict is found only deep in their own run and whose learnt clause mentions
/// only assignments of the hard solution made at low levels (an excluded / locked-out candidate): conflict
/// analysis then wants to backjump BELOW the level at which the soft run started. Around that core:
/// hard packages whose second-best versions carry Unknown dependencies, extra requirements or constraints,
/// so that a redone hard part would need new clauses.
pub fn gen_softdeep(r: &mut Rng, feat: u32) -> (Universe, Prob) {
    let mut u = Universe::default();
    let add_pkg = |u: &mut Universe, n_cands: u32| -> (u32, Vec<u32>) {
        let name = u.pkgs.len() as u32;
        let mut p = Pkg::default();
        for i in 0..n_cands {
            let id = u.sols.len() as u32;
            u.sols.push(Sol { name, rank: i, deps: Some(Known { reqs: vec![], cons: vec![] }) });
            p.cands.push(id);
        }
        let c = p.cands.clone();
        u.pkgs.push(p);
        (name, c)
    };
    let add_vs = |u: &mut Universe, name: u32, m: Vec<u32>| -> u32 {
        u.vss.push(Vs { name, matching: m });
        u.vss.len() as u32 - 1
    };
    // y: the package with a candidate that is false from level 1 on
    let (y, yc) = add_pkg(&mut u, r.range(2, 4) as u32);
    let dead = yc[0];
    if feat & F_LOCKED != 0 && r.chance(1, 3) {
        u.pkgs[y as usize].locked = Some(yc[1]);
    } else {
        u.pkgs[y as usize].excluded.push(dead);
    }
    let vs_y_any = add_vs(&mut u, y, yc.clone());
    let vs_y_dead = add_vs(&mut u, y, vec![dead]);
    let vs_y_low = add_vs(&mut u, y, vec![*yc.last().unwrap()]);
    // a spare package that redone hard choices may need
    let (w, wc) = add_pkg(&mut u, r.range(1, 2) as u32);
    let vs_w = add_vs(&mut u, w, wc.clone());
    // hard packages
    let nh = r.range(2, 4) as u32;
    let mut root = vec![Req::Single(vs_y_any)];
    let mut hard_any = vec![];
    for _ in 0..nh {
        let (h, hc) = add_pkg(&mut u, r.range(2, 3) as u32);
        let vs_any = add_vs(&mut u, h, hc.clone());
        hard_any.push(vs_any);
        root.push(Req::Single(vs_any));
        // the preferred version may pin y low (so that y is propagated, not decided)
        if r.chance(1, 2) {
            u.sols[hc[0] as usize].deps = Some(Known { reqs: vec![], cons: vec![vs_y_low] });
        }
        // the second version needs something new when it is selected later
        match r.below(4) {
            0 if feat & F_UNKNOWN != 0 => u.sols[hc[1] as usize].deps = None,
            1 => u.sols[hc[1] as usize].deps = Some(Known { reqs: vec![Req::Single(vs_w)], cons: vec![] }),
            2 if feat & F_CONSTRAINS != 0 => u.sols[hc[1] as usize].deps = Some(Known { reqs: vec![], cons: vec![vs_y_low] }),
            _ => {}
        }
        if feat & F_HINTS != 0 && r.chance(1, 4) {
            u.pkgs[h as usize].hint = Hint::All;
        }
    }
    r.shuffle(&mut root);
    // soft chains: s -> d, d's preferred candidate needs the dead candidate of y (directly or one step deeper)
    let mut soft = vec![];
    for _ in 0..r.range(1, 3) {
        let (_s, sc) = add_pkg(&mut u, 1);
        let (d, dc) = add_pkg(&mut u, r.range(1, 3) as u32);
        let vs_d = add_vs(&mut u, d, dc.clone());
        u.sols[sc[0] as usize].deps = Some(Known { reqs: vec![Req::Single(vs_d)], cons: vec![] });
        if r.chance(2, 3) {
            u.sols[dc[0] as usize].deps = Some(Known { reqs: vec![Req::Single(vs_y_dead)], cons: vec![] });
        } else {
            let (e, ec) = add_pkg(&mut u, r.range(1, 2) as u32);
            let vs_e = add_vs(&mut u, e, ec.clone());
            u.sols[dc[0] as usize].deps = Some(Known { reqs: vec![Req::Single(vs_e)], cons: vec![] });
            for &c in &ec {
                u.sols[c as usize].deps = Some(Known { reqs: vec![Req::Single(vs_y_dead)], cons: vec![] });
            }
        }
        // sometimes the soft solvable also wants a particular hard version
        if r.chance(1, 3) && !hard_any.is_empty() {
            let hv = hard_any[r.below(hard_any.len() as u64) as usize];
            let name = u.vss[hv as usize].name;
            let cands = u.pkgs[name as usize].cands.clone();
            let pick = cands[r.below(cands.len() as u64) as usize];
            let vs_pin = add_vs(&mut u, name, vec![pick]);
            if let Some(k) = u.sols[sc[0] as usize].deps.as_mut() {
                k.reqs.push(Req::Single(vs_pin));
            }
        }
        soft.push(sc[0]);
    }
    (u, Prob { reqs: root, cons: vec![], soft })
}

/// Template behind `softrej`: a soft requirement X whose run fails only after it made G true
/// (G requires D, which has >= 2 candidates, so the watches of that clause move onto candidates of D);
/// then candidates of D named directly as soft requirements, each rejected at its first encode
/// (Unknown dependencies / excluded); finally G itself.
fn gen_softrej_template(r: &mut Rng, feat: u32) -> (Universe, Prob) {
    let mut u = Universe::default();
    let mut add_pkg = |u: &mut Universe, n: u32| -> (u32, Vec<u32>) {
        let name = u.pkgs.len() as u32;
        let mut p = Pkg::default();
        for i in 0..n {
            let id = u.sols.len() as u32;
            u.sols.push(Sol { name, rank: i, deps: Some(Known { reqs: vec![], cons: vec![] }) });
            p.cands.push(id);
        }
        let c = p.cands.clone();
        u.pkgs.push(p);
        (name, c)
    };
    let add_vs = |u: &mut Universe, name: u32, m: Vec<u32>| -> u32 {
        u.vss.push(Vs { name, matching: m });
        u.vss.len() as u32 - 1
    };
    let (rn, rc) = add_pkg(&mut u, 1);
    let vs_r = add_vs(&mut u, rn, rc.clone());
    let vs_r_none = add_vs(&mut u, rn, vec![]);
    let (dn, dc) = add_pkg(&mut u, r.range(2, 4) as u32);
    for &d in &dc {
        if feat & F_UNKNOWN != 0 && !r.chance(1, 5) {
            u.sols[d as usize].deps = None;
        } else {
            u.pkgs[dn as usize].excluded.push(d);
        }
    }
    let nsub = r.range(2, dc.len() as u64) as usize;
    let vs_d = add_vs(&mut u, dn, dc[..nsub].to_vec());
    let (gn, gc) = add_pkg(&mut u, 1);
    let vs_g = add_vs(&mut u, gn, gc.clone());
    u.sols[gc[0] as usize].deps = Some(Known { reqs: vec![Req::Single(vs_d)], cons: vec![] });
    if feat & F_HINTS != 0 && r.chance(1, 3) {
        u.pkgs[gn as usize].hint = Hint::All;
    }
    let (wn, wc) = add_pkg(&mut u, 1);
    let vs_w = add_vs(&mut u, wn, wc.clone());
    u.sols[wc[0] as usize].deps = Some(Known { reqs: vec![], cons: vec![vs_r_none] });
    let (_xn, xc) = add_pkg(&mut u, 1);
    let mut xreqs = vec![Req::Single(vs_w), Req::Single(vs_g)];
    r.shuffle(&mut xreqs);
    u.sols[xc[0] as usize].deps = Some(Known { reqs: xreqs, cons: vec![] });
    // sometimes D's candidates depend back on G's package (a cycle through the soft requirements)
    if r.chance(1, 3) {
        let last = *dc.last().unwrap();
        if u.sols[last as usize].deps.is_some() {
            u.sols[last as usize].deps = Some(Known { reqs: vec![Req::Single(vs_g)], cons: vec![] });
        }
    }
    let mut soft = vec![xc[0]];
    let mut ds = dc.clone();
    r.shuffle(&mut ds);
    for d in ds {
        if !r.chance(1, 6) {
            soft.push(d);
        }
    }
    if r.chance(1, 4) {
        soft.push(wc[0]);
    }
    soft.push(gc[0]);
    let reqs = if r.chance(4, 5) { vec![Req::Single(vs_r)] } else { vec![] };
    (u, Prob { reqs, cons: vec![], soft })
}

/// "An assertion made above the root level must survive a backjump": a first-choice candidate that can
/// never be installed (excluded / Unknown dependencies / a requirement without candidates) and is already
/// encoded through a hint is discovered at level >= 2; a learning conflict next to it (a sibling that
/// requires two different versions of one package) backjumps below that level; afterwards the sibling's
/// fallback forces exactly the impossible candidate, with nothing new left to encode.
pub fn gen_lostassert(r: &mut Rng, feat: u32) -> (Universe, Prob) {
    let mut u = Universe::default();
    let add_pkg = |u: &mut Universe, n: u32| -> (u32, Vec<u32>) {
        let name = u.pkgs.len() as u32;
        let mut p = Pkg::default();
        for i in 0..n {
            let id = u.sols.len() as u32;
            u.sols.push(Sol { name, rank: i, deps: Some(Known { reqs: vec![], cons: vec![] }) });
            p.cands.push(id);
        }
        let c = p.cands.clone();
        u.pkgs.push(p);
        (name, c)
    };
    let add_vs = |u: &mut Universe, name: u32, m: Vec<u32>| -> u32 {
        u.vss.push(Vs { name, matching: m });
        u.vss.len() as u32 - 1
    };
    let hints = feat & F_HINTS != 0;
    let (an, ac) = add_pkg(&mut u, 2);
    let (qn, qc) = add_pkg(&mut u, r.range(2, 3) as u32);
    let (bn, bc) = add_pkg(&mut u, 2);
    let (cn, cc) = add_pkg(&mut u, 2);
    let (mn, _mc) = add_pkg(&mut u, 1);
    let vs_a = add_vs(&mut u, an, ac.clone());
    let vs_q = add_vs(&mut u, qn, qc.clone());
    let vs_q_hi = add_vs(&mut u, qn, vec![qc[0]]);
    let vs_b = add_vs(&mut u, bn, bc.clone());
    let vs_c0 = add_vs(&mut u, cn, vec![cc[0]]);
    let vs_c1 = add_vs(&mut u, cn, vec![cc[1]]);
    let vs_none = add_vs(&mut u, mn, vec![]);
    // the impossible first choice of q
    match r.below(3) {
        0 => u.pkgs[qn as usize].excluded.push(qc[0]),
        1 if feat & F_UNKNOWN != 0 => u.sols[qc[0] as usize].deps = None,
        _ => u.sols[qc[0] as usize].deps = Some(Known { reqs: vec![Req::Single(vs_none)], cons: vec![] }),
    }
    // a_hi requires q and b (either order); a_lo is a dead end or a way out
    let mut areqs = vec![Req::Single(vs_q), Req::Single(vs_b)];
    if r.chance(1, 2) {
        areqs.reverse();
    }
    u.sols[ac[0] as usize].deps = Some(Known { reqs: areqs, cons: vec![] });
    u.sols[ac[1] as usize].deps =
        Some(Known { reqs: if r.chance(1, 2) { vec![Req::Single(vs_none)] } else { vec![] }, cons: vec![] });
    // b_hi cannot be installed (needs two versions of c); b_lo forces q's first choice
    u.sols[bc[0] as usize].deps = Some(Known { reqs: vec![Req::Single(vs_c0), Req::Single(vs_c1)], cons: vec![] });
    u.sols[bc[1] as usize].deps = Some(Known { reqs: vec![], cons: vec![vs_q_hi] });
    if hints {
        u.pkgs[qn as usize].hint = Hint::All;
        u.pkgs[bn as usize].hint = Hint::All;
        if r.chance(1, 2) {
            u.pkgs[cn as usize].hint = Hint::All;
        }
        if r.chance(1, 4) {
            u.pkgs[an as usize].hint = Hint::All;
        }
    }
    let mut reqs = vec![Req::Single(vs_a)];
    if r.chance(1, 3) {
        let (xn, xc) = add_pkg(&mut u, r.range(1, 2) as u32);
        let vs_x = add_vs(&mut u, xn, xc);
        reqs.insert(r.below(2) as usize, Req::Single(vs_x));
    }
    (u, Prob { reqs, cons: vec![], soft: vec![] })
}

/// C12: a union requirement with more than 30 alternatives (the point from which `try_join_all` no longer
/// returns the first error at once) next to an ordinary requirement whose candidates are hinted: a
/// cancellation observed by one alternative must not be held back while the other request makes progress.
pub fn gen_wideunion(r: &mut Rng, feat: u32) -> (Universe, Prob) {
    let k = r.range(31, 34) as u32;
    let mut u = Universe::default();
    let mut members = vec![];
    for n in 0..k {
        let id = u.sols.len() as u32;
        u.sols.push(Sol { name: n, rank: 0, deps: Some(Known { reqs: vec![], cons: vec![] }) });
        let mut p = Pkg::default();
        p.cands.push(id);
        u.pkgs.push(p);
        u.vss.push(Vs { name: n, matching: vec![id] });
        members.push(n);
    }
    u.unions.push(members);
    // q (hinted) -> t
    let qn = k;
    let tn = k + 1;
    let mut pq = Pkg::default();
    let mut pt = Pkg::default();
    for i in 0..r.range(1, 2) as u32 {
        let id = u.sols.len() as u32;
        u.sols.push(Sol { name: qn, rank: i, deps: Some(Known { reqs: vec![Req::Single(k + 1)], cons: vec![] }) });
        pq.cands.push(id);
    }
    let tid = u.sols.len() as u32;
    u.sols.push(Sol { name: tn, rank: 0, deps: Some(Known { reqs: vec![], cons: vec![] }) });
    pt.cands.push(tid);
    if feat & F_HINTS != 0 {
        pq.hint = Hint::All;
    }
    let qc = pq.cands.clone();
    u.pkgs.push(pq);
    u.pkgs.push(pt);
    u.vss.push(Vs { name: qn, matching: qc });
    u.vss.push(Vs { name: tn, matching: vec![tid] });
    let mut reqs = vec![Req::Union(0), Req::Single(k)];
    if r.chance(1, 2) {
        reqs.reverse();
    }
    (u, Prob { reqs, cons: vec![], soft: vec![] })
}

/// Soft requirements that reject one another through a shared pair of packages: every version of `a`
/// requires `b`, every version of `b` requires two different versions of `a` (so no `b` is installable);
/// the soft list names versions of both packages in random order. A rejected soft requirement stays on the
/// trail as an assignment that is only propagated during the next run; when that propagation stops at a
/// conflict halfway through a watch list and the assignment survives, the rest of the list has to be
/// visited later (F29).
pub fn gen_softpend(r: &mut Rng, feat: u32) -> (Universe, Prob) {
    let mut u = Universe::default();
    let na = r.range(2, 3) as u32;
    let nb = r.range(2, 3) as u32;
    let mut pa = Pkg::default();
    let mut pb = Pkg::default();
    for i in 0..na {
        let id = u.sols.len() as u32;
        u.sols.push(Sol { name: 0, rank: i, deps: None });
        pa.cands.push(id);
    }
    for i in 0..nb {
        let id = u.sols.len() as u32;
        u.sols.push(Sol { name: 1, rank: i, deps: None });
        pb.cands.push(id);
    }
    if feat & F_HINTS != 0 && !r.chance(1, 4) {
        pa.hint = Hint::All;
    }
    if feat & F_HINTS != 0 && r.chance(1, 4) {
        pb.hint = Hint::All;
    }
    // version sets: 0 = any a, 1 = any b, then one per single version of a
    u.vss.push(Vs { name: 0, matching: pa.cands.clone() });
    u.vss.push(Vs { name: 1, matching: pb.cands.clone() });
    let mut single = vec![];
    for &x in &pa.cands {
        u.vss.push(Vs { name: 0, matching: vec![x] });
        single.push(u.vss.len() as u32 - 1);
    }
    for &x in &pa.cands {
        u.sols[x as usize].deps = Some(Known { reqs: vec![Req::Single(1)], cons: vec![] });
    }
    for &y in &pb.cands {
        let mut two = single.clone();
        r.shuffle(&mut two);
        two.truncate(2);
        u.sols[y as usize].deps = Some(Known { reqs: two.into_iter().map(Req::Single).collect(), cons: vec![] });
    }
    let mut soft: Vec<u32> = pa.cands.iter().chain(pb.cands.iter()).copied().collect();
    r.shuffle(&mut soft);
    if r.chance(1, 4) {
        let d = soft[0];
        soft.push(d);
    }
    u.pkgs.push(pa);
    u.pkgs.push(pb);
    (u, Prob { reqs: vec![], cons: vec![], soft })
}

/// Long soft-requirement lists in which several consecutive entries are rejected early (Unknown
/// dependencies, exclusions, requirements without candidates), over small cyclic universes: exercises
/// the bookkeeping between successive run_sat invocations (decisions assigned false but not yet
/// propagated when the next soft requirement is tried).
pub fn gen_softrej(r: &mut Rng, feat: u32) -> (Universe, Prob) {
    if r.chance(1, 2) {
        return gen_softrej_template(r, feat);
    }
    let n_names = r.range(3, 6) as u32;
    let mut u = Universe::default();
    for n in 0..n_names {
        let k = r.range(1, 3) as u32;
        let mut p = Pkg::default();
        for i in 0..k {
            let id = u.sols.len() as u32;
            u.sols.push(Sol { name: n, rank: i, deps: Some(Known { reqs: vec![], cons: vec![] }) });
            p.cands.push(id);
        }
        if feat & F_EXCLUDED != 0 && r.chance(1, 8) {
            p.excluded.push(p.cands[r.below(k as u64) as usize]);
        }
        if feat & F_HINTS != 0 && r.chance(1, 4) {
            p.hint = Hint::All;
        }
        u.pkgs.push(p);
    }
    // version sets: 2n = all candidates, 2n+1 = a random subset (possibly empty)
    for n in 0..n_names {
        let cands = u.pkgs[n as usize].cands.clone();
        u.vss.push(Vs { name: n, matching: cands.clone() });
        u.vss.push(Vs { name: n, matching: cands.iter().copied().filter(|_| r.chance(1, 2)).collect() });
    }
    for s in 0..u.sols.len() {
        if feat & F_UNKNOWN != 0 && r.chance(1, 3) {
            u.sols[s].deps = None;
            continue;
        }
        let me = u.sols[s].name;
        let mut reqs = vec![];
        for _ in 0..r.below(3) {
            let mut n = r.below(n_names as u64) as u32;
            if n == me && r.chance(2, 3) {
                n = (n + 1) % n_names;
            }
            reqs.push(Req::Single(2 * n + if r.chance(1, 5) { 1 } else { 0 }));
        }
        let mut cons = vec![];
        if feat & F_CONSTRAINS != 0 && r.chance(1, 5) {
            let n = r.below(n_names as u64) as u32;
            cons.push(2 * n + 1);
        }
        u.sols[s].deps = Some(Known { reqs, cons });
    }
    let mut reqs = vec![];
    if r.chance(1, 2) {
        reqs.push(Req::Single(2 * r.below(n_names as u64) as u32));
    }
    let mut soft = vec![];
    for _ in 0..r.range(3, 6) {
        soft.push(r.below(u.sols.len() as u64) as u32);
    }
    (u, Prob { reqs, cons: vec![], soft })
}

/// A cascade of n learnt clauses, each derived from the previous one (found by a defect-hunting run):
/// the solver decides P_1.hi .. P_n.hi on n levels, then every P_i.lo turns out to be impossible in turn.
/// Exercises everything that walks the learnt-from-learnt chain (depth n).
pub fn gen_domino(n: u32) -> (Universe, Prob) {
    let mut u = Universe::default();
    let mut add_pkg = |u: &mut Universe, k: u32| -> (u32, Vec<u32>) {
        let name = u.pkgs.len() as u32;
        let mut p = Pkg::default();
        for i in 0..k {
            let id = u.sols.len() as u32;
            u.sols.push(Sol { name, rank: i, deps: Some(Known { reqs: vec![], cons: vec![] }) });
            p.cands.push(id);
        }
        p.hint = Hint::All;
        let c = p.cands.clone();
        u.pkgs.push(p);
        (name, c)
    };
    let add_vs = |u: &mut Universe, name: u32, m: Vec<u32>| -> u32 {
        u.vss.push(Vs { name, matching: m });
        u.vss.len() as u32 - 1
    };
    let (gname, gc) = add_pkg(&mut u, 1);
    let vs_g = add_vs(&mut u, gname, gc.clone());
    let mut ps = vec![];   // (hi, lo, vs_any)
    let mut ys = vec![];   // (y, vs_y)
    let mut zs = vec![];   // (vs_any, [vs_without_k; 3])
    for _ in 0..n {
        let (pn, pc) = add_pkg(&mut u, 2);
        let vs_p = add_vs(&mut u, pn, pc.clone());
        ps.push((pc[0], pc[1], vs_p));
        let (yn, yc) = add_pkg(&mut u, 1);
        let vs_y = add_vs(&mut u, yn, yc.clone());
        ys.push((yc[0], vs_y));
        let (zn, zc) = add_pkg(&mut u, 3);
        let vs_z = add_vs(&mut u, zn, zc.clone());
        let without: Vec<u32> = (0..3).map(|k| add_vs(&mut u, zn, zc.iter().copied().filter(|&z| z != zc[k]).collect())).collect();
        zs.push((vs_z, without));
    }
    let push_con = |u: &mut Universe, s: u32, v: u32| {
        if let Some(k) = u.sols[s as usize].deps.as_mut() {
            k.cons.push(v);
        }
    };
    let push_req = |u: &mut Universe, s: u32, v: u32| {
        if let Some(k) = u.sols[s as usize].deps.as_mut() {
            k.reqs.push(Req::Single(v));
        }
    };
    for i in 0..n as usize {
        let (hi, lo, _) = ps[i];
        // lo requires Y_i and Z_i
        push_req(&mut u, lo, ys[i].1);
        push_req(&mut u, lo, zs[i].0);
        // hi requires P_{i+1}, the last hi fails like a lo
        if i + 1 < n as usize {
            push_req(&mut u, hi, ps[i + 1].2);
        } else {
            push_req(&mut u, hi, ys[i].1);
            push_req(&mut u, hi, zs[i].0);
        }
        // y_i forbids z_i#0, P_{i-1}.hi forbids z_i#1, P_{i-2}.hi forbids z_i#2 (g stands in below P_1)
        push_con(&mut u, ys[i].0, zs[i].1[0]);
        let prev1 = if i >= 1 { ps[i - 1].0 } else { gc[0] };
        let prev2 = if i >= 2 { ps[i - 2].0 } else { gc[0] };
        push_con(&mut u, prev1, zs[i].1[1]);
        push_con(&mut u, prev2, zs[i].1[2]);
    }
    let reqs = vec![Req::Single(vs_g), Req::Single(ps[0].2)];
    (u, Prob { reqs, cons: vec![], soft: vec![] })
}

pub fn gen_case(id: u64, seed: u64, class: &str, feat: u32) -> Case {
    let mut r = Rng::new(seed.wrapping_mul(0x100000001B3).wrapping_add(id));
    let (u, p) = match class {
        "small" => gen_universe(&mut r, feat, &SMALL),
        "dense" => gen_universe(&mut r, feat, &DENSE),
        "greedy" => gen_greedy(&mut r, feat),
        "conflict" => gen_conflict(&mut r, feat),
        "conflictx" => gen_conflict_with(&mut r, feat, true, false),
        "conflictc" => gen_conflict_with(&mut r, feat, false, true),
        "lostassert" => gen_lostassert(&mut r, feat),
        "wideunion" => gen_wideunion(&mut r, feat),
        "softpend" => gen_softpend(&mut r, feat),
        "fanout" => gen_fanout(&mut r, feat),
        "softdeep" => gen_softdeep(&mut r, feat),
        "softrej" => gen_softrej(&mut r, feat),
        // for this class `feat` is the base length of the cascade; lengths vary a little with the case id
        "domino" => gen_domino(feat.max(1) + (id % 7) as u32),
        // for this class `feat` is the largest candidate count; sizes cycle 1..=feat
        "amo" => gen_amo(&mut r, 1 + (id % feat.max(1) as u64) as u32),
        other => panic!("unknown class {other}"),
    };
    Case { id, class: class.to_string(), u, p }
}
