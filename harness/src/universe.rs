//! Table-driven universe and provider: the executable `table_provider` of
//! coq/Base/Provider.v, implemented against the real `DependencyProvider` trait.
use resolvo::*;
use serde::{Deserialize, Serialize};
use std::any::Any;
use std::cell::{Cell, RefCell};
use std::fmt::Display;
use std::rc::Rc;

#[derive(Clone, Debug, Serialize, Deserialize, PartialEq, Eq)]
pub enum Req {
    #[serde(rename = "s")]
    Single(u32),
    #[serde(rename = "u")]
    Union(u32),
}
#[derive(Clone, Debug, Serialize, Deserialize, PartialEq, Eq)]
pub struct Known {
    pub reqs: Vec<Req>,
    pub cons: Vec<u32>,
}
#[derive(Clone, Debug, Default, Serialize, Deserialize, PartialEq, Eq)]
pub enum Hint {
    #[default]
    #[serde(rename = "none")]
    None,
    #[serde(rename = "all")]
    All,
    #[serde(rename = "some")]
    Some(Vec<u32>),
}
#[derive(Clone, Debug, Serialize, Deserialize, PartialEq, Eq)]
pub struct Sol {
    pub name: u32,
    pub rank: u32,
    /// None = Unknown dependencies
    pub deps: Option<Known>,
}
#[derive(Clone, Debug, Serialize, Deserialize, PartialEq, Eq)]
pub struct Vs {
    pub name: u32,
    pub matching: Vec<u32>,
}
#[derive(Clone, Debug, Default, Serialize, Deserialize, PartialEq, Eq)]
pub struct Pkg {
    pub missing: bool,
    pub cands: Vec<u32>,
    pub favored: Option<u32>,
    pub locked: Option<u32>,
    pub excluded: Vec<u32>,
    pub hint: Hint,
}
#[derive(Clone, Debug, Default, Serialize, Deserialize, PartialEq, Eq)]
pub struct Universe {
    pub sols: Vec<Sol>,
    pub vss: Vec<Vs>,
    pub unions: Vec<Vec<u32>>,
    pub pkgs: Vec<Pkg>,
}
#[derive(Clone, Debug, Default, Serialize, Deserialize, PartialEq, Eq)]
pub struct Prob {
    pub reqs: Vec<Req>,
    pub cons: Vec<u32>,
    pub soft: Vec<u32>,
}
#[derive(Clone, Debug, Default, Serialize, Deserialize, PartialEq, Eq)]
pub struct Case {
    pub id: u64,
    pub class: String,
    pub u: Universe,
    pub p: Prob,
}

/// A provider call or poll, in the order the provider saw it.
#[derive(Clone, Debug, Serialize, Deserialize, PartialEq, Eq)]
pub enum Call {
    #[serde(rename = "c")]
    Cands(u32),
    #[serde(rename = "ce")]
    CandsEnd(u32),
    #[serde(rename = "d")]
    Deps(u32),
    #[serde(rename = "de")]
    DepsEnd(u32),
    #[serde(rename = "f")]
    Filter(u32, bool),
    #[serde(rename = "o")]
    Sort(Vec<u32>),
    /// sort_candidates returns (only logged when it looks up dependencies through the cache)
    #[serde(rename = "oe")]
    SortEnd(u32),
    /// should_cancel_with_value poll number k; true if it returned Some
    #[serde(rename = "p")]
    Poll(u32, bool),
    /// the solver future returned Pending without having woken itself
    /// (quiescent); lists labels of started-but-unfinished gated calls
    #[serde(rename = "q")]
    Quiescent(Vec<String>),
    /// boundary between two solve calls on one solver
    #[serde(rename = "n")]
    NextSolve,
}

#[derive(Clone, Copy, Debug, PartialEq, Eq)]
pub enum Mode {
    /// every provider future completes immediately
    Sync,
    /// get_candidates / get_dependencies yield once (self-waking)
    YieldOnce,
    /// get_candidates / get_dependencies wait for the scheduler's gate
    Gated,
}

pub struct Prov {
    pub u: Universe,
    pub log: Rc<RefCell<Vec<Call>>>,
    /// poll indices at which should_cancel_with_value returns Some(index)
    pub cancel_at: RefCell<Vec<u32>>,
    pub polls: Cell<u32>,
    /// hard watchdog: cancel (with value u32::MAX) after this many polls
    pub max_polls: Cell<u32>,
    pub mode: Mode,
    pub gate: Rc<crate::sched::Gate>,
    /// also gate filter_candidates / sort_candidates
    pub gate_all: bool,
    /// record SolverCache::are_dependencies_available_for from inside sort_candidates
    pub probe_cache_in_sort: bool,
    /// sort_candidates asks the SolverCache for the dependencies of every candidate it sorts (what
    /// real providers do to rank candidates), through the public cache API
    pub sort_fetches_deps: bool,
    pub probes: RefCell<Vec<(u32, bool)>>,
}

impl Prov {
    pub fn new(u: Universe) -> Self {
        Self::with_mode(u, Mode::Sync)
    }
    pub fn with_mode(u: Universe, mode: Mode) -> Self {
        Prov {
            u,
            log: Rc::new(RefCell::new(Vec::new())),
            cancel_at: Default::default(),
            polls: Cell::new(0),
            max_polls: Cell::new(2_000_000),
            mode,
            gate: Rc::new(Default::default()),
            gate_all: false,
            probe_cache_in_sort: false,
            sort_fetches_deps: false,
            probes: Default::default(),
        }
    }
    fn push(&self, c: Call) {
        self.log.borrow_mut().push(c);
    }
    async fn wait(&self, label: String) {
        match self.mode {
            Mode::Sync => {}
            Mode::YieldOnce => crate::sched::YieldOnce(false).await,
            Mode::Gated => self.gate.start(label).await,
        }
    }
}

impl Interner for Prov {
    fn display_solvable(&self, s: SolvableId) -> impl Display + '_ {
        let n = self.u.sols.get(s.0 as usize).map(|x| x.name).unwrap_or(9999);
        format!("p{}=s{}", n, s.0)
    }
    fn display_name(&self, n: NameId) -> impl Display + '_ {
        format!("p{}", n.0)
    }
    fn display_version_set(&self, v: VersionSetId) -> impl Display + '_ {
        format!("vs{}", v.0)
    }
    fn display_string(&self, s: StringId) -> impl Display + '_ {
        format!("str{}", s.0)
    }
    fn version_set_name(&self, v: VersionSetId) -> NameId {
        NameId(self.u.vss[v.0 as usize].name)
    }
    fn solvable_name(&self, s: SolvableId) -> NameId {
        NameId(self.u.sols[s.0 as usize].name)
    }
    fn version_sets_in_union(&self, u: VersionSetUnionId) -> impl Iterator<Item = VersionSetId> {
        self.u.unions[u.0 as usize].iter().map(|&v| VersionSetId(v))
    }
}

impl DependencyProvider for Prov {
    async fn filter_candidates(
        &self,
        c: &[SolvableId],
        v: VersionSetId,
        inverse: bool,
    ) -> Vec<SolvableId> {
        self.push(Call::Filter(v.0, inverse));
        if self.gate_all {
            self.wait(format!("f{}{}", v.0, if inverse { "i" } else { "" })).await;
        }
        let m = &self.u.vss[v.0 as usize].matching;
        c.iter().copied().filter(|s| m.contains(&s.0) != inverse).collect()
    }
    async fn get_candidates(&self, n: NameId) -> Option<Candidates> {
        self.push(Call::Cands(n.0));
        self.wait(format!("c{}", n.0)).await;
        self.push(Call::CandsEnd(n.0));
        let p = &self.u.pkgs[n.0 as usize];
        if p.missing {
            return None;
        }
        Some(Candidates {
            candidates: p.cands.iter().map(|&s| SolvableId(s)).collect(),
            favored: p.favored.map(SolvableId),
            locked: p.locked.map(SolvableId),
            hint_dependencies_available: match &p.hint {
                Hint::None => HintDependenciesAvailable::None,
                Hint::All => HintDependenciesAvailable::All,
                Hint::Some(v) => {
                    HintDependenciesAvailable::Some(v.iter().map(|&s| SolvableId(s)).collect())
                }
            },
            excluded: p.excluded.iter().map(|&s| (SolvableId(s), StringId(s))).collect(),
        })
    }
    async fn sort_candidates(&self, c: &SolverCache<Self>, s: &mut [SolvableId]) {
        self.push(Call::Sort(s.iter().map(|s| s.0).collect()));
        if self.probe_cache_in_sort {
            for x in s.iter() {
                let a = c.are_dependencies_available_for(*x);
                self.probes.borrow_mut().push((x.0, a));
            }
        }
        if self.sort_fetches_deps {
            for x in s.iter() {
                let _ = c.get_or_cache_dependencies(*x).await;
            }
            self.push(Call::SortEnd(s.first().map(|s| s.0).unwrap_or(u32::MAX)));
        }
        if self.gate_all {
            self.wait(format!("o{}", s.first().map(|s| s.0).unwrap_or(9999))).await;
        }
        s.sort_by_key(|s| self.u.sols[s.0 as usize].rank);
    }
    async fn get_dependencies(&self, s: SolvableId) -> Dependencies {
        self.push(Call::Deps(s.0));
        self.wait(format!("d{}", s.0)).await;
        self.push(Call::DepsEnd(s.0));
        match &self.u.sols[s.0 as usize].deps {
            None => Dependencies::Unknown(StringId(1000 + s.0)),
            Some(k) => Dependencies::Known(KnownDependencies {
                requirements: k.reqs.iter().map(conv_req).collect(),
                constrains: k.cons.iter().map(|&v| VersionSetId(v)).collect(),
            }),
        }
    }
    fn should_cancel_with_value(&self) -> Option<Box<dyn Any>> {
        let k = self.polls.get();
        self.polls.set(k + 1);
        let fire = self.cancel_at.borrow().contains(&k);
        self.push(Call::Poll(k, fire));
        if fire {
            Some(Box::new(k))
        } else if k >= self.max_polls.get() {
            Some(Box::new(u32::MAX))
        } else {
            None
        }
    }
}

pub fn conv_req(r: &Req) -> Requirement {
    match r {
        Req::Single(v) => Requirement::Single(VersionSetId(*v)),
        Req::Union(u) => Requirement::Union(VersionSetUnionId(*u)),
    }
}

pub fn problem(p: &Prob) -> Problem<std::vec::IntoIter<SolvableId>> {
    Problem::new()
        .requirements(p.reqs.iter().map(conv_req).collect())
        .constraints(p.cons.iter().map(|&v| VersionSetId(v)).collect())
        .soft_requirements(p.soft.iter().map(|&s| SolvableId(s)).collect::<Vec<_>>().into_iter())
}

// ---------------------------------------------------------------- reference
// semantics used by generators for *classification only* (never as an oracle)

impl Universe {
    pub fn cands(&self, name: u32) -> &[u32] {
        match self.pkgs.get(name as usize) {
            Some(p) if !p.missing => &p.cands,
            _ => &[],
        }
    }
    pub fn req_vss(&self, r: &Req) -> Vec<u32> {
        match r {
            Req::Single(v) => vec![*v],
            Req::Union(x) => self.unions[*x as usize].clone(),
        }
    }
    pub fn matching(&self, vs: u32) -> Vec<u32> {
        let v = &self.vss[vs as usize];
        self.cands(v.name).iter().copied().filter(|s| v.matching.contains(s)).collect()
    }
    pub fn sorted_cands(&self, vs: u32) -> Vec<u32> {
        let v = &self.vss[vs as usize];
        let mut m = self.matching(vs);
        m.sort_by_key(|&s| self.sols[s as usize].rank);
        if let Some(p) = self.pkgs.get(v.name as usize) {
            if !p.missing {
                if let Some(f) = p.favored {
                    if let Some(pos) = m.iter().position(|&s| s == f) {
                        m[0..=pos].rotate_right(1);
                    }
                }
            }
        }
        m
    }
    /// well-formedness assumed by every property (see coq/Base/WF.v)
    pub fn well_formed(&self) -> bool {
        for (n, p) in self.pkgs.iter().enumerate() {
            let mut seen = vec![];
            for &c in &p.cands {
                if seen.contains(&c) {
                    return false;
                }
                seen.push(c);
                match self.sols.get(c as usize) {
                    Some(s) if s.name as usize == n => {}
                    _ => return false,
                }
            }
            for &e in &p.excluded {
                if (e as usize) >= self.sols.len() {
                    return false;
                }
            }
        }
        for s in &self.sols {
            if s.name as usize >= self.pkgs.len() {
                return false;
            }
        }
        for v in &self.vss {
            if v.name as usize >= self.pkgs.len() {
                return false;
            }
        }
        true
    }
}
