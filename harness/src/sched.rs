//! Schedule-controlled executor: provider futures complete only when the
//! scheduler releases *and wakes* them; quiescence = the solve future returned
//! Pending and its waker was not invoked during that poll.
use crate::universe::Call;
use resolvo::runtime::AsyncRuntime;
use std::cell::{Cell, RefCell};
use std::collections::{BTreeMap, BTreeSet};
use std::future::Future;
use std::pin::Pin;
use std::rc::Rc;
use std::sync::atomic::{AtomicBool, Ordering};
use std::task::{Context, Poll, RawWaker, RawWakerVTable, Waker};

pub struct YieldOnce(pub bool);
impl Future for YieldOnce {
    type Output = ();
    fn poll(mut self: Pin<&mut Self>, cx: &mut Context<'_>) -> Poll<()> {
        if self.0 {
            Poll::Ready(())
        } else {
            self.0 = true;
            cx.waker().wake_by_ref();
            Poll::Pending
        }
    }
}

#[derive(Default)]
pub struct Gate {
    pub next_id: Cell<usize>,
    /// started, not yet released
    pub pending: RefCell<BTreeSet<usize>>,
    /// released by the scheduler, not yet observed by the future
    pub released: RefCell<BTreeSet<usize>>,
    pub labels: RefCell<Vec<String>>,
    pub wakers: RefCell<BTreeMap<usize, Waker>>,
    /// ids whose futures were dropped before completing
    pub dropped: RefCell<BTreeSet<usize>>,
}
pub struct Wait {
    gate: Rc<Gate>,
    id: usize,
    done: bool,
}
impl Future for Wait {
    type Output = ();
    fn poll(mut self: Pin<&mut Self>, cx: &mut Context<'_>) -> Poll<()> {
        if self.gate.released.borrow_mut().remove(&self.id) {
            self.done = true;
            Poll::Ready(())
        } else {
            self.gate.wakers.borrow_mut().insert(self.id, cx.waker().clone());
            Poll::Pending
        }
    }
}
impl Drop for Wait {
    fn drop(&mut self) {
        if !self.done {
            self.gate.pending.borrow_mut().remove(&self.id);
            self.gate.released.borrow_mut().remove(&self.id);
            self.gate.wakers.borrow_mut().remove(&self.id);
            self.gate.dropped.borrow_mut().insert(self.id);
        }
    }
}
impl Gate {
    pub fn start(self: &Rc<Self>, label: String) -> Wait {
        let id = self.next_id.get();
        self.next_id.set(id + 1);
        self.labels.borrow_mut().push(label);
        self.pending.borrow_mut().insert(id);
        Wait { gate: self.clone(), id, done: false }
    }
    pub fn pending_labels(&self) -> Vec<String> {
        let l = self.labels.borrow();
        self.pending.borrow().iter().map(|&i| l[i].clone()).collect()
    }
}

static WOKEN: AtomicBool = AtomicBool::new(false);
fn vt_wake(_: *const ()) {
    WOKEN.store(true, Ordering::SeqCst);
}
fn vt_noop(_: *const ()) {}
fn vt_clone(_: *const ()) -> RawWaker {
    RawWaker::new(std::ptr::null(), &VT)
}
static VT: RawWakerVTable = RawWakerVTable::new(vt_clone, vt_wake, vt_wake, vt_noop);

/// Polls until ready; every Pending must be followed by progress (self-wake),
/// otherwise the future can never complete: reported as a deadlock panic.
pub struct SpinRt {
    pub max_polls: usize,
}
impl AsyncRuntime for SpinRt {
    fn block_on<F: Future>(&self, f: F) -> F::Output {
        let waker = unsafe { Waker::from_raw(RawWaker::new(std::ptr::null(), &VT)) };
        let mut cx = Context::from_waker(&waker);
        let mut f = std::pin::pin!(f);
        for _ in 0..self.max_polls {
            WOKEN.store(false, Ordering::SeqCst);
            if let Poll::Ready(v) = f.as_mut().poll(&mut cx) {
                return v;
            }
            if !WOKEN.load(Ordering::SeqCst) {
                panic!("DEADLOCK: future pending, nothing woke it and nothing is in flight");
            }
        }
        panic!("HANG: future still pending after {} polls", self.max_polls);
    }
}

/// How the scheduler picks which pending provider future completes next.
#[derive(Clone, Debug)]
pub enum Policy {
    Fifo,
    Lifo,
    /// xorshift seed
    Random(u64),
    /// explicit choice indices (into the sorted pending set), then Fifo
    Script(Vec<usize>),
}

pub struct SchedRt {
    pub gate: Rc<Gate>,
    pub log: Rc<RefCell<Vec<Call>>>,
    pub policy: RefCell<Policy>,
    /// (number of pending futures, index picked) at every quiescent point
    pub decisions: Rc<RefCell<Vec<(usize, usize)>>>,
    pub step: Cell<usize>,
    pub max_polls: usize,
}
impl SchedRt {
    pub fn new(gate: Rc<Gate>, log: Rc<RefCell<Vec<Call>>>, policy: Policy) -> Self {
        SchedRt {
            gate,
            log,
            policy: RefCell::new(policy),
            decisions: Default::default(),
            step: Cell::new(0),
            max_polls: 1_000_000,
        }
    }
    fn pick(&self, n: usize) -> usize {
        let k = self.step.get();
        self.step.set(k + 1);
        match &mut *self.policy.borrow_mut() {
            Policy::Fifo => 0,
            Policy::Lifo => n - 1,
            Policy::Random(s) => {
                let mut x = *s;
                x ^= x << 13;
                x ^= x >> 7;
                x ^= x << 17;
                *s = x;
                (x % n as u64) as usize
            }
            Policy::Script(v) => v.get(k).copied().unwrap_or(0).min(n - 1),
        }
    }
}
impl AsyncRuntime for SchedRt {
    fn block_on<F: Future>(&self, f: F) -> F::Output {
        let waker = unsafe { Waker::from_raw(RawWaker::new(std::ptr::null(), &VT)) };
        let mut cx = Context::from_waker(&waker);
        let mut f = std::pin::pin!(f);
        for _ in 0..self.max_polls {
            WOKEN.store(false, Ordering::SeqCst);
            if let Poll::Ready(v) = f.as_mut().poll(&mut cx) {
                return v;
            }
            if WOKEN.load(Ordering::SeqCst) {
                continue; // cooperative yield, not quiescent
            }
            let pend: Vec<usize> = self.gate.pending.borrow().iter().copied().collect();
            self.log.borrow_mut().push(Call::Quiescent(self.gate.pending_labels()));
            if pend.is_empty() {
                panic!("DEADLOCK: solver is waiting but no provider request is in flight");
            }
            let i = self.pick(pend.len());
            self.decisions.borrow_mut().push((pend.len(), i));
            let id = pend[i];
            self.gate.pending.borrow_mut().remove(&id);
            self.gate.released.borrow_mut().insert(id);
            if let Some(w) = self.gate.wakers.borrow_mut().remove(&id) {
                w.wake();
            }
        }
        panic!("HANG: future still pending after {} polls", self.max_polls);
    }
}
