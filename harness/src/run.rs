//! Runs cases through the real solver and records what was observed.
use crate::sched::*;
use crate::universe::*;
use petgraph::visit::EdgeRef;
use resolvo::conflict::{ConflictCause, ConflictEdge, ConflictNode};
use resolvo::*;
use serde::{Deserialize, Serialize};
use std::panic::{AssertUnwindSafe, catch_unwind};

#[derive(Clone, Debug, Serialize, Deserialize, PartialEq, Eq)]
pub enum Outcome {
    #[serde(rename = "sat")]
    Sat(Vec<u32>),
    #[serde(rename = "unsat")]
    Unsat,
    #[serde(rename = "cancelled")]
    Cancelled(u32),
    #[serde(rename = "panic")]
    Panic(String),
    #[serde(rename = "deadlock")]
    Deadlock,
    #[serde(rename = "hang")]
    Hang,
}

/// variable by origin
#[derive(Clone, Debug, Serialize, Deserialize, PartialEq, Eq, Hash, PartialOrd, Ord)]
pub enum V {
    #[serde(rename = "r")]
    Root,
    #[serde(rename = "s")]
    Sol(u32),
    #[serde(rename = "h")]
    Helper(u32, u32),
}

#[derive(Clone, Debug, Serialize, Deserialize, PartialEq, Eq)]
pub enum Kind {
    #[serde(rename = "root")]
    InstallRoot,
    #[serde(rename = "req")]
    Requires { parent: V, req: Req, cands: Vec<Vec<V>> },
    #[serde(rename = "forbid")]
    Forbid { name: u32 },
    #[serde(rename = "con")]
    Constrains { parent: V, forbidden: V, vs: u32 },
    #[serde(rename = "lock")]
    Lock { locked: V, other: V },
    #[serde(rename = "learnt")]
    Learnt { why: Vec<u32> },
    #[serde(rename = "excl")]
    Excluded { var: V, reason: u32 },
}
#[derive(Clone, Debug, Serialize, Deserialize, PartialEq, Eq)]
pub struct ClauseObs {
    pub kind: Kind,
    pub lits: Vec<(V, bool)>,
}
#[derive(Clone, Debug, Serialize, Deserialize, PartialEq, Eq)]
pub enum Ev {
    #[serde(rename = "a")]
    Assign { var: V, value: bool, level: u32, reason: u32 },
    #[serde(rename = "uu")]
    UndoUntil(u32),
    #[serde(rename = "ul")]
    UndoLast,
    /// Encoder::encode was called with these solvables (None = root)
    #[serde(rename = "enc")]
    Encode(Vec<Option<u32>>),
    /// a soft requirement was registered in its package's tracker
    #[serde(rename = "sreg")]
    SoftRegister(u32),
    /// a future of the encoder completed and its result is handled now
    #[serde(rename = "done")]
    Done(TaskObs),
    /// Encoder::encode returned, reporting these clause ids as conflicting
    #[serde(rename = "encres")]
    EncodeResult(Vec<u32>),
    /// analyze_unsolvable starts from this (falsified) clause
    #[serde(rename = "unsolv")]
    AnalyzeUnsolvable(u32),
    /// decide() was called while this many clauses were allocated
    #[serde(rename = "dec")]
    Decide(u32),
    /// propagate() was called for this level while this many clauses were allocated
    #[serde(rename = "prop")]
    Propagate(u32, u32),
    /// propagate() returned: no conflict, or this clause as the conflict
    #[serde(rename = "propres")]
    PropagateResult(Option<u32>),
}
/// A unit of work of the encoder (None = root)
#[derive(Clone, Debug, Serialize, Deserialize, PartialEq, Eq)]
pub enum TaskObs {
    #[serde(rename = "dep")]
    Deps(Option<u32>),
    #[serde(rename = "cand")]
    Cands(u32),
    /// (solvable, is_union, version set / union id)
    #[serde(rename = "req")]
    Req(Option<u32>, bool, u32),
    #[serde(rename = "con")]
    Con(Option<u32>, u32),
}
#[derive(Clone, Debug, Default, Serialize, Deserialize, PartialEq, Eq)]
pub struct Dump {
    pub clauses: Vec<ClauseObs>,
    pub events: Vec<Ev>,
    pub trail: Vec<(V, bool, u32, u32)>,
    /// clause ids reported in the Conflict (Unsat only)
    pub core: Vec<u32>,
    /// clause ids registered as negative assertions, in registration order
    #[serde(default)]
    pub asserts: Vec<u32>,
    /// the literals (variable, satisfying value) every clause watched when it was allocated
    #[serde(default)]
    pub init_watches: Vec<Option<[(V, bool); 2]>>,
}

#[derive(Clone, Debug, Serialize, Deserialize, PartialEq, Eq)]
pub enum NodeObs {
    #[serde(rename = "root")]
    Root,
    #[serde(rename = "s")]
    Sol(u32),
    #[serde(rename = "unresolved")]
    Unresolved,
    #[serde(rename = "excl")]
    Excluded(u32),
}
#[derive(Clone, Debug, Serialize, Deserialize, PartialEq, Eq)]
pub enum EdgeObs {
    #[serde(rename = "req")]
    Requires(Req),
    #[serde(rename = "lock")]
    Locked(u32),
    #[serde(rename = "con")]
    Constrains(u32),
    #[serde(rename = "forbid")]
    Forbid,
    #[serde(rename = "excl")]
    Excluded,
}
#[derive(Clone, Debug, Default, Serialize, Deserialize, PartialEq, Eq)]
pub struct GraphObs {
    pub nodes: Vec<NodeObs>,
    /// (source index, target index, edge) in petgraph's edge order
    pub edges: Vec<(u32, u32, EdgeObs)>,
    pub root: u32,
    pub unresolved: Option<u32>,
    /// per node: indices (into `edges`) of its outgoing edges in the order in which
    /// petgraph's `graph.edges(n)` yields them (checked against the renderer model)
    #[serde(default)]
    pub out_order: Vec<Vec<u32>>,
    /// nodes in the order produced by petgraph's `DfsPostOrder` from the root
    #[serde(default)]
    pub dfs_post: Vec<u32>,
}
#[derive(Clone, Debug, Default, Serialize, Deserialize, PartialEq, Eq)]
pub struct ConflictObs {
    pub graph: Option<GraphObs>,
    /// None if rendering exceeded the size cap or panicked
    pub msg: Option<String>,
    pub msg_bytes: u64,
    pub msg_error: Option<String>,
    pub graphviz: Option<String>,
    pub graphviz_simplified: Option<String>,
}

#[derive(Clone, Debug, Serialize, Deserialize, PartialEq, Eq)]
pub struct Obs {
    pub id: u64,
    pub mode: String,
    pub outcome: Outcome,
    pub calls: Vec<Call>,
    pub polls: u32,
    pub conflict: Option<ConflictObs>,
    pub dump: Option<Dump>,
    /// scheduler decisions (pending count, picked index)
    pub sched: Vec<(usize, usize)>,
}

struct Limited {
    n: usize,
    cap: usize,
    buf: String,
}
impl std::fmt::Write for Limited {
    fn write_str(&mut self, s: &str) -> std::fmt::Result {
        self.n += s.len();
        if self.n > self.cap {
            Err(std::fmt::Error)
        } else {
            self.buf.push_str(s);
            Ok(())
        }
    }
}

pub fn panic_msg(e: Box<dyn std::any::Any + Send>) -> String {
    let s = if let Some(s) = e.downcast_ref::<String>() {
        s.clone()
    } else if let Some(s) = e.downcast_ref::<&str>() {
        s.to_string()
    } else {
        "panic".to_string()
    };
    s.lines().next().unwrap_or("").chars().take(200).collect()
}

fn req_obs(r: Requirement) -> Req {
    match r {
        Requirement::Single(v) => Req::Single(v.0),
        Requirement::Union(u) => Req::Union(u.0),
    }
}

pub fn graph_obs(g: &resolvo::conflict::ConflictGraph) -> GraphObs {
    let mut out = GraphObs::default();
    // node indices may have holes after remove_node; map them densely
    let idx: Vec<_> = g.graph.node_indices().collect();
    let pos = |n| idx.iter().position(|&x| x == n).unwrap() as u32;
    for &n in &idx {
        out.nodes.push(match g.graph[n] {
            ConflictNode::Solvable(s) => match s.solvable() {
                None => NodeObs::Root,
                Some(s) => NodeObs::Sol(s.0),
            },
            ConflictNode::UnresolvedDependency => NodeObs::Unresolved,
            ConflictNode::Excluded(r) => NodeObs::Excluded(r.0),
        });
    }
    for e in g.graph.edge_references() {
        let w = match *e.weight() {
            ConflictEdge::Requires(r) => EdgeObs::Requires(req_obs(r)),
            ConflictEdge::Conflict(ConflictCause::Locked(s)) => EdgeObs::Locked(s.0),
            ConflictEdge::Conflict(ConflictCause::Constrains(v)) => EdgeObs::Constrains(v.0),
            ConflictEdge::Conflict(ConflictCause::ForbidMultipleInstances) => EdgeObs::Forbid,
            ConflictEdge::Conflict(ConflictCause::Excluded) => EdgeObs::Excluded,
        };
        out.edges.push((pos(e.source()), pos(e.target()), w));
    }
    out.root = pos(g.root_node);
    out.unresolved = g.unresolved_node.map(pos);
    for &n in &idx {
        out.out_order.push(g.graph.edges(n).map(|e| e.id().index() as u32).collect());
    }
    let mut dfs = petgraph::visit::DfsPostOrder::new(&g.graph, g.root_node);
    while let Some(nx) = dfs.next(&g.graph) {
        out.dfs_post.push(pos(nx));
    }
    out
}

#[cfg(feature = "hooks")]
pub fn dump_obs(d: &resolvo::verif::VerifDump, core: Vec<u32>) -> Dump {
    use resolvo::verif::*;
    let mut helper_idx = std::collections::HashMap::new();
    let mut per_name: std::collections::HashMap<u32, u32> = Default::default();
    for (i, o) in d.origins.iter().enumerate() {
        if let VerifOrigin::ForbidMultiple(n) = o {
            let k = per_name.entry(*n).or_insert(0);
            helper_idx.insert(i as u32, *k);
            *k += 1;
        }
    }
    let v = |x: u32| match &d.origins[x as usize] {
        VerifOrigin::Root => V::Root,
        VerifOrigin::Solvable(s) => V::Sol(*s),
        VerifOrigin::ForbidMultiple(n) => V::Helper(*n, helper_idx[&x]),
    };
    let clauses = d
        .clauses
        .iter()
        .map(|c| ClauseObs {
            lits: c.literals.iter().map(|&(x, b)| (v(x), b)).collect(),
            kind: match &c.kind {
                VerifClauseKind::InstallRoot => Kind::InstallRoot,
                VerifClauseKind::RequiresSingle { parent, version_set } => Kind::Requires {
                    parent: v(*parent),
                    req: Req::Single(*version_set),
                    cands: c.candidates.iter().map(|l| l.iter().map(|&x| v(x)).collect()).collect(),
                },
                VerifClauseKind::RequiresUnion { parent, union } => Kind::Requires {
                    parent: v(*parent),
                    req: Req::Union(*union),
                    cands: c.candidates.iter().map(|l| l.iter().map(|&x| v(x)).collect()).collect(),
                },
                VerifClauseKind::ForbidMultiple { name } => Kind::Forbid { name: *name },
                VerifClauseKind::Constrains { parent, forbidden, version_set } => {
                    Kind::Constrains { parent: v(*parent), forbidden: v(*forbidden), vs: *version_set }
                }
                VerifClauseKind::Lock { locked, other } => Kind::Lock { locked: v(*locked), other: v(*other) },
                VerifClauseKind::Learnt => Kind::Learnt { why: c.learnt_why.clone() },
                VerifClauseKind::Excluded { var, reason } => Kind::Excluded { var: v(*var), reason: *reason },
            },
        })
        .collect();
    let events = d
        .events
        .iter()
        .map(|e| match e {
            VerifEvent::Assign { var, value, level, reason } => {
                Ev::Assign { var: v(*var), value: *value, level: *level, reason: *reason }
            }
            VerifEvent::UndoUntil(l) => Ev::UndoUntil(*l),
            VerifEvent::UndoLast => Ev::UndoLast,
            VerifEvent::Encode(l) => Ev::Encode(l.iter().map(|&x| if x == u32::MAX { None } else { Some(x) }).collect()),
            VerifEvent::SoftRegister(s) => Ev::SoftRegister(*s),
            VerifEvent::EncodeResult(l) => Ev::EncodeResult(l.clone()),
            VerifEvent::AnalyzeUnsolvable(c) => Ev::AnalyzeUnsolvable(*c),
            VerifEvent::Decide(n) => Ev::Decide(*n),
            VerifEvent::Propagate { level, clauses } => Ev::Propagate(*level, *clauses),
            VerifEvent::PropagateResult(c) => Ev::PropagateResult(*c),
            VerifEvent::TaskDone(t) => {
                use resolvo::verif::VerifTask as T;
                let so = |x: u32| if x == u32::MAX { None } else { Some(x) };
                Ev::Done(match t {
                    T::Dependencies(s) => TaskObs::Deps(so(*s)),
                    T::Candidates(n) => TaskObs::Cands(*n),
                    T::RequirementSingle(s, v) => TaskObs::Req(so(*s), false, *v),
                    T::RequirementUnion(s, u) => TaskObs::Req(so(*s), true, *u),
                    T::Constraint(s, v) => TaskObs::Con(so(*s), *v),
                })
            }
        })
        .collect();
    let trail = d.trail.iter().map(|&(x, b, l, r)| (v(x), b, l, r)).collect();
    let init_watches = d.initial_watches.iter().map(|w| (*w).map(|p| p.map(|(x, b)| (v(x), b)))).collect();
    Dump { clauses, events, trail, core, asserts: d.negative_assertions.clone(), init_watches }
}

#[derive(Clone, Debug)]
pub struct RunCfg {
    pub mode: Mode,
    pub policy: Policy,
    pub cancel_at: Vec<u32>,
    pub render: bool,
    pub want_dump: bool,
    pub activity: Option<(f32, f32)>,
    pub gate_all: bool,
    pub sort_fetches_deps: bool,
}
impl Default for RunCfg {
    fn default() -> Self {
        RunCfg {
            mode: Mode::Sync,
            policy: Policy::Fifo,
            cancel_at: vec![],
            render: true,
            want_dump: cfg!(feature = "hooks"),
            activity: None,
            gate_all: false,
            sort_fetches_deps: false,
        }
    }
}

pub const RENDER_CAP: usize = 1 << 20;

pub fn observe_conflict<D: DependencyProvider, RT: runtime::AsyncRuntime>(
    solver: &Solver<D, RT>,
    c: &conflict::Conflict,
) -> ConflictObs {
    let mut o = ConflictObs::default();
    let g = catch_unwind(AssertUnwindSafe(|| c.graph(solver)));
    match g {
        Err(e) => {
            o.msg_error = Some(format!("graph panicked: {}", panic_msg(e)));
            return o;
        }
        Ok(g) => {
            o.graph = Some(graph_obs(&g));
            for simplify in [false, true] {
                let r = catch_unwind(AssertUnwindSafe(|| {
                    let mut out = Vec::new();
                    g.graphviz(&mut out, solver.provider(), simplify).map(|_| out)
                }));
                let s = match r {
                    Ok(Ok(out)) => Some(String::from_utf8_lossy(&out).to_string()),
                    _ => {
                        o.msg_error = Some("graphviz failed".into());
                        None
                    }
                };
                if simplify { o.graphviz_simplified = s } else { o.graphviz = s }
            }
        }
    }
    let r = catch_unwind(AssertUnwindSafe(|| {
        use std::fmt::Write;
        let mut w = Limited { n: 0, cap: RENDER_CAP, buf: String::new() };
        let d = c.display_user_friendly(solver);
        let ok = write!(w, "{d}").is_ok();
        (ok, w.n, w.buf)
    }));
    match r {
        Ok((true, n, buf)) => {
            o.msg = Some(buf);
            o.msg_bytes = n as u64;
        }
        Ok((false, n, _)) => {
            o.msg_bytes = n as u64;
            o.msg_error = Some(format!("message exceeded {RENDER_CAP} bytes"));
        }
        Err(e) => o.msg_error = Some(format!("render panicked: {}", panic_msg(e))),
    }
    o
}

fn finish<RT: runtime::AsyncRuntime>(
    id: u64,
    mode: String,
    solver: &mut Solver<Prov, RT>,
    res: Result<Result<Vec<SolvableId>, UnsolvableOrCancelled>, Box<dyn std::any::Any + Send>>,
    cfg: &RunCfg,
    sched: Vec<(usize, usize)>,
) -> Obs {
    let mut conflict = None;
    #[allow(unused_mut)]
    let mut core: Vec<u32> = vec![];
    let outcome = match res {
        Ok(Ok(s)) => Outcome::Sat(s.iter().map(|s| s.0).collect()),
        Ok(Err(UnsolvableOrCancelled::Unsolvable(c))) => {
            #[cfg(feature = "hooks")]
            {
                core = c.verif_clauses();
            }
            if cfg.render {
                conflict = Some(observe_conflict(solver, &c));
            }
            Outcome::Unsat
        }
        Ok(Err(UnsolvableOrCancelled::Cancelled(v))) => {
            let k = v.downcast_ref::<u32>().copied().unwrap_or(u32::MAX - 1);
            if k == u32::MAX { Outcome::Hang } else { Outcome::Cancelled(k) }
        }
        Err(e) => {
            let m = panic_msg(e);
            if m.starts_with("DEADLOCK") {
                Outcome::Deadlock
            } else if m.starts_with("HANG") {
                Outcome::Hang
            } else {
                Outcome::Panic(m)
            }
        }
    };
    #[allow(unused_mut)]
    let mut dump = None;
    #[cfg(feature = "hooks")]
    if cfg.want_dump && !matches!(outcome, Outcome::Panic(_) | Outcome::Deadlock | Outcome::Hang) {
        dump = Some(dump_obs(&solver.verif_dump(), core.clone()));
    }
    let _ = &core;
    let p = solver.provider();
    Obs { id, mode, outcome, calls: p.log.borrow().clone(), polls: p.polls.get(), conflict, dump, sched }
}

fn build_prov(c: &Case, cfg: &RunCfg) -> Prov {
    let mut p = Prov::with_mode(c.u.clone(), cfg.mode);
    *p.cancel_at.borrow_mut() = cfg.cancel_at.clone();
    p.gate_all = cfg.gate_all;
    p.sort_fetches_deps = cfg.sort_fetches_deps;
    p
}

/// The second problem of a two-solve sequence on one solver: same universe, requirements and soft
/// requirements in reverse order (what is cached from the first solve is not requested again).
pub fn second_problem(p: &Prob) -> Prob {
    let mut q = p.clone();
    q.reqs.reverse();
    q.soft.reverse();
    if q.reqs.len() > 1 {
        q.reqs.pop();
    }
    q
}

/// One fresh solver (synchronous runtime), two solves: the case's problem, then `second_problem`.
/// The second observation lists only the provider calls of the second solve.
pub fn run_case_twice(c: &Case, cfg: &RunCfg) -> (Obs, Option<(Prob, Obs)>) {
    let tag = format!("sync{}", if cfg!(debug_assertions) { "-debug" } else { "-release" });
    let prov = build_prov(c, cfg);
    let mut solver = Solver::new(prov);
    let res = catch_unwind(AssertUnwindSafe(|| solver.solve(problem(&c.p))));
    let o1 = finish(c.id, tag.clone(), &mut solver, res, cfg, vec![]);
    if matches!(o1.outcome, Outcome::Panic(_) | Outcome::Deadlock | Outcome::Hang) {
        return (o1, None);
    }
    let n1 = solver.provider().log.borrow().len();
    let p2 = second_problem(&c.p);
    let res2 = catch_unwind(AssertUnwindSafe(|| solver.solve(problem(&p2))));
    let mut o2 = finish(c.id, tag, &mut solver, res2, cfg, vec![]);
    o2.calls = o2.calls.split_off(n1);
    (o1, Some((p2, o2)))
}

/// One fresh solver, one solve.
pub fn run_case(c: &Case, cfg: &RunCfg) -> Obs {
    let tag = format!(
        "{}{}",
        match cfg.mode {
            Mode::Sync => "sync",
            Mode::YieldOnce => "yield",
            Mode::Gated => "gated",
        },
        if cfg!(debug_assertions) { "-debug" } else { "-release" }
    );
    let prov = build_prov(c, cfg);
    match cfg.mode {
        Mode::Sync => {
            let mut solver = Solver::new(prov);
            if let Some((a, d)) = cfg.activity {
                solver = solver.with_activity_params(a, d);
            }
            let res = catch_unwind(AssertUnwindSafe(|| solver.solve(problem(&c.p))));
            finish(c.id, tag, &mut solver, res, cfg, vec![])
        }
        Mode::YieldOnce => {
            let mut solver = Solver::new(prov).with_runtime(SpinRt { max_polls: 5_000_000 });
            if let Some((a, d)) = cfg.activity {
                solver = solver.with_activity_params(a, d);
            }
            let res = catch_unwind(AssertUnwindSafe(|| solver.solve(problem(&c.p))));
            finish(c.id, tag, &mut solver, res, cfg, vec![])
        }
        Mode::Gated => {
            let rt = SchedRt::new(prov.gate.clone(), prov.log.clone(), cfg.policy.clone());
            let decisions = rt.decisions.clone();
            let mut solver = Solver::new(prov).with_runtime(rt);
            if let Some((a, d)) = cfg.activity {
                solver = solver.with_activity_params(a, d);
            }
            let res = catch_unwind(AssertUnwindSafe(|| solver.solve(problem(&c.p))));
            let sched = decisions.borrow().clone();
            finish(c.id, tag, &mut solver, res, cfg, sched)
        }
    }
}
