//! Histories of provider calls: sequences of solves on one solver, under the
//! synchronous runtime, a self-waking runtime and the schedule-controlled
//! executor, with scripted cancellation. One JSON line per case:
//! {"case":..,"runs":[{"label","mode","solves":[{"p","cancel_at","outcome"}],"calls":[..],"sched":[..]}]}
use resolvo::*;
use serde_json::json;
use std::io::Write;
use std::panic::{AssertUnwindSafe, catch_unwind};
use vharness::gen_::*;
use vharness::run::*;
use vharness::sched::*;
use vharness::universe::*;
use vharness::*;

fn outcome_of(res: Result<Result<Vec<SolvableId>, UnsolvableOrCancelled>, Box<dyn std::any::Any + Send>>) -> Outcome {
    match res {
        Ok(Ok(s)) => Outcome::Sat(s.iter().map(|s| s.0).collect()),
        Ok(Err(UnsolvableOrCancelled::Unsolvable(_))) => Outcome::Unsat,
        Ok(Err(UnsolvableOrCancelled::Cancelled(v))) => {
            let k = v.downcast_ref::<u32>().copied().unwrap_or(u32::MAX - 1);
            if k == u32::MAX { Outcome::Hang } else { Outcome::Cancelled(k) }
        }
        Err(e) => {
            let m = panic_msg(e);
            if m.starts_with("DEADLOCK") {
                Outcome::Deadlock
            } else if m.starts_with("HANG") {
                Outcome::Hang
            } else {
                Outcome::Panic(m)
            }
        }
    }
}

/// problems with their cancellation scripts, solved in order on ONE solver
/// `--sort-deps`: the provider's sort_candidates looks up the dependencies of its candidates through the cache
static SORT_DEPS: std::sync::atomic::AtomicBool = std::sync::atomic::AtomicBool::new(false);

fn run_seq(u: &Universe, seq: &[(Prob, Vec<u32>)], mode: Mode, policy: Policy, label: &str) -> serde_json::Value {
    let mut prov = Prov::with_mode(u.clone(), mode);
    prov.sort_fetches_deps = SORT_DEPS.load(std::sync::atomic::Ordering::Relaxed);
    prov.max_polls.set(300_000);
    let gate = prov.gate.clone();
    let log = prov.log.clone();
    let mut solves = vec![];
    let mut sched = vec![];
    macro_rules! drive {
        ($solver:expr) => {{
            for (i, (p, cancel)) in seq.iter().enumerate() {
                if i > 0 {
                    log.borrow_mut().push(Call::NextSolve);
                }
                $solver.provider().polls.set(0);
                *$solver.provider().cancel_at.borrow_mut() = cancel.clone();
                let res = catch_unwind(AssertUnwindSafe(|| $solver.solve(problem(p))));
                let o = outcome_of(res);
                let stop = matches!(o, Outcome::Panic(_) | Outcome::Deadlock | Outcome::Hang);
                solves.push(json!({"p": p, "cancel_at": cancel, "outcome": o}));
                if stop {
                    break;
                }
            }
        }};
    }
    match mode {
        Mode::Sync => {
            let mut solver = Solver::new(prov);
            drive!(solver);
        }
        Mode::YieldOnce => {
            let mut solver = Solver::new(prov).with_runtime(SpinRt { max_polls: 2_000_000 });
            drive!(solver);
        }
        Mode::Gated => {
            let rt = SchedRt::new(gate, log.clone(), policy);
            let decisions = rt.decisions.clone();
            let mut solver = Solver::new(prov).with_runtime(rt);
            drive!(solver);
            sched = decisions.borrow().clone();
        }
    }
    let calls = log.borrow().clone();
    json!({"label": label, "mode": format!("{mode:?}"), "solves": solves, "calls": calls, "sched": sched})
}

fn variant_prob(r: &mut Rng, u: &Universe, p: &Prob, feat: u32) -> Prob {
    let nvs = u.vss.len() as u64;
    if nvs == 0 || r.chance(1, 3) {
        return p.clone();
    }
    let mut reqs = vec![];
    for _ in 0..r.range(1, 3) {
        reqs.push(Req::Single(r.below(nvs) as u32));
    }
    let mut soft = vec![];
    if feat & F_SOFT != 0 && !u.sols.is_empty() && r.chance(1, 3) {
        soft.push(r.below(u.sols.len() as u64) as u32);
    }
    Prob { reqs, cons: if r.chance(1, 4) { vec![r.below(nvs) as u32] } else { vec![] }, soft }
}

/// number of should_cancel polls of an uncancelled single solve
fn count_polls(u: &Universe, p: &Prob, mode: Mode, policy: Policy) -> u32 {
    let v = run_seq(u, &[(p.clone(), vec![])], mode, policy, "count");
    v["calls"].as_array().unwrap().iter().filter(|c| c.get("p").is_some()).count() as u32
}

/// depth-first enumeration of schedules: returns scripts to try next, derived
/// from the decisions of a finished run (every alternative at every choice point)
fn alternatives(script: &[usize], decisions: &[(usize, usize)], out: &mut Vec<Vec<usize>>, cap: usize) {
    for (i, &(n, picked)) in decisions.iter().enumerate().skip(script.len()) {
        for alt in 0..n {
            if alt != picked && out.len() < cap {
                let mut s: Vec<usize> = decisions[..i].iter().map(|d| d.1).collect();
                s.push(alt);
                out.push(s);
            }
        }
    }
}

fn main() {
    std::panic::set_hook(Box::new(|_| {}));
    let a = args();
    let kind: String = arg(&a, "kind", "c09".to_string());
    let class: String = arg(&a, "class", "small".to_string());
    let feat: u32 = arg(&a, "feat", F_ALL & !F_HINTS);
    let seed: u64 = arg(&a, "seed", 1);
    let count: u64 = arg(&a, "count", 50);
    let skip: u64 = arg(&a, "skip", 0);
    let max_sched: usize = arg(&a, "max-sched", 40);
    let max_k: u32 = arg(&a, "max-k", 60);
    if a.contains_key("sort-deps") {
        SORT_DEPS.store(true, std::sync::atomic::Ordering::Relaxed);
    }
    let wd = Watchdog::start(arg(&a, "case-timeout", 60));
    let so = std::io::stdout();
    let cases: Vec<Case> = if let Some(path) = a.get("cases") {
        std::fs::read_to_string(path)
            .unwrap()
            .lines()
            .filter(|l| !l.trim().is_empty())
            .map(|l| {
                let v: serde_json::Value = serde_json::from_str(l).unwrap();
                let c = if v.get("replay").is_some() { v["replay"]["case"].clone() } else if v.get("case").is_some() { v["case"].clone() } else { v };
                serde_json::from_value(c).unwrap()
            })
            .collect()
    } else {
        (skip..skip + count).map(|id| gen_case(id, seed, &class, feat)).collect()
    };
    for c in cases {
        wd.begin(c.id);
        let mut r = Rng::new(seed ^ 0xABCD ^ c.id.wrapping_mul(977));
        let mut runs = vec![];
        let single = [(c.p.clone(), vec![])];
        match kind.as_str() {
            "c09" => {
                // 1-3 solves on one synchronous solver
                let n = 1 + r.below(3) as usize;
                let mut seq = vec![(c.p.clone(), vec![])];
                for _ in 1..n {
                    seq.push((variant_prob(&mut r, &c.u, &c.p, feat), vec![]));
                }
                runs.push(run_seq(&c.u, &seq, Mode::Sync, Policy::Fifo, "sync-seq"));
                runs.push(run_seq(&c.u, &single, Mode::YieldOnce, Policy::Fifo, "yield"));
                // metadata obtained before a cancellation must not be requested again by the next solve
                let np = count_polls(&c.u, &c.p, Mode::Sync, Policy::Fifo);
                let ks: Vec<u32> = if np <= 10 { (0..np).collect() } else { (0..10).map(|_| r.below(np as u64) as u32).collect() };
                for k in ks {
                    runs.push(run_seq(&c.u, &[(c.p.clone(), vec![k]), (c.p.clone(), vec![])], Mode::Sync, Policy::Fifo, "sync-cancel-resolve"));
                    // ... and a DIFFERENT problem after the cancellation: what the cancelled solve left in the cache must not
                    // make the next solve fetch more than it needs
                    let v = variant_prob(&mut r, &c.u, &c.p, feat);
                    runs.push(run_seq(&c.u, &[(c.p.clone(), vec![k]), (v, vec![])], Mode::Sync, Policy::Fifo, "sync-cancel-variant"));
                }
                let np = count_polls(&c.u, &c.p, Mode::YieldOnce, Policy::Fifo).min(6);
                for k in 0..np {
                    runs.push(run_seq(&c.u, &[(c.p.clone(), vec![k]), (c.p.clone(), vec![])], Mode::YieldOnce, Policy::Fifo, "yield-cancel-resolve"));
                }
            }
            "c10" => {
                runs.push(run_seq(&c.u, &single, Mode::Sync, Policy::Fifo, "sync"));
                let first = run_seq(&c.u, &single, Mode::Gated, Policy::Fifo, "gated-fifo");
                let decisions: Vec<(usize, usize)> =
                    first["sched"].as_array().unwrap().iter().map(|d| (d[0].as_u64().unwrap() as usize, d[1].as_u64().unwrap() as usize)).collect();
                runs.push(first);
                runs.push(run_seq(&c.u, &single, Mode::Gated, Policy::Lifo, "gated-lifo"));
                for k in 0..3u64 {
                    runs.push(run_seq(&c.u, &single, Mode::Gated, Policy::Random((seed * 31 + c.id * 7 + k) | 1), "gated-random"));
                }
                // bounded depth-first enumeration of the other interleavings
                let mut todo: Vec<Vec<usize>> = vec![];
                alternatives(&[], &decisions, &mut todo, max_sched);
                let mut done = 0;
                while let Some(script) = todo.pop() {
                    if done >= max_sched {
                        break;
                    }
                    done += 1;
                    let v = run_seq(&c.u, &single, Mode::Gated, Policy::Script(script.clone()), "gated-enum");
                    let d: Vec<(usize, usize)> =
                        v["sched"].as_array().unwrap().iter().map(|d| (d[0].as_u64().unwrap() as usize, d[1].as_u64().unwrap() as usize)).collect();
                    alternatives(&script, &d, &mut todo, max_sched * 4);
                    runs.push(v);
                }
            }
            "c11" => {
                runs.push(run_seq(&c.u, &single, Mode::Gated, Policy::Fifo, "gated-fifo"));
                runs.push(run_seq(&c.u, &single, Mode::Gated, Policy::Lifo, "gated-lifo"));
                runs.push(run_seq(&c.u, &single, Mode::Gated, Policy::Random((seed + c.id) | 1), "gated-random"));
            }
            "c12" => {
                for (mode, pol, lab) in [(Mode::Sync, Policy::Fifo, "sync"), (Mode::Gated, Policy::Fifo, "gated-fifo"), (Mode::Gated, Policy::Lifo, "gated-lifo")] {
                    let n = count_polls(&c.u, &c.p, mode, pol.clone());
                    runs.push(run_seq(&c.u, &single, mode, pol.clone(), &format!("{lab}-nocancel")));
                    let ks: Vec<u32> = if n <= max_k { (0..n).collect() } else { (0..max_k).map(|_| r.below(n as u64) as u32).collect() };
                    for k in ks {
                        runs.push(run_seq(&c.u, &[(c.p.clone(), vec![k])], mode, pol.clone(), &format!("{lab}-cancel")));
                    }
                }
            }
            "c13" => {
                // references on fresh solvers come from the driver (verdict oracle); here only sequences
                for (mode, pol, lab) in [(Mode::Sync, Policy::Fifo, "sync"), (Mode::YieldOnce, Policy::Fifo, "yield"), (Mode::Gated, Policy::Fifo, "gated-fifo"), (Mode::Gated, Policy::Lifo, "gated-lifo")] {
                    let n = 2 + r.below(3) as usize;
                    let mut seq = vec![];
                    for i in 0..n {
                        let p = if i == 0 { c.p.clone() } else { variant_prob(&mut r, &c.u, &c.p, feat) };
                        let cancel = if r.chance(1, 3) {
                            let np = count_polls(&c.u, &p, mode, pol.clone()).max(1);
                            vec![r.below(np as u64) as u32]
                        } else {
                            vec![]
                        };
                        seq.push((p, cancel));
                    }
                    runs.push(run_seq(&c.u, &seq, mode, pol.clone(), lab));
                }
                // the targeted shape: cancel the first solve at every early poll, then solve again
                let np = count_polls(&c.u, &c.p, Mode::YieldOnce, Policy::Fifo).min(8);
                for k in 0..np {
                    runs.push(run_seq(&c.u, &[(c.p.clone(), vec![k]), (c.p.clone(), vec![])], Mode::YieldOnce, Policy::Fifo, "yield-cancel-resolve"));
                    runs.push(run_seq(&c.u, &[(c.p.clone(), vec![k]), (c.p.clone(), vec![])], Mode::Gated, Policy::Fifo, "gated-cancel-resolve"));
                }
            }
            k => panic!("kind {k}"),
        }
        wd.end();
        let mut so = so.lock();
        let _ = writeln!(so, "{}", json!({"case": c, "runs": runs}));
    }
}
