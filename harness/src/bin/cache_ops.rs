//! Random sequences of public `SolverCache` queries against the table provider,
//! with the answer of every query, the provider calls it caused and the
//! availability probes made from inside `sort_candidates`; one JSON line per
//! sequence. Every fifth id is a full solve instead: the provider call log and
//! the probes made from inside `sort_candidates` during that solve.
//!
//! `Call::Poll` (should_cancel_with_value, polled before an uncached
//! get_candidates / get_dependencies) and the `CandsEnd` / `DepsEnd` markers are
//! filtered out of the reported call slices: the model logs the four provider
//! queries only.
use futures::FutureExt;
use std::future::Future;
use resolvo::*;
use serde_json::{json, Value};
use std::panic::{catch_unwind, AssertUnwindSafe};
use vharness::gen_::*;
use vharness::universe::*;
use vharness::*;

const FEAT: u32 = F_FAVORED | F_HINTS | F_UNIONS | F_UNKNOWN;

fn calls_from(p: &Prov, from: usize) -> Vec<Value> {
    p.log.borrow()[from..]
        .iter()
        .filter(|c| matches!(c, Call::Cands(_) | Call::Deps(_) | Call::Filter(..) | Call::Sort(_)))
        .map(|c| serde_json::to_value(c).unwrap())
        .collect()
}

fn ids(l: &[SolvableId]) -> Vec<u32> {
    l.iter().map(|s| s.0).collect()
}

fn req_json(r: &Requirement) -> Value {
    match r {
        Requirement::Single(v) => json!({"s": v.0}),
        Requirement::Union(u) => json!({"u": u.0}),
    }
}

/// one query on the real cache -> answer
fn query(cache: &SolverCache<Prov>, op: &Value) -> Value {
    let k = op[0].as_str().unwrap();
    let err = || json!(["err"]);
    match k {
        "cands" => {
            let n = op[1].as_u64().unwrap() as u32;
            match cache.get_or_cache_candidates(NameId(n)).now_or_never() {
                Some(Ok(c)) => json!(["cands", ids(&c.candidates), c.favored.map(|s| s.0)]),
                Some(Err(_)) => err(),
                None => json!(["pending"]),
            }
        }
        "match" | "nonmatch" => {
            let v = VersionSetId(op[1].as_u64().unwrap() as u32);
            let r = if k == "match" {
                cache.get_or_cache_matching_candidates(v).now_or_never()
            } else {
                cache.get_or_cache_non_matching_candidates(v).now_or_never()
            };
            match r {
                Some(Ok(l)) => json!(["list", ids(l)]),
                Some(Err(_)) => err(),
                None => json!(["pending"]),
            }
        }
        "sorted" => {
            let r: Req = serde_json::from_value(op[1].clone()).unwrap();
            match cache.get_or_cache_sorted_candidates(conv_req(&r)).now_or_never() {
                Some(Ok(l)) => json!(["list", ids(l)]),
                Some(Err(_)) => err(),
                None => json!(["pending"]),
            }
        }
        "deps" => {
            let s = op[1].as_u64().unwrap() as u32;
            match cache.get_or_cache_dependencies(SolvableId(s)).now_or_never() {
                Some(Ok(Dependencies::Known(k))) => json!(["deps", {
                    "reqs": k.requirements.iter().map(req_json).collect::<Vec<_>>(),
                    "cons": k.constrains.iter().map(|v| v.0).collect::<Vec<_>>()}]),
                Some(Ok(Dependencies::Unknown(_))) => json!(["deps", null]),
                Some(Err(_)) => err(),
                None => json!(["pending"]),
            }
        }
        "avail" => {
            let s = op[1].as_u64().unwrap() as u32;
            json!(["bool", cache.are_dependencies_available_for(SolvableId(s))])
        }
        _ => panic!("op {k}"),
    }
}

/// one query on the real cache, awaited
async fn query_a(cache: &SolverCache<Prov>, op: &Value) -> Value {
    let k = op[0].as_str().unwrap();
    let err = || json!(["err"]);
    match k {
        "cands" => {
            let n = op[1].as_u64().unwrap() as u32;
            match cache.get_or_cache_candidates(NameId(n)).await {
                Ok(c) => json!(["cands", ids(&c.candidates), c.favored.map(|s| s.0)]),
                Err(_) => err(),
            }
        }
        "match" | "nonmatch" => {
            let v = VersionSetId(op[1].as_u64().unwrap() as u32);
            let r = if k == "match" {
                cache.get_or_cache_matching_candidates(v).await
            } else {
                cache.get_or_cache_non_matching_candidates(v).await
            };
            match r {
                Ok(l) => json!(["list", ids(l)]),
                Err(_) => err(),
            }
        }
        "sorted" => {
            let r: Req = serde_json::from_value(op[1].clone()).unwrap();
            match cache.get_or_cache_sorted_candidates(conv_req(&r)).await {
                Ok(l) => json!(["list", ids(l)]),
                Err(_) => err(),
            }
        }
        "deps" => {
            let s = op[1].as_u64().unwrap() as u32;
            match cache.get_or_cache_dependencies(SolvableId(s)).await {
                Ok(Dependencies::Known(k)) => json!(["deps", {
                    "reqs": k.requirements.iter().map(req_json).collect::<Vec<_>>(),
                    "cons": k.constrains.iter().map(|v| v.0).collect::<Vec<_>>()}]),
                Ok(Dependencies::Unknown(_)) => json!(["deps", null]),
                Err(_) => err(),
            }
        }
        _ => panic!("op {k}"),
    }
}

/// all the queries are started together on a fresh cache whose provider yields in get_candidates /
/// get_dependencies, so that queries for one key overlap; returns the answers (per query) and all provider
/// calls of the run
fn run_overlap(u: &Universe, ops: &[Value]) -> Value {
    let prov = Prov::with_mode(u.clone(), Mode::YieldOnce);
    let cache = SolverCache::new(prov);
    let all = futures::future::join_all(ops.iter().map(|op| query_a(&cache, op)));
    let mut all = std::pin::pin!(all);
    let waker = futures::task::noop_waker();
    let mut cx = std::task::Context::from_waker(&waker);
    let mut answers = None;
    for _ in 0..100_000 {
        if let std::task::Poll::Ready(v) = all.as_mut().poll(&mut cx) {
            answers = Some(v);
            break;
        }
    }
    match answers {
        Some(a) => json!({"answers": a, "calls": calls_from(cache.provider(), 0)}),
        None => json!({"answers": null, "calls": calls_from(cache.provider(), 0)}),
    }
}

fn gen_overlap_ops(r: &mut Rng, u: &Universe, maxops: u64) -> Vec<Value> {
    let nv = u.vss.len() as u64;
    let ns = u.sols.len() as u64;
    let nu = u.unions.len() as u64;
    let nops = 2 + r.below(maxops.min(10));
    let mut ops: Vec<Value> = vec![];
    while (ops.len() as u64) < nops {
        // the same query again, half of the time: that is what has to be shared
        if !ops.is_empty() && r.chance(1, 2) {
            let o = ops[r.below(ops.len() as u64) as usize].clone();
            ops.push(o);
            continue;
        }
        let op = match r.below(8) {
            0 | 1 => json!(["match", r.below(nv)]),
            2 => json!(["nonmatch", r.below(nv)]),
            3 | 4 => json!(["sorted", {"s": r.below(nv)}]),
            5 if nu > 0 => json!(["sorted", {"u": r.below(nu)}]),
            6 if ns > 0 => json!(["deps", r.below(ns)]),
            _ => json!(["sorted", {"s": r.below(nv)}]),
        };
        ops.push(op);
    }
    ops
}

/// runs the operations on a fresh cache; returns the per-operation outputs
fn run_ops(u: &Universe, ops: &[Value]) -> Vec<Value> {
    let mut prov = Prov::new(u.clone());
    prov.probe_cache_in_sort = true;
    let cache = SolverCache::new(prov);
    let mut outs = vec![];
    for op in ops {
        let l0 = cache.provider().log.borrow().len();
        let p0 = cache.provider().probes.borrow().len();
        let ans = query(&cache, op);
        let calls = calls_from(cache.provider(), l0);
        let probes: Vec<(u32, bool)> = cache.provider().probes.borrow()[p0..].to_vec();
        outs.push(json!({"ans": ans, "calls": calls, "probes": probes}));
    }
    outs
}

fn gen_ops(r: &mut Rng, u: &Universe, maxops: u64) -> Vec<Value> {
    let nn = u.pkgs.len() as u64;
    let nv = u.vss.len() as u64;
    let ns = u.sols.len() as u64;
    let nu = u.unions.len() as u64;
    let nops = 1 + r.below(maxops);
    let mut ops: Vec<Value> = vec![];
    while (ops.len() as u64) < nops {
        // repeat an earlier query one time in four so cached paths are taken
        if !ops.is_empty() && r.chance(1, 4) {
            let o = ops[r.below(ops.len() as u64) as usize].clone();
            ops.push(o);
            continue;
        }
        let op = match r.below(12) {
            0 => json!(["cands", r.below(nn)]),
            1 | 2 => json!(["match", r.below(nv)]),
            3 | 4 => json!(["nonmatch", r.below(nv)]),
            5 | 6 => json!(["sorted", {"s": r.below(nv)}]),
            7 if nu > 0 => json!(["sorted", {"u": r.below(nu)}]),
            7 => json!(["sorted", {"s": r.below(nv)}]),
            8 | 9 if ns > 0 => json!(["deps", r.below(ns)]),
            _ if ns > 0 => json!(["avail", r.below(ns)]),
            _ => json!(["cands", r.below(nn)]),
        };
        ops.push(op);
    }
    // finish by asking the availability of every solvable
    for s in 0..ns {
        ops.push(json!(["avail", s]));
    }
    ops
}

fn run_solve(u: &Universe, p: &Prob) -> Value {
    let mut prov = Prov::new(u.clone());
    prov.probe_cache_in_sort = true;
    let mut solver = Solver::new(prov);
    let res = catch_unwind(AssertUnwindSafe(|| solver.solve(problem(p))));
    let outcome = match res {
        Ok(Ok(s)) => json!({"sat": ids(&s)}),
        Ok(Err(UnsolvableOrCancelled::Unsolvable(_))) => json!("unsat"),
        Ok(Err(UnsolvableOrCancelled::Cancelled(_))) => json!("cancelled"),
        Err(_) => json!("panic"),
    };
    let pr = solver.provider();
    let probes: Vec<(u32, bool)> = pr.probes.borrow().clone();
    json!({"outcome": outcome, "log": calls_from(pr, 0), "probes": probes})
}

fn main() {
    std::panic::set_hook(Box::new(|_| {}));
    let a = args();
    let seed: u64 = arg(&a, "seed", 1);
    let count: u64 = arg(&a, "count", 100);
    let skip: u64 = arg(&a, "skip", 0);
    let maxops: u64 = arg(&a, "maxops", 30);
    if let Some(path) = a.get("replay") {
        // re-run a recorded case on the current implementation
        let v: Value = serde_json::from_str(&std::fs::read_to_string(path).unwrap()).unwrap();
        let c = if v.get("replay").is_some() {
            v["replay"]["case"].clone()
        } else if v.get("case").is_some() {
            v["case"].clone()
        } else {
            v
        };
        let u: Universe = serde_json::from_value(c["u"].clone()).unwrap();
        if c["mode"] == "overlap" {
            let ops: Vec<Value> = c["ops"].as_array().unwrap().clone();
            let o = run_overlap(&u, &ops);
            println!("{}", json!({"id": c["id"], "mode": "overlap", "u": u, "ops": ops,
                "answers": o["answers"], "calls": o["calls"]}));
        } else if c["mode"] == "solve" {
            let p: Prob = serde_json::from_value(c["p"].clone()).unwrap();
            let o = run_solve(&u, &p);
            println!("{}", json!({"id": c["id"], "mode": "solve", "u": u, "p": p,
                "outcome": o["outcome"], "log": o["log"], "probes": o["probes"]}));
        } else {
            let ops: Vec<Value> = c["ops"].as_array().unwrap().clone();
            let outs = run_ops(&u, &ops);
            println!("{}", json!({"id": c["id"], "mode": "ops", "u": u, "ops": ops, "outs": outs}));
        }
        return;
    }
    for id in skip..skip + count {
        let mut r = Rng::new(seed.wrapping_mul(104729).wrapping_add(id));
        let (u, p) = gen_universe(&mut r, FEAT, &SMALL);
        if id % 5 == 3 {
            let ops = gen_overlap_ops(&mut r, &u, maxops);
            let o = run_overlap(&u, &ops);
            println!("{}", json!({"id": id, "mode": "overlap", "u": u, "ops": ops,
                "answers": o["answers"], "calls": o["calls"]}));
        } else if id % 5 == 4 {
            let o = run_solve(&u, &p);
            println!("{}", json!({"id": id, "mode": "solve", "u": u, "p": p,
                "outcome": o["outcome"], "log": o["log"], "probes": o["probes"]}));
        } else {
            let ops = gen_ops(&mut r, &u, maxops);
            let outs = run_ops(&u, &ops);
            println!("{}", json!({"id": id, "mode": "ops", "u": u, "ops": ops, "outs": outs}));
        }
    }
}
