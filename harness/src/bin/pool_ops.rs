//! Random interleavings of the public `resolvo::utils::Pool` API with the observed
//! results, one JSON line per sequence. References returned by `resolve_*` are
//! kept (`hold`) and looked through again after many later interns (`check`).
//!
//! ops:  ["iname",v] ["istr",v] ["ivs",name_id,v] ["isolv",name_id,rec] ["iunion",first,[others]]
//!       ["res",kind,id] ["rvsname",id] ["runion",id] ["lname",v]
//!       ["hold",kind,id] ["check",h] ["layout",kind,id]         kind in name|str|vs|solv
//! outs: ["id",n] ["val",[..]|null] ["opt",n|null] ["held",same_addr,[..]|null] ["bool",b] ["err"]
//! Name number v is the string "n<v>", string number v is "s<v>".
use resolvo::utils::{Pool, VersionSet};
use resolvo::{NameId, SolvableId, StringId, VersionSetId, VersionSetUnionId};
use serde_json::{Value, json};
use std::panic::{AssertUnwindSafe, catch_unwind};
use vharness::gen_::Rng;
use vharness::*;

/// Version set and package name types with a lawful but deliberately coarse `Hash` (3 resp. 2 distinct
/// hash values): the pool must tell values apart by `Eq`, whatever the quality of the user's hash.
#[derive(Clone, PartialEq, Eq, Debug)]
struct Vs(u64);
impl std::hash::Hash for Vs {
    fn hash<H: std::hash::Hasher>(&self, state: &mut H) {
        (self.0 % 3).hash(state)
    }
}
impl VersionSet for Vs {
    type V = u64;
}
#[derive(Clone, PartialEq, Eq, Debug)]
struct Nm(String);
impl std::hash::Hash for Nm {
    fn hash<H: std::hash::Hasher>(&self, state: &mut H) {
        (self.0.len() % 2).hash(state)
    }
}
impl std::ops::Deref for Nm {
    type Target = String;
    fn deref(&self) -> &String {
        &self.0
    }
}
type P = Pool<Vs, Nm>;

fn name_str(v: u64) -> Nm {
    Nm(format!("n{v}"))
}
fn str_str(v: u64) -> String {
    format!("s{v}")
}
fn num_of(s: &str) -> u64 {
    s[1..].parse().unwrap()
}

/// A reference obtained from the pool, kept across later insertions.
enum Held<'a> {
    Name(u32, &'a Nm, usize, usize),
    Str(u32, &'a str, usize),
    Vs(u32, &'a Vs, usize),
    Solv(u32, &'a NameId, &'a u64, usize),
}

struct Runner<'a> {
    pool: &'a P,
    held: Vec<Held<'a>>,
    // number of ids handed out so far per arena: name, str, vs, solv, union
    cnt: [u64; 5],
}

fn kidx(k: &str) -> usize {
    match k {
        "name" => 0,
        "str" => 1,
        "vs" => 2,
        "solv" => 3,
        _ => panic!("kind"),
    }
}

impl<'a> Runner<'a> {
    fn new(pool: &'a P) -> Self {
        Runner { pool, held: vec![], cnt: [0; 5] }
    }
    fn saw(&mut self, k: usize, id: u32) -> Value {
        self.cnt[k] = self.cnt[k].max(id as u64 + 1);
        json!(["id", id])
    }
    /// address of the arena slot (for strings: of the character data) of element id
    fn addr(&self, k: &str, id: u32) -> (usize, usize) {
        let p = self.pool;
        match k {
            "name" => (p.resolve_package_name(NameId(id)) as *const Nm as usize, std::mem::size_of::<Nm>()),
            "str" => (p.resolve_string(StringId(id)).as_ptr() as usize, 0),
            "vs" => (p.resolve_version_set(VersionSetId(id)) as *const Vs as usize, std::mem::size_of::<(NameId, Vs)>()),
            "solv" => {
                let s = p.resolve_solvable(SolvableId(id));
                (s as *const _ as *const u8 as usize, std::mem::size_of_val(s))
            }
            _ => panic!("kind"),
        }
    }
    fn resolve(&self, k: &str, id: u32) -> Option<Vec<u64>> {
        let p = self.pool;
        // an id that was never handed out makes the real pool panic: reported as null
        catch_unwind(AssertUnwindSafe(|| match k {
            "name" => vec![num_of(p.resolve_package_name(NameId(id)))],
            "str" => vec![num_of(p.resolve_string(StringId(id)))],
            "vs" => vec![p.resolve_version_set(VersionSetId(id)).0],
            "solv" => {
                let s = p.resolve_solvable(SolvableId(id));
                vec![s.name.0 as u64, s.record]
            }
            _ => panic!("kind"),
        }))
        .ok()
    }
    fn exec(&mut self, o: &Value) -> Value {
        let p = self.pool;
        let kind = o[0].as_str().unwrap();
        let n = |i: usize| o[i].as_u64().unwrap();
        match kind {
            "iname" => {
                let id = p.intern_package_name(name_str(n(1)));
                self.saw(0, id.0)
            }
            "istr" => {
                let s = str_str(n(1));
                // both argument forms of `impl Into<String> + AsRef<str>`
                let id = if n(1) % 2 == 0 { p.intern_string(s) } else { p.intern_string(s.as_str()) };
                self.saw(1, id.0)
            }
            "ivs" => {
                let id = p.intern_version_set(NameId(n(1) as u32), Vs(n(2)));
                self.saw(2, id.0)
            }
            "isolv" => {
                let id = p.intern_solvable(NameId(n(1) as u32), n(2));
                self.saw(3, id.0)
            }
            "iunion" => {
                let others: Vec<VersionSetId> =
                    o[2].as_array().unwrap().iter().map(|x| VersionSetId(x.as_u64().unwrap() as u32)).collect();
                let id = p.intern_version_set_union(VersionSetId(n(1) as u32), others.into_iter());
                self.saw(4, id.0)
            }
            "res" => json!(["val", self.resolve(o[1].as_str().unwrap(), n(2) as u32)]),
            "rvsname" => {
                let id = n(1) as u32;
                let r = catch_unwind(AssertUnwindSafe(|| vec![p.resolve_version_set_package_name(VersionSetId(id)).0 as u64])).ok();
                json!(["val", r])
            }
            "runion" => {
                let id = n(1) as u32;
                let r = catch_unwind(AssertUnwindSafe(|| {
                    p.resolve_version_set_union(VersionSetUnionId(id)).map(|v| v.0 as u64).collect::<Vec<u64>>()
                }))
                .ok();
                json!(["val", r])
            }
            "lname" => json!(["opt", p.lookup_package_name(&name_str(n(1))).map(|i| i.0)]),
            "hold" => {
                let k = o[1].as_str().unwrap();
                let id = n(2) as u32;
                if (id as u64) >= self.cnt[kidx(k)] {
                    return json!(["val", self.resolve(k, id)]);
                }
                let (a, _) = self.addr(k, id);
                let (h, v) = match k {
                    "name" => {
                        let r: &'a Nm = p.resolve_package_name(NameId(id));
                        (Held::Name(id, r, a, r.as_ptr() as usize), vec![num_of(r)])
                    }
                    "str" => {
                        let r: &'a str = p.resolve_string(StringId(id));
                        (Held::Str(id, r, a), vec![num_of(r)])
                    }
                    "vs" => {
                        let r: &'a Vs = p.resolve_version_set(VersionSetId(id));
                        (Held::Vs(id, r, a), vec![r.0])
                    }
                    "solv" => {
                        let s = p.resolve_solvable(SolvableId(id));
                        let (nm, rec): (&'a NameId, &'a u64) = (&s.name, &s.record);
                        (Held::Solv(id, nm, rec, a), vec![nm.0 as u64, *rec])
                    }
                    _ => panic!("kind"),
                };
                self.held.push(h);
                json!(["val", v])
            }
            "check" => {
                let h = n(1) as usize;
                if h >= self.held.len() {
                    return json!(["err"]);
                }
                // the value is read THROUGH THE OLD REFERENCE; the address is
                // compared with what a fresh resolve of the same id points at
                let (same, v) = match &self.held[h] {
                    Held::Name(id, r, a, heap) => {
                        let now = self.addr("name", *id).0;
                        (now == *a && (*r as *const Nm as usize) == *a && r.as_ptr() as usize == *heap, vec![num_of(r)])
                    }
                    Held::Str(id, r, a) => (self.addr("str", *id).0 == *a && r.as_ptr() as usize == *a, vec![num_of(r)]),
                    Held::Vs(id, r, a) => (self.addr("vs", *id).0 == *a && (*r as *const Vs as usize) == *a, vec![r.0]),
                    Held::Solv(id, nm, rec, a) => {
                        let s = p.resolve_solvable(SolvableId(*id));
                        let same_fields = std::ptr::eq(&s.name, *nm) && std::ptr::eq(&s.record, *rec);
                        (self.addr("solv", *id).0 == *a && same_fields, vec![nm.0 as u64, **rec])
                    }
                };
                json!(["held", same, v])
            }
            "layout" => {
                let k = o[1].as_str().unwrap();
                let id = n(2) as u32;
                if id == 0 || (id as u64) >= self.cnt[kidx(k)] || k == "str" {
                    return json!(["err"]);
                }
                // consecutive elements of one chunk are one element size apart
                let (a1, sz) = self.addr(k, id);
                let (a0, _) = self.addr(k, id - 1);
                json!(["bool", a0.wrapping_add(sz) == a1])
            }
            _ => panic!("op {kind}"),
        }
    }
}

struct GenState {
    names: Vec<u64>,
    strs: Vec<u64>,
    vss: Vec<(u64, u64)>,
    nheld: u64,
    fresh: u64,
}

fn pick(r: &mut Rng, used: &[u64], range: u64, dup: u64, fresh: &mut u64) -> u64 {
    if !used.is_empty() && r.chance(dup, 100) {
        used[r.below(used.len() as u64) as usize]
    } else if r.chance(1, 2) {
        *fresh += 1;
        100_000 + *fresh
    } else {
        r.below(range)
    }
}

fn gen_op(r: &mut Rng, g: &mut GenState, cnt: &[u64; 5], w: &[u64; 12], range: u64, dup: u64) -> Value {
    let total: u64 = w.iter().sum();
    let mut roll = r.below(total);
    let mut which = 0;
    for (i, x) in w.iter().enumerate() {
        if roll < *x {
            which = i;
            break;
        }
        roll -= x;
    }
    let kinds = ["name", "str", "vs", "solv"];
    let nonempty: Vec<usize> = (0..4).filter(|k| cnt[*k] > 0).collect();
    let iname = |r: &mut Rng, g: &mut GenState| {
        let v = pick(r, &g.names, range, dup, &mut g.fresh);
        g.names.push(v);
        json!(["iname", v])
    };
    // ids: mostly early or latest ones, sometimes around a chunk boundary
    let pick_id = |r: &mut Rng, c: u64| -> u64 {
        match r.below(4) {
            0 => r.below(c.min(4)),
            1 => c - 1 - r.below(c.min(4)),
            2 if c > 128 => (128 * (1 + r.below(c / 128)) + r.below(3)).saturating_sub(1).min(c - 1),
            _ => r.below(c),
        }
    };
    match which {
        0 => iname(r, g),
        1 => {
            let v = pick(r, &g.strs, range, dup, &mut g.fresh);
            g.strs.push(v);
            json!(["istr", v])
        }
        2 if cnt[0] > 0 => {
            let (n, v) = if !g.vss.is_empty() && r.chance(dup, 100) {
                g.vss[r.below(g.vss.len() as u64) as usize]
            } else {
                (r.below(cnt[0].min(6)), if r.chance(1, 2) { r.below(range) } else { g.fresh += 1; 100_000 + g.fresh })
            };
            g.vss.push((n, v));
            json!(["ivs", n, v])
        }
        3 if cnt[0] > 0 => json!(["isolv", r.below(cnt[0]), r.below(1000)]),
        4 if cnt[2] > 0 => {
            let k = r.below(5);
            let others: Vec<u64> = (0..k).map(|_| r.below(cnt[2])).collect();
            json!(["iunion", r.below(cnt[2]), others])
        }
        5 if !nonempty.is_empty() => {
            let k = nonempty[r.below(nonempty.len() as u64) as usize];
            json!(["res", kinds[k], pick_id(r, cnt[k])])
        }
        6 if cnt[2] > 0 => json!(["rvsname", pick_id(r, cnt[2])]),
        7 if cnt[4] > 0 => json!(["runion", pick_id(r, cnt[4])]),
        8 => {
            let v = if !g.names.is_empty() && r.chance(2, 3) { g.names[r.below(g.names.len() as u64) as usize] } else { r.below(range) };
            json!(["lname", v])
        }
        9 if !nonempty.is_empty() && g.nheld < 24 => {
            let k = nonempty[r.below(nonempty.len() as u64) as usize];
            g.nheld += 1;
            json!(["hold", kinds[k], pick_id(r, cnt[k])])
        }
        10 if g.nheld > 0 => json!(["check", r.below(g.nheld)]),
        11 => {
            let cands: Vec<usize> = [0usize, 2, 3].into_iter().filter(|k| cnt[*k] > 1).collect();
            if cands.is_empty() {
                iname(r, g)
            } else {
                let k = cands[r.below(cands.len() as u64) as usize];
                json!(["layout", kinds[k], pick_id(r, cnt[k]).max(1)])
            }
        }
        _ => iname(r, g),
    }
}

fn main() {
    std::panic::set_hook(Box::new(|_| {}));
    let a = args();
    let seed: u64 = arg(&a, "seed", 1);
    let count: u64 = arg(&a, "count", 100);
    let skip: u64 = arg(&a, "skip", 0);
    let maxops: u64 = arg(&a, "maxops", 1400);
    if a.contains_key("probe-ids") {
        // the id an arena hands out for its index-th element, around the limit of the 32-bit id types: it must be the
        // index itself, or the conversion must refuse (panic) -- never another element's id
        let mut probes = vec![];
        for kind in 0u8..5 {
            for index in [0usize, 1, 127, 128, u32::MAX as usize - 1, u32::MAX as usize, 1usize << 32, (1usize << 32) + 1,
                          (1usize << 32) + 128, 1usize << 40, usize::MAX] {
                let r = std::panic::catch_unwind(|| resolvo::verif::pool_id_for_index(kind, index));
                probes.push(json!({"kind": kind, "index": index.to_string(), "id": r.ok()}));
            }
        }
        println!("{}", json!({"probe_ids": probes}));
        return;
    }
    if let Some(path) = a.get("replay") {
        let v: Value = serde_json::from_str(&std::fs::read_to_string(path).unwrap()).unwrap();
        let c = if v.get("replay").is_some() { v["replay"]["case"].clone() } else if v.get("case").is_some() { v["case"].clone() } else { v };
        let pool = P::new();
        let mut run = Runner::new(&pool);
        let outs: Vec<Value> = c["ops"].as_array().unwrap().iter().map(|o| run.exec(o)).collect();
        println!("{}", json!({"id": c.get("id").cloned().unwrap_or(json!(0)), "class": 9, "ops": c["ops"], "outs": outs}));
        return;
    }
    for id in skip..skip + count {
        let mut r = Rng::new(seed.wrapping_mul(104729).wrapping_add(id));
        let class = id % 5;
        //            iname istr ivs isolv iunion res rvsname runion lname hold check layout
        let (w, range, dup, nops): ([u64; 12], u64, u64, u64) = match class {
            0 => ([18, 14, 16, 14, 5, 12, 2, 2, 5, 3, 5, 4], 12, 40, 1 + r.below(60.min(maxops))),
            1 => ([55, 5, 5, 10, 1, 8, 1, 1, 3, 2, 5, 4], 4000, 12, r.range(500.min(maxops), maxops)),
            2 => ([18, 14, 16, 16, 4, 10, 2, 2, 3, 3, 6, 6], 3000, 15, r.range(700.min(maxops), maxops)),
            3 => ([20, 14, 16, 16, 4, 10, 2, 2, 4, 3, 5, 4], 300, 25, r.range(150.min(maxops), 400.min(maxops))),
            _ => ([6, 4, 5, 5, 3, 25, 3, 3, 6, 6, 20, 14], 5000, 10, r.range(300.min(maxops), maxops)),
        };
        let pool = P::new();
        let mut run = Runner::new(&pool);
        let mut g = GenState { names: vec![], strs: vec![], vss: vec![], nheld: 0, fresh: 0 };
        let mut ops: Vec<Value> = vec![];
        let mut outs: Vec<Value> = vec![];
        let kinds = ["name", "str", "vs", "solv"];
        // burst state for class 4: (kind index, remaining)
        let mut burst: (usize, u64) = (0, 0);
        let mut i = 0;
        while (ops.len() as u64) < nops {
            i += 1;
            let cnt = run.cnt;
            let op = if class != 0 && [8u64, 16, 40].contains(&i) && g.nheld < 24 && cnt.iter().take(4).any(|c| *c > 0) {
                // take references early so that they are held across all later growth
                let ne: Vec<usize> = (0..4).filter(|k| cnt[*k] > 0).collect();
                let k = ne[r.below(ne.len() as u64) as usize];
                g.nheld += 1;
                json!(["hold", kinds[k], r.below(cnt[k])])
            } else if class == 4 && burst.1 > 0 && r.chance(5, 6) {
                burst.1 -= 1;
                g.fresh += 1;
                let v = 100_000 + g.fresh;
                match burst.0 {
                    0 => { g.names.push(v); json!(["iname", v]) }
                    1 => { g.strs.push(v); json!(["istr", v]) }
                    2 if cnt[0] > 0 => { let n = r.below(cnt[0].min(4)); g.vss.push((n, v)); json!(["ivs", n, v]) }
                    3 if cnt[0] > 0 => json!(["isolv", r.below(cnt[0]), v % 1000]),
                    _ => { g.names.push(v); json!(["iname", v]) }
                }
            } else {
                if class == 4 && burst.1 == 0 && r.chance(1, 12) {
                    burst = (r.below(4) as usize, r.range(100, 300));
                }
                gen_op(&mut r, &mut g, &cnt, &w, range, dup)
            };
            outs.push(run.exec(&op));
            ops.push(op);
        }
        // always finish with the full observation: every kept reference, the
        // first interned values again, first/last/boundary ids of every arena
        for h in 0..g.nheld {
            let op = json!(["check", h]);
            outs.push(run.exec(&op));
            ops.push(op);
        }
        let mut tail: Vec<Value> = vec![];
        for v in g.names.iter().take(3) {
            tail.push(json!(["iname", v]));
            tail.push(json!(["lname", v]));
        }
        for v in g.strs.iter().take(2) {
            tail.push(json!(["istr", v]));
        }
        for (n, v) in g.vss.iter().take(2) {
            tail.push(json!(["ivs", n, v]));
        }
        for k in 0..4 {
            let c = run.cnt[k];
            if c > 0 {
                tail.push(json!(["res", kinds[k], 0]));
                tail.push(json!(["res", kinds[k], c - 1]));
            }
            if k != 1 {
                for b in [127u64, 128, 129, 256, 384] {
                    if b < c && b > 0 {
                        tail.push(json!(["layout", kinds[k], b]));
                    }
                }
            }
        }
        if run.cnt[4] > 0 {
            tail.push(json!(["runion", run.cnt[4] - 1]));
        }
        for op in tail {
            outs.push(run.exec(&op));
            ops.push(op);
        }
        println!("{}", json!({"id": id, "class": class, "ops": ops, "outs": outs}));
    }
}
