//! C16: seeded universes (dense and sparse ids) captured with
//! `DependencySnapshot::from_provider`, dumped as canonical JSON, and solved three
//! ways: live provider, snapshot provider, provider of the serde round-tripped
//! snapshot. One JSON line per case with everything observed.
//!
//! A case is fully described by its `spec` (no randomness after generation), so
//! `--replay <file>` re-runs exactly the recorded case on the current tree.
use resolvo::snapshot::DependencySnapshot;
use resolvo::*;
use serde::{Deserialize, Serialize};
use serde_json::{Value, json};
use std::io::Write;
use std::panic::{AssertUnwindSafe, catch_unwind};
use vharness::gen_::*;
use vharness::run::{Outcome, panic_msg};
use vharness::universe::*;
use vharness::*;

pub const FEAT: u32 = F_EXCLUDED | F_HINTS | F_UNIONS | F_UNKNOWN | F_CONSTRAINS;

#[derive(Clone, Debug, Default, Serialize, Deserialize)]
struct Maps {
    names: Vec<u32>,
    vss: Vec<u32>,
    sols: Vec<u32>,
    unions: Vec<u32>,
}
#[derive(Clone, Debug, Default, Serialize, Deserialize)]
struct Seeds {
    names: Vec<u32>,
    vss: Vec<u32>,
    sols: Vec<u32>,
}
/// Everything that determines a run. `u`/`p`/`star` use dense ids; `maps` sends a
/// dense id to the id used against the real code; `seeds` are real ids.
#[derive(Clone, Debug, Default, Serialize, Deserialize)]
struct Spec {
    id: u64,
    class: String,
    u: Universe,
    p: Prob,
    /// per dense name: dense id of a version set of that name matching all candidates
    star: Vec<u32>,
    maps: Maps,
    seeds: Seeds,
    /// 0: leave the problem alone; 1: also require the highest captured version
    /// set; 2: also constrain by it
    use_hi: u32,
    /// add_package_requirement(name, "*") for captured_names[pick % len], in order
    add_picks: Vec<u64>,
}

fn identity(n: usize) -> Vec<u32> {
    (0..n as u32).collect()
}

fn sparse_map(r: &mut Rng, n: usize) -> Vec<u32> {
    let mut cur = r.below(7) as u32;
    let mut out = vec![];
    for _ in 0..n {
        out.push(cur);
        cur += match r.below(10) {
            0 => 129 + r.below(60) as u32,
            1..=5 => 1 + r.below(5) as u32,
            _ => 1,
        };
    }
    out
}

fn map_req(r: &Req, m: &Maps) -> Req {
    match r {
        Req::Single(v) => Req::Single(m.vss[*v as usize]),
        Req::Union(u) => Req::Union(m.unions[*u as usize]),
    }
}

/// The universe the real code sees: entries moved to their mapped ids, every other
/// slot a dummy (package without candidates; version set of the dummy package;
/// solvable of the dummy package with unknown dependencies, never a candidate).
fn sparsify(u: &Universe, m: &Maps) -> Universe {
    let top = |v: &Vec<u32>| v.last().map(|x| *x as usize + 1).unwrap_or(0);
    let dummy_pkg = top(&m.names) as u32;
    let mut out = Universe {
        sols: vec![Sol { name: dummy_pkg, rank: 0, deps: None }; top(&m.sols)],
        vss: vec![Vs { name: dummy_pkg, matching: vec![] }; top(&m.vss)],
        unions: vec![vec![]; top(&m.unions)],
        pkgs: vec![Pkg::default(); top(&m.names) + 1],
    };
    let ms = |l: &Vec<u32>| l.iter().map(|&s| m.sols[s as usize]).collect::<Vec<_>>();
    for (i, s) in u.sols.iter().enumerate() {
        out.sols[m.sols[i] as usize] = Sol {
            name: m.names[s.name as usize],
            rank: s.rank,
            deps: s.deps.as_ref().map(|k| Known {
                reqs: k.reqs.iter().map(|r| map_req(r, m)).collect(),
                cons: k.cons.iter().map(|&v| m.vss[v as usize]).collect(),
            }),
        };
    }
    for (i, v) in u.vss.iter().enumerate() {
        out.vss[m.vss[i] as usize] = Vs { name: m.names[v.name as usize], matching: ms(&v.matching) };
    }
    for (i, x) in u.unions.iter().enumerate() {
        out.unions[m.unions[i] as usize] = x.iter().map(|&v| m.vss[v as usize]).collect();
    }
    for (i, k) in u.pkgs.iter().enumerate() {
        out.pkgs[m.names[i] as usize] = Pkg {
            missing: k.missing,
            cands: ms(&k.cands),
            favored: k.favored.map(|s| m.sols[s as usize]),
            locked: k.locked.map(|s| m.sols[s as usize]),
            excluded: ms(&k.excluded),
            hint: match &k.hint {
                Hint::None => Hint::None,
                Hint::All => Hint::All,
                Hint::Some(l) => Hint::Some(ms(l)),
            },
        };
    }
    out
}

fn gen_spec(id: u64, seed: u64) -> Spec {
    let mut r = Rng::new(seed.wrapping_mul(0x100000001B3).wrapping_add(id).wrapping_mul(31).wrapping_add(16));
    let (class, (mut u, p)) = match id % 4 {
        0 => ("greedy", gen_greedy(&mut r, F_HINTS | F_UNIONS)),
        1 | 2 => ("small", gen_universe(&mut r, FEAT, &SMALL)),
        _ => ("dense", gen_universe(&mut r, FEAT, &DENSE)),
    };
    // one "any version" version set per name, the live counterpart of
    // add_package_requirement(name, "*")
    let n_real_vs = u.vss.len();
    let mut star = vec![];
    for (n, k) in u.pkgs.iter().enumerate() {
        star.push(u.vss.len() as u32);
        let c = if k.missing { vec![] } else { k.cands.clone() };
        u.vss.push(Vs { name: n as u32, matching: c });
    }
    let sparse = r.chance(3, 5);
    let maps = if sparse {
        Maps {
            names: sparse_map(&mut r, u.pkgs.len()),
            vss: sparse_map(&mut r, u.vss.len()),
            sols: sparse_map(&mut r, u.sols.len()),
            unions: sparse_map(&mut r, u.unions.len()),
        }
    } else {
        Maps {
            names: identity(u.pkgs.len()),
            vss: identity(u.vss.len()),
            sols: identity(u.sols.len()),
            unions: identity(u.unions.len()),
        }
    };
    // seeds: always what the problem mentions
    let mut seeds = Seeds::default();
    for q in &p.reqs {
        for v in u.req_vss(q) {
            seeds.vss.push(maps.vss[v as usize]);
        }
    }
    for &v in &p.cons {
        seeds.vss.push(maps.vss[v as usize]);
    }
    let extra = |r: &mut Rng, n: usize, m: &Vec<u32>, out: &mut Vec<u32>| {
        if n > 0 {
            for _ in 0..r.below(4) {
                out.push(m[r.below(n as u64) as usize]);
            }
        }
    };
    match r.below(5) {
        0 => {}
        1 => extra(&mut r, u.pkgs.len(), &maps.names, &mut seeds.names),
        2 => extra(&mut r, n_real_vs, &maps.vss, &mut seeds.vss),
        3 => extra(&mut r, u.sols.len(), &maps.sols, &mut seeds.sols),
        _ => {
            extra(&mut r, u.pkgs.len(), &maps.names, &mut seeds.names);
            extra(&mut r, n_real_vs, &maps.vss, &mut seeds.vss);
            extra(&mut r, u.sols.len(), &maps.sols, &mut seeds.sols);
        }
    }
    let use_hi = match r.below(6) {
        0..=2 => 0,
        3..=4 => 1,
        _ => 2,
    };
    let add_picks = (0..r.below(4)).map(|_| r.next() >> 8).collect();
    Spec {
        id,
        class: format!("{}/{}", class, if sparse { "sparse" } else { "dense" }),
        u,
        p,
        star,
        maps,
        seeds,
        use_hi,
        add_picks,
    }
}

fn solve_with<D: DependencyProvider>(prov: D, p: &Prob) -> Outcome {
    let mut solver = Solver::new(prov);
    match catch_unwind(AssertUnwindSafe(|| solver.solve(problem(p)))) {
        Ok(Ok(s)) => Outcome::Sat(s.iter().map(|s| s.0).collect()),
        Ok(Err(UnsolvableOrCancelled::Unsolvable(_))) => Outcome::Unsat,
        Ok(Err(UnsolvableOrCancelled::Cancelled(_))) => Outcome::Cancelled(0),
        Err(e) => Outcome::Panic(panic_msg(e)),
    }
}

/// serde_json form of a snapshot with the hash sets sorted and the display
/// strings dropped
fn canonical(s: &DependencySnapshot) -> Value {
    let mut v = serde_json::to_value(s).unwrap();
    let o = v.as_object_mut().unwrap();
    o.remove("strings");
    let sort_arr = |x: &mut Value| {
        if let Some(a) = x.as_array_mut() {
            a.sort_by_key(|e| e.as_u64().unwrap_or(0));
        }
    };
    if let Some(a) = o.get_mut("version_sets").and_then(|x| x.as_array_mut()) {
        for e in a.iter_mut() {
            if let Some(m) = e.as_object_mut() {
                m.remove("display");
                if let Some(mc) = m.get_mut("matching_candidates") {
                    sort_arr(mc);
                }
            }
        }
    }
    if let Some(a) = o.get_mut("version_set_unions").and_then(|x| x.as_array_mut()) {
        for e in a.iter_mut() {
            sort_arr(e);
        }
    }
    if let Some(a) = o.get_mut("solvables").and_then(|x| x.as_array_mut()) {
        for e in a.iter_mut() {
            if let Some(m) = e.as_object_mut() {
                m.remove("display");
            }
        }
    }
    if let Some(a) = o.get_mut("packages").and_then(|x| x.as_array_mut()) {
        for e in a.iter_mut() {
            if let Some(m) = e.as_object_mut() {
                m.remove("name");
            }
        }
    }
    v
}

/// ids present in a serialised Mapping
fn present(v: &Value, key: &str) -> Vec<u32> {
    v.get(key)
        .and_then(|x| x.as_array())
        .map(|a| a.iter().enumerate().filter(|(_, e)| !e.is_null()).map(|(i, _)| i as u32).collect())
        .unwrap_or_default()
}

struct Through {
    add_ids: Vec<u32>,
    /// version_set_name of every captured id after the additions (None = panic)
    names_after: Vec<(u32, Option<u32>)>,
    /// version_set_name of every fresh id
    fresh_names: Vec<Option<u32>>,
    outcome: Outcome,
}

fn through(s: &DependencySnapshot, captured_vs: &[u32], add_names: &[u32], p: &Prob) -> Value {
    let r = catch_unwind(AssertUnwindSafe(|| {
        let mut prov = s.provider();
        let mut add_ids = vec![];
        for &n in add_names {
            add_ids.push(prov.add_package_requirement(NameId(n), "*").0);
        }
        let name_of = |prov: &snapshot::SnapshotProvider<'_>, v: u32| {
            catch_unwind(AssertUnwindSafe(|| prov.version_set_name(VersionSetId(v)).0)).ok()
        };
        let names_after = captured_vs.iter().map(|&v| (v, name_of(&prov, v))).collect();
        let fresh_names = add_ids.iter().map(|&v| name_of(&prov, v)).collect();
        let mut p2 = p.clone();
        for &v in &add_ids {
            p2.reqs.push(Req::Single(v));
        }
        let outcome = solve_with(prov, &p2);
        Through { add_ids, names_after, fresh_names, outcome }
    }));
    match r {
        Ok(t) => json!({"add_ids": t.add_ids, "names_after": t.names_after, "fresh_names": t.fresh_names,
                        "outcome": t.outcome}),
        Err(e) => json!({"panic": panic_msg(e)}),
    }
}

fn run_spec(spec: &Spec) -> Value {
    let u = sparsify(&spec.u, &spec.maps);
    let mut p = Prob {
        reqs: spec.p.reqs.iter().map(|r| map_req(r, &spec.maps)).collect(),
        cons: spec.p.cons.iter().map(|&v| spec.maps.vss[v as usize]).collect(),
        soft: vec![],
    };
    let sizes = json!({"sols": u.sols.len(), "vss": u.vss.len(), "unions": u.unions.len(), "pkgs": u.pkgs.len()});
    // the order in which the capture queries the provider: four captures, each with hash containers of its own
    // (ahash seeds differ per container), must query the provider in the same order
    let mut capture_orders: Vec<Vec<Value>> = vec![];
    for _ in 0..4 {
        let prov = Prov::new(u.clone());
        let log = prov.log.clone();
        let _ = catch_unwind(AssertUnwindSafe(|| {
            DependencySnapshot::from_provider(
                prov,
                spec.seeds.names.iter().map(|&n| NameId(n)),
                spec.seeds.vss.iter().map(|&v| VersionSetId(v)),
                spec.seeds.sols.iter().map(|&s| SolvableId(s)),
            )
        }));
        capture_orders.push(log.borrow().iter().map(|c| serde_json::to_value(c).unwrap()).collect());
    }
    let capture_order_stable = capture_orders.iter().all(|o| *o == capture_orders[0]);
    let capture_order_other = capture_orders.iter().find(|o| **o != capture_orders[0]).cloned();
    let cap = catch_unwind(AssertUnwindSafe(|| {
        DependencySnapshot::from_provider(
            Prov::new(u.clone()),
            spec.seeds.names.iter().map(|&n| NameId(n)),
            spec.seeds.vss.iter().map(|&v| VersionSetId(v)),
            spec.seeds.sols.iter().map(|&s| SolvableId(s)),
        )
    }));
    let snap = match cap {
        Ok(Ok(s)) => s,
        Ok(Err(_)) => return json!({"spec": spec, "sizes": sizes, "capture": "cancelled"}),
        Err(e) => return json!({"spec": spec, "sizes": sizes, "capture": {"panic": panic_msg(e)}}),
    };
    let canon = canonical(&snap);
    let captured_vs = present(&canon, "version_sets");
    let captured_names = present(&canon, "packages");
    let captured_unions = present(&canon, "version_set_unions");
    // the problem posed to all three providers is expressed over captured ids
    for q in p.reqs.iter_mut() {
        if let Req::Union(x) = q {
            if !captured_unions.contains(x) {
                *q = Req::Single(u.unions[*x as usize][0]);
            }
        }
    }
    let hi = captured_vs.iter().copied().max();
    if let Some(h) = hi {
        match spec.use_hi {
            1 => p.reqs.push(Req::Single(h)),
            2 => p.cons.push(h),
            _ => {}
        }
    }
    let add_names: Vec<u32> = if captured_names.is_empty() {
        vec![]
    } else {
        spec.add_picks.iter().map(|&k| captured_names[(k % captured_names.len() as u64) as usize]).collect()
    };
    // live: the same problem, "*" requirements through the star version set of the name
    let mut p_live = p.clone();
    for &n in &add_names {
        let dense = spec.maps.names.iter().position(|&x| x == n);
        match dense {
            Some(d) => p_live.reqs.push(Req::Single(spec.maps.vss[spec.star[d] as usize])),
            None => {} // the dummy package: no candidates, cannot be required live
        }
    }
    let live = solve_with(Prov::new(u.clone()), &p_live);
    let direct = through(&snap, &captured_vs, &add_names, &p);
    // serde round trip
    let text = serde_json::to_string(&snap).unwrap();
    let (rt, rt_equal) = match serde_json::from_str::<DependencySnapshot>(&text) {
        Ok(s2) => {
            let c2 = canonical(&s2);
            (through(&s2, &captured_vs, &add_names, &p), json!(c2 == canon))
        }
        Err(e) => (json!({"deser_error": e.to_string()}), json!(false)),
    };
    json!({
        "spec": spec, "sizes": sizes, "capture": "ok", "snapshot": canon,
        "hi": hi, "p": p, "p_live": p_live, "add_names": add_names,
        "live": live, "direct": direct, "rt": rt, "rt_equal": rt_equal, "json_bytes": text.len(),
        "capture_order_stable": capture_order_stable,
        "capture_order": if capture_order_stable { Value::Null } else { json!([capture_orders[0], capture_order_other]) },
    })
}

fn main() {
    std::panic::set_hook(Box::new(|_| {}));
    let a = args();
    let seed: u64 = arg(&a, "seed", 1);
    let count: u64 = arg(&a, "count", 100);
    let skip: u64 = arg(&a, "skip", 0);
    let wd = Watchdog::start(arg(&a, "case-timeout", 20));
    let so = std::io::stdout();
    let emit = |spec: &Spec| {
        wd.begin(spec.id);
        let v = run_spec(spec);
        wd.end();
        let mut so = so.lock();
        let _ = writeln!(so, "{}", v);
    };
    if let Some(path) = a.get("replay") {
        let v: Value = serde_json::from_str(&std::fs::read_to_string(path).unwrap()).unwrap();
        let mut list = vec![];
        if let Some(c) = v.get("replay").and_then(|r| r.get("case")) {
            list.push(c.clone());
        } else if let Some(c) = v.get("case") {
            list.push(c.clone());
        } else if let Some(cs) = v.get("cases").and_then(|c| c.as_array()) {
            list.extend(cs.iter().cloned());
        } else {
            list.push(v.clone());
        }
        for c in list {
            let c = if c.get("spec").is_some() { c["spec"].clone() } else { c };
            let spec: Spec = serde_json::from_value(c).unwrap();
            emit(&spec);
        }
        return;
    }
    for id in skip..skip + count {
        emit(&gen_spec(id, seed));
    }
}
