//! Random operation sequences on the real `resolvo::Mapping`, with the observed
//! results, one JSON line per sequence.
use resolvo::{Mapping, NameId};
use serde_json::json;
use vharness::gen_::Rng;
use vharness::*;

fn main() {
    let a = args();
    let seed: u64 = arg(&a, "seed", 1);
    let count: u64 = arg(&a, "count", 100);
    let skip: u64 = arg(&a, "skip", 0);
    let maxops: u64 = arg(&a, "maxops", 60);
    if let Some(path) = a.get("replay") {
        // re-run a recorded operation sequence on the current implementation
        let v: serde_json::Value = serde_json::from_str(&std::fs::read_to_string(path).unwrap()).unwrap();
        let c = if v.get("replay").is_some() { v["replay"]["case"].clone() } else if v.get("case").is_some() { v["case"].clone() } else { v };
        let cap = c["cap"].as_u64().unwrap();
        let mut m: Mapping<NameId, u32> = Mapping::with_capacity(cap as usize);
        let mut outs = vec![];
        for o in c["ops"].as_array().unwrap() {
            let k = o[0].as_str().unwrap();
            let i = o.get(1).and_then(|x| x.as_u64()).unwrap_or(0) as u32;
            outs.push(match k {
                "ins" => json!(["opt", m.insert(NameId(i), o[2].as_u64().unwrap() as u32)]),
                "unset" => json!(["opt", m.unset(NameId(i))]),
                "get" => json!(["opt", m.get(NameId(i)).copied()]),
                "len" => json!(["num", m.len()]),
                "empty" => json!(["bool", m.is_empty()]),
                "iter" => json!(["pairs", m.iter().map(|(k, v)| (k.0, *v)).collect::<Vec<_>>()]),
                "serde" => {
                    let js = serde_json::to_value(&m).unwrap();
                    m = serde_json::from_value(js.clone()).unwrap();
                    json!(["ser", js])
                }
                _ => panic!("op"),
            });
        }
        println!("{}", json!({"id": 0, "class": 9, "cap": cap, "ops": c["ops"], "outs": outs}));
        return;
    }
    for id in skip..skip + count {
        let mut r = Rng::new(seed.wrapping_mul(7919).wrapping_add(id));
        // id distribution class
        let class = id % 5;
        let idmax: u64 = match class {
            0 => 12,    // dense
            1 => 130,   // around one chunk boundary
            2 => 400,   // multi chunk
            3 => 1000,  // sparse
            _ => 300,
        };
        let cap = match r.below(4) { 0 => 0, 1 => 1, 2 => 129, _ => r.below(300) };
        let mut m: Mapping<NameId, u32> = Mapping::with_capacity(cap as usize);
        let nops = 1 + r.below(maxops);
        let mut ops = vec![];
        let mut outs = vec![];
        let mut used: Vec<u64> = vec![];
        for _ in 0..nops {
            let pick_id = |r: &mut Rng, used: &Vec<u64>| {
                if !used.is_empty() && r.chance(1, 2) { used[r.below(used.len() as u64) as usize] }
                else if class == 3 && r.chance(1, 3) { 5 + 195 * r.below(6) }
                else { r.below(idmax + 1) }
            };
            match r.below(16) {
                0..=5 => {
                    let i = pick_id(&mut r, &used);
                    let v = r.below(1000) as u32;
                    let prev = m.insert(NameId(i as u32), v);
                    used.push(i);
                    ops.push(json!(["ins", i, v]));
                    outs.push(json!(["opt", prev]));
                }
                6..=7 => {
                    let i = pick_id(&mut r, &used);
                    let prev = m.unset(NameId(i as u32));
                    ops.push(json!(["unset", i]));
                    outs.push(json!(["opt", prev]));
                }
                8..=10 => {
                    let i = pick_id(&mut r, &used);
                    ops.push(json!(["get", i]));
                    outs.push(json!(["opt", m.get(NameId(i as u32)).copied()]));
                }
                11 => {
                    ops.push(json!(["len"]));
                    outs.push(json!(["num", m.len()]));
                }
                12 => {
                    ops.push(json!(["empty"]));
                    outs.push(json!(["bool", m.is_empty()]));
                }
                13..=14 => {
                    ops.push(json!(["iter"]));
                    let v: Vec<(u32, u32)> = m.iter().map(|(k, v)| (k.0, *v)).collect();
                    outs.push(json!(["pairs", v]));
                }
                _ => {
                    let js = serde_json::to_value(&m).unwrap();
                    m = serde_json::from_value(js.clone()).unwrap();
                    ops.push(json!(["serde"]));
                    outs.push(json!(["ser", js]));
                }
            }
        }
        // always finish with the full observation
        ops.push(json!(["len"]));
        outs.push(json!(["num", m.len()]));
        ops.push(json!(["iter"]));
        let v: Vec<(u32, u32)> = m.iter().map(|(k, v)| (k.0, *v)).collect();
        outs.push(json!(["pairs", v]));
        println!("{}", json!({"id": id, "class": class, "cap": cap, "ops": ops, "outs": outs}));
    }
}
