//! Generates cases, runs them through the real solver, prints one JSON line
//! per case: {"case":..,"obs":..}
use std::io::Write;
use vharness::gen_::*;
use vharness::run::*;
use vharness::sched::Policy;
use vharness::universe::*;
use vharness::*;

fn main() {
    std::panic::set_hook(Box::new(|_| {}));
    let a = args();
    let class: String = arg(&a, "class", "small".to_string());
    let feat: u32 = arg(&a, "feat", F_ALL);
    let seed: u64 = arg(&a, "seed", 1);
    let count: u64 = arg(&a, "count", 100);
    let skip: u64 = arg(&a, "skip", 0);
    let mode = match arg(&a, "mode", "sync".to_string()).as_str() {
        "sync" => Mode::Sync,
        "yield" => Mode::YieldOnce,
        "gated" => Mode::Gated,
        m => panic!("mode {m}"),
    };
    let policy = match arg(&a, "policy", "fifo".to_string()).as_str() {
        "fifo" => Policy::Fifo,
        "lifo" => Policy::Lifo,
        "random" => Policy::Random(seed | 1),
        m => panic!("policy {m}"),
    };
    let cases_in: Option<String> = a.get("cases").cloned();
    let wd = Watchdog::start(arg(&a, "case-timeout", 20));
    let so = std::io::stdout();
    let mut cfg = RunCfg { mode, policy, render: !a.contains_key("no-render"), ..Default::default() };
    if a.contains_key("sort-deps") {
        cfg.sort_fetches_deps = true;
    }
    if a.contains_key("no-dump") {
        cfg.want_dump = false;
    }
    if let Some(act) = a.get("activity") {
        let mut it = act.split(',').map(|x| x.parse::<f32>().unwrap());
        cfg.activity = Some((it.next().unwrap(), it.next().unwrap()));
    }
    let repeat = a.contains_key("repeat");
    let twice = a.contains_key("twice");
    // run every case on a thread with this stack size (KiB): unbounded recursion shows as a crash
    let stack_kb: usize = arg(&a, "stack-kb", 0);
    let emit = |c: &Case| {
        wd.begin(c.id);
        if twice {
            // two solves on one solver (synchronous runtime): {"case", "obs", "p2", "obs2"}
            let (o1, second) = run_case_twice(c, &cfg);
            wd.end();
            let mut so = so.lock();
            let (p2, o2) = match second {
                Some((p, o)) => (Some(p), Some(o)),
                None => (None, None),
            };
            let _ = writeln!(so, "{}", serde_json::json!({"case": c, "obs": o1, "p2": p2, "obs2": o2}));
            return;
        }
        let obs = if stack_kb > 0 {
            let (c2, cfg2) = (c.clone(), cfg.clone());
            std::thread::Builder::new()
                .stack_size(stack_kb * 1024)
                .spawn(move || run_case(&c2, &cfg2))
                .unwrap()
                .join()
                .unwrap()
        } else {
            run_case(c, &cfg)
        };
        // a second fresh solver in the same process must behave identically
        let same = if repeat {
            let o2 = run_case(c, &cfg);
            Some(o2.outcome == obs.outcome && o2.conflict == obs.conflict && o2.calls == obs.calls)
        } else {
            None
        };
        wd.end();
        let mut so = so.lock();
        let _ = writeln!(so, "{}", serde_json::json!({"case": c, "obs": obs, "repeat_equal": same}));
    };
    if let Some(path) = cases_in {
        // replay: a file with one Case JSON (or {"case":..}) per line
        for line in std::fs::read_to_string(path).unwrap().lines() {
            if line.trim().is_empty() {
                continue;
            }
            let v: serde_json::Value = serde_json::from_str(line).unwrap();
            let c: Case = if v.get("case").is_some() {
                serde_json::from_value(v["case"].clone()).unwrap()
            } else {
                serde_json::from_value(v).unwrap()
            };
            emit(&c);
        }
        return;
    }
    for id in skip..skip + count {
        let c = gen_case(id, seed, &class, feat);
        emit(&c);
    }
}
