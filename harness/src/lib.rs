pub mod gen_;
pub mod run;
pub mod sched;
pub mod universe;

use std::collections::HashMap;
/// `--key value` argument parsing
pub fn args() -> HashMap<String, String> {
    let a: Vec<String> = std::env::args().skip(1).collect();
    let mut m = HashMap::new();
    let mut i = 0;
    while i < a.len() {
        if let Some(k) = a[i].strip_prefix("--") {
            if i + 1 < a.len() && !a[i + 1].starts_with("--") {
                m.insert(k.to_string(), a[i + 1].clone());
                i += 2;
            } else {
                m.insert(k.to_string(), "1".to_string());
                i += 1;
            }
        } else {
            i += 1;
        }
    }
    m
}
pub fn arg<T: std::str::FromStr>(m: &HashMap<String, String>, k: &str, d: T) -> T {
    m.get(k).and_then(|v| v.parse().ok()).unwrap_or(d)
}

/// Process-level watchdog: if a case takes longer than `secs`, print a HANG
/// record for it and exit(3) so the driver can resume after it.
pub struct Watchdog {
    pub current: std::sync::Arc<std::sync::Mutex<(u64, std::time::Instant)>>,
}
impl Watchdog {
    pub fn start(secs: u64) -> Self {
        let current = std::sync::Arc::new(std::sync::Mutex::new((u64::MAX, std::time::Instant::now())));
        let c2 = current.clone();
        std::thread::spawn(move || loop {
            std::thread::sleep(std::time::Duration::from_millis(500));
            let (id, t) = *c2.lock().unwrap();
            if id != u64::MAX && t.elapsed().as_secs() >= secs {
                use std::io::Write;
                let so = std::io::stdout();
                let mut so = so.lock();
                let _ = writeln!(so, "{{\"hang\":{id}}}");
                let _ = so.flush();
                std::process::exit(3);
            }
        });
        Watchdog { current }
    }
    pub fn begin(&self, id: u64) {
        *self.current.lock().unwrap() = (id, std::time::Instant::now());
    }
    pub fn end(&self) {
        self.current.lock().unwrap().0 = u64::MAX;
    }
}
