#!/bin/sh
# Confirms a seeded change in its scratch worktree /tmp/seed_<id> (uses seed.patch, never git stash:
# the stash is shared between worktrees):
#  the suite passes with the change, the demo fails with it and passes without it.
wt=$1; id=$(basename $wt); cd $wt || exit 2
export CARGO_NET_OFFLINE=true
[ -s seed.patch ] || { echo "$id: no seed.patch"; exit 2; }
git checkout -q -- src cpp; git apply seed.patch || { echo "$id: patch does not apply"; exit 2; }
mkdir -p /tmp/seed_aside_$id; mv tests/seed_demo.rs /tmp/seed_aside_$id/ 2>/dev/null
suite=$(cargo test --workspace --offline 2>&1 | grep "test result" | awk '{p+=$4; f+=$6} END {print p" passed "f" failed"}')
mv /tmp/seed_aside_$id/seed_demo.rs tests/ 2>/dev/null; rmdir /tmp/seed_aside_$id
with=$(cargo test --offline --test seed_demo 2>&1 | grep "test result" | head -1)
git apply -R seed.patch
without=$(cargo test --offline --test seed_demo 2>&1 | grep "test result" | head -1)
git apply seed.patch
echo "$id: suite_with_change=[$suite] demo_with_change=[$with] demo_without_change=[$without]"
