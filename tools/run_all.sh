#!/bin/sh
# usage: tools/run_all.sh quick|thorough   (from /verif or a snapshot of it)
tier=${1:-quick}
cd "$(dirname "$0")/.."
./setup.sh || exit 2
for p in C01 C02 C03 C04 C05 C06 C07 C08 C09 C10 C11 C12 C13 C14 C15 C16 C17 C18 C19 C20; do
  start=$(date +%s)
  ./check $p --tier $tier > out_$p.log 2>&1
  code=$?
  echo "$p exit=$code secs=$(( $(date +%s) - start )) $(grep -c VIOLATION out_$p.log) violations"
done
