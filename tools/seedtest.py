#!/usr/bin/env python3
"""Experiment driver: run checks against a scratch worktree of /repo with a patch applied,
without touching /repo or the real build caches.
usage: seedtest.py <tag> <patch> <prop> [<prop> ...]   (props may be 'all')"""
import os, subprocess, sys, shutil, json, time
ROOT = os.path.dirname(os.path.dirname(os.path.abspath(__file__)))
tag, patch, props = sys.argv[1], os.path.abspath(sys.argv[2]), sys.argv[3:]
if props == ["all"]:
    props = [f"C{i:02d}" for i in range(1, 21)]
wt = f"/tmp/seedrun_{tag}"
subprocess.run(["git", "-C", "/repo", "worktree", "remove", "--force", wt], capture_output=True)
subprocess.run(["git", "-C", "/repo", "worktree", "add", "-q", wt, "HEAD"], check=True)
r = subprocess.run(["git", "-C", wt, "apply", patch], capture_output=True, text=True)
if r.returncode != 0:
    print("patch does not apply:", r.stderr)
    sys.exit(2)
env = dict(os.environ, VERIF_REPO=wt, VERIF_TAG=tag)
results = {}
for p in props:
    t0 = time.time()
    q = subprocess.run([os.path.join(ROOT, "check"), p, "--tier", "quick"], env=env, capture_output=True, text=True, cwd=ROOT)
    viol = [l for l in q.stdout.splitlines() if l.startswith("VIOLATION")]
    msgs = [l for l in q.stderr.splitlines() if l.startswith("[check]")]
    results[p] = {"exit": q.returncode, "violations": len(viol), "no_input": sum("no-failing-input-found" in v for v in viol),
                  "first": (msgs[0][:300] if msgs else ""), "secs": round(time.time() - t0)}
    print(p, results[p], flush=True)
os.makedirs(os.path.join(ROOT, "out", "seedtest"), exist_ok=True)
json.dump(results, open(os.path.join(ROOT, "out", "seedtest", tag + ".json"), "w"), indent=1)
subprocess.run(["git", "-C", "/repo", "worktree", "remove", "--force", wt], capture_output=True)
for d in (f"cargo_{tag}", f"harness_{tag}", f"cpp_{tag}", f"cargo_cpp_{tag}"):
    shutil.rmtree(os.path.join(ROOT, ".build", d), ignore_errors=True)
