"""In-Coq replay: generated `Example`s closed by vm_compute; reflexivity, sharded
over coqc processes. The kernel itself confirms model = observation."""
import os, re, subprocess, concurrent.futures as cf
import vlib


LAST_SKIPPED = {"timeout": 0, "limit": 0}


def run_examples(prop, header, examples, nshard=None, timeout=600, per_file=300):
    """examples: list of (name, statement). Returns (n_ok, failed_names).
    A shard that fails is bisected down to the failing examples. Files hold at most `per_file`
    examples; a file whose compilation times out (machine under load) is split in two and retried, a
    small one is skipped (counted in LAST_SKIPPED, never reported as a failure)."""
    d = vlib.replay_dir(prop)
    for f in os.listdir(d):
        if f.startswith("cases_"):
            os.remove(os.path.join(d, f))
    nshard = nshard or max(min(vlib.NCPU, max(1, len(examples) // 20)), -(-len(examples) // per_file))
    shards = [examples[i::nshard] for i in range(nshard)]
    LAST_SKIPPED["timeout"] = 0
    LAST_SKIPPED["limit"] = 0

    def compile_list(tag, exs):
        path = os.path.join(d, f"cases_{tag}.v")
        # statements may span several lines (and contain string literals with newlines): remember where each example
        # ends so that the line of an error identifies the example
        ends, line = [], header.count("\n") + 1
        with open(path, "w") as f:
            f.write(header + "\n")
            for name, stmt in exs:
                text = f"Example {name} : {stmt}.\nProof. vm_compute. reflexivity. Qed.\n"
                f.write(text)
                line += text.count("\n")
                ends.append(line)
        with open(path + ".ends", "w") as g:
            g.write(" ".join(map(str, ends)))
        try:
            p = subprocess.run(["coqc", "-noglob", "-Q", vlib.COQ, "Resolvo", path], cwd=d,
                               stdout=subprocess.PIPE, stderr=subprocess.STDOUT, text=True, timeout=timeout)
        except subprocess.TimeoutExpired:
            return None, "timeout", path
        return p.returncode == 0, p.stdout, path

    def line_ends(path):
        with open(path + ".ends") as g:
            return [int(x) for x in g.read().split()]

    def find_failures(tag, exs, limit=4):
        """examples before the failing line passed; continue after it"""
        fails, k, not_run = [], 0, 0
        while exs:
            ok, out, path = compile_list(f"{tag}_{k}", exs)
            if ok is None:
                # timed out: retry in halves, give up on small pieces
                if len(exs) <= 20:
                    LAST_SKIPPED["timeout"] += len(exs)
                    not_run += len(exs)
                    break
                h = len(exs) // 2
                f1, n1 = find_failures(f"{tag}_{k}a", exs[:h], limit)
                f2, n2 = find_failures(f"{tag}_{k}b", exs[h:], limit)
                return fails + f1 + f2, not_run + n1 + n2
            if ok:
                break
            m = re.search(r'line (\d+)', out)
            idx = 0
            if m:
                ln = int(m.group(1))
                ends = line_ends(path)
                idx = next((i for i, e in enumerate(ends) if ln <= e), len(exs) - 1)
                idx = max(0, min(len(exs) - 1, idx))
            fails.append((exs[idx][0], out[-800:]))
            exs = exs[idx + 1:]
            k += 1
            if len(fails) >= limit:
                not_run += len(exs)
                LAST_SKIPPED["limit"] += len(exs)
                break
        return fails, not_run

    failed, skipped = [], 0
    with cf.ThreadPoolExecutor(max_workers=vlib.NCPU) as ex:
        for fl, nr in ex.map(lambda t: find_failures(str(t[0]), t[1]), list(enumerate(shards))):
            failed += fl
            skipped += nr
    return len(examples) - len(failed) - skipped, failed


def coq_eval(prop, header, term, timeout=300):
    d = vlib.replay_dir(prop)
    path = os.path.join(d, "eval_tmp.v")
    with open(path, "w") as f:
        f.write(header + f"\nEval vm_compute in ({term}).\n")
    p = subprocess.run(["coqc", "-noglob", "-Q", vlib.COQ, "Resolvo", path], cwd=d,
                       stdout=subprocess.PIPE, stderr=subprocess.STDOUT, text=True, timeout=timeout)
    return p.stdout
