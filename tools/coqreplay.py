"""In-Coq replay: generated `Example`s closed by vm_compute; reflexivity, sharded
over coqc processes. The kernel itself confirms model = observation."""
import os, re, subprocess, concurrent.futures as cf
import vlib


def run_examples(prop, header, examples, nshard=None, timeout=900):
    """examples: list of (name, statement). Returns (n_ok, failed_names).
    A shard that fails is bisected down to the failing examples."""
    d = vlib.replay_dir(prop)
    for f in os.listdir(d):
        if f.startswith("cases_"):
            os.remove(os.path.join(d, f))
    nshard = nshard or min(vlib.NCPU, max(1, len(examples) // 20))
    shards = [examples[i::nshard] for i in range(nshard)]

    def compile_list(tag, exs):
        path = os.path.join(d, f"cases_{tag}.v")
        with open(path, "w") as f:
            f.write(header + "\n")
            for name, stmt in exs:
                f.write(f"Example {name} : {stmt}.\nProof. vm_compute. reflexivity. Qed.\n")
        p = subprocess.run(["coqc", "-noglob", "-Q", vlib.COQ, "Resolvo", path], cwd=d,
                           stdout=subprocess.PIPE, stderr=subprocess.STDOUT, text=True, timeout=timeout)
        return p.returncode == 0, p.stdout, path

    def find_failures(tag, exs, limit=4):
        """examples before the failing line passed; continue after it"""
        fails, k, not_run = [], 0, 0
        while exs:
            ok, out, path = compile_list(f"{tag}_{k}", exs)
            if ok:
                break
            m = re.search(r'line (\d+)', out)
            hdr = header.count("\n") + 1
            idx = max(0, min(len(exs) - 1, (int(m.group(1)) - hdr - 1) // 2)) if m else 0
            fails.append((exs[idx][0], out[-800:]))
            exs = exs[idx + 1:]
            k += 1
            if len(fails) >= limit:
                not_run = len(exs)
                break
        return fails, not_run

    failed, skipped = [], 0
    with cf.ThreadPoolExecutor(max_workers=vlib.NCPU) as ex:
        for fl, nr in ex.map(lambda t: find_failures(str(t[0]), t[1]), list(enumerate(shards))):
            failed += fl
            skipped += nr
    return len(examples) - len(failed) - skipped, failed


def coq_eval(prop, header, term, timeout=300):
    d = vlib.replay_dir(prop)
    path = os.path.join(d, "eval_tmp.v")
    with open(path, "w") as f:
        f.write(header + f"\nEval vm_compute in ({term}).\n")
    p = subprocess.run(["coqc", "-noglob", "-Q", vlib.COQ, "Resolvo", path], cwd=d,
                       stdout=subprocess.PIPE, stderr=subprocess.STDOUT, text=True, timeout=timeout)
    return p.stdout
