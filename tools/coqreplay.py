"""In-Coq replay: generated `Example`s closed by vm_compute; reflexivity, sharded
over coqc processes. The kernel itself confirms model = observation."""
import os, re, subprocess, concurrent.futures as cf
import vlib


LAST_SKIPPED = {"timeout": 0, "limit": 0}


def run_examples(prop, header, examples, nshard=None, timeout=600, per_file=300):
    """examples: list of (name, statement). Returns (n_ok, failed_names).
    A shard that fails is bisected down to the failing examples. Files hold at most `per_file`
    examples; a file whose compilation times out (machine under load) is split in two and retried, a
    small one is skipped (counted in LAST_SKIPPED, never reported as a failure)."""
    d = vlib.replay_dir(prop)
    for f in os.listdir(d):
        if f.startswith("cases_"):
            os.remove(os.path.join(d, f))
    nshard = nshard or max(min(vlib.NCPU, max(1, len(examples) // 20)), -(-len(examples) // per_file))
    shards = [examples[i::nshard] for i in range(nshard)]
    LAST_SKIPPED["timeout"] = 0
    LAST_SKIPPED["limit"] = 0

    def compile_list(tag, exs):
        path = os.path.join(d, f"cases_{tag}.v")
        with open(path, "w") as f:
            f.write(header + "\n")
            for name, stmt in exs:
                one_line = " ".join(stmt.split("\n"))      # two lines per example: the failing line identifies the example
                f.write(f"Example {name} : {one_line}.\nProof. vm_compute. reflexivity. Qed.\n")
        try:
            p = subprocess.run(["coqc", "-noglob", "-Q", vlib.COQ, "Resolvo", path], cwd=d,
                               stdout=subprocess.PIPE, stderr=subprocess.STDOUT, text=True, timeout=timeout)
        except subprocess.TimeoutExpired:
            return None, "timeout", path
        return p.returncode == 0, p.stdout, path

    def find_failures(tag, exs, limit=4):
        """examples before the failing line passed; continue after it"""
        fails, k, not_run = [], 0, 0
        while exs:
            ok, out, path = compile_list(f"{tag}_{k}", exs)
            if ok is None:
                # timed out: retry in halves, give up on small pieces
                if len(exs) <= 20:
                    LAST_SKIPPED["timeout"] += len(exs)
                    not_run += len(exs)
                    break
                h = len(exs) // 2
                f1, n1 = find_failures(f"{tag}_{k}a", exs[:h], limit)
                f2, n2 = find_failures(f"{tag}_{k}b", exs[h:], limit)
                return fails + f1 + f2, not_run + n1 + n2
            if ok:
                break
            m = re.search(r'line (\d+)', out)
            hdr = header.count("\n") + 1
            idx = max(0, min(len(exs) - 1, (int(m.group(1)) - hdr - 1) // 2)) if m else 0
            fails.append((exs[idx][0], out[-800:]))
            exs = exs[idx + 1:]
            k += 1
            if len(fails) >= limit:
                not_run += len(exs)
                LAST_SKIPPED["limit"] += len(exs)
                break
        return fails, not_run

    failed, skipped = [], 0
    with cf.ThreadPoolExecutor(max_workers=vlib.NCPU) as ex:
        for fl, nr in ex.map(lambda t: find_failures(str(t[0]), t[1]), list(enumerate(shards))):
            failed += fl
            skipped += nr
    return len(examples) - len(failed) - skipped, failed


def coq_eval(prop, header, term, timeout=300):
    d = vlib.replay_dir(prop)
    path = os.path.join(d, "eval_tmp.v")
    with open(path, "w") as f:
        f.write(header + f"\nEval vm_compute in ({term}).\n")
    p = subprocess.run(["coqc", "-noglob", "-Q", vlib.COQ, "Resolvo", path], cwd=d,
                       stdout=subprocess.PIPE, stderr=subprocess.STDOUT, text=True, timeout=timeout)
    return p.stdout
