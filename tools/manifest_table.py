HOOK_COMMITS = ["6c92ace"]
NOT_APPLICABLE = {}
CHECKS = {
 "C01": {
  "text": "Coq: validity spec (Spec.v) with a verified decision procedure (validb_spec); every solution the real solver returns on generated universes (debug+release, sync+yielding) is judged by the extracted procedure.",
  "technique": "Coq-verified validity oracle (validb <-> valid) applied to implementation outputs; differential over seeded universes",
  "note": "Currently the theorem is about the oracle; the trace-inclusion theorem (Run -> valid) is added in a later commit.",
 },
}
