HOOK_COMMITS = ["6c92ace"]
NOT_APPLICABLE = {}
CHECKS = {
 "C19": {
  "text": "Coq: executable model of Mapping (insert/unset/get/len/is_empty/iter/serde) proven to refine a finite map for every operation sequence (insert_spec, unset_spec, iter_spec: sorted & exactly the stored pairs, len_spec, serde_roundtrip, reachable_inv); every generated operation sequence run on the real Mapping is re-proved equal to the model inside Coq (vm_compute; reflexivity).",
  "technique": "Coq refinement proof of a functional model + in-Coq functional correspondence on operation sequences",
 },
 "C02": {
  "text": 'Coq: E1 (every valid selection satisfies every encoder clause), RUP soundness, check_unsat_sound: a database of facts and learnt clauses certified by RUP from their recorded antecedents that propagates to a root-level conflict admits no valid selection (C02_trace_no_false_unsat), hence a solvable problem is never acceptably refuted. Every Unsolvable hook log goes through the extracted checker; every verdict is compared with the verified complete reference procedure.',
  "technique": 'Coq refutation-certificate theorem (facts + RUP-checked learnt clauses) + verified trace checker + verified reference decision procedure',
  "note": "Termination of the CDCL loop is observed (poll watchdog), not proved: 'returns a solution whenever one exists' is proved for runs that end.",
 },
 "C04": {
  "text": "Every generated universe is solved and every conflict rendered under catch_unwind, a poll watchdog and an output-size cap, debug and release. Partial: panic-freedom/termination theorems for the renderer model are added later.",
  "technique": "panic/hang/size search on the implementation (model theorems for the renderer to follow)",
  "note": "partial: outer CDCL loop termination is observed, not proved.",
 },
 "C05": {
  "text": 'Coq: support theorem for every legal final trail (supported sub-model argument, induction along the trail; C05_supported / C05_trace_supported) plus run invariant (every reachable trail is legal). Hook logs are replayed by the extracted checker; every returned solution is also judged by the verified support oracle.',
  "technique": 'Coq theorem over final trails of the abstract machine + verified trace checker + Coq-verified support oracle',
  "note": 'When a package-level clause of an accepted soft solvable is falsified (documented exemption) the trace theorem does not apply; the oracle decides those cases (counted in evidence).',
 },
 "C07": {
  "text": 'Coq: invariant over all runs (trail stays inside the greedy assignment; rule D1) and final theorem C07_greedy_exact / C07_trace_greedy: on a greedy_ok problem every accepted run returns exactly the greedy selection. Hook logs replayed by the extracted checker (D1 enforced on every decision); outputs compared with the verified greedy oracle.',
  "technique": 'Coq invariant proof over runs of the abstract machine + verified trace checker (rule D1) + Coq-verified greedy oracle',
 },
 "C08": {
  "text": 'Coq: two invariants over all runs (trail below the oldest non-root decision stays inside a_{S*}; no root requirement open at a non-root decision: rules D1+D2) and final theorem C08_explicit_first / C08_trace_explicit. Hook logs replayed by the extracted checker (D1, D2 enforced); outputs compared with the verified reference search.',
  "technique": 'Coq invariant proof over runs of the abstract machine + verified trace checker (rules D1, D2) + Coq-verified reference search',
  "note": 'Soft requirements are outside the theorem (explored only).',
 },
 "C01": {
  "text": "Coq: E2 (a model of a closed clause database selects a valid set, any provider), final-state theorem check_sat_lenient_sound, and trace inclusion C01_trace_sound: if the extracted checker accepts the implementation's hook log (clause dump = facts of the encoding, legal trail events, reported solution) the solution is valid. Independently every returned solution (debug+release, sync+yield) is judged by the verified oracle o_valid.",
  "technique": 'Coq theorem over all runs of an abstract CDCL machine + verified trace checker on hook logs + Coq-verified validity oracle on outputs',
 },
}
