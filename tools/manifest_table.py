HOOK_COMMITS = ["6c92ace", "87d794e", "4055187"]
NOT_APPLICABLE = {}
CHECKS = {
 "C03": {
  "text": "Coq: executable model of Conflict::graph (Conflict/GraphBuild.v: node for node, edge for edge in petgraph index order incl. the swap-remove of the unresolved node) with C03_built_graph_truthful: for every provider, problem and clause list, a graph built from facts is truthful; the implementation's graph must equal the model's on every Unsolvable run and the dumped database must consist of facts. Verified checkers for what a conflict graph claims: truthfulb_sound (every edge states a true provider fact; requires groups show exactly the requirement's candidates or the unresolved node), reachableb_sound, refutesb_sound (the displayed facts + one-per-package on forbid-joined nodes admit no assignment installing the root; decided by unit propagation + splitting proven sound), check_core_sound (the clause ids reported in the Conflict, learnt clauses expanded through RUP-certified antecedents, are unsatisfiable with the root). Every Unsolvable's public ConflictGraph and hook core go through the extracted checkers.",
  "technique": "Coq theorem about an executable model of the graph construction (truthful by construction) in node-for-node / edge-for-edge correspondence + Coq-verified graph checkers (truthfulness, reachability, refutation by sound propagation+splitting, RUP core certificate) applied to the implementation's conflict graphs",
 },
 "C06": {
  "text": 'Coq: C06_simplify_order_independent (the only hash-container iteration in the conflict report cannot leak its order). Every case is solved in several separate processes (per-process ahash seeds), debug and release, twice per process with fresh solvers: solution order, provider call order, conflict graph, graphviz and message text must be identical; a census of hash-container iteration sites in the anchored files is compared with a committed list that records why each site is harmless.',
  "technique": 'cross-process / cross-instance differential execution + hash-iteration census + Coq order-independence theorem for simplify',
  "note": 'A Gallina function is deterministic by construction; the content of this property is in the execution and the census.',
 },
 "C09": {
  "text": "Coq: executable model of the encoder and the request side of the cache (Async/Encoder.v) with the property proven about it for every provider, problem, cache contents, trail history, encode-request sequence and completion order: C09_model_once (nothing requested twice over the cache lifetime), C09_model_causal, C09_model_lazy (no hints: dependencies only for solvables the solver assigned true), C09_model_exact, and C09_conflict_free_exact (conflict-free problem, no hints, fresh solver, any legal run of the CDCL machine: dependencies for exactly the members of the greedy selection, candidates for exactly the names they and the root mention), C09_two_solves_once (two solves on one solver: the model's second solve, started from the cache of its first, reproduces the second real solve call for call). The model is run on the encode requests and future completions of every real solve and must reproduce the provider-call sequence call for call on synchronous runs (where completions must also be first-in first-out) and the candidates/dependencies requests as a multiset on asynchronous ones. In addition declarative predicates over provider-call histories (Causal, Once, Exact in Async/History.v) with executable checkers proven equivalent for every provider and every history (causalb_spec, onceb_spec, exactb_spec). The real solver's call history (no hints; 1-3 solves per solver; sync and yielding runtimes) is judged by the extracted checkers; exactness is checked whenever the verified greedy oracle applies.",
  "technique": "Coq theorems about an executable encoder+cache model (once / causal / lazy / exact for all inputs) in call-for-call correspondence with the implementation + Coq-verified history checkers on real provider-call histories",
  "note": "The model completes one future atomically (provider calls + result handler): the order of calls of overlapping futures and successive solves on one solver are judged by the verified history checkers on real histories.",
 },
 "C10": {
  "text": "Coq: the encoder + cache model takes the completion order of its futures as input (enc_run: the events say which pending future completes next) and the property is proven about it for EVERY order: only facts are added (C10_any_order_adds_facts), everything requested is completely encoded once nothing is pending (C10_any_order_complete), no candidates / dependencies / filter request is repeated (C10_any_order_once); two accepted runs of one problem cannot disagree on the verdict (C10_verdicts_agree, from the trace theorems of C01/C02). Tie: on runs under gated (FIFO/LIFO/random) and self-waking runtimes the model follows the logged completion order and must reproduce the clause database clause for clause and the candidates/dependencies requests; the same logs go through the trace checkers. In addition every case is solved under completion orders chosen by a schedule-controlled executor (FIFO, LIFO, random, bounded depth-first enumeration of alternatives at every choice point) with deadlock detection that needs no timeout; per schedule: termination, verdict equal to the synchronous one, solution valid per the verified oracle o_valid, no repeated provider request per the verified history checker onceb (C10_*).",
  "technique": "Coq theorems about the encoder model for every completion order (facts, completeness, at-most-once, verdict agreement) in clause-for-clause correspondence under controlled schedules + schedule enumeration on the real solver judged by Coq-verified validity oracle and history checker",
  "note": "Termination under every schedule is observed (deadlock detection without timeouts), not proved; the model completes a future atomically, the in-flight protocol between overlapping futures is C13's model.",
 },
 "C11": {
  "text": "Coq: C11_model_eager, about the encoder model for every completion order: at every point of a run, once the dependencies of a solvable have been handled, a candidates future for every package they mention is pending or has completed (tied to encoding.rs clause for clause under gated schedules on fan-out universes). Eager predicate (at every quiescent point every candidates request implied by obtained dependency information has been issued) with checker proven equivalent (eagerb_spec). The schedule-controlled executor logs every quiescent point of the real solver (Pending without self-wake) on fan-out universes with up to 16 root requirements, unions and nested fan-outs; the extracted checker judges the histories.",
  "technique": "Coq theorem about the encoder model at every intermediate state of every completion order (in clause-for-clause correspondence under gated schedules) + Coq-verified history checker applied to quiescent-point logs of the implementation",
  "note": "Partial by nature: nothing about wall-clock overlap inside the provider; first solves on fresh solvers only.",
 },
 "C12": {
  "text": "Fault enumeration over every poll index of should_cancel_with_value (sync, gated FIFO, gated LIFO; transient firing): the outcome must be Cancelled with exactly the value, and the history must satisfy CancelQuiet (no request starts after the firing poll), judged by the checker proven equivalent to the predicate (cancel_quietb_spec).",
  "technique": "fault enumeration over all cancellation points on the real solver + Coq-verified history checker",
 },
 "C13": {
  "text": "Sequences of 2-4 solves on one solver (same/varied problems, after Unsolvable, after cancellation at random and at every early poll; sync, yielding and gated runtimes): each solve terminates (deadlock detection without timeouts), gives the verdict of the verified reference procedure, a solution valid per o_valid, and the whole history satisfies Once (no re-request of obtained metadata; abandoned requests may be re-issued) per the verified checker (C13_*).",
  "technique": "history exploration on the real solver judged by Coq-verified reference, validity oracle and history checker",
 },
 "C14": {
  "text": "Coq: validity with exactly the documented exemption at trace level (C14_valid = C01_trace_sound), never-error (C14_never_error: a solvable hard problem is never acceptably refuted, soft phases included), and a verified acceptance oracle (soft_expect_sound / soft_step_ok_spec). Soft-requirement lists are run on the real solver; accepted-by-oracle soft solvables must be in the solution, the hard verdict must not change, the solution must be valid.",
  "technique": "Coq trace-inclusion + refutation-certificate theorems, and Coq-verified soft-acceptance oracle applied to implementation outputs",
  "note": "Acceptance is checked only where every soft step is clear-cut for the oracle (counted as applicable in the evidence).",
 },
 "C15": {
  "text": "Coq: model of AtMostOnceTracker::add with invariant proven for every number of candidates and every insertion sequence: exclusivity, each-selectable, none-selectable, re-add no-op (C15_*). Tie: the forbid clauses in the hook dump are re-proved equal to the model's clause list inside Coq for every generated package (n up to 34 quick / 130 thorough, random discovery order and grouping); single/pair verdicts are compared with the verified reference; logs go through the trace checker.",
  "technique": "Coq induction proof of the binary at-most-one encoding + in-Coq clause-list correspondence + verified reference verdicts",
 },
 "C16": {
  "text": "Coq: executable model of DependencySnapshot::from_provider (breadth-first capture, order through the Mapping iterator) and SnapshotProvider (routing, max+1+k numbering, serde): answers on captured ids equal the live provider's, capture is closed, stored order reproduces any stable rank sort, fresh ids never alias, round-trip is extensionally equal, valid/solvable transfer (C16_*). Tie: per-case in-Coq equalities between model and real snapshot on dense and sparse-id universes; live / snapshot / round-tripped solves judged by the extracted o_valid, o_solvable, o_greedy; fresh processes for hash-order independence.",
  "technique": "Coq refinement proofs of a functional snapshot model + in-Coq functional correspondence + verified oracles on live vs snapshot solves",
  "note": "Proved as _refuted (format limits, not violations): availability hints are always stored true; listing order of union members is not represented.",
 },
 "C17": {
  "text": "PARTIAL by construction. Coq: heap model of the shared ref-counted copy-on-write Vector/String protocol (Data/CowVector.v): for every operation sequence from either side of the FFI exact refcounts, untouched static block, no double free, no dangling handle, no leak once all handles are dropped, size <= capacity, copy-on-write refinement to independent lists (C17_*). Tie: generated operation sequences on the real Rust and C++ containers under ASan/UBSan/LSan with a layout-checking allocator, every observation re-proved against the model inside Coq; generated universes solved through resolvo::solve from C++ compared with the Rust API on solution, error text and provider call order.",
  "technique": "Coq invariant/refinement proof of a heap protocol model + in-Coq functional correspondence with the real Rust and C++ containers under sanitizers + differential C++ vs Rust solves",
  "note": "Not covered by any theorem: layout compatibility, pointer arithmetic, transmute of id slices, atomics, the Candidates/Dependencies translation layer in cpp/src/lib.rs (exercised under sanitizers / by the differential solve only).",
 },
 "C18": {
  "text": "Coq: models of the chunked append-only Arena and of Pool interning: for every operation sequence intern is idempotent and injective, resolve(intern v) = v forever, solvable/union ids are dense, and the location (chunk, offset) and value of every element is unchanged by any later allocation with chunk lengths never above CHUNK_SIZE (the argument that makes the unsafe reference hand-out sound) (C18_*). Tie: random interleavings on the real Pool crossing chunk boundaries with references (address + value) held across later insertions, each sequence re-proved equal to the model inside Coq.",
  "technique": "Coq invariant proofs of arena/pool models + in-Coq functional correspondence on operation sequences with held references",
 },
 "C20": {
  "text": "Coq: executable model of SolverCache (tables, hint set, provider call log) proven for every provider and every sequence of public queries to return exactly Spec.matching / nonmatching / sorted_cands / req_cands (favored moved to the front, others' order unchanged), to be idempotent with no repeated provider call, and to answer availability iff fetched or hinted (C20_*). Tie: in-Coq replay of seeded query sequences and solve logs against the real SolverCache (answers, per-query provider calls, availability probes issued from inside sort_candidates).",
  "technique": "Coq refinement proof of a cache model against the Spec + in-Coq functional correspondence on query sequences",
  "note": "Sequential queries only; re-entrant get_or_cache_* from inside sort_candidates is exercised through read-only probes.",
 },
 "C19": {
  "text": "Coq: executable model of Mapping (insert/unset/get/len/is_empty/iter/serde) proven to refine a finite map for every operation sequence (insert_spec, unset_spec, iter_spec: sorted & exactly the stored pairs, len_spec, serde_roundtrip, reachable_inv); every generated operation sequence run on the real Mapping is re-proved equal to the model inside Coq (vm_compute; reflexivity).",
  "technique": "Coq refinement proof of a functional model + in-Coq functional correspondence on operation sequences",
 },
 "C02": {
  "text": 'Coq: E1 (every valid selection satisfies every encoder clause), RUP soundness, check_unsat_sound: a database of facts and learnt clauses certified by RUP from their recorded antecedents that propagates to a root-level conflict admits no valid selection (C02_trace_no_false_unsat), hence a solvable problem is never acceptably refuted. Every Unsolvable hook log goes through the extracted checker; every verdict is compared with the verified complete reference procedure. The executable encoder model is proven to add only facts for every request sequence, trail history and completion order (C02_encoder_adds_facts, C02_encoder_sound) and is compared with the clause database of the implementation clause for clause on every run.',
  "technique": 'Coq refutation-certificate theorem (facts + RUP-checked learnt clauses) + verified trace checker + verified reference decision procedure',
  "note": "Termination of the CDCL loop is observed (poll watchdog), not proved: 'returns a solution whenever one exists' is proved for runs that end.",
 },
 "C04": {
  "text": 'Coq: executable model of the conflict renderer (simplify, installable/missing sets, the fmt_graph stack machine with path and expanded sets, message text): termination with an explicit fuel bound for every graph incl. cycles (C04_render_terminates), proven line bound lin_bound = (7 + 3*con_width)*E + 1 and byte bound (C04_render_lines_linear, C04_render_size_bound), the pre-fix renderer provably loops on the cyclic corpus graph (C04_pre_fix_renderer_loops) and the path-only renderer is exponential (C04_path_only_exponential). Tie: every generated conflict message is compared BYTE FOR BYTE with the extracted model and against the proven bound, a sample re-proved inside Coq; all streams run under catch_unwind, a poll watchdog and an output cap in debug and release. One panic class of the solver is excluded by proof: C04_requires_assert_cannot_fail (the assert_ne! at the head of Clause::requires / Clause::constrains cannot fail in the encoder model, whose clause database equals that of the implementation on every run; its hypotheses are evaluated on every hook log).',
  "technique": 'Coq termination/size proofs of a renderer model with byte-exact correspondence + panic/hang/size search on the implementation',
  "note": 'PARTIAL: panic-freedom of the solver itself is searched (debug+release, corpus of former panics), not proved; termination of the outer CDCL loop is observed, not proved.',
 },
 "C05": {
  "text": 'Coq: support theorem for every legal final trail (supported sub-model argument, induction along the trail; C05_supported / C05_trace_supported) plus run invariant (every reachable trail is legal). Hook logs are replayed by the extracted checker; every returned solution is also judged by the verified support oracle.',
  "technique": 'Coq theorem over final trails of the abstract machine + verified trace checker + Coq-verified support oracle',
  "note": 'When a package-level clause of an accepted soft solvable is falsified (documented exemption) the trace theorem does not apply; the oracle decides those cases (counted in evidence).',
 },
 "C07": {
  "text": 'Coq: invariant over all runs (trail stays inside the greedy assignment; rule D1) and final theorem C07_greedy_exact / C07_trace_greedy: on a greedy_ok problem every accepted run returns exactly the greedy selection. Hook logs replayed by the extracted checker (D1 enforced on every decision); outputs compared with the verified greedy oracle.',
  "technique": 'Coq invariant proof over runs of the abstract machine + verified trace checker (rule D1) + Coq-verified greedy oracle',
 },
 "C08": {
  "text": 'Coq: two invariants over all runs (trail below the oldest non-root decision stays inside a_{S*}; no root requirement open at a non-root decision: rules D1+D2) and final theorem C08_explicit_first / C08_trace_explicit. Hook logs replayed by the extracted checker (D1, D2 enforced); outputs compared with the verified reference search.',
  "technique": 'Coq invariant proof over runs of the abstract machine + verified trace checker (rules D1, D2) + Coq-verified reference search',
  "note": 'Soft requirements are outside the theorem (explored only).',
 },
 "C01": {
  "text": "Coq: E2 (a model of a closed clause database selects a valid set, any provider), final-state theorem check_sat_lenient_sound, and trace inclusion C01_trace_sound: if the extracted checker accepts the implementation's hook log (clause dump = facts of the encoding, legal trail events, reported solution) the solution is valid. Independently every returned solution (debug+release, sync+yield) is judged by the verified oracle o_valid. The encoder itself (encoding.rs + cache.rs request side) has an executable Coq model, proven complete for every request sequence, trail history and completion order of its futures (C01_encoder_complete, C01_encoder_model_valid) and compared with the implementation clause for clause on every run (synchronous, self-waking and gated runtimes; the model follows the logged completion order).",
  "technique": 'Coq theorem over all runs of an abstract CDCL machine + verified trace checker on hook logs + Coq-verified validity oracle on outputs',
 },
}
