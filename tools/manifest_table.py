HOOK_COMMITS = ["6c92ace"]
NOT_APPLICABLE = {}
CHECKS = {
 "C19": {
  "text": "Coq: executable model of Mapping (insert/unset/get/len/is_empty/iter/serde) proven to refine a finite map for every operation sequence (insert_spec, unset_spec, iter_spec: sorted & exactly the stored pairs, len_spec, serde_roundtrip, reachable_inv); every generated operation sequence run on the real Mapping is re-proved equal to the model inside Coq (vm_compute; reflexivity).",
  "technique": "Coq refinement proof of a functional model + in-Coq functional correspondence on operation sequences",
 },
 "C02": {
  "text": "Coq: exhaustive reference decision procedure proven sound and complete w.r.t. 'a valid selection exists' (solvableb_correct); every verdict of the real solver is compared with it.",
  "technique": "Coq-verified complete reference decision procedure vs implementation verdict; differential over seeded universes and activity parameters",
  "note": "Theorem currently about the reference procedure; the trace-level theorem (learnt clauses entailed, level-1 conflict => unsolvable) is added later.",
 },
 "C04": {
  "text": "Every generated universe is solved and every conflict rendered under catch_unwind, a poll watchdog and an output-size cap, debug and release. Partial: panic-freedom/termination theorems for the renderer model are added later.",
  "technique": "panic/hang/size search on the implementation (model theorems for the renderer to follow)",
  "note": "partial: outer CDCL loop termination is observed, not proved.",
 },
 "C05": {
  "text": "Coq: support (reachability through requirement edges inside the solution) with a verified decision procedure incl. the saturation argument (supportedb_spec); applied to every returned solution.",
  "technique": "Coq-verified support oracle applied to implementation outputs",
 },
 "C07": {
  "text": "Coq: greedy_ok spec and verified checker (greedy_okb_spec, greedy_sound); whenever the verified procedure finds the greedy selection the solver's answer must equal it.",
  "technique": "Coq-verified greedy-selection oracle vs implementation output on conflict-free universes",
 },
 "C08": {
  "text": "Coq: verified reference search for a valid selection containing all first-ranked root candidates (solvable_with_spec); when it exists the returned solution must contain them.",
  "technique": "Coq-verified reference search (solvable_with) vs implementation output",
 },
 "C01": {
  "text": "Coq: validity spec (Spec.v) with a verified decision procedure (validb_spec); every solution the real solver returns on generated universes (debug+release, sync+yielding) is judged by the extracted procedure.",
  "technique": "Coq-verified validity oracle (validb <-> valid) applied to implementation outputs; differential over seeded universes",
  "note": "Currently the theorem is about the oracle; the trace-inclusion theorem (Run -> valid) is added in a later commit.",
 },
}
