#!/usr/bin/env python3
"""Census of hash-container iteration sites in the files anchored by C06.
A site is (file, enclosing fn, container identifier, how it is iterated). The
expected list (tools/census_expected.json) records, for each site, why the
iteration order cannot leak into a decision or a message. A site that is not in
the expected list is a broken correspondence for C06."""
import json, os, re, sys
REPO = os.environ.get("VERIF_REPO", "/repo")
FILES = ["src/solver/mod.rs", "src/solver/encoding.rs", "src/conflict.rs", "src/solver/variable_map.rs",
         "src/solver/cache.rs", "src/solver/watch_map.rs", "src/solver/decision_tracker.rs", "src/snapshot.rs"]
HASH_TYPES = r"(?:ahash::)?(?:HashMap|HashSet)\b|FrozenMap<|FrozenCopyMap<"
ITER = r"\.(iter|iter_mut|values|values_mut|keys|into_values|into_keys|into_iter|drain)\s*\("


def strip(src):
    src = re.sub(r"//[^\n]*", "", src)
    src = re.sub(r"/\*.*?\*/", "", src, flags=re.S)
    return src


def census():
    sites = []
    for f in FILES:
        path = os.path.join(REPO, f)
        if not os.path.exists(path):
            continue
        src = strip(open(path).read())
        # identifiers declared with a hash container type (fields, lets, params)
        idents = set()
        for m in re.finditer(r"(\w+)\s*:\s*(?:&(?:mut\s+)?)?(?:RefCell<)?(?:%s)" % HASH_TYPES, src):
            idents.add(m.group(1))
        for m in re.finditer(r"let\s+(?:mut\s+)?(\w+)(?:\s*:\s*[^=;]*)?=\s*(?:%s)[^;]*::(?:default|new)\(" % HASH_TYPES, src):
            idents.add(m.group(1))
        for m in re.finditer(r"let\s+(?:mut\s+)?(\w+)\s*:\s*(?:%s)" % HASH_TYPES, src):
            idents.add(m.group(1))
        for m in re.finditer(r"let\s+(?:mut\s+)?(\w+)\s*=\s*HashSet::new\(\)|let\s+(?:mut\s+)?(\w+)\s*=\s*HashMap::default\(\)", src):
            idents.add(m.group(1) or m.group(2))
        # collect::<HashSet<..>> bindings
        for m in re.finditer(r"let\s+(?:mut\s+)?(\w+)(?:\s*:\s*HashSet<[^=]*)?\s*=[^;]*collect::<HashSet", src):
            idents.add(m.group(1))
        # enclosing function for each position
        fns = [(m.start(), m.group(1)) for m in re.finditer(r"\bfn\s+(\w+)", src)]

        def enclosing(pos):
            name = "?"
            for p, n in fns:
                if p <= pos:
                    name = n
                else:
                    break
            return name
        for ident in sorted(idents):
            for m in re.finditer(r"(?:\b|\.)%s\s*(?:\.borrow\(\)|\.borrow_mut\(\))?\s*%s" % (re.escape(ident), ITER), src):
                sites.append({"file": f, "fn": enclosing(m.start()), "container": ident, "how": m.group(1)})
            for m in re.finditer(r"for\s+[^;{]*?\bin\s+&?(?:mut\s+)?(?:self\.)?(?:\w+\.)*%s\s*\{" % re.escape(ident), src):
                sites.append({"file": f, "fn": enclosing(m.start()), "container": ident, "how": "for"})
        # anonymous containers: `….collect::<HashSet<_>>().into_iter()` and the like
        for m in re.finditer(r"collect::<\s*(?:ahash::|std::collections::)?(HashSet|HashMap)\b[^;]*?>\s*\(\)\s*%s" % ITER, src):
            sites.append({"file": f, "fn": enclosing(m.start()), "container": "<collect::" + m.group(1) + ">", "how": m.group(2)})
    # canonical, with ordinals per (file, fn, container, how)
    out, seen = [], {}
    for s in sites:
        k = (s["file"], s["fn"], s["container"], s["how"])
        seen[k] = seen.get(k, 0) + 1
    for k in sorted(seen):
        out.append({"file": k[0], "fn": k[1], "container": k[2], "how": k[3], "count": seen[k]})
    return out


if __name__ == "__main__":
    json.dump(census(), sys.stdout, indent=1)
    print()
