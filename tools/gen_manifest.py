#!/usr/bin/env python3
"""Regenerates MANIFEST.json from the table below (kept valid at all times)."""
import json, os
ROOT = os.path.dirname(os.path.dirname(os.path.abspath(__file__)))
BASE_NOTE = ("Trusted: Coq 8.16.1 kernel (vm_compute, no native_compute), no axioms in property theorems, "
             "ExtrOcamlBasic extraction + ocaml/driver.ml for volume runs, the harness (table provider, generators, "
             "schedulers), the verif-hooks emit sites. The model is hand-written; the tie to /repo is the "
             "per-run correspondence named in the technique field.")
CHECKS = {}
NOT_APPLICABLE = {}

def load():
    import importlib.util
    spec = importlib.util.spec_from_file_location("manifest_table", os.path.join(ROOT, "tools", "manifest_table.py"))
    m = importlib.util.module_from_spec(spec); spec.loader.exec_module(m)
    return m

def main():
    t = load()
    props = [json.loads(l)["id"] for l in open(os.path.join(ROOT, "properties.jsonl"))]
    checks, na = [], []
    for p in props:
        if p in t.CHECKS:
            c = t.CHECKS[p]
            checks.append({
                "property_id": p,
                "quick_cmd": f"./check {p} --tier quick",
                "thorough_cmd": f"./check {p} --tier thorough",
                "evidence_file": f"/verif/evidence/{p}.json",
                "replay_cmd_template": f"./check {p} --replay {{path}}",
                "engine": "coq+harness",
                "level_claimed": {"category": "proof", "text": c["text"], "design_ref": c.get("design_ref", "DESIGN.md section 6")},
                "level_note": c.get("note", "") + " " + BASE_NOTE,
                "technique": c["technique"],
            })
        else:
            na.append({"property_id": p, "reason": t.NOT_APPLICABLE.get(p, "check not built yet in this round; planned (see DESIGN.md section 6)")})
    m = {
        "version": 1,
        "setup_cmd": "./setup.sh",
        "hooks": {
            "guard": "verif-hooks",
            "enable": "cargo feature `verif-hooks` of the resolvo crate (harness feature `hooks` turns it on); every emit site is #[cfg(feature = \"verif-hooks\")]",
            "baseline_off_cmd": "cd /repo && cargo test --workspace --no-fail-fast --offline",
            "source_commits": t.HOOK_COMMITS,
            "add_only": True,
        },
        "engines": [{"name": "coq+harness", "path": "/verif/check", "serves_properties": sorted(t.CHECKS),
                     "kind_free_text": "Coq 8.16 development (coq/), extracted OCaml oracles/checkers (ocaml/), Rust harness against /repo (harness/), Python driver (check, tools/)"}],
        "checks": checks,
        "notes": "See DESIGN.md. known_findings.txt lists repaired defects (fix: commits in /repo).",
        "not_applicable": na,
    }
    json.dump(m, open(os.path.join(ROOT, "MANIFEST.json"), "w"), indent=1)

if __name__ == "__main__":
    main()
