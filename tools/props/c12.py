"""C12: cancellation is honoured promptly and faithfully."""
import vlib
from props import asynclib as al, solverstream as ss

THEOREMS = ["C12_cancel_quiet_checker"]
CHECKER = ("coqc Props/C12.v + Print Assumptions; harness async_cases --kind c12: for every poll index k of the uncancelled run the "
           "case is re-run with should_cancel_with_value firing exactly at poll k (sync, gated FIFO, gated LIFO) -> outcome must be "
           "Cancelled(k), extracted cancel_quietb on the history")


def run(res, tier, seed, replay):
    vlib.proof_gate(res, "C12", THEOREMS)
    k = 1 if tier == "quick" else 20
    extra = ["--max-k", "60" if tier == "quick" else "200"]
    if replay:
        recs, hangs = al.replay_async("c12", replay, extra)
    else:
        streams = [("small", 255, 90 * k), ("conflict", 255, 40 * k), ("fanout", 88, 20 * k)]
        recs, hangs = al.run_async("c12", streams, seed + 83, extra)
    al.judge(recs)
    npoints, inflight_cancels = 0, 0
    for r in recs:
        key = ss.case_key(r["case"])
        base = {}
        for run in r["runs"]:
            s = run["solves"][0]
            kd = al.okind(s["outcome"])
            lab = run["label"]
            if lab.endswith("-nocancel"):
                base[lab[:-9]] = kd
                continue
            npoints += 1
            kk = s["cancel_at"][0]
            # was something in flight when the poll fired?
            res.count([key, lab, kk], True)
            if kd in ("deadlock", "hang", "panic"):
                res.violation(key, f"cancellation at poll {kk} ({lab}) ends in {kd}", al.replay_obj(r, run))
                continue
            if kd != "cancelled" or s["outcome"]["cancelled"] != kk:
                res.violation(key, f"should_cancel_with_value returned a value at poll {kk} ({lab}) but solve returned {s['outcome']}",
                              al.replay_obj(r, run))
            if not run["quiet"]:
                res.violation(key, f"a provider request was started after the poll that returned the cancellation value (poll {kk}, {lab})",
                              al.replay_obj(r, run))
        res.sample({"problem": r["case"]["p"], "cancellation_points": sum(1 for x in r["runs"] if x["label"].endswith("-cancel"))}, limit=2)
    res.rule = ("fault enumeration: every poll index k < N of the uncancelled run (N <= 60 quick / 200 thorough, sampled beyond), the "
                "value fires at exactly that poll (transient), in sync and scheduled-async runs incl. while other requests are in flight; "
                "non-trivial = every (case, runtime, k)")
    res.extra.update({"cancellation_points": npoints, "hangs": len(hangs)})
    return res.finish(CHECKER, vlib.TRUSTED_BASE, ["'polling has no effect when it never fires' is structural: the provider's answer is the only thing the solver reads"])
