"""C12: cancellation is honoured promptly and faithfully."""
import vlib
from props import asynclib as al, solverstream as ss

THEOREMS = ["C12_cancel_quiet_checker"]
CHECKER = ("coqc Props/C12.v + Print Assumptions; harness async_cases --kind c12: for every poll index k of the uncancelled run the "
           "case is re-run with should_cancel_with_value firing exactly at poll k (sync, gated FIFO, gated LIFO) -> outcome must be "
           "Cancelled(k), extracted cancel_quietb on the history")


def run(res, tier, seed, replay):
    vlib.proof_gate(res, "C12", THEOREMS)
    k = 1 if tier == "quick" else 20
    extra = ["--max-k", "60" if tier == "quick" else "200"]
    if replay:
        recs, hangs = al.replay_async("c12", replay, extra)
    else:
        streams = [("small", 255, 90 * k), ("conflict", 255, 40 * k), ("fanout", 88, 20 * k)]
        recs, hangs = al.run_async("c12", streams, seed + 83, extra)
    # the same enumeration with a provider whose sort_candidates looks up dependencies through the SolverCache: polls made by
    # the cache on behalf of the provider are cancellation points too
    if replay:
        recs2 = []
        if "sort-deps" in open(replay).read():
            recs2, _ = al.replay_async("c12", replay, extra + ["--sort-deps"])
            recs = []
    else:
        recs2, h2 = al.run_async("c12", [("small", 255, 40 * k), ("conflict", 255, 20 * k)], seed + 87, extra + ["--sort-deps"])
        hangs += h2
    for r in recs2:
        r["sort_deps"] = True
    recs = recs + recs2
    # unions with more than 30 alternatives: from 31 futures on try_join_all hands out results in order, so a cancellation
    # observed by a later alternative used to be held back until the earlier ones had completed (F22)
    if not replay:
        recs3, h3 = al.run_async("c12", [("wideunion", 255, 3 * k)], seed + 89, ["--max-k", "90"])
        hangs += h3
        recs = recs + recs3
    al.judge(recs)
    npoints, inflight_cancels, in_sort = 0, 0, 0
    for r in recs:
        key = ss.case_key(r["case"])
        base = {}
        for run in r["runs"]:
            s = run["solves"][0]
            kd = al.okind(s["outcome"])
            lab = run["label"]
            if lab.endswith("-nocancel"):
                base[lab[:-9]] = kd
                continue
            npoints += 1
            kk = s["cancel_at"][0]
            # was something in flight when the poll fired?
            res.count([key, lab, kk], True)
            if kd in ("deadlock", "hang", "panic"):
                res.violation(key, f"cancellation at poll {kk} ({lab}) ends in {kd}", al.replay_obj(r, run))
                continue
            # did the firing poll happen inside a sort_candidates call of the provider (between "o" and "oe")?
            depth, fired_in_sort = 0, False
            for c in run["calls"]:
                if isinstance(c, dict) and "o" in c:
                    depth += 1
                elif isinstance(c, dict) and "oe" in c:
                    depth -= 1
                elif isinstance(c, dict) and "p" in c and c["p"][1]:
                    fired_in_sort = depth > 0
                    break
            in_sort += fired_in_sort
            vkey = "cancellation-observed-inside-sort_candidates" if (r.get("sort_deps") and fired_in_sort) else key
            rep = dict(al.replay_obj(r, run), **({"sort-deps": True} if r.get("sort_deps") else {}))
            if kd != "cancelled" or s["outcome"]["cancelled"] != kk:
                res.violation(vkey, f"should_cancel_with_value returned a value at poll {kk} ({lab}"
                              f"{', inside sort_candidates' if fired_in_sort else ''}) but solve returned {s['outcome']}", rep)
            if not run["quiet"]:
                res.violation(vkey, f"a provider request was started after the poll that returned the cancellation value (poll {kk}, {lab}"
                              f"{', inside sort_candidates' if fired_in_sort else ''})", rep)
        res.sample({"problem": r["case"]["p"], "cancellation_points": sum(1 for x in r["runs"] if x["label"].endswith("-cancel"))}, limit=2)
    res.rule = ("fault enumeration: every poll index k < N of the uncancelled run (N <= 60 quick / 200 thorough, sampled beyond), the "
                "value fires at exactly that poll (transient), in sync and scheduled-async runs incl. while other requests are in flight; "
                "non-trivial = every (case, runtime, k)")
    res.extra.update({"cancellation_points": npoints, "cancellation_points_inside_sort_candidates": in_sort, "hangs": len(hangs)})
    return res.finish(CHECKER, vlib.TRUSTED_BASE, ["'polling has no effect when it never fires' is structural: the provider's answer is the only thing the solver reads"])
