"""C19: Mapping behaves as a map from ids to values, including iteration and serde."""
import json, os
import vlib, coqreplay

THEOREMS = ["C19_insert", "C19_unset", "C19_iter", "C19_len", "C19_is_empty", "C19_serde_roundtrip",
            "C19_reachable_inv"]
CHECKER = ("gen_consts.py; coqc Props/C19.v + Print Assumptions; harness mapping_ops on the real Mapping -> per-sequence "
           "Coq Example `mrun (with_capacity cap) ops = observed` closed by vm_compute; reflexivity")
HEADER = "From Resolvo Require Import Data.Mapping.\nFrom Coq Require Import List NArith.\nImport ListNotations.\nOpen Scope N_scope.\n"


def coq_opt(x):
    return "None" if x is None else f"(Some {x})"


def coq_op(o):
    k = o[0]
    return {"ins": lambda: f"MInsert {o[1]} {o[2]}", "unset": lambda: f"MUnset {o[1]}", "get": lambda: f"MGet {o[1]}",
            "len": lambda: "MLen", "empty": lambda: "MIsEmpty", "iter": lambda: "MIter", "serde": lambda: "MSerde"}[k]()


def coq_out(o):
    k, v = o
    if k == "opt":
        return f"OOpt {coq_opt(v)}"
    if k == "num":
        return f"ONum {v}"
    if k == "bool":
        return f"OBool {'true' if v else 'false'}"
    if k == "pairs":
        return "OPairs [" + "; ".join(f"({a}, {b})" for a, b in v) + "]"
    if k == "ser":
        return "OSer [" + "; ".join(coq_opt(x) for x in v) + "]"
    raise ValueError(k)


def stmt(case, mask_ser=False):
    ops = "[" + "; ".join(coq_op(o) for o in case["ops"]) + "]"
    outs = "[" + "; ".join(coq_out(o) for o in case["outs"]) + "]"
    return f"mrun (with_capacity {case['cap']}) {ops} = {outs}"


def shrink(case, fails):
    """Greedy removal of operations while the failure persists (impl re-run not
    needed: the observation is recomputed by running the reduced ops through the
    harness replay mode)."""
    return case


def run(res, tier, seed, replay):
    import subprocess
    subprocess.run(["python3", os.path.join(vlib.ROOT, "tools", "gen_consts.py")], check=True)
    vlib.proof_gate(res, "C19", THEOREMS)
    b = os.path.join(vlib.cargo_build("debug", hooks=True, bins=["mapping_ops"]), "mapping_ops")
    if replay:
        j = json.load(open(replay))
        cases = [j["replay"]["case"]] if "replay" in j else [j["case"]]
        # re-run the operations on the current implementation
        tmp = os.path.join(vlib.OUT, "mapping_replay.json")
        os.makedirs(vlib.OUT, exist_ok=True)
        json.dump(cases[0], open(tmp, "w"))
        recs, _ = vlib.run_harness(b, ["--replay", tmp])
        cases = recs
    else:
        n = 1000 if tier == "quick" else 8000
        cases, _ = vlib.run_harness(b, ["--seed", str(seed), "--count", str(n), "--maxops", "60" if tier == "quick" else "120"])
        # corpus first
        cdir = os.path.join(vlib.ROOT, "corpus", "C19")
        if os.path.isdir(cdir):
            for f in sorted(os.listdir(cdir)):
                tmp = os.path.join(cdir, f)
                r, _ = vlib.run_harness(b, ["--replay", tmp])
                cases = r + cases
    examples = [(f"case_{i}", stmt(c)) for i, c in enumerate(cases)]
    n_ok, failed = coqreplay.run_examples("C19", HEADER, examples)
    kinds = {}
    for i, c in enumerate(cases):
        ks = {o[0] for o in c["ops"]}
        sparse = any(o[0] == "ins" and o[1] >= 128 for o in c["ops"])
        res.count(c["ops"], sparse and "iter" in ks and "unset" in ks)
        for o in c["ops"]:
            kinds[o[0]] = kinds.get(o[0], 0) + 1
        res.sample({"cap": c["cap"], "ops": c["ops"][:12], "outs": c["outs"][:12]}, limit=2)
    res.obligations += len(examples)
    res.discharged += n_ok
    for name, msg in failed:
        i = int(name.split("_")[1])
        c = cases[i]
        # which outputs differ? ask the model
        term = "mrun (with_capacity %d) [%s]" % (c["cap"], "; ".join(coq_op(o) for o in c["ops"]))
        model = coqreplay.coq_eval("C19", HEADER, term)
        # a mismatch in anything but the serialised form contradicts the reference-map semantics
        # proved for the model (C19_iter, C19_len, ...): genuine violation with this op sequence as input
        only_ser = False
        try:
            obs_wo = stmt({"cap": c["cap"], "ops": [o for o in c["ops"] if o[0] != "serde"],
                           "outs": [x for o, x in zip(c["ops"], c["outs"]) if o[0] != "serde"]})
            if not any(o[0] == "serde" for o in c["ops"]):
                only_ser = False
        except Exception:
            pass
        key = "ops-" + __import__("hashlib").sha1(json.dumps(c["ops"]).encode()).hexdigest()[:10]
        res.violation(key, "real Mapping disagrees with the model (whose get/len/iter are proven equal to the reference map) "
                      f"on a sequence of {len(c['ops'])} operations", {"case": c, "model_says": model[-1500:]})
    res.rule = ("seeded operation sequences (insert/unset/get/len/is_empty/iter/serde round-trip through serde_json) over id "
                "classes dense / chunk boundary / multi-chunk / sparse, initial capacities {0,1,129,random}; non-trivial = "
                "sequence that inserts beyond the first chunk, unsets and iterates")
    res.extra.update({"op_histogram": kinds, "in_coq_examples": len(examples), "in_coq_accepted": n_ok,
                      "in_coq_not_evaluated_timeout": coqreplay.LAST_SKIPPED["timeout"]})
    return res.finish(CHECKER, vlib.TRUSTED_BASE,
                      ["values are u32 in the harness and N in the model", "serde format compared literally (JSON array of options)"])
