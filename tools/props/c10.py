"""C10: any completion order of asynchronous metadata requests gives a correct result."""
import vlib
from props import asynclib as al, solverstream as ss

THEOREMS = ["C10_once_checker", "C10_valid_oracle", "C10_reference"]
CHECKER = ("coqc Props/C10.v + Print Assumptions; harness async_cases --kind c10: schedule-controlled executor (FIFO, LIFO, random, "
           "bounded depth-first enumeration of completion orders) -> per schedule: termination (deadlock detection without "
           "timeouts), verdict = synchronous verdict, extracted o_valid on the solution, extracted onceb on the call history")


def run(res, tier, seed, replay):
    vlib.proof_gate(res, "C10", THEOREMS)
    k = 1 if tier == "quick" else 20
    extra = ["--max-sched", "40" if tier == "quick" else "300"]
    if replay:
        recs, hangs = al.replay_async("c10", replay, extra)
    else:
        streams = [("small", 255, 120 * k), ("conflict", 255, 60 * k), ("fanout", 88, 50 * k), ("dense", 255, 40 * k)]
        recs, hangs = al.run_async("c10", streams, seed + 73, extra)
    al.judge(recs)
    al.ref_for(recs)
    nsched, maxpend = 0, 0
    for h in hangs:
        res.violation(f"hang-{h}", f"case {h} did not finish within the watchdog time", {"hang": h})
    for r in recs:
        key = ss.case_key(r["case"])
        sync = [x for x in r["runs"] if x["label"] == "sync"]
        k0 = al.okind(sync[0]["solves"][0]["outcome"]) if sync else None
        scheds = set()
        for run in r["runs"]:
            s = run["solves"][0]
            kd = al.okind(s["outcome"])
            if run["mode"] == "Gated":
                nsched += 1
                scheds.add(json_key(run["sched"]))
                maxpend = max([maxpend] + [d[0] for d in run["sched"]])
            if kd in ("deadlock", "hang"):
                res.violation(key, f"solve never completes under schedule {run['label']} {run['sched'][:12]} ({kd}: waiting on "
                              "something that cannot complete)", al.replay_obj(r, run))
                continue
            if kd == "panic":
                res.violation(key, f"solve panicked under schedule {run['label']}: {s['outcome']['panic']}", al.replay_obj(r, run))
                continue
            if k0 in ("sat", "unsat") and kd != k0:
                res.violation(key, f"verdict {kd} under schedule {run['label']} {run['sched'][:12]} differs from the synchronous verdict {k0}",
                              al.replay_obj(r, run))
            if kd == "sat" and not s.get("valid", True):
                res.violation(key, f"solution {s['outcome']['sat']} under schedule {run['label']} is not valid", al.replay_obj(r, run))
            if not run["once"]:
                res.violation(key, f"a provider request was issued twice under schedule {run['label']} {run['sched'][:12]}",
                              al.replay_obj(r, run))
        res.count([key], len(scheds) >= 3)
        res.sample({"universe_sols": len(r["case"]["u"]["sols"]), "problem": r["case"]["p"],
                    "schedules": [x["sched"] for x in r["runs"] if x["mode"] == "Gated"][:6]}, limit=2)
    res.rule = ("every case is solved synchronously and under completion orders chosen by the schedule-controlled executor: FIFO, "
                "LIFO, 3 random, and a bounded depth-first enumeration of the alternatives at every choice point; non-trivial = "
                "case with >= 3 distinct schedules")
    res.extra.update({"schedules_run": nsched, "max_simultaneously_pending": maxpend, "hangs": len(hangs)})
    return res.finish(CHECKER, vlib.TRUSTED_BASE,
                      ["single-threaded executor; provider futures for get_candidates / get_dependencies are the schedule points "
                       "(filter/sort complete immediately)", "solutions may legitimately differ between schedules; verdict and validity are compared"])


def json_key(x):
    import json
    return json.dumps(x)
