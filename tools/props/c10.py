"""C10: any completion order of asynchronous metadata requests gives a correct result."""
import vlib
from props import asynclib as al, solverstream as ss, enctie, tracecheck as tc, solvertie

THEOREMS = ["C10_once_checker", "C10_valid_oracle", "C10_reference", "C10_any_order_adds_facts",
            "C10_any_order_complete", "C10_any_order_once", "C10_verdicts_agree", "C10_protocol_never_asks_twice"]
CHECKER = ("coqc Props/C10.v + Print Assumptions; harness async_cases --kind c10: schedule-controlled executor (FIFO, LIFO, random, "
           "bounded depth-first enumeration of completion orders) -> per schedule: termination (deadlock detection without "
           "timeouts), verdict = synchronous verdict, extracted o_valid on the solution, extracted onceb on the call history; harness "
           "solve_cases under gated (FIFO/LIFO/random) and self-waking runtimes with hook log -> extracted enc_run follows the logged "
           "completion order: clause database equal clause for clause, candidates/dependencies requests equal as multisets, nothing "
           "pending at the end; same logs -> extracted trace checkers (hypotheses of C10_verdicts_agree)")


def run(res, tier, seed, replay):
    vlib.proof_gate(res, "C10", THEOREMS)
    k = 1 if tier == "quick" else 20
    extra = ["--max-sched", "40" if tier == "quick" else "300"]
    if replay:
        recs, hangs = al.replay_async("c10", replay, extra)
    else:
        streams = [("small", 255, 120 * k), ("conflict", 255, 60 * k), ("fanout", 88, 50 * k), ("dense", 255, 40 * k)]
        recs, hangs = al.run_async("c10", streams, seed + 73, extra)
    al.judge(recs)
    al.ref_for(recs)
    # the encoder model under the logged completion order (theorems C10_any_order_*), and the trace checkers
    if replay:
        erecs = []
    else:
        estreams = [("conflict", 255, "gated:lifo", "debug", 150 * k), ("conflict", 255, "gated:random", "debug", 150 * k),
                    ("small", 255, "gated:random", "debug", 150 * k), ("dense", 255, "gated:fifo", "debug", 60 * k),
                    ("fanout", 88, "gated:random", "debug", 40 * k), ("small", 255, "yield", "debug", 150 * k),
                    ("conflict", 127, "gated:random", "release", 100 * k)]
        erecs, eh = ss.run_streams(estreams, seed + 79, dump=True)
        for h in eh:
            res.violation(f"hang-{h}", f"case {h} did not finish within the watchdog time (gated solve_cases)", {"hang": h})
    # a provider whose sort_candidates looks up the dependencies of the candidates through the SolverCache (public API):
    # its lookups overlap with the solver's own requests under asynchronous completion
    if replay:
        import json as _json
        xa = _json.load(open(replay)).get("replay", {}).get("extra_args")
        drecs = ss.run_replay(replay, profiles=("debug",), modes=("gated:random", "gated:lifo", "gated:fifo", "yield"),
                              render=False, extra_args=xa) if xa else []
    else:
        drecs, dh = ss.run_streams([("small", 255, "gated:random", "debug", 300 * k), ("conflict", 255, "gated:lifo", "debug", 200 * k),
                                    ("dense", 255, "yield", "debug", 120 * k), ("fanout", 88, "gated:random", "debug", 60 * k)],
                                   seed + 97, extra_args=["--sort-deps"])
        for h in dh:
            res.violation(f"hang-{h}", f"case {h} did not finish within the watchdog time (sort_candidates using the cache)", {"hang": h})
    ss.oracle_sat(drecs)
    dref = ss.oracle_ref(drecs)
    for r in drecs:
        key = ss.case_key(r["case"])
        kd = ss.outcome_kind(r["obs"]["outcome"])
        calls = r["obs"]["calls"]
        for tag, what in (("c", "get_candidates"), ("d", "get_dependencies")):
            ids = [c[tag] for c in calls if isinstance(c, dict) and tag in c]
            res.count([key, r["stream"], "sortdeps", tag], len(ids) >= 3)
            dups = sorted({x for x in ids if ids.count(x) > 1})
            if dups:
                res.violation(key, f"{what} was requested more than once for {dups} when sort_candidates looks up dependencies through "
                              f"the SolverCache ({r['stream']})", dict(ss.replay_obj(r), extra_args=["--sort-deps"]))
        if kd in ("panic", "deadlock", "hang"):
            res.violation(key, f"solve ended in {kd} when sort_candidates looks up dependencies through the SolverCache ({r['stream']})",
                          dict(ss.replay_obj(r), extra_args=["--sort-deps"]))
        want = dref[r["key"]]["solvable"]
        if (kd == "unsat" and want) or (kd == "sat" and want is False):
            res.violation(key, f"verdict {kd} but the reference says solvable={want} ({r['stream']}, sort_candidates using the cache)",
                          dict(ss.replay_obj(r), extra_args=["--sort-deps"]))
        if kd == "sat" and not r["valid"]:
            res.violation(key, f"invalid solution {r['obs']['outcome']['sat']} ({r['stream']}, sort_candidates using the cache)",
                          dict(ss.replay_obj(r), extra_args=["--sort-deps"]))
    enctie.annotate(erecs)
    tc.annotate(erecs)
    solvertie.annotate(erecs)
    for r in erecs:
        if not solvertie.ok(r):
            res.tie_break(f"whole-run correspondence no longer checks under completion order {r['stream']}: with the logged completion order "
                          f"of the encoder's futures as input, the model of Solver::solve (Cdcl/Solver.v) computes another result, another "
                          f"sequence of trail events, another clause database or other provider calls (compared as multisets: every request exactly as often as in the model, i.e. once) than the implementation: {r['solver']}",
                          dict(ss.replay_obj(r), solver_model=r["solver"]))
    for r in erecs:
        if "enc" not in r:
            continue
        res.count([ss.case_key(r["case"]), r["stream"], "enc"], r["enc"].get("n_db", 0) >= 6)
        if not enctie.ok(r):
            res.tie_break(f"encoder correspondence no longer checks under completion order {r['stream']}: the implementation's clause "
                          f"database / candidates+dependencies requests differ from the model following the logged completion order, "
                          f"or a future was still pending (theorems C10_any_order_*): {r['enc']}", enctie.replay(r))
        t = r.get("trace")
        kd = ss.outcome_kind(r["obs"]["outcome"])
        if t and kd == "sat" and not (t.get("db") and t.get("run") and t.get("lenient")):
            res.tie_break(f"trace inclusion no longer checks for a run under completion order {r['stream']} (hypothesis of "
                          f"C10_verdicts_agree): {t}", tc.trace_replay(r))
        if t and kd == "unsat" and not (t.get("db") and t.get("run") and t.get("unsat")):
            res.tie_break(f"refutation certificate no longer checks for a run under completion order {r['stream']} (hypothesis of "
                          f"C10_verdicts_agree): {t}", tc.trace_replay(r))
    nsched, maxpend = 0, 0
    for h in hangs:
        res.violation(f"hang-{h}", f"case {h} did not finish within the watchdog time", {"hang": h})
    for r in recs:
        key = ss.case_key(r["case"])
        sync = [x for x in r["runs"] if x["label"] == "sync"]
        k0 = al.okind(sync[0]["solves"][0]["outcome"]) if sync else None
        scheds = set()
        for run in r["runs"]:
            s = run["solves"][0]
            kd = al.okind(s["outcome"])
            if run["mode"] == "Gated":
                nsched += 1
                scheds.add(json_key(run["sched"]))
                maxpend = max([maxpend] + [d[0] for d in run["sched"]])
            if kd in ("deadlock", "hang"):
                res.violation(key, f"solve never completes under schedule {run['label']} {run['sched'][:12]} ({kd}: waiting on "
                              "something that cannot complete)", al.replay_obj(r, run))
                continue
            if kd == "panic":
                res.violation(key, f"solve panicked under schedule {run['label']}: {s['outcome']['panic']}", al.replay_obj(r, run))
                continue
            if k0 in ("sat", "unsat") and kd != k0:
                res.violation(key, f"verdict {kd} under schedule {run['label']} {run['sched'][:12]} differs from the synchronous verdict {k0}",
                              al.replay_obj(r, run))
            if kd == "sat" and not s.get("valid", True):
                res.violation(key, f"solution {s['outcome']['sat']} under schedule {run['label']} is not valid", al.replay_obj(r, run))
            if not run["once"]:
                res.violation(key, f"a provider request was issued twice under schedule {run['label']} {run['sched'][:12]}",
                              al.replay_obj(r, run))
        res.count([key], len(scheds) >= 3)
        res.sample({"universe_sols": len(r["case"]["u"]["sols"]), "problem": r["case"]["p"],
                    "schedules": [x["sched"] for x in r["runs"] if x["mode"] == "Gated"][:6]}, limit=2)
    res.rule = ("every case is solved synchronously and under completion orders chosen by the schedule-controlled executor: FIFO, "
                "LIFO, 3 random, and a bounded depth-first enumeration of the alternatives at every choice point; non-trivial = "
                "case with >= 3 distinct schedules")
    res.extra.update({"schedules_run": nsched, "max_simultaneously_pending": maxpend, "hangs": len(hangs), "runs_with_sort_using_the_cache": len(drecs)}, **enctie.stats(erecs), **solvertie.stats(erecs))
    return res.finish(CHECKER, vlib.TRUSTED_BASE,
                      ["single-threaded executor; provider futures for get_candidates / get_dependencies are the schedule points "
                       "(filter/sort complete immediately)", "solutions may legitimately differ between schedules; verdict and validity are compared"])


def json_key(x):
    import json
    return json.dumps(x)
