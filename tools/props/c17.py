"""C17: the C++ binding computes what the Rust API computes, memory-safely.

Partial by construction.  Proved (Coq, Data/CowVector.v): the ref-counting / copy-on-write
*protocol* of the shared Vector/String for every operation sequence.  Tied to the code per run:
 (a) generated operation sequences are executed on the real Rust containers (cpp/src/*.rs compiled by
     path, counting + layout-checking allocator) and on the real C++ containers (clang++ ASan+UBSan,
     linked to the freshly built libresolvo_cpp.a, Rust allocator entry points wrapped); every observed
     (contents, size, capacity, refcount, live blocks) is checked against the model *inside Coq*;
 (b) generated universes are solved through resolvo::solve from C++ with a table-driven
     DependencyProvider and compared with the Rust API result (solution vector, error text byte for
     byte, provider call sequence).
"""
import hashlib, json, os, random, subprocess, concurrent.futures as cf
import vlib, coqreplay
from props import solverstream as ss

THEOREMS = ["C17_reachable_inv", "C17_refcount_exact", "C17_static_untouched", "C17_no_double_free",
            "C17_no_dangling", "C17_freed_unreferenced", "C17_release_frees_last_only", "C17_size_le_cap",
            "C17_allocated_live_xor_freed", "C17_no_leak", "C17_exec_refines", "C17_cow_refinement",
            "C17_astep_frame", "C17_read_denotes", "C17_string_from_read"]
CHECKER = ("coqc Props/C17.v + Print Assumptions; harness_cpp/build.sh (cargo build -p resolvo_cpp staticlib + cbindgen "
           "headers from the current tree, clang++-14 -fsanitize=address,undefined driver.cpp with --wrap=__rust_alloc/"
           "dealloc/realloc/alloc_zeroed, cargo build harness_cpp/rust); op sequences on Rust Vector/String and C++ "
           "Vector/String -> per-sequence Coq Example `vrun ops = observed` closed by vm_compute; reflexivity; "
           "solve_cases (Rust API) vs driver `solve` (resolvo::solve from C++) on the same universes")
HEADER = ("From Resolvo Require Import Data.CowVector.\nFrom Coq Require Import List NArith ZArith.\n"
          "Import ListNotations.\nOpen Scope N_scope.\n")
HC = os.path.join(vlib.ROOT, "harness_cpp")
CPP_OUT = os.path.join(vlib.BUILD, "cpp" + ("_" + vlib.TAG if vlib.TAG else ""))
DRIVER = os.path.join(CPP_OUT, "driver")
COW_OPS = os.path.join(vlib.BUILD, "cargo_cpp" + ("_" + vlib.TAG if vlib.TAG else ""), "debug", "cow_ops")
STR0 = 100
FEAT_NO_UNKNOWN = 255 & ~32   # Dependencies::Unknown cannot be expressed through the C++ interface

NOT_COVERED = ("not covered by any theorem: layout compatibility, pointer arithmetic, transmute of id slices, atomics "
               "-- exercised under ASan/UBSan only")


# ----------------------------------------------------------------- build

def build():
    p = vlib.sh([os.path.join(HC, "build.sh")], cwd=HC, timeout=1500, check=False,
                env=dict(vlib.ENV, VERIF_REPO=vlib.REPO, VERIF_CPP_OUT=CPP_OUT,
                         CARGO_TARGET_DIR=os.path.join(vlib.BUILD, "cargo_cpp" + ("_" + vlib.TAG if vlib.TAG else ""))))
    if p.returncode != 0 or "build-ok" not in p.stdout:
        raise vlib.CheckError("C++ binding / drivers do not build from the current /repo tree:\n" + p.stdout[-3000:])


# ----------------------------------------------------------------- operation sequences

ALPHABET = [[c] for c in range(32, 127)] + [[195, 169], [226, 130, 172], [206, 187]]   # ASCII, e-acute, euro, lambda


def gen_seq(rng, side, sid, maxops):
    """A well-formed operation sequence for one side.  Returns a case dict:
    ops = list of [name, args...] in the text protocol of the drivers."""
    elem = rng.choice(["i32", "i32", "u8"])
    vmax = 255 if elem == "u8" else 100000
    vec, strs = {}, {}          # live variables -> abstract contents (only used to stay well-formed)
    ops = []
    nv, ns = rng.choice([2, 3, 5]), rng.choice([0, 2, 3])
    n = rng.randint(3, maxops)

    def vals(k):
        return [rng.randint(0, vmax) for _ in range(k)]

    def text():
        t = []
        for _ in range(rng.randint(0, 6)):
            t += rng.choice(ALPHABET)
        return t

    while len(ops) < n:
        dead_v = [x for x in range(nv) if x not in vec]
        dead_s = [STR0 + x for x in range(ns) if STR0 + x not in strs]
        cands = []
        if dead_v:
            cands += [("default", 3), ("fromiter", 3)]
            cands += [("withcap", 2), ("cppalloc", 2), ("fromiterlazy", 2)] if side == "rust" else [("fill", 2)]
            if vec:
                cands += [("clone", 5)]
        if vec:
            cands += [("push", 12), ("read", 3), ("drop", 2), ("assign", 3), ("swap", 2)]
            if side == "rust":
                cands += [("cppdrop", 1)]
            else:
                cands += [("pushmove", 2), ("clear", 2)]
                if any(vec[x] for x in vec):
                    cands += [("set", 4)]
        if dead_s:
            cands += [("sfrom", 3), ("sdefault", 1)]
            if strs:
                cands += [("sclone", 3)]
        if strs:
            cands += [("sread", 2), ("sdrop", 1), ("sswap", 1)]
            if len(strs) >= 2:
                cands += [("sassign", 2)]
        k = rng.choices([c[0] for c in cands], [c[1] for c in cands])[0]
        lv, ls = sorted(vec), sorted(strs)
        if k == "default":
            x = rng.choice(dead_v); vec[x] = []; ops.append(["default", x])
        elif k == "withcap" or k == "cppalloc":
            x = rng.choice(dead_v); vec[x] = []; ops.append([k, x, rng.choice([0, 1, 2, 3, 4, 5, 8, 9, 17])])
        elif k == "fromiter" or k == "fromiterlazy":
            x = rng.choice(dead_v); l = vals(rng.choice([0, 1, 2, 3, 4, 5, 7, 9, 12])); vec[x] = l
            ops.append([k, x, 0] + l)
        elif k == "fill":
            x = rng.choice(dead_v); c = rng.choice([0, 1, 2, 5]); v = rng.randint(0, vmax); vec[x] = [v] * c
            ops.append(["fill", x, c, v])
        elif k == "clone":
            x = rng.choice(lv); y = rng.choice(dead_v); vec[y] = list(vec[x]); ops.append(["clone", x, y])
        elif k in ("push", "pushmove"):
            x = rng.choice(lv); v = rng.randint(0, vmax); vec[x] = vec[x] + [v]; ops.append([k, x, v])
        elif k == "read":
            ops.append(["read", rng.choice(lv)])
        elif k in ("drop", "cppdrop"):
            x = rng.choice(lv); del vec[x]; ops.append([k, x])
        elif k == "assign":
            x = rng.choice(lv); y = rng.choice(lv); vec[x] = list(vec[y]); ops.append(["assign", x, y])
        elif k == "swap":
            x = rng.choice(lv); y = rng.choice(lv); vec[x], vec[y] = vec[y], vec[x]; ops.append(["swap", x, y])
        elif k == "clear":
            x = rng.choice(lv); vec[x] = []; ops.append(["clear", x])
        elif k == "set":
            x = rng.choice([x for x in lv if vec[x]]); i = rng.randrange(len(vec[x])); v = rng.randint(0, vmax)
            vec[x] = vec[x][:i] + [v] + vec[x][i + 1:]; ops.append(["set", x, i, v])
        elif k == "sfrom":
            x = rng.choice(dead_s); strs[x] = text(); ops.append(["sfrom", x, 0] + strs[x])
        elif k == "sdefault":
            x = rng.choice(dead_s); strs[x] = []; ops.append(["default", x])
        elif k == "sclone":
            x = rng.choice(ls); y = rng.choice(dead_s); strs[y] = strs[x]; ops.append(["clone", x, y])
        elif k == "sread":
            ops.append(["sread", rng.choice(ls)])
        elif k == "sdrop":
            x = rng.choice(ls); del strs[x]; ops.append(["drop", x])
        elif k == "sswap":
            x = rng.choice(ls); y = rng.choice(ls); strs[x], strs[y] = strs[y], strs[x]; ops.append(["swap", x, y])
        elif k == "sassign":
            # x != y: String::operator=(const String&) has no self-assignment guard (recorded finding)
            x, y = rng.sample(ls, 2); strs[x] = strs[y]; ops.append(["assign", x, y])
    # close: observe every live variable, then drop all of them (live must come back to 0)
    for x in sorted(vec):
        ops.append(["read", x])
    for x in sorted(strs):
        ops.append(["sread", x])
    rest = sorted(vec) + sorted(strs)
    rng.shuffle(rest)
    for x in rest:
        ops.append(["drop", x])
    return {"kind": "ops", "id": sid, "side": side, "elem": elem, "ops": ops}


def coq_list(l):
    return "[" + "; ".join(str(int(x)) for x in l) + "]"


def coq_op(o, side, elem):
    esz = 1 if elem == "u8" else 4
    sd = "Rust" if side == "rust" else "Cpp"
    k, a = o[0], o[1:]
    if k == "default":
        # C++ String() allocates "\0" through resolvo_string_from_bytes; everything else starts at the static block
        return f"SFrom {a[0]} []" if (side == "cpp" and a[0] >= STR0) else f"VDefault {a[0]}"
    if k in ("withcap", "cppalloc"):
        return f"VWithCap {a[0]} {a[1]}"
    if k == "fromiter":
        return f"VFromIter {a[0]} {coq_list(a[2:])}"
    if k == "fromiterlazy":
        return f"VFromIterLazy {a[0]} {esz} {coq_list(a[2:])}"
    if k == "fill":
        return f"VFromIter {a[0]} {coq_list([a[2]] * a[1])}"
    if k == "clone":
        return f"VClone {a[0]} {a[1]}"
    if k in ("drop", "cppdrop"):
        return f"VDrop {a[0]}"
    if k in ("push", "pushmove"):
        return f"VPush {sd} {esz} {a[0]} {a[1]}"
    if k == "clear":
        return f"VClear {a[0]}"
    if k == "set":
        return f"VSet {a[0]} {a[1]} {a[2]}"
    if k == "assign":
        return f"VCopyAssign {a[0]} {a[1]}"
    if k == "swap":
        return f"VSwap {a[0]} {a[1]}"
    if k == "read":
        return f"VRead {a[0]}"
    if k == "sfrom":
        return f"SFrom {a[0]} {coq_list(a[2:])}"
    if k == "sread":
        return f"SRead {a[0]}"
    raise ValueError(k)


def coq_out(o):
    return f"mkOut true {coq_list(o['data'])} {o['size']} {o['cap']} ({o['rc']})%Z {o['live']}"


def stmt(case, outs):
    ops = "[" + "; ".join(coq_op(o, case["side"], case["elem"]) for o in case["ops"]) + "]"
    return f"vrun {ops} = [" + "; ".join(coq_out(o) for o in outs) + "]"


def seq_text(case):
    lines = [f"seq {case['id']} {case['elem']}"]
    lines += [" ".join(str(t) for t in o) for o in case["ops"]]
    lines.append("end")
    return "\n".join(lines) + "\n"


# freed blocks are overwritten (the Rust half of the binding is not instrumented: a read of freed memory by Rust code
# is only visible through the value it reads)
SAN_ENV = dict(os.environ, ASAN_OPTIONS="detect_leaks=1:abort_on_error=0:max_free_fill_size=65536:free_fill_byte=165",
               UBSAN_OPTIONS="print_stacktrace=1")


def run_blocks(binary, blocks, done_tag, timeout=1800):
    """blocks: list of (id, text).  Feeds them to one process; when the process dies (sanitizer report,
    abort, crash) the first block without its completion line is the culprit and the rest is re-run.
    Returns (lines_by_id, failures) with failures = list of (id, returncode, stderr tail)."""
    by_id, failures = {}, []
    todo = list(blocks)
    while todo:
        p = subprocess.run([binary], input="".join(t for _, t in todo), stdout=subprocess.PIPE, stderr=subprocess.PIPE,
                           text=True, timeout=timeout, env=SAN_ENV)
        cur, completed = [], set()
        for line in p.stdout.splitlines():
            t = line.split()
            if not t:
                continue
            cur.append(t)
            if t[0] == done_tag:
                by_id[t[1]] = cur
                completed.add(t[1])
                cur = []
        if p.returncode == 0 and len(completed) == len(todo):
            break
        first_missing = next((i for i, (bid, _) in enumerate(todo) if str(bid) not in completed), None)
        if first_missing is None:
            # everything answered but the process still failed at exit (LeakSanitizer): blame the batch
            failures.append((str(todo[-1][0]) + "+exit", p.returncode, excerpt(p.stderr)))
            break
        failures.append((str(todo[first_missing][0]), p.returncode, excerpt(p.stderr)))
        todo = todo[first_missing + 1:]
    return by_id, failures


def excerpt(err):
    """first diagnostic line + head and tail of a (possibly long) sanitizer report"""
    return sanitizer_summary(err) + "\n" + (err if len(err) <= 4000 else err[:2500] + "\n[...]\n" + err[-1500:])


def shard_run(binary, blocks, done_tag):
    n = max(1, min(vlib.NCPU, len(blocks) // 25))
    shards = [blocks[i::n] for i in range(n)]
    by_id, failures = {}, []
    with cf.ThreadPoolExecutor(max_workers=n) as ex:
        for b, f in ex.map(lambda s: run_blocks(binary, s, done_tag), shards):
            by_id.update(b)
            failures += f
    return by_id, failures


def parse_seq(lines):
    outs, flags = [], {}
    for t in lines:
        if t[0] == "o":
            n = int(t[5])
            outs.append({"size": int(t[1]), "cap": int(t[2]), "rc": int(t[3]), "live": int(t[4]),
                         "data": [int(x) for x in t[6:6 + n]]})
        elif t[0] == "done":
            flags = dict(x.split("=") for x in t[2:])
    return outs, flags


def ops_key(case):
    return "ops-" + hashlib.sha1(json.dumps([case["side"], case["elem"], case["ops"]]).encode()).hexdigest()[:10]


def check_sequences(res, cases):
    """Runs the cases on their side's real containers, then asks Coq whether the model agrees."""
    by_side = {"rust": [c for c in cases if c["side"] == "rust"], "cpp": [c for c in cases if c["side"] == "cpp"]}
    observed, stats = {}, {"rust": 0, "cpp": 0, "ops": 0, "shared_mutations": 0}
    for side, cs in by_side.items():
        if not cs:
            continue
        binary = COW_OPS if side == "rust" else DRIVER
        by_id, failures = shard_run(binary, [(c["id"], seq_text(c)) for c in cs], "done")
        failed_ids = {f[0]: f for f in failures}
        for c in cs:
            sid = str(c["id"])
            if sid in failed_ids or sid not in by_id:
                f = failed_ids.get(sid, (sid, None, "no output"))
                res.obligations += 1
                res.violation(ops_key(c), f"{side} containers: process died (exit {f[1]}) on an operation sequence: "
                              + sanitizer_summary(f[2]), {"case": c, "stderr": f[2]})
                continue
            outs, flags = parse_seq(by_id[sid])
            observed[sid] = (c, outs, flags)
        for f in failures:
            if f[0].endswith("+exit"):
                res.obligations += 1
                res.violation("exit-" + side, f"{side} driver failed at exit (exit {f[1]}): " + sanitizer_summary(f[2]),
                              {"stderr": f[2]})
    examples, order = [], []
    for sid, (c, outs, flags) in observed.items():
        res.obligations += 1
        bad = {k: v for k, v in flags.items() if v != "0"}
        if bad or len(outs) != len(c["ops"]):
            res.violation(ops_key(c), f"{c['side']} containers: after dropping every handle {bad or 'outputs missing'} "
                          "(leaked blocks / deallocation with a layout other than the allocation's / Slice round trip)",
                          {"case": c, "flags": flags})
            continue
        examples.append((f"case_{len(order)}", stmt(c, outs)))
        order.append(sid)
    n_ok, failed = coqreplay.run_examples("C17", HEADER, examples) if examples else (0, [])
    res.discharged += n_ok
    for name, msg in failed:
        c, outs, _ = observed[order[int(name.split("_")[1])]]
        term = "vrun [" + "; ".join(coq_op(o, c["side"], c["elem"]) for o in c["ops"]) + "]"
        model = coqreplay.coq_eval("C17", HEADER, term)
        res.violation(ops_key(c), f"real {c['side']} Vector/String disagrees with the proven protocol model on a sequence of "
                      f"{len(c['ops'])} operations (contents / size / capacity / refcount / live blocks)",
                      {"case": c, "observed": outs, "model_says": model[-2500:]})
    hist = {}
    for sid, (c, outs, _) in observed.items():
        stats[c["side"]] += 1
        stats["ops"] += len(c["ops"])
        # statistics only: which mutations hit a block that another handle shares
        blk, fresh, shared_mut = {}, [1], 0

        def handles(b):
            return sum(1 for v in blk.values() if v == b)
        for o in c["ops"]:
            k, a = o[0], o[1:]
            hist[k] = hist.get(k, 0) + 1
            if k in ("default", "withcap", "cppalloc", "fromiter", "fromiterlazy", "fill", "sfrom"):
                static = k == "default" and not (c["side"] == "cpp" and a[0] >= STR0)
                blk[a[0]] = 0 if static else fresh[0]
                fresh[0] += 1
            elif k == "clone":
                blk[a[1]] = blk[a[0]]
            elif k in ("drop", "cppdrop"):
                del blk[a[0]]
            elif k == "assign":
                blk[a[0]] = blk[a[1]]
            elif k == "swap":
                blk[a[0]], blk[a[1]] = blk[a[1]], blk[a[0]]
            elif k in ("push", "pushmove", "set", "clear"):
                if blk[a[0]] != 0 and handles(blk[a[0]]) >= 2:
                    shared_mut += 1
                if blk[a[0]] == 0 or handles(blk[a[0]]) >= 2:
                    blk[a[0]] = fresh[0]
                    fresh[0] += 1
        stats["shared_mutations"] += shared_mut
        res.count([c["side"], c["elem"], c["ops"]], shared_mut > 0 or max((r["rc"] for r in outs), default=0) >= 2)
        res.sample({"side": c["side"], "elem": c["elem"], "ops": c["ops"][:10], "observed": outs[:10]}, limit=2)
    return stats, hist, len(examples), n_ok


def sanitizer_summary(err):
    for line in (err or "").splitlines():
        if "ERROR: AddressSanitizer" in line or "runtime error:" in line or "ERROR: LeakSanitizer" in line \
                or "panicked at" in line:
            return line.strip()[:300]
    return (err or "").strip().splitlines()[-1][:300] if (err or "").strip() else "no diagnostic"


# ----------------------------------------------------------------- solve through C++ vs through Rust

def expected_calls(calls):
    exp = []
    for cl in calls:
        (k, v), = cl.items()
        if k in ("c", "d"):
            exp += [k, str(v)]
        elif k == "f":
            exp += ["f", str(v[0]), "1" if v[1] else "0"]
        elif k == "o":
            exp += ["o", str(len(v))] + [str(x) for x in v]
    return exp


def check_solves(res, recs, seed):
    """recs: records {case, obs} from the Rust API (solve_cases)."""
    blocks, meta = [], {}
    skipped = {"reference_failed": 0, "unknown_deps": 0}
    rng = random.Random(seed)
    for i, r in enumerate(recs):
        c = r["case"]
        kind = ss.outcome_kind(r["obs"]["outcome"])
        if any(s["deps"] is None for s in c["u"]["sols"]):
            skipped["unknown_deps"] += 1
            continue
        if kind not in ("sat", "unsat") or (kind == "unsat" and r["obs"]["conflict"]["msg"] is None):
            skipped["reference_failed"] += 1    # a panic / hang of the Rust API belongs to C04, not here
            continue
        flags = r.get("flags", rng.randrange(16))
        bid = f"s{i}"
        meta[bid] = (r, flags)
        blocks.append((bid, f"solve {bid} {flags} " + vlib.toks(vlib.tok_universe(c["u"]), vlib.tok_problem(c["p"])) + "\n"))
    by_id, failures = shard_run(DRIVER, blocks, "mem")
    failed_ids = {f[0]: f for f in failures}
    stats = {"sat": 0, "unsat": 0, "calls_equal": 0, "max_error_bytes": 0}
    for bid, (r, flags) in meta.items():
        c = r["case"]
        key = ss.case_key(c)
        res.obligations += 1
        rep = {"kind": "solve", "case": c, "flags": flags, "rust": r["obs"]["outcome"],
               "how": "./check C17 --replay <this file>"}
        if bid in failed_ids or bid not in by_id:
            f = failed_ids.get(bid, (bid, None, "no output"))
            res.violation(key, f"resolvo::solve from C++: process died (exit {f[1]}): " + sanitizer_summary(f[2]),
                          dict(rep, stderr=f[2]))
            continue
        got = {t[0]: t[2:] for t in by_id[bid]}
        o = r["obs"]["outcome"]
        kind = ss.outcome_kind(o)
        rr = got.get("r", [])
        ok = True
        if kind == "sat":
            exp = ["sat", str(len(o["sat"]))] + [str(x) for x in o["sat"]]
            if rr != exp:
                ok = False
                res.violation(key, f"resolvo::solve from C++ returns {rr[:12]} where the Rust API returns {exp[:12]}",
                              dict(rep, cpp=rr))
        else:
            msg = r["obs"]["conflict"]["msg"]
            cpp_msg = bytes.fromhex(rr[1]).decode("utf-8", "replace") if len(rr) > 1 and rr[0] == "unsat" else None
            stats["max_error_bytes"] = max(stats["max_error_bytes"], len(msg))
            if cpp_msg != msg:
                ok = False
                res.violation(key, "resolvo::solve from C++ returns a different error text than the Rust API "
                              f"({'solution' if rr[:1] == ['sat'] else 'text'} vs Unsolvable)",
                              dict(rep, cpp=rr[:1], cpp_error=cpp_msg, rust_error=msg))
            elif len(rr) > 2 and rr[2] != "0":
                ok = False
                res.violation(key, f"resolvo::solve from C++ returned an error but left {rr[2]} solvables in the result vector "
                              "(the Rust API returns no solution; resolvo.h promises an empty vector)",
                              dict(rep, cpp=rr[:3], rust_error=msg))
        if ok and got.get("mem") != ["bad_layout=0", "foreign_free=0", "keep_bad=0"]:
            ok = False
            res.violation(key, f"resolvo::solve from C++: memory protocol broken across the boundary: {got.get('mem')}",
                          dict(rep, mem=got.get("mem")))
        if ok and got.get("calls") != expected_calls(r["obs"]["calls"]):
            ok = False
            res.violation(key, "resolvo::solve from C++ calls the provider in a different order than the Rust API "
                          "(same result)", dict(rep, cpp_calls=got.get("calls"), rust_calls=expected_calls(r["obs"]["calls"])))
        if ok:
            res.discharged += 1
            stats[kind] += 1
            stats["calls_equal"] += 1
        res.count([key, flags], kind == "unsat" or len(o.get("sat", [])) >= 2)
        if kind == "unsat":
            res.sample({"solve_case": c, "flags": flags, "error_text": r["obs"]["conflict"]["msg"][:300]}, limit=3)
    for f in failures:
        if f[0].endswith("+exit"):
            res.obligations += 1
            res.violation("exit-solve", f"C++ driver failed at exit (exit {f[1]}): " + sanitizer_summary(f[2]), {"stderr": f[2]})
    return stats, skipped


def rust_reference(cases=None, streams=None, seed=1):
    b = os.path.join(vlib.cargo_build("debug", hooks=True, bins=["solve_cases"]), "solve_cases")
    recs = []
    if cases is not None:
        os.makedirs(vlib.OUT, exist_ok=True)
        tmp = os.path.join(vlib.OUT, "c17_cases.jsonl")
        with open(tmp, "w") as f:
            for c in cases:
                f.write(json.dumps(c) + "\n")
        recs, _ = vlib.run_harness(b, ["--cases", tmp, "--no-dump"])
        return recs
    for i, (cls, count) in enumerate(streams):
        r, _ = vlib.run_harness(b, ["--class", cls, "--feat", str(FEAT_NO_UNKNOWN), "--seed", str(seed * 1000 + 170 + i),
                                    "--count", str(count), "--no-dump"])
        recs += r
    return recs


# ----------------------------------------------------------------- fixed probes

def probe_strself(res):
    """String::operator=(const String&) on itself (corpus/C17/F11_string_self_assign.json)."""
    p = subprocess.run([DRIVER], input="strself self\n", stdout=subprocess.PIPE, stderr=subprocess.PIPE, text=True, timeout=120,
                       env=SAN_ENV)
    res.count(["strself"], True)
    if p.returncode != 0 or "strself self abc" not in p.stdout:
        res.violation("string-self-assign", "resolvo::String self-assignment (s = s, only handle of its block): "
                      + sanitizer_summary(p.stderr), {"case": {"kind": "strself"}, "stderr": p.stderr[-3000:],
                                                      "model": "Data/CowVector.v string_self_assign_as_written_refuted"})


ALIAS_PROBES = {
    "push_own": "alias push_own 41 41 41 41 41 41 41 | 41 41 41 41 41 41 41 41",
    "push_own_move": "alias push_own_move 7 8 8",
    "str_null_view": "alias str_null_view 0 0",
    "str_assign_subview": "alias str_assign_subview world",
    "str_assign_cptr": "alias str_assign_cptr world",
    "const_slice": "alias const_slice 3 3",
}


def probe_alias(res, mode):
    """container operations whose argument aliases the container (F25-F27): the expectation is what std::vector /
    std::string do; run under ASan/UBSan like everything else"""
    p = subprocess.run([DRIVER], input=f"alias {mode}\n", stdout=subprocess.PIPE, stderr=subprocess.PIPE, text=True, timeout=120,
                       env=SAN_ENV)
    res.count(["alias", mode], True)
    if p.returncode != 0 or ALIAS_PROBES[mode] not in p.stdout:
        res.violation(f"alias-{mode}", f"container operation with an aliasing argument ({mode}): expected '{ALIAS_PROBES[mode]}', got "
                      f"'{p.stdout.strip()[:200]}' exit {p.returncode} " + sanitizer_summary(p.stderr),
                      {"case": {"kind": "alias", "mode": mode}, "stderr": p.stderr[-3000:]})


def load_case(j):
    """a corpus file {"case": K} or a replay file {"replay": {"case": K, ..}} / {"replay": K} with K = {"kind": ..}"""
    for cand in (j.get("replay", {}).get("case"), j.get("replay"), j.get("case"), j):
        if isinstance(cand, dict) and "kind" in cand:
            return cand
    raise vlib.CheckError("no C17 case in replay file")


def run_one(res, case, seed):
    k = case.get("kind")
    if k == "ops":
        case = dict(case, id=case.get("id", 0))
        return check_sequences(res, [case])
    if k == "strself":
        return probe_strself(res)
    if k == "alias":
        return probe_alias(res, case["mode"])
    if k == "solve":
        recs = rust_reference(cases=[case["case"]])
        for r in recs:
            r["flags"] = case.get("flags", 0)
        return check_solves(res, recs, seed)
    raise vlib.CheckError(f"unknown C17 case kind {k}")


# ----------------------------------------------------------------- entry

def run(res, tier, seed, replay):
    proved = vlib.proof_gate(res, "C17", THEOREMS)
    if not proved:
        # without the compiled model there is nothing to compare the implementations with
        return res.finish(CHECKER, vlib.TRUSTED_BASE, ["Coq development does not build: no tie was run"])
    build()
    assumptions = [
        "PARTIAL BY CONSTRUCTION: the theorems are about the ref-count / copy-on-write protocol (a heap of blocks and "
        "handles), not about real memory; " + NOT_COVERED,
        "the model executes each operation atomically (no concurrent handles; refcount atomics are not modelled)",
        "usize overflow in the growth rule and allocation failure are not modelled; element type = trivially copyable "
        "integers (i32, u8); values are N in the model",
        "operation sequences are well-formed programs (no use of a dropped value, index < size): the model rejects "
        "ill-formed operations and C17_exec_refines shows it rejects exactly those",
        "the C++ interface cannot express Dependencies::Unknown (universes with it are excluded), nor get_candidates = "
        "None / HintDependenciesAvailable::All / ::None, which the driver maps to the equivalent empty Candidates / "
        "Some(all) / Some([]) as cpp/src/lib.rs does",
        "Rust API reference = harness solve_cases (table provider of harness/src/universe.rs), sync runtime, debug build",
    ]
    if replay:
        case = load_case(json.load(open(replay)))
        run_one(res, case, seed)
        res.rule = "replay of one recorded case on the current tree"
        res.extra.update({"note": NOT_COVERED})
        return res.finish(CHECKER, vlib.TRUSTED_BASE, assumptions)
    # corpus first
    cdir = os.path.join(vlib.ROOT, "corpus", "C17")
    n_corpus = 0
    if os.path.isdir(cdir):
        for f in sorted(os.listdir(cdir)):
            if f.endswith(".json"):
                run_one(res, load_case(json.load(open(os.path.join(cdir, f)))), seed)
                n_corpus += 1
    # (a) container operation sequences, both sides
    nseq, maxops = (300, 34) if tier == "quick" else (10000, 34)
    rng = random.Random(seed * 7919 + 17)
    cases = [gen_seq(rng, "rust" if i % 2 == 0 else "cpp", i, maxops) for i in range(nseq)]
    stats, hist, n_ex, n_ok = check_sequences(res, cases)
    # (b) universes through both APIs
    streams = [("small", 70), ("dense", 30)] if tier == "quick" else [("small", 2000), ("dense", 1000)]
    recs = rust_reference(streams=streams, seed=seed)
    sstats, skipped = check_solves(res, recs, seed)
    res.rule = ("(a) seeded well-formed operation sequences (<= 40 operations incl. the closing read-all / drop-all) per side: "
                "Rust {default, with_capacity, from_iter exact / lazy, clone, drop, push, x = y.clone(), mem::swap, C++-style "
                "allocate / free through resolvo_vector_allocate / _free, String from / clone / drop / as_str}, C++ {Vector(), "
                "range and fill constructors, copy, destructor, push_back (copy and move), clear, v[i] = x, copy- and "
                "move-assignment, String(), String(string_view), copy, assign, move-assign, string_view}; element types i32 and "
                "u8; non-trivial = a sequence in which a block is shared (refcount >= 2) or a shared block is mutated; "
                "(b) generated universes (classes small and dense, all features except Unknown dependencies) solved through "
                "resolvo::solve from C++ with provider vectors handed out fresh or shared, result vector empty / pre-filled / "
                "pre-filled and shared; non-trivial = Unsolvable (error text compared) or >= 2 solvables")
    res.extra.update({
        "partial": "protocol proved; real memory exercised, not proved",
        "note": NOT_COVERED,
        "sequences": stats, "op_histogram": hist, "in_coq_examples": n_ex, "in_coq_accepted": n_ok,
        "solves": sstats, "solves_skipped": skipped, "corpus_cases": n_corpus,
        "sanitizers": "clang++-14 -fsanitize=address,undefined -fno-sanitize-recover=undefined, LeakSanitizer at exit; Rust "
                      "code in libresolvo_cpp.a is not instrumented: its allocations are checked through the wrapped "
                      "__rust_alloc/__rust_dealloc (size+align of every deallocation = those of the allocation) and ASan's "
                      "malloc interposition",
        "findings_in_binding": [
            "F11 resolvo_string.h String::operator=(const String&): no self-assignment guard -> heap-use-after-free "
            "(corpus/C17/F11_string_self_assign.json; model: string_self_assign_as_written_refuted)",
            "resolvo_vector.h Vector::operator Slice<const T>() const does not compile when instantiated (CTAD yields "
            "Slice<T>)",
            "C++ push_back grows the capacity to exactly size + 1 (every push reallocates and copies: quadratic), "
            "unlike Rust push (amortised doubling); modelled as such",
            "C++ DependencyProvider cannot express Dependencies::Unknown",
            "resolvo.h documents that after an unsuccessful solve `the result vector will be empty`; resolvo_solve "
            "leaves a non-empty result vector passed by the caller untouched"],
    })
    return res.finish(CHECKER, vlib.TRUSTED_BASE, assumptions)
