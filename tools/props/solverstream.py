"""Shared: run generated universes through the real solver (several builds and
runtimes) and through the verified oracles."""
import hashlib, json, os
import vlib

F_ALL = 255
F_NOSOFT = 127


def case_key(case):
    c = dict(case)
    c.pop("id", None)
    return hashlib.sha1(json.dumps(c, sort_keys=True).encode()).hexdigest()[:12]


def streams_for(tier, soft=True, extra=None):
    """(class, feat, mode, profile, count)"""
    f = F_ALL if soft else F_NOSOFT
    if tier == "quick":
        s = [("small", f, "sync", "debug", 1200), ("dense", f, "sync", "debug", 500),
             ("small", f, "sync", "release", 800), ("dense", f, "sync", "release", 500),
             ("small", f, "yield", "debug", 400), ("greedy", 25, "sync", "debug", 300)]
    else:
        s = [("small", f, "sync", "debug", 40000), ("dense", f, "sync", "debug", 20000),
             ("small", f, "sync", "release", 60000), ("dense", f, "sync", "release", 40000),
             ("small", f, "yield", "debug", 10000), ("dense", f, "yield", "release", 10000),
             ("greedy", 25, "sync", "debug", 10000), ("greedy", 25, "sync", "release", 10000)]
    return s + (extra or [])


def run_streams(streams, seed, dump=False, render=False, extra_args=None):
    """Returns list of records {case, obs, stream} and list of hung case descriptors."""
    bins = {}
    for prof in sorted({s[3] for s in streams}):
        bins[prof] = os.path.join(vlib.cargo_build(prof, hooks=True, bins=["solve_cases"]), "solve_cases")
    recs, hangs = [], []
    import concurrent.futures as cf

    def one(i_s):
        i, (cls, feat, mode, prof, count) = i_s
        out_r, out_h = [], []
        # shard big streams
        nshard = max(1, min(vlib.NCPU, count // 400))
        per = (count + nshard - 1) // nshard
        jobs = []
        for k in range(nshard):
            skip = k * per
            n = min(per, count - skip)
            if n <= 0:
                continue
            m, _, pol = mode.partition(":")
            args = ["--class", cls, "--feat", str(feat), "--mode", m, "--seed", str(seed * 1000 + i),
                    "--count", str(n), "--skip", str(skip)]
            if pol:
                args += ["--policy", pol]
            if not dump:
                args.append("--no-dump")
            if not render:
                args.append("--no-render")
            args += extra_args or []
            jobs.append(args)
        for args in jobs:
            r, h = vlib.run_harness(bins[prof], args)
            for x in r:
                x["stream"] = f"{cls}/{feat}/{mode}/{prof}"
            out_r += r
            out_h += [{"stream": f"{cls}/{feat}/{mode}/{prof}", "id": hid, "seed": seed * 1000 + i,
                       "class": cls, "feat": feat} for hid in h]
        return out_r, out_h
    with cf.ThreadPoolExecutor(max_workers=vlib.NCPU) as ex:
        for r, h in ex.map(one, list(enumerate(streams))):
            recs += r
            hangs += h
    return recs, hangs


def ref_cost(u):
    """number of one-per-name selections the exhaustive reference enumerates"""
    per = {}
    for s in u["sols"]:
        per[s["name"]] = per.get(s["name"], 0) + 1
    n = 1
    for v in per.values():
        n *= v + 1
    return n


REF_LIMIT = 300000


def oracle_ref(recs):
    """solvable / greedy / explicit-first per distinct case (cases too large for the
    exhaustive reference get solvable = None)"""
    lines, keys = [], {}
    big = {}
    for r in recs:
        k = case_key(r["case"])
        r["key"] = k
        if k in keys or k in big:
            continue
        if ref_cost(r["case"]["u"]) > REF_LIMIT:
            big[k] = {"solvable": None, "greedy": None, "first": None}
            continue
        keys[k] = r
        lines.append("ref " + k + " " + vlib.toks(vlib.tok_universe(r["case"]["u"]), vlib.tok_problem(r["case"]["p"])))
    out = vlib.oracle(lines)
    ref = {}
    for k, v in out.items():
        if v.startswith("error"):
            raise vlib.CheckError("oracle error: " + v)
        a, b, c = [x.strip() for x in v.split("|")]

        def pl(x):
            if x == "none":
                return None
            return [int(t) for t in x.split()[1:]]
        ref[k] = {"solvable": a == "1", "greedy": pl(b), "first": pl(c)}
    ref.update(big)
    return ref


def oracle_sat(recs):
    """valid / supported for every Sat outcome; keyed by (key, stream, solution)"""
    lines = []
    for i, r in enumerate(recs):
        o = r["obs"]["outcome"]
        if isinstance(o, dict) and "sat" in o:
            lines.append(f"sat {i} " + vlib.toks(vlib.tok_universe(r["case"]["u"]), vlib.tok_problem(r["case"]["p"]),
                                                 vlib.tok_list(o["sat"])))
    out = vlib.oracle(lines)
    for i, v in out.items():
        if v.startswith("error"):
            raise vlib.CheckError("oracle error: " + v)
        a, b = v.split()
        recs[int(i)]["valid"] = a == "1"
        recs[int(i)]["supported"] = b == "1"


def outcome_kind(o):
    return o if isinstance(o, str) else next(iter(o))


def replay_obj(r):
    return {"case": r["case"], "stream": r.get("stream"), "observed": r["obs"]["outcome"],
            "how": "./check <prop> --replay <this file>  (re-runs the case on the current /repo tree)"}


def replay_cases(path):
    """Load case(s) from a replay file written by Result.finish or a corpus file."""
    j = json.load(open(path))
    if "replay" in j and "case" in j["replay"]:
        return [j["replay"]["case"]]
    if "case" in j:
        return [j["case"]]
    if "cases" in j:
        return j["cases"]
    raise vlib.CheckError("no case in replay file")


def run_replay(path, profiles=("debug", "release"), modes=("sync", "yield"), dump=False, render=True, extra_args=None):
    cases = replay_cases(path)
    tmp = os.path.join(vlib.OUT, "replay_cases.jsonl")
    os.makedirs(vlib.OUT, exist_ok=True)
    with open(tmp, "w") as f:
        for c in cases:
            f.write(json.dumps(c) + "\n")
    recs = []
    for prof in profiles:
        b = os.path.join(vlib.cargo_build(prof, hooks=True, bins=["solve_cases"]), "solve_cases")
        for mode in modes:
            m, _, pol = mode.partition(":")
            args = ["--cases", tmp, "--mode", m] + (["--policy", pol] if pol else []) + ([] if dump else ["--no-dump"]) + (
                [] if render else ["--no-render"]) + (extra_args or [])
            r, _ = vlib.run_harness(b, args)
            for x in r:
                x["stream"] = f"replay/{mode}/{prof}"
            recs += r
    return recs


def corpus_recs(prop, dump=False, render=False):
    """Cases stored under corpus/<prop>/ run first on every check."""
    d = os.path.join(vlib.ROOT, "corpus", prop)
    recs = []
    if not os.path.isdir(d):
        return recs
    for f in sorted(os.listdir(d)):
        if f.endswith(".json"):
            recs += run_replay(os.path.join(d, f), dump=dump, render=render)
    return recs
