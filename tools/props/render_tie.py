"""Tie between the Coq model of the conflict message renderer
(coq/Conflict/Render.v) and the real code (/repo/src/conflict.rs).

  check_messages(recs)     extracted model (ocaml/_build/render_driver) vs. the exact
                           text of display_user_friendly(..).to_string(), byte for byte
  replay_in_coq(recs, ..)  the same comparison inside Coq for a sample:
                           Example `render_harness .. g = "<msg>"` closed by
                           vm_compute; reflexivity (coqreplay.run_examples)
  check_orders(recs)       the petgraph iteration orders assumed by the model against
                           the orders dumped by the harness (graph.out_order, graph.dfs_post)
  line_bound(graph)        Render.lin_bound in Python: (7 + 3 * con_width) * E + 1, the proved
                           bound on the number of lines (C04_render_lines_linear)
  check_bounds(recs)       real line count <= line_bound, and line_bound == lin_bound of the
                           extracted model

Standalone:  python3 tools/props/render_tie.py --count 400 [--seed S] [--coq K]
"""
import json, os, subprocess, sys, time

sys.path.insert(0, os.path.dirname(os.path.dirname(os.path.abspath(__file__))))
import vlib

DRIVER = os.path.join(vlib.ROOT, "ocaml", "_build", "render_driver")
HEADER = ("From Resolvo Require Import Conflict.Render.\nFrom Coq Require Import List NArith String.\n"
          "Import ListNotations.\nOpen Scope N_scope.\n")


# ----------------------------------------------------------------- serialisation

def _node_tok(n):
    if n == "root":
        return [0]
    if n == "unresolved":
        return [2]
    if "s" in n:
        return [1, n["s"]]
    return [3, n["excl"]]


def _edge_tok(e):
    if e == "forbid":
        return [4]
    if e == "excl":
        return [5]
    if "req" in e:
        r = e["req"]
        return [0, r["s"]] if "s" in r else [1, r["u"]]
    if "lock" in e:
        return [2, e["lock"]]
    return [3, e["con"]]


def tokens(rec):
    """The integer-token line read by ocaml/render_driver.ml (format documented there)."""
    u, g = rec["case"]["u"], rec["obs"]["conflict"]["graph"]
    t = [len(u["sols"])] + [s["name"] for s in u["sols"]]
    t += [len(u["vss"])] + [v["name"] for v in u["vss"]]
    t.append(len(u["unions"]))
    for x in u["unions"]:
        t += [len(x)] + list(x)
    t.append(len(g["nodes"]))
    for n in g["nodes"]:
        t += _node_tok(n)
    t.append(len(g["edges"]))
    for a, b, e in g["edges"]:
        t += [a, b] + _edge_tok(e)
    t.append(g["root"])
    t.append(0 if g["unresolved"] is None else g["unresolved"] + 1)
    return " ".join(str(x) for x in t)


def _coq_node(n):
    if n == "root":
        return "RRoot"
    if n == "unresolved":
        return "RUnresolved"
    if "s" in n:
        return f"RSol {n['s']}"
    return f"RExcl {n['excl']}"


def _coq_edge(e):
    if e == "forbid":
        return "EForbid"
    if e == "excl":
        return "EExcl"
    if "req" in e:
        r = e["req"]
        return f"EReq (RSingle {r['s']})" if "s" in r else f"EReq (RUnion {r['u']})"
    if "lock" in e:
        return f"ELock {e['lock']}"
    return f"ECon {e['con']}"


def coq_graph(g):
    nodes = "[" + "; ".join(_coq_node(n) for n in g["nodes"]) + "]"
    edges = "[" + "; ".join(f"({a},{b},{_coq_edge(e)})" for a, b, e in g["edges"]) + "]"
    un = "None" if g["unresolved"] is None else f"(Some {g['unresolved']})"
    return f"(mkRGraph {nodes} {edges} {g['root']} {un})"


def coq_string(s):
    """Coq string literal for the UTF-8 bytes of s (Coq reads literals bytewise;
    only the double quote needs doubling)."""
    return '"' + s.replace('"', '""') + '"%string'


def coq_stmt(rec):
    u, c = rec["case"]["u"], rec["obs"]["conflict"]
    sols = vlib.coq_nlist([s["name"] for s in u["sols"]])
    vss = vlib.coq_nlist([v["name"] for v in u["vss"]])
    unions = "[" + "; ".join(vlib.coq_nlist(x) for x in u["unions"]) + "]"
    return f"render_harness {sols} {vss} {unions} {coq_graph(c['graph'])} = {coq_string(c['msg'])}"


# ----------------------------------------------------------------- model runs

def build_driver():
    srcs = [os.path.join(vlib.ROOT, "ocaml", "render_driver.ml"), os.path.join(vlib.COQ, "ExtractRender.v"),
            os.path.join(vlib.COQ, "Conflict", "Render.v")]
    vo = os.path.join(vlib.COQ, "Conflict", "Render.vo")
    if not os.path.exists(vo) or os.path.getmtime(vo) < os.path.getmtime(srcs[2]):
        vlib.sh(["coqc", "-Q", ".", "Resolvo", "Conflict/Render.v"], cwd=vlib.COQ, timeout=1800)
    if os.path.exists(DRIVER) and all(os.path.getmtime(s) <= os.path.getmtime(DRIVER) for s in srcs):
        return DRIVER
    vlib.sh([os.path.join(vlib.ROOT, "ocaml", "build_render.sh")], timeout=900)
    return DRIVER


def usable(rec):
    c = rec.get("obs", {}).get("conflict")
    # the extracted renderer model is not tail recursive: graphs beyond a few thousand nodes (the `domino` cascades)
    # are judged by the size bound and the panic / hang search only
    return bool(c) and c.get("graph") is not None and c.get("msg") is not None and len(c["graph"]["nodes"]) <= 3000


def unescape(s):
    out, i = [], 0
    while i < len(s):
        if s[i] == "\\" and i + 1 < len(s):
            out.append("\n" if s[i + 1] == "n" else s[i + 1])
            i += 2
        else:
            out.append(s[i])
            i += 1
    return "".join(out)


def model_outputs(recs, timeout=1800):
    """(message bytes, dfs post order, installable set, missing set, lin_bound) of the extracted model per record."""
    drv = build_driver()
    data = "\n".join(tokens(r) for r in recs) + "\n"
    p = subprocess.run([drv], input=data.encode(), stdout=subprocess.PIPE, stderr=subprocess.PIPE, timeout=timeout)
    if p.returncode != 0:
        raise vlib.CheckError("render_driver failed: " + p.stderr.decode(errors="replace")[-2000:])
    lines = p.stdout.split(b"\n")
    if lines and lines[-1] == b"":
        lines.pop()
    if len(lines) != len(recs):
        raise vlib.CheckError(f"render_driver printed {len(lines)} lines for {len(recs)} cases")
    out = []
    ints = lambda x: [int(t) for t in x.split(b",") if t]
    for l in lines:
        f = l.split(b"\t")
        msg = unescape(f[0].decode("utf-8", errors="surrogateescape")).encode("utf-8", errors="surrogateescape")
        out.append((msg, ints(f[1]), ints(f[2]), ints(f[3]), int(f[4])))
    return out


def model_messages(recs, timeout=1800):
    """Rendered message of the extracted model for every record (bytes)."""
    return [o[0] for o in model_outputs(recs, timeout)]


def check_messages(recs):
    """recs: solve_cases records with obs.conflict (graph and msg) present.
    Returns the list of (rec, model_msg, real_msg) that differ; compared as bytes."""
    recs = [r for r in recs if usable(r)]
    if not recs:
        return []
    bad = []
    for r, m in zip(recs, model_messages(recs)):
        real = r["obs"]["conflict"]["msg"].encode("utf-8")
        if m != real:
            bad.append((r, m.decode("utf-8", errors="replace"), r["obs"]["conflict"]["msg"]))
    return bad


def replay_in_coq(recs, limit=40, prop="C04", max_bytes=16384):
    """In-Coq replay of a sample: returns (n_examples, n_ok, failed). Messages above
    max_bytes are left to the extracted model (coqc overflows its stack on very long
    string literals)."""
    import coqreplay
    recs = [r for r in recs if usable(r) and len(r["obs"]["conflict"]["msg"].encode()) <= max_bytes]
    # prefer the biggest messages and a spread of the rest
    recs = sorted(recs, key=lambda r: -len(r["obs"]["conflict"]["msg"]))
    pick = recs[:limit // 2] + recs[limit // 2::max(1, (len(recs) - limit // 2) // max(1, limit - limit // 2))]
    pick = pick[:limit]
    examples = [(f"render_case_{i}", coq_stmt(r)) for i, r in enumerate(pick)]
    if not examples:
        return 0, 0, []
    n_ok, failed = coqreplay.run_examples(prop, HEADER, examples)
    return len(examples), n_ok, failed


def check_orders(recs):
    """petgraph iteration orders recorded by the harness (fields added to GraphObs:
    out_order = graph.edges(n) per node, dfs_post = DfsPostOrder from the root)
    against the orders the model assumes, and against the DfsPostOrder computed by
    the extracted model itself. Returns (n_checked, mismatches)."""
    n, bad = 0, []
    recs = [r for r in recs if usable(r) and r["obs"]["conflict"]["graph"].get("out_order")]
    outs = model_outputs(recs) if recs else []
    for r, mo in zip(recs, outs):
        g = r["obs"]["conflict"]["graph"]
        n += 1
        if mo[1] != g.get("dfs_post"):
            bad.append((r, "dfs_post(model)", mo[1], g.get("dfs_post")))
        edges = g["edges"]
        exp = [[i for i in range(len(edges) - 1, -1, -1) if edges[i][0] == nx] for nx in range(len(g["nodes"]))]
        if exp != g["out_order"]:
            bad.append((r, "out_order", exp, g["out_order"]))
        # DfsPostOrder as modelled in Render.v (dfs_run)
        post, stack, disc, fin = [], [g["root"]], set(), set()
        while stack:
            nx = stack[-1]
            if nx not in disc:
                disc.add(nx)
                for i in exp[nx]:
                    if edges[i][1] not in disc:
                        stack.append(edges[i][1])
            else:
                stack.pop()
                if nx not in fin:
                    fin.add(nx)
                    post.append(nx)
        if post != g.get("dfs_post"):
            bad.append((r, "dfs_post", post, g.get("dfs_post")))
    return n, bad


# ----------------------------------------------------------------- line bound

def con_width(g):
    """largest number of Constrains edges leaving the target of an edge (Render.con_width)"""
    con = {}
    for a, b, e in g["edges"]:
        if isinstance(e, dict) and "con" in e:
            con[a] = con.get(a, 0) + 1
    return max([con.get(b, 0) for a, b, e in g["edges"]] or [0])


def fine_bound(g):
    """Render.fine_bound: 3 * sum over edges (2 + #Constrains edges of the target) + E + 1"""
    con = {}
    for a, b, e in g["edges"]:
        if isinstance(e, dict) and "con" in e:
            con[a] = con.get(a, 0) + 1
    return 3 * sum(2 + con.get(b, 0) for a, b, e in g["edges"]) + len(g["edges"]) + 1


def line_bound(g):
    """Render.lin_bound of a dumped conflict graph: (7 + 3 * con_width g) * E + 1.
    Proved: every message of the current renderer has at most this many lines
    (Props/C04.v, C04_render_lines_linear). Linear in the number of edges for a fixed
    con_width; con_width <= E gives the unconditional 3 E^2 + 7 E + 1."""
    return (7 + 3 * con_width(g)) * len(g["edges"]) + 1


def check_bounds(recs):
    """Returns (n, violations, max_ratio): real line count against line_bound, Python
    line_bound against lin_bound computed by the extracted model."""
    recs = [r for r in recs if usable(r)]
    outs = model_outputs(recs) if recs else []
    bad, mx = [], 0.0
    for r, mo in zip(recs, outs):
        g = r["obs"]["conflict"]["graph"]
        lines = r["obs"]["conflict"]["msg"].count("\n")
        b = line_bound(g)
        mx = max(mx, lines / b)
        if mo[4] != b:
            bad.append((r, "python line_bound %d != model lin_bound %d" % (b, mo[4])))
        if lines > fine_bound(g) or fine_bound(g) > b:
            bad.append((r, "message has %d lines, fine_bound %d, line_bound %d" % (lines, fine_bound(g), b)))
    return len(recs), bad, mx


# ----------------------------------------------------------------- standalone test

def gather(count, seed, classes=("small", "dense", "conflict"), feat=255, extra_files=()):
    b = os.path.join(vlib.cargo_build("debug", hooks=True, bins=["solve_cases"]), "solve_cases")
    recs = []
    for k, cls in enumerate(classes):
        r, _ = vlib.run_harness(b, ["--class", cls, "--feat", str(feat), "--count", str(count), "--seed", str(seed + k),
                                    "--no-dump"])
        for x in r:
            x["stream"] = f"{cls}/{feat}/sync/debug"
        recs += r
    for f in extra_files:
        j = json.load(open(f))
        tmp = os.path.join(vlib.OUT, "render_tie_case.jsonl")
        os.makedirs(vlib.OUT, exist_ok=True)
        open(tmp, "w").write(json.dumps(j["case"] if "case" in j else j) + "\n")
        r, _ = vlib.run_harness(b, ["--cases", tmp, "--no-dump"])
        for x in r:
            x["stream"] = "corpus/" + os.path.basename(f)
        recs += r
    return recs


def corpus_files():
    """corpus/C04 (incl. the cyclic F7 case) and corpus/C04_render (renderer-specific cases)"""
    out = []
    for d in ("C04", "C04_render"):
        cdir = os.path.join(vlib.ROOT, "corpus", d)
        if os.path.isdir(cdir):
            out += [os.path.join(cdir, f) for f in sorted(os.listdir(cdir)) if f.endswith(".json")]
    return out


def main():
    import argparse
    ap = argparse.ArgumentParser()
    ap.add_argument("--count", type=int, default=400, help="cases per class (small, dense, conflict)")
    ap.add_argument("--seed", type=int, default=3)
    ap.add_argument("--feat", type=int, default=255)
    ap.add_argument("--coq", type=int, default=24, help="number of in-Coq Examples (0 = skip)")
    a = ap.parse_args()
    t0 = time.time()
    corpus = corpus_files()
    recs = gather(a.count, a.seed, feat=a.feat, extra_files=corpus)
    conf = [r for r in recs if usable(r)]
    t1 = time.time()
    bad = check_messages(conf)
    t2 = time.time()
    n_ord, bad_ord = check_orders(conf)
    print(f"cases: {len(recs)}   conflicts rendered: {len(conf)}   total message bytes: "
          f"{sum(len(r['obs']['conflict']['msg'].encode()) for r in conf)}")
    print(f"extracted model vs real message (byte for byte): {len(bad)} mismatches   "
          f"[harness {t1 - t0:.1f}s, model {t2 - t1:.1f}s]")
    for r, m, real in bad[:3]:
        print("--- mismatch in", r.get("stream"), "case", r["case"].get("id"))
        print("graph:", json.dumps(r["obs"]["conflict"]["graph"]))
        print("model:\n" + m)
        print("real:\n" + real)
    print(f"petgraph iteration orders (edges(n), DfsPostOrder) vs model: {n_ord} graphs, {len(bad_ord)} mismatches")
    for r, what, exp, got in bad_ord[:3]:
        print("--- order mismatch", what, "expected", exp, "got", got)
    n_b, bad_b, mx = check_bounds(conf)
    print(f"line counts vs proved bound (7 + 3*con_width)*E + 1: {n_b} messages, {len(bad_b)} violations, "
          f"max lines/bound = {mx:.3f}")
    for r, what in bad_b[:3]:
        print("--- bound:", what, json.dumps(r["obs"]["conflict"]["graph"]))
    bad_ord = bad_ord + bad_b
    rc = 1 if bad or bad_ord else 0
    if a.coq:
        t3 = time.time()
        n, ok, failed = replay_in_coq(conf, a.coq)
        print(f"in-Coq replay (vm_compute; reflexivity): {ok}/{n} Examples accepted   [{time.time() - t3:.1f}s]")
        for name, msg in failed[:3]:
            print("--- failed", name, msg[-600:])
        if ok != n:
            rc = 1
    print("mismatches:", len(bad) + len(bad_ord))
    sys.exit(rc)


if __name__ == "__main__":
    main()
