"""C07: compatible preferred candidates are selected exactly."""
import vlib
from props import solverstream as ss

THEOREMS = ["C07_oracle_sound"]
CHECKER = ("coqc Props/C07.v + Print Assumptions; harness solve_cases -> whenever extracted o_greedy = Some G the "
           "returned set must equal G")


def run(res, tier, seed, replay):
    vlib.proof_gate(res, "C07", THEOREMS)
    if replay:
        recs, hangs = ss.run_replay(replay), []
    else:
        recs = ss.corpus_recs("C07")
        n = 1 if tier == "quick" else 30
        streams = [("greedy", 25, "sync", "debug", 1500 * n), ("greedy", 25, "sync", "release", 1000 * n),
                   ("greedy", 25, "yield", "debug", 500 * n), ("greedy", 17, "sync", "debug", 500 * n),
                   ("small", ss.F_NOSOFT, "sync", "debug", 1000 * n), ("dense", ss.F_NOSOFT, "sync", "release", 500 * n)]
        r2, hangs = ss.run_streams(streams, seed + 23)
        recs += r2
    ref = ss.oracle_ref(recs)
    applicable = 0
    for r in recs:
        key = r["key"]
        g = ref[key]["greedy"]
        k = ss.outcome_kind(r["obs"]["outcome"])
        if g is None:
            res.count([key, r["stream"]], False)
            continue
        applicable += 1
        res.count([key, r["stream"]], len(g) >= 3)
        res.sample({"case": r["case"], "greedy": g, "outcome": r["obs"]["outcome"]})
        if k != "sat":
            res.violation(key, f"greedy selection {g} exists but the solver returned {k} in {r['stream']}", ss.replay_obj(r))
        elif sorted(r["obs"]["outcome"]["sat"]) != sorted(g):
            res.violation(key, f"greedy selection is {sorted(g)} but the solver returned {sorted(r['obs']['outcome']['sat'])} in {r['stream']}",
                          ss.replay_obj(r))
    res.rule = ("conflict-free-by-construction universes (chains, diamonds, cycles, unions, favored, hint masks) plus the "
                "general streams; the check applies when the Coq-verified greedy_okb accepts the closure (counted as "
                "'applicable'); non-trivial = applicable with |G| >= 3")
    res.extra.update({"applicable": applicable, "hangs": len(hangs)})
    return res.finish(CHECKER, vlib.TRUSTED_BASE, [])
