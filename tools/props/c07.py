"""C07: compatible preferred candidates are selected exactly."""
import vlib
from props import solverstream as ss, tracecheck as tc, antie

THEOREMS = ["C07_oracle_sound", "C07_run_invariant", "C07_greedy_exact", "C07_trace_greedy", "C07_decide_legal"]
CHECKER = ("coqc Props/C07.v + Print Assumptions; harness solve_cases: (a) hook logs -> extracted check_sat_log (rule D1 "
           "enforced on every decision; theorem C07_trace_greedy), (b) whenever extracted o_greedy = Some G the returned "
           "set must equal G, (c) hook logs -> extracted check_decides: every call of Solver::decide must propose the candidate and "
           "clause the decide model proposes (hypotheses of C07_decide_legal evaluated at every call)")


def run(res, tier, seed, replay):
    vlib.proof_gate(res, "C07", THEOREMS)
    if replay:
        recs, hangs = ss.run_replay(replay, dump=True), []
    else:
        recs = ss.corpus_recs("C07", dump=True)
        r4, h4 = ss.run_streams([("greedy", 25, "sync", "debug", 800 * (1 if tier == "quick" else 25)),
                                 ("greedy", 25, "yield", "debug", 300 * (1 if tier == "quick" else 25)),
                                 ("greedy", 25, "gated:lifo", "debug", 400 * (1 if tier == "quick" else 25)),
                                 ("greedy", 25, "gated:random", "debug", 300 * (1 if tier == "quick" else 25)),
                                 ("greedy", 29, "gated:lifo", "release", 300 * (1 if tier == "quick" else 25)),
                                 ("conflict", 127, "sync", "debug", 500 * (1 if tier == "quick" else 25))], seed + 29, dump=True)
        recs += r4
        n = 1 if tier == "quick" else 30
        streams = [("greedy", 25, "sync", "debug", 1500 * n), ("greedy", 25, "sync", "release", 1000 * n),
                   ("greedy", 25, "yield", "debug", 500 * n), ("greedy", 17, "sync", "debug", 500 * n),
                   ("small", ss.F_NOSOFT, "sync", "debug", 1000 * n), ("dense", ss.F_NOSOFT, "sync", "release", 500 * n)]
        r2, hangs = ss.run_streams(streams, seed + 23)
        recs += r2
    ref = ss.oracle_ref(recs)
    tc.annotate(recs)
    antie.annotate_decides(recs)
    applicable = 0
    for r in recs:
        if not antie.ok_decides(r):
            res.tie_break(f"decide correspondence no longer checks for a run in {r['stream']}: a call of Solver::decide proposed a "
                          f"different candidate / clause than the model (Cdcl/Decide.v), or a hypothesis of C07_decide_legal fails: "
                          f"{r['decides']}", dict(tc.trace_replay(r), decides=r["decides"]))
    for r in recs:
        key = r["key"]
        g = ref[key]["greedy"]
        k = ss.outcome_kind(r["obs"]["outcome"])
        if g is None:
            res.count([key, r["stream"]], False)
            continue
        applicable += 1
        res.count([key, r["stream"]], len(g) >= 3)
        res.sample({"case": r["case"], "greedy": g, "outcome": r["obs"]["outcome"]})
        if k != "sat":
            res.violation(key, f"greedy selection {g} exists but the solver returned {k} in {r['stream']}", ss.replay_obj(r))
        elif sorted(r["obs"]["outcome"]["sat"]) != sorted(g):
            res.violation(key, f"greedy selection is {sorted(g)} but the solver returned {sorted(r['obs']['outcome']['sat'])} in {r['stream']}",
                          ss.replay_obj(r))
        elif "trace" in r and not (r["trace"].get("db") and r["trace"].get("run") and r["trace"].get("strict")):
            res.tie_break(f"trace inclusion (C07_trace_greedy) no longer checks for a run in {r['stream']}: checker verdict "
                          f"{r['trace']}; the returned selection equals the greedy one", tc.trace_replay(r))
    res.rule = ("conflict-free-by-construction universes (chains, diamonds, cycles, unions, favored, hint masks) plus the "
                "general streams; the check applies when the Coq-verified greedy_okb accepts the closure (counted as "
                "'applicable'); non-trivial = applicable with |G| >= 3")
    dd = [r["decides"] for r in recs if "decides" in r and "n" in r["decides"]]
    res.extra.update({"runs_replayed_through_decide_model": len(dd), "decide_calls_compared": sum(x["n"] for x in dd)})
    res.extra.update({"applicable": applicable, "hangs": len(hangs)}, **tc.stats(recs))
    return res.finish(CHECKER, vlib.TRUSTED_BASE, [])
