"""Trace inclusion: hook logs of the real solver replayed by the extracted,
Coq-verified checker (Cdcl/CheckRun.v)."""
import vlib
from props import solverstream as ss


def trace_streams(tier, soft=True, classes=("conflict", "small", "dense", "greedy")):
    f = 255 if soft else 127
    k = 1 if tier == "quick" else 25
    out = []
    if "conflict" in classes:
        out += [("conflict", f, "sync", "debug", 1200 * k), ("conflict", f, "sync", "release", 500 * k),
                ("conflict", f, "yield", "debug", 300 * k), ("conflict", f, "gated:lifo", "debug", 200 * k),
                ("conflict", f, "gated:random", "debug", 200 * k)]
    if "conflict" in classes:
        out += [("conflictx", f, "sync", "debug", 400 * k), ("lostassert", f, "sync", "debug", 200 * k)]
    if "small" in classes:
        out += [("small", f, "sync", "debug", 600 * k)]
    if "dense" in classes:
        out += [("dense", f, "sync", "debug", 400 * k)]
    if "greedy" in classes:
        out += [("greedy", 25, "sync", "debug", 300 * k), ("greedy", 25, "gated:lifo", "debug", 150 * k)]
    return out


def annotate(recs):
    """Adds r['trace'] = {db, run, strict, lenient | unsat, bad} for records with a dump."""
    lines = []
    for i, r in enumerate(recs):
        d = r["obs"].get("dump")
        if d is None:
            continue
        o = r["obs"]["outcome"]
        k = ss.outcome_kind(o)
        base = vlib.toks(vlib.tok_universe(r["case"]["u"]), vlib.tok_problem(r["case"]["p"]), vlib.tok_log(d))
        if k == "sat":
            lines.append(f"logsat {i} " + base + " " + vlib.toks(vlib.tok_list(o["sat"])))
        elif k == "unsat":
            lines.append(f"logunsat {i} " + base)
    out = vlib.oracle(lines)
    for i, v in out.items():
        r = recs[int(i)]
        if v.startswith("error"):
            r["trace"] = {"error": v}
            continue
        t = v.split()
        if ss.outcome_kind(r["obs"]["outcome"]) == "sat":
            r["trace"] = {"db": t[0] == "1", "run": t[1] == "1", "strict": t[2] == "1", "lenient": t[3] == "1", "bad": t[4]}
        else:
            r["trace"] = {"db": t[0] == "1", "run": t[1] == "1", "unsat": t[2] == "1", "bad": t[3]}
        d = r["obs"]["dump"]
        r["n_learnt"] = sum(1 for c in d["clauses"] if isinstance(c["kind"], dict) and "learnt" in c["kind"])
        r["n_undo"] = sum(1 for e in d["events"] if e == "ul")
    return recs


def trace_replay(r):
    d = r["obs"]["dump"]
    return {"case": r["case"], "stream": r.get("stream"), "observed": r["obs"]["outcome"], "checker": r.get("trace"),
            "first_rejected_clause": (d["clauses"][int(r["trace"]["bad"])] if r.get("trace", {}).get("bad", "-") not in ("-", None) else None),
            "n_clauses": len(d["clauses"]), "n_events": len(d["events"]),
            "how": "./check <prop> --replay <this file> re-runs the case with hooks and replays the log through the extracted checker"}


def stats(recs):
    tr = [r for r in recs if "trace" in r]
    h = {}
    for r in tr:
        n = min(r.get("n_learnt", 0), 4)
        h[n] = h.get(n, 0) + 1
    return {"traces_checked": len(tr), "learnt_clause_histogram": {str(k): v for k, v in sorted(h.items())},
            "traces_with_backtracking": sum(1 for r in tr if r.get("n_undo", 0) > 0)}
