"""C03: a conflict report is a truthful, self-contained proof of unsatisfiability."""
import vlib
from props import solverstream as ss, tracecheck as tc, antie

THEOREMS = ["C03_truthful", "C03_reachable", "C03_graph_refutes", "C03_split_sound", "C03_core_unsat",
            "C03_built_graph_truthful", "C03_graph_of_checked_db_truthful",
            "C03_analyze_unsolvable_refutes", "C03_checked_conflict_is_refutation", "C03_analyze_unsolvable_side_condition"]
CHECKER = ("coqc Props/C03.v + Print Assumptions; harness solve_cases: Conflict::graph of every Unsolvable (public API) -> extracted "
           "truthfulb / reachableb / refutesb; hook dump -> extracted check_core on the clause ids reported in the Conflict; "
           "hook dump + clause ids -> extracted build_graph (model of Conflict::graph) must equal the public graph node for node and "
           "edge for edge; the dumped database must consist of facts (facts_ok: hypothesis of C03_graph_of_checked_db_truthful); hook log -> "
           "extracted check_unsolvable: the clause ids in the Conflict must equal, in order, those of the analyze_unsolvable model "
           "replayed on the logged trail, with the side conditions of C03_analyze_unsolvable_refutes")


def tok_graph(g):
    t = [len(g["nodes"])]
    for n in g["nodes"]:
        if n == "root":
            t += [0]
        elif n == "unresolved":
            t += [2]
        elif "s" in n:
            t += [1, n["s"]]
        else:
            t += [3, n["excl"]]
    t.append(len(g["edges"]))
    for a, b, e in g["edges"]:
        t += [a, b]
        if e == "forbid":
            t += [3]
        elif e == "excl":
            t += [4]
        elif "req" in e:
            t += [0] + vlib.tok_req(e["req"])
        elif "lock" in e:
            t += [1, e["lock"]]
        else:
            t += [2, e["con"]]
    t.append(g["root"])
    return t


def run(res, tier, seed, replay):
    vlib.proof_gate(res, "C03", THEOREMS)
    k = 1 if tier == "quick" else 25
    if replay:
        recs, hangs = ss.run_replay(replay, dump=True, render=True), []
    else:
        recs = ss.corpus_recs("C03", dump=True, render=True)
        streams = [("conflict", 255, "sync", "debug", 1200 * k), ("dense", 255, "sync", "debug", 800 * k),
                   ("small", 255, "sync", "debug", 800 * k), ("conflict", 127, "yield", "debug", 300 * k),
                   ("conflict", 255, "sync", "release", 500 * k), ("conflictc", 255, "sync", "debug", 400 * k)]
        r2, hangs = ss.run_streams(streams, seed + 43, dump=True, render=True)
        recs += r2
    lines = []
    for i, r in enumerate(recs):
        if ss.outcome_kind(r["obs"]["outcome"]) != "unsat":
            continue
        c = r["obs"].get("conflict")
        if c and c.get("graph"):
            lines.append(f"graph g{i} " + vlib.toks(vlib.tok_universe(r["case"]["u"]), vlib.tok_problem(r["case"]["p"]), tok_graph(c["graph"])))
        d = r["obs"].get("dump")
        if d:
            lines.append(f"core c{i} " + vlib.toks(vlib.tok_log(d), vlib.tok_list(d["core"])))
        if d and c and c.get("graph"):
            db = [len(d["clauses"])]
            for cl in d["clauses"]:
                db += vlib.tok_clause(cl)
            lines.append(f"gbuild b{i} " + vlib.toks(vlib.tok_universe(r["case"]["u"]), db, vlib.tok_list(d["core"]), tok_graph(c["graph"])))
    out = vlib.oracle(lines)
    tc.annotate(recs)
    antie.annotate(recs)
    for r in recs:
        if ss.outcome_kind(r["obs"]["outcome"]) == "unsat" and not (antie.ok(r) and antie.ok_unsolv(r)):
            res.tie_break(f"conflict-report correspondence no longer checks in {r['stream']}: the clauses in the Conflict "
                          f"{(r['obs'].get('dump') or {}).get('core')} differ from those of the analyze_unsolvable model, or a side condition of "
                          f"C03_analyze_unsolvable_refutes / C03_checked_conflict_is_refutation fails: {r.get('unsolv')} {r.get('an')}",
                          dict(tc.trace_replay(r), unsolv=r.get("unsolv"), analyses=r.get("an")))
        t = r.get("trace")
        if t and ss.outcome_kind(r["obs"]["outcome"]) == "unsat" and not t.get("db"):
            res.tie_break(f"the dumped clause database of an Unsolvable run is not made of facts and certified learnt clauses "
                          f"(hypothesis facts_ok of C03_graph_of_checked_db_truthful) in {r['stream']}: {t}", tc.trace_replay(r))
    ngraph, ncore, with_learnt, nbuilt = 0, 0, 0, 0
    for k_, v in out.items():
        if v.startswith("error"):
            raise vlib.CheckError("oracle error: " + v)
        i = int(k_[1:])
        r = recs[i]
        key = ss.case_key(r["case"])
        g = r["obs"]["conflict"]["graph"] if r["obs"].get("conflict") else None
        if k_[0] == "g":
            ngraph += 1
            t, rc, rf = [x == "1" for x in v.split()]
            res.count([key, r["stream"]], len(g["nodes"]) >= 4)
            res.sample({"problem": r["case"]["p"], "graph": g, "truthful": t, "reachable": rc, "refutes": rf}, limit=2)
            rep = dict(ss.replay_obj(r), graph=g)
            if not t:
                res.violation(key, f"an edge of the conflict graph does not state a true fact about the provider (or a requires group "
                              f"is incomplete) in {r['stream']}", rep)
            if not rc:
                res.violation(key, f"a node of the conflict graph is not reachable from the root in {r['stream']}", rep)
            if not rf:
                res.violation(key, f"the facts displayed in the conflict graph are satisfiable: the report is not a proof of "
                              f"unsatisfiability ({r['stream']})", rep)
        elif k_[0] == "b":
            nbuilt += 1
            if v.split()[0] != "1":
                res.tie_break(f"the graph returned by Conflict::graph differs from the model build_graph applied to the dumped clauses "
                              f"{r['obs']['dump']['core']} (theorems C03_built_graph_truthful / C03_graph_of_checked_db_truthful no longer "
                              f"speak about this graph) in {r['stream']}; the graph itself passes the edge-by-edge checks",
                              dict(ss.replay_obj(r), graph=g, core=r["obs"]["dump"]["core"], model_sizes=v.split()[1:]))
        else:
            ncore += 1
            d = r["obs"]["dump"]
            if any(isinstance(c["kind"], dict) and "learnt" in c["kind"] for c in d["clauses"]):
                with_learnt += 1
            if v != "1":
                res.violation(key, f"the clauses reported in the Conflict {d['core']} are satisfiable together with the root "
                              f"(an antecedent is missing) in {r['stream']}", dict(ss.replay_obj(r), core=d["core"]))
    res.rule = ("every Unsolvable outcome of the conflict/dense/small streams (all feature masks): the public ConflictGraph is judged edge "
                "by edge, for reachability and for unsatisfiability of its displayed facts; the reported clause ids are certified through "
                "RUP-checked learnt clauses; non-trivial = graph with >= 4 nodes")
    res.extra.update(antie.stats(recs))
    res.extra.update({"graphs_compared_with_build_model": nbuilt, "graphs_checked": ngraph, "cores_checked": ncore, "cores_of_runs_with_learnt_clauses": with_learnt, "hangs": len(hangs)})
    return res.finish(CHECKER, vlib.TRUSTED_BASE, ["display strings are not part of the graph; message text is C04/C06's business"])
