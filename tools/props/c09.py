"""C09: metadata is fetched lazily, causally and at most once."""
import vlib
from props import asynclib as al, solverstream as ss, enctie, tracecheck as tc

THEOREMS = ["C09_causal_checker", "C09_once_checker", "C09_exact_checker",
            "C09_model_once", "C09_model_causal", "C09_model_lazy", "C09_model_exact", "C09_conflict_free_exact", "C09_two_solves_once"]
CHECKER = ("coqc Props/C09.v + Print Assumptions; harness async_cases --kind c09 (no hints; 1-3 solves per solver; sync and "
           "yielding runtimes) -> extracted causalb / onceb / exactb on the provider call history; harness solve_cases (sync, hook "
           "log) -> extracted encoder+cache model enc_solve: provider-call sequence equal call for call, encode requests only "
           "for variables assigned true (req_true_ok)")


def run(res, tier, seed, replay):
    vlib.proof_gate(res, "C09", THEOREMS)
    k = 1 if tier == "quick" else 25
    if replay:
        recs, hangs = al.replay_async("c09", replay)
    else:
        streams = [("small", al.NOHINT, 300 * k), ("dense", al.NOHINT & ~128, 150 * k), ("greedy", 17, 300 * k),
                   ("conflict", al.NOHINT & ~128, 150 * k), ("fanout", 80, 60 * k)]
        recs, hangs = al.run_async("c09", streams, seed + 71)
    al.judge(recs, want_exact=True)
    al.judge_later_solves(recs)
    # the model the C09_model_* theorems are about, against the real call sequence
    if replay:
        erecs = []
    else:
        estreams = [("small", al.NOHINT, "sync", "debug", 400 * k), ("conflict", al.NOHINT, "sync", "debug", 300 * k),
                    ("greedy", 17, "sync", "debug", 200 * k), ("small", 255, "sync", "debug", 300 * k),
                    ("dense", 255, "sync", "release", 150 * k)]
        erecs, eh = ss.run_streams(estreams, seed + 73, dump=True)
        hangs += eh
    enctie.annotate(erecs)
    tc.annotate(erecs)
    # two solves on one solver: the model's second solve starts from the model's cache after the first
    if replay:
        trecs = []
    else:
        trecs, th = ss.run_streams([("small", al.NOHINT, "sync", "debug", 300 * k), ("small", 255, "sync", "debug", 300 * k),
                                    ("conflict", 255, "sync", "debug", 200 * k), ("dense", al.NOHINT, "sync", "release", 150 * k)],
                                   seed + 89, dump=True, extra_args=["--twice"])
        hangs += th
    enctie.annotate_twice(trecs)
    # the second solve judged for exactness with the verified checker exact_nextb (history of the first solve as context)
    fake = []
    for r in trecs:
        if "obs2" not in r or r.get("p2") is None:
            continue
        # C09 speaks about providers that give no availability hints: with hints the solver may fetch the dependencies of
        # hinted lower-ranked candidates (and what they mention), in the first solve or in a later one
        if any(k["hint"] != "none" for k in r["case"]["u"]["pkgs"]):
            continue
        fake.append({"case": r["case"], "_r": r,
                     "runs": [{"label": "sync-twice", "mode": "Sync", "sched": None,
                               "solves": [{"p": r["case"]["p"], "outcome": r["obs"]["outcome"]}, {"p": r["p2"], "outcome": r["obs2"]["outcome"]}],
                               "calls": list(r["obs"]["calls"]) + ["n"] + list(r["obs2"]["calls"])}]})
    al.judge_later_solves(fake)
    for f in fake:
        run = f["runs"][0]
        if run.get("exact_next", {}).get(1) is False:
            res.violation(ss.case_key(f["case"]), f"the second solve on one solver asked for metadata that its conflict-free problem does not "
                          f"need, or not for all it needs (exact_nextb on the requests of the second solve, first solve completed normally) "
                          f"in {f['_r']['stream']}", al.replay_obj(f, run))
    for r in trecs:
        if "enc2" not in r:
            continue
        res.count([ss.case_key(r["case"]), r["stream"], "enc2"], r["enc2"].get("n_calls", 0) >= 1)
        if not enctie.ok2(r):
            res.tie_break(f"encoder/cache correspondence no longer checks for the SECOND solve on one solver in {r['stream']} (theorems "
                          f"C09_two_solves_once / C09_model_once with the cache of the first solve): {r['enc2']} (no_repeat = a request "
                          f"of the first solve was made again)",
                          {"case": r["case"], "second_problem": r.get("p2"), "stream": r["stream"], "encoder_check": r["enc2"],
                           "first_outcome": r["obs"]["outcome"], "second_outcome": r["obs2"]["outcome"]})
    for r in erecs:
        t = r.get("trace")
        if t and r["stream"].startswith("greedy/") and ss.outcome_kind(r["obs"]["outcome"]) == "sat" and not (
                t.get("db") and t.get("run") and t.get("strict")):
            res.tie_break(f"trace hypotheses of C09_conflict_free_exact (facts_ok, learnts_ok, run_events, check_sat) no longer check "
                          f"for a run in {r['stream']}: {t}", tc.trace_replay(r))
        if "enc" not in r:
            continue
        res.count([ss.case_key(r["case"]), r["stream"], "enc"], r["enc"].get("n_calls", 0) >= 4)
        if not enctie.ok(r, ("calls", "fifo", "req_true")):
            res.tie_break(f"encoder/cache correspondence no longer checks in {r['stream']}: the provider-call sequence of the "
                          f"implementation differs from the model's (theorems C09_model_*), or an encode request was made for a "
                          f"variable that is not assigned true: {r['enc']}", enctie.replay(r))
    n_exact, n_multi = 0, 0
    for r in recs:
        key = ss.case_key(r["case"])
        for run in r["runs"]:
            calls = [c for c in run["calls"] if isinstance(c, dict) and ("c" in c or "d" in c)]
            res.count([key, run["label"]], len(calls) >= 4)
            res.sample({"universe_sols": len(r["case"]["u"]["sols"]), "solves": run["solves"],
                        "provider_calls": [c for c in run["calls"] if c == "n" or "p" not in c][:30]}, limit=2)
            if len(run["solves"]) > 1:
                n_multi += 1
            if any(al.okind(s["outcome"]) in ("panic", "deadlock", "hang") for s in run["solves"]):
                continue  # C04 / C13 report these
            if not run["causal"]:
                res.violation(key, f"a provider request was made that no obtained dependency information justifies ({run['label']})",
                              al.replay_obj(r, run))
            if not run["once"]:
                res.violation(key, f"a provider request was repeated ({run['label']})", al.replay_obj(r, run))
            for kk, okk in sorted(run.get("exact_next", {}).items()):
                if okk is None:
                    continue
                n_exact += 1
                if not okk:
                    # an earlier solve of this sequence was cancelled: dependencies it had obtained are cached without the
                    # candidates of the names they mention; the later solve encodes such solvables eagerly (known finding)
                    earlier_cancel = any(al.okind(s["outcome"]) == "cancelled" for s in run["solves"][:kk])
                    vkey = "cached-dependencies-of-a-cancelled-solve-encoded-eagerly" if earlier_cancel else key
                    res.violation(vkey, f"conflict-free problem, solve #{kk} on a reused solver: its provider requests are not exactly what "
                                  f"the greedy selection needs beyond what earlier solves obtained ({run['label']})", al.replay_obj(r, run))
            if run.get("exact") is not None:
                n_exact += 1
                if not run["exact"]:
                    res.violation(key, f"conflict-free problem: provider requests are not exactly those for the greedy selection ({run['label']})",
                                  al.replay_obj(r, run))
    res.rule = ("universes without availability hints (classes small/dense/greedy/conflict/fanout), 1-3 solves on one solver "
                "(same or varied problems), plus 'cancel at poll k, then solve again' for up to 10 poll indices, sync and yielding "
                "runtimes; non-trivial = run with >= 4 provider requests")
    res.extra.update({"runs_with_several_solves": n_multi, "exactness_applicable": n_exact, "hangs": len(hangs)}, **enctie.stats(erecs), second_solves_compared=sum(1 for r in trecs if "enc2" in r))
    return res.finish(CHECKER, vlib.TRUSTED_BASE, ["the history is what the harness provider logs (harness/src/universe.rs)"])
