"""C04: solve and conflict rendering terminate without panicking."""
import vlib
from props import solverstream as ss

THEOREMS = ["C04_render_terminates", "C04_render_fuel_irrelevant", "C04_render_lines_linear", "C04_render_lines_fine",
            "C04_render_lines_quadratic", "C04_render_size_bound", "C04_simplify_order_independent", "C04_dfs_fuel_sufficient",
            "C04_pre_fix_renderer_loops", "C04_path_only_exponential", "C04_requires_assert_cannot_fail", "C04_decide_unreachable_needs_falsified_clause", "C04_complete_no_panic", "C04_checked_propagate_complete", "C04_solver_model_decide_no_panic_by_invariants", "C04_root_run_decide_never_panics", "C04_root_run_is_run_loop"]
CHECKER = ("coqc Props/C04.v + Print Assumptions; harness solve_cases under catch_unwind + poll watchdog + output-size cap, debug "
           "and release, sync and yielding runtimes; every conflict message compared BYTE FOR BYTE with the extracted renderer model "
           "(Conflict/Render.v) and its line count with the proven bound lin_bound; a sample re-proved inside Coq")


def bound(g):
    # proven line bound of the renderer model (Render.lin_bound) times a generous line length
    from props import render_tie
    return 400 * render_tie.line_bound(g)


def run(res, tier, seed, replay):
    vlib.proof_gate(res, "C04", THEOREMS)
    if replay:
        recs, hangs = ss.run_replay(replay, render=True), []
    else:
        recs = ss.corpus_recs("C04", render=True) + ss.corpus_recs("C04_render", render=True)
        n = 1 if tier == "quick" else 40
        streams = [("small", 255, "sync", "debug", 1500 * n), ("small", 255, "sync", "release", 1000 * n),
                   ("dense", 255, "sync", "debug", 800 * n), ("dense", 255, "sync", "release", 700 * n),
                   ("small", 255, "yield", "debug", 400 * n), ("greedy", 25, "sync", "debug", 300 * n),
                   ("conflictx", 255, "sync", "debug", 2000 * n), ("conflictx", 255, "sync", "release", 1500 * n),
                   ("conflictc", 255, "sync", "debug", 500 * n),
                   ("softdeep", 255, "sync", "debug", 500 * n), ("softrej", 255, "sync", "debug", 800 * n),
                   ("softrej", 255, "sync", "release", 400 * n), ("softpend", 255, "sync", "debug", 300 * n),
                   ("softpend", 255, "sync", "release", 200 * n)]
        r2, hangs = ss.run_streams(streams, seed + 41, render=True)
        recs += r2
    # ---- cascades of learnt clauses derived from one another, solved on a 256 KiB stack: recursion over the chain shows as a crash
    if not replay:
        try:
            # a chain of n learnt clauses costs time quadratic in n (6000: ~9 s, 20000: ~90 s and 4 GB in a debug build), so the
            # per-case watchdog is raised for this stream: a slow case is not a hang
            dom, dh = ss.run_streams([("domino", 5000 if tier == "quick" else 8000, "sync", "debug", 2 if tier == "quick" else 4)], seed + 53,
                                     render=True, extra_args=["--stack-kb", "256", "--case-timeout", "900"])
            recs += dom
            hangs += dh
        except vlib.HarnessCrash as e:
            res.violation("stack-overflow-on-learnt-chain", f"the solver process died on a cascade of learnt clauses (class domino, 256 KiB stack): {str(e)[:300]}",
                          {"class": "domino", "extra_args": ["--stack-kb", "256"], "error": str(e)[:1000]})
    # ---- the hypotheses of C04_requires_assert_cannot_fail on real runs (hook logs; hinted universes reach the guarded path)
    from props import enctie
    if replay:
        erecs = []
    else:
        n2 = 1 if tier == "quick" else 25
        erecs, eh = ss.run_streams([("small", 255, "sync", "debug", 500 * n2), ("dense", 255, "sync", "debug", 300 * n2),
                                    ("conflict", 255, "gated:random", "debug", 200 * n2)], seed + 47, dump=True)
        hangs += eh
    if not replay:
        drecs, dh2 = ss.run_streams([("conflictx", 255, "sync", "debug", 500 * n2), ("lostassert", 255, "sync", "debug", 200 * n2),
                                     ("softrej", 255, "sync", "debug", 300 * n2)], seed + 59, dump=True)
        hangs += dh2
        erecs = erecs + drecs
        for r in drecs:
            if ss.outcome_kind(r["obs"]["outcome"]) == "panic":
                res.violation(ss.case_key(r["case"]), f"solve panicked: {r['obs']['outcome']['panic']} in {r['stream']}", ss.replay_obj(r))
    from props import antie
    antie.annotate_decides(erecs)
    for r in erecs:
        if not antie.ok_complete(r):
            res.tie_break(f"at a call of Solver::decide a clause of the database was falsified or an assertion was not in force "
                          f"(extracted prop_complete: the hypothesis under which C04_complete_no_panic excludes the unreachable!() of "
                          f"decide) in {r['stream']}: {r['decides']}", dict(ss.replay_obj(r), decides=r["decides"]))
        d_ = r.get("decides")
        if d_ is not None and "error" not in d_ and not d_["ok"] and ss.outcome_kind(r["obs"]["outcome"]) in ("sat", "unsat"):
            res.tie_break(f"decide correspondence no longer checks in {r['stream']} (the model of Solver::decide proposes something else, or "
                          f"reaches its unreachable!()): {d_}", dict(ss.replay_obj(r), decides=d_))
    antie.annotate_propagates(erecs)
    for r in erecs:
        if not antie.ok_propagates(r):
            res.tie_break(f"propagate correspondence / hypotheses of C04_checked_propagate_complete no longer check in {r['stream']} (comp_bad = calls "
                          f"of Solver::propagate at which a watched clause -- not born falsified -- had both watched literals false by propagated "
                          f"entries, or a watching clause was missing from a watch list): {r['props']}", dict(ss.replay_obj(r), propagate=r["props"]))
    enctie.annotate(erecs)
    for r in erecs:
        if "enc" in r and not enctie.ok(r, ("db", "done", "req_true", "quiet", "assert")):
            res.tie_break(f"encoder correspondence / hypotheses of C04_requires_assert_cannot_fail no longer check in {r['stream']}: "
                          f"{r['enc']} (db = clause database equal to the model's, req_true = encode only for true variables, quiet = trail "
                          f"untouched while futures are pending, assert = the model's assert_ne!)", enctie.replay(r))
    hist, maxratio, classes = {}, 0.0, {}
    for h in hangs:
        res.violation(f"hang-{h['stream'].replace('/', '_')}-{h['id']}", f"case did not finish within the watchdog time: {h}", h)
    for r in recs:
        o = r["obs"]["outcome"]
        k = ss.outcome_kind(o)
        hist[k] = hist.get(k, 0) + 1
        key = ss.case_key(r["case"])
        res.count([key, r["stream"]], k == "unsat" or (k == "sat" and len(o["sat"]) >= 2))
        if k == "panic":
            res.violation(key, f"solve panicked: {o['panic']} in {r['stream']}", ss.replay_obj(r))
            classes[o['panic'][:80]] = classes.get(o['panic'][:80], 0) + 1
        elif k in ("hang", "deadlock"):
            res.violation(key, f"solve did not terminate ({k}) in {r['stream']}", ss.replay_obj(r))
        elif k == "unsat":
            c = r["obs"]["conflict"]
            res.sample({"case": r["case"], "message_bytes": c["msg_bytes"], "message": (c["msg"] or "")[:400]}, limit=2)
            if c["msg_error"]:
                res.violation(key, f"conflict rendering failed: {c['msg_error']} in {r['stream']}", ss.replay_obj(r))
            elif c["graph"] is not None:
                b = bound(c["graph"])
                maxratio = max(maxratio, c["msg_bytes"] / b)
                if c["msg_bytes"] > b:
                    res.violation(key, f"message of {c['msg_bytes']} bytes exceeds the bound {b} for a graph of "
                                  f"{len(c['graph']['nodes'])} nodes / {len(c['graph']['edges'])} edges", ss.replay_obj(r))
    res.extra.update(enctie.stats(erecs))
    # ---- renderer model: byte-for-byte message, proven line bound, in-Coq sample
    from props import render_tie
    rrecs = [r for r in recs if r["obs"].get("conflict") and render_tie.usable(r)]
    seen_keys, uniq = set(), []
    for r in rrecs:
        kk = (ss.case_key(r["case"]),)
        if kk not in seen_keys:
            seen_keys.add(kk)
            uniq.append(r)
    mism = render_tie.check_messages(uniq)
    for r, model_msg, real_msg in mism[:20]:
        res.tie_break(f"conflict message differs from the renderer model (Conflict/Render.v) in {r['stream']}; the message is finite and "
                      f"within the size cap", {"case": r["case"], "real": real_msg[:2000] if isinstance(real_msg, str) else str(real_msg)[:2000],
                                               "model": model_msg[:2000] if isinstance(model_msg, str) else str(model_msg)[:2000]})
    nb, bviol, bratio = render_tie.check_bounds(uniq)
    for v in bviol[:5]:
        r = v[0] if isinstance(v, (list, tuple)) else v
        res.violation(ss.case_key(r["case"]), "conflict message has more lines than the proven bound lin_bound of its graph", ss.replay_obj(r))
    ncoq, ncoq_ok, cfailed = render_tie.replay_in_coq(uniq, limit=(30 if tier == "quick" else 200), prop="C04")
    res.obligations += ncoq
    res.discharged += ncoq_ok
    for f in cfailed[:5]:
        res.tie_break(f"in-Coq replay of a conflict message failed: {str(f)[:300]}", {"failed": str(f)[:2000]})
    res.extra.update({"messages_compared_with_model": len(uniq), "message_mismatches": len(mism),
                      "max_lines_over_proven_bound": round(bratio, 3), "in_coq_message_examples": ncoq})
    res.rule = ("all feature masks incl. hints x exclusions x locks x soft requirements x cycles; debug and release; "
                "every Unsolvable is rendered (graph, graphviz plain+simplified, message under a 1 MiB cap and a linear "
                "bound); non-trivial = Unsolvable, or Ok with >= 2 solvables")
    res.extra.update({"outcomes": hist, "panic_classes": classes, "max_message_bytes_over_bound": round(maxratio, 3), "hangs": len(hangs)})
    return res.finish(CHECKER, vlib.TRUSTED_BASE,
                      ["outer CDCL loop termination is observed by the poll watchdog, not proved"])
