"""C04: solve and conflict rendering terminate without panicking."""
import vlib
from props import solverstream as ss

THEOREMS = []
CHECKER = ("harness solve_cases under catch_unwind + poll watchdog + output-size cap, debug and release, sync and "
           "yielding runtimes, rendering of every conflict (graph, graphviz, message)")


def bound(g):
    # message size bound claimed for the renderer: linear in the conflict graph
    return 400 * (len(g["nodes"]) + len(g["edges"]) + 2)


def run(res, tier, seed, replay):
    if THEOREMS:
        vlib.proof_gate(res, "C04", THEOREMS)
    else:
        bad = vlib.scan_forbidden()
        res.obligation(not bad, "forbidden construct in Coq sources: " + "; ".join(bad[:5]) if bad else None)
        ok, out = vlib.coq_make(["Spec/Oracle.vo"])
        res.obligation(ok, None if ok else "Coq development no longer builds: " + out[-1500:])
    if replay:
        recs, hangs = ss.run_replay(replay, render=True), []
    else:
        recs = ss.corpus_recs("C04", render=True)
        n = 1 if tier == "quick" else 40
        streams = [("small", 255, "sync", "debug", 1500 * n), ("small", 255, "sync", "release", 1000 * n),
                   ("dense", 255, "sync", "debug", 800 * n), ("dense", 255, "sync", "release", 700 * n),
                   ("small", 255, "yield", "debug", 400 * n), ("greedy", 25, "sync", "debug", 300 * n)]
        r2, hangs = ss.run_streams(streams, seed + 41, render=True)
        recs += r2
    hist, maxratio, classes = {}, 0.0, {}
    for h in hangs:
        res.violation(f"hang-{h['stream'].replace('/', '_')}-{h['id']}", f"case did not finish within the watchdog time: {h}", h)
    for r in recs:
        o = r["obs"]["outcome"]
        k = ss.outcome_kind(o)
        hist[k] = hist.get(k, 0) + 1
        key = ss.case_key(r["case"])
        res.count([key, r["stream"]], k == "unsat" or (k == "sat" and len(o["sat"]) >= 2))
        if k == "panic":
            res.violation(key, f"solve panicked: {o['panic']} in {r['stream']}", ss.replay_obj(r))
            classes[o['panic'][:80]] = classes.get(o['panic'][:80], 0) + 1
        elif k in ("hang", "deadlock"):
            res.violation(key, f"solve did not terminate ({k}) in {r['stream']}", ss.replay_obj(r))
        elif k == "unsat":
            c = r["obs"]["conflict"]
            res.sample({"case": r["case"], "message_bytes": c["msg_bytes"], "message": (c["msg"] or "")[:400]}, limit=2)
            if c["msg_error"]:
                res.violation(key, f"conflict rendering failed: {c['msg_error']} in {r['stream']}", ss.replay_obj(r))
            elif c["graph"] is not None:
                b = bound(c["graph"])
                maxratio = max(maxratio, c["msg_bytes"] / b)
                if c["msg_bytes"] > b:
                    res.violation(key, f"message of {c['msg_bytes']} bytes exceeds the bound {b} for a graph of "
                                  f"{len(c['graph']['nodes'])} nodes / {len(c['graph']['edges'])} edges", ss.replay_obj(r))
    res.rule = ("all feature masks incl. hints x exclusions x locks x soft requirements x cycles; debug and release; "
                "every Unsolvable is rendered (graph, graphviz plain+simplified, message under a 1 MiB cap and a linear "
                "bound); non-trivial = Unsolvable, or Ok with >= 2 solvables")
    res.extra.update({"outcomes": hist, "panic_classes": classes, "max_message_bytes_over_bound": round(maxratio, 3), "hangs": len(hangs)})
    return res.finish(CHECKER, vlib.TRUSTED_BASE,
                      ["outer CDCL loop termination is observed by the poll watchdog, not proved"])
