"""C16: a dependency snapshot is a faithful, serialisable copy of a provider."""
import collections, json, os
import vlib, coqreplay

THEOREMS = ["C16_capture_faithful", "C16_closed", "C16_order_complete", "C16_sort_preserved", "C16_sorted_cands",
            "C16_table_provider_hyps", "C16_fresh_ids_disjoint", "C16_captured_resolvable", "C16_capture_inv",
            "C16_serde_roundtrip", "C16_serde_same_answers", "C16_valid_ext", "C16_solution_valid_live",
            "C16_same_verdict", "C16_hints_preserved_refuted", "C16_union_order_preserved_refuted"]
CHECKER = ("coqc Data/Snapshot.v Props/C16.v + Print Assumptions; harness snapshot_cases (real from_provider / "
           "SnapshotProvider / serde_json on dense and sparse-id universes) -> (a) per-case Coq Example "
           "`obs_of (capture (table_provider U) fuel seeds) adds = observed snapshot, fresh ids, names after additions` "
           "closed by vm_compute; reflexivity; (b) verdict(live)=verdict(snapshot)=verdict(round-tripped) and extracted "
           "o_valid of every snapshot solution against the LIVE universe; (c) fresh ids / aliasing / panics; "
           "(d) extracted o_greedy: snapshot solution = live solution when the first choices are compatible; "
           "(e) second process: same solutions")
HEADER = """From Resolvo Require Import Base.Provider Spec.Spec Data.Mapping Data.Snapshot.
From Coq Require Import List NArith.
Import ListNotations.
Open Scope N_scope.
Definition obs_of (o : option snapshot) (ns : list N) :=
  match o with
  | Some sn =>
    match add_reqs sn [] ns with
    | Some (adds, ids) =>
      Some (snap_view sn, ids,
            map (fun p => (fst p, option_map sv_name (vs_lookup sn adds (fst p)))) (iter (sn_vss sn)),
            map (fun v => option_map sv_name (vs_lookup sn adds v)) ids,
            snap_view (roundtrip sn))
    | None => None
    end
  | None => None
  end.
"""

nl = vlib.coq_nlist


# ----------------------------------------------------------------- dense <-> real ids

def sparse_tables(spec):
    """Mirror of `sparsify` in snapshot_cases.rs, as association lists (+ table sizes, dummy package id)."""
    u, m = spec["u"], spec["maps"]
    top = lambda l: (l[-1] + 1) if l else 0
    dummy = top(m["names"])
    ms = lambda l: [m["sols"][s] for s in l]

    def mreq(r):
        return {"s": m["vss"][r["s"]]} if "s" in r else {"u": m["unions"][r["u"]]}
    sols = []
    for i, s in enumerate(u["sols"]):
        d = None if s["deps"] is None else {"reqs": [mreq(r) for r in s["deps"]["reqs"]],
                                            "cons": [m["vss"][v] for v in s["deps"]["cons"]]}
        sols.append((m["sols"][i], {"name": m["names"][s["name"]], "rank": s["rank"], "deps": d}))
    vss = [(m["vss"][i], {"name": m["names"][v["name"]], "matching": ms(v["matching"])}) for i, v in enumerate(u["vss"])]
    unions = [(m["unions"][i], [m["vss"][v] for v in x]) for i, x in enumerate(u["unions"])]
    pkgs = []
    for i, k in enumerate(u["pkgs"]):
        h = k["hint"]
        pkgs.append((m["names"][i], {"missing": k["missing"], "cands": ms(k["cands"]),
                                     "favored": None if k["favored"] is None else m["sols"][k["favored"]],
                                     "locked": None if k["locked"] is None else m["sols"][k["locked"]],
                                     "excluded": ms(k["excluded"]),
                                     "hint": h if isinstance(h, str) else {"some": ms(h["some"])}}))
    sizes = {"sols": top(m["sols"]), "vss": top(m["vss"]), "unions": top(m["unions"]), "pkgs": dummy + 1}
    return sols, vss, unions, pkgs, sizes, dummy


def coq_deps(d):
    if d is None:
        return "Unknown"
    return "(Known [" + "; ".join(vlib.coq_req(r) for r in d["reqs"]) + "] " + nl(d["cons"]) + ")"


def coq_sparse_universe(spec):
    sols, vss, unions, pkgs, sizes, dummy = sparse_tables(spec)

    def tab(dflt, items, n):
        return f"(tabulate {dflt} [" + "; ".join(f"({i}, {t})" for i, t in items) + f"] {n}%nat)"

    def pk(k):
        h = k["hint"]
        hs = "HNone" if h == "none" else "HAll" if h == "all" else f"(HSome {nl(h['some'])})"
        return (f"mkPkg {'true' if k['missing'] else 'false'} {nl(k['cands'])} {vlib.coq_opt(k['favored'])} "
                f"{vlib.coq_opt(k['locked'])} {nl(k['excluded'])} {hs}")
    return ("(mkU " +
            tab(f"(mkSol {dummy} 0 Unknown)", [(i, f"mkSol {s['name']} {s['rank']} {coq_deps(s['deps'])}") for i, s in sols],
                sizes["sols"]) + "\n  " +
            tab(f"(mkVs {dummy} [])", [(i, f"mkVs {v['name']} {nl(v['matching'])}") for i, v in vss], sizes["vss"]) + "\n  " +
            tab("[]", [(i, nl(x)) for i, x in unions], sizes["unions"]) + "\n  " +
            tab("(mkPkg false [] None None [] HNone)", [(i, pk(k)) for i, k in pkgs], sizes["pkgs"]) + ")"), sizes


def coq_snapshot_view(sj):
    """the serde_json form of a DependencySnapshot -> the term `snap_view` yields"""
    def jdeps(d):
        if isinstance(d, int):
            return "Unknown"
        rs = []
        for r in d.get("requirements", []):
            rs.append(f"RSingle {r['Single']}" if "Single" in r else f"RUnion {r['Union']}")
        return "(Known [" + "; ".join(rs) + "] " + nl(d.get("constrains", [])) + ")"
    sols = [f"({i}, mkSSol {s['name']} {s['order']} {jdeps(s['dependencies'])} "
            f"{'true' if s['hint_dependencies_available'] else 'false'})"
            for i, s in enumerate(sj.get("solvables", [])) if s is not None]
    uns = [f"({i}, {nl(x)})" for i, x in enumerate(sj.get("version_set_unions", [])) if x is not None]
    vss = [f"({i}, mkSVs {v['name']} {nl(v['matching_candidates'])})"
           for i, v in enumerate(sj.get("version_sets", [])) if v is not None]
    pks = [f"({i}, mkSPkg {nl(k['solvables'])} {nl([e[0] for e in k.get('excluded', [])])})"
           for i, k in enumerate(sj.get("packages", [])) if k is not None]
    j = lambda xs: "[" + "; ".join(xs) + "]"
    return f"({j(sols)},\n   {j(uns)},\n   {j(vss)},\n   {j(pks)})"


def coq_names(l):
    return "[" + "; ".join("None" if n is None else f"Some {n}" for n in l) + "]"


def example_stmt(rec):
    spec = rec["spec"]
    uterm, sizes = coq_sparse_universe(spec)
    sd = spec["seeds"]
    fuel = len(sd["names"]) + len(sd["vss"]) + len(sd["sols"]) + sizes["sols"] + sizes["vss"] + sizes["pkgs"] + 2
    view = coq_snapshot_view(rec["snapshot"])
    d = rec["direct"]
    after = "[" + "; ".join(f"({v}, {'None' if n is None else 'Some ' + str(n)})" for v, n in d["names_after"]) + "]"
    # one line per statement: coqreplay locates a failing Example by its line number
    return (f"obs_of (capture (table_provider {uterm}) {fuel}%nat {nl(sd['names'])} {nl(sd['vss'])} {nl(sd['sols'])}) "
            f"{nl(rec['add_names'])} = Some ({view}, {nl(d['add_ids'])}, {after}, {coq_names(d['fresh_names'])}, "
            f"{view})").replace("\n", " ")


def model_term(rec):
    spec = rec["spec"]
    uterm, sizes = coq_sparse_universe(spec)
    sd = spec["seeds"]
    fuel = len(sd["names"]) + len(sd["vss"]) + len(sd["sols"]) + sizes["sols"] + sizes["vss"] + sizes["pkgs"] + 2
    return (f"obs_of (capture (table_provider {uterm}) {fuel}%nat {nl(sd['names'])} {nl(sd['vss'])} {nl(sd['sols'])}) "
            f"{nl(rec['add_names'])}")


# ----------------------------------------------------------------- judging helpers

def kind(o):
    return o if isinstance(o, str) else next(iter(o))


def inv(l):
    return {v: i for i, v in enumerate(l)}


def dense_problem(rec):
    m = rec["spec"]["maps"]
    iv, iu = inv(m["vss"]), inv(m["unions"])
    p = rec["p_live"]

    def r(q):
        return {"s": iv[q["s"]]} if "s" in q else {"u": iu[q["u"]]}
    return {"reqs": [r(q) for q in p["reqs"]], "cons": [iv[v] for v in p["cons"]], "soft": []}


def normalised(u):
    """the universe as the snapshot format stores it: union members as an ascending set"""
    v = dict(u)
    v["unions"] = [sorted(set(x)) for x in u["unions"]]
    return v


def spec_key(spec):
    import hashlib
    c = dict(spec)
    c.pop("id", None)
    return hashlib.sha1(json.dumps(c, sort_keys=True).encode()).hexdigest()[:12]


def replay_obj(rec, extra=None):
    o = {"case": rec["spec"], "observed": {k: rec.get(k) for k in ("capture", "live", "direct", "rt", "rt_equal", "hi", "p",
                                                                  "p_live", "add_names")},
         "how": "./check C16 --replay <this file>  (re-runs the case on the current /repo tree)"}
    if extra:
        o.update(extra)
    return o


def run_bin(b, args):
    return vlib.run_harness(b, args)


def judge(res, recs, second, n_coq):
    """recs: harness records; second: records of the same specs from another process (or None)."""
    stats = collections.Counter()
    adds_hist = collections.Counter()
    ok_recs = []
    for rec in recs:
        spec = rec["spec"]
        key = spec_key(spec)
        rec["key"] = key
        stats["sparse" if spec["maps"]["sols"] != list(range(len(spec["maps"]["sols"]))) or
              spec["maps"]["names"] != list(range(len(spec["maps"]["names"]))) or
              spec["maps"]["vss"] != list(range(len(spec["maps"]["vss"]))) else "dense"] += 1
        if rec["capture"] != "ok":
            res.count(key, False)
            res.violation(key, f"from_provider did not produce a snapshot: {rec['capture']}", replay_obj(rec))
            continue
        ok_recs.append(rec)
        d, t = rec["direct"], rec["rt"]
        adds_hist[str(len(rec["add_names"]))] += 1
        if spec["use_hi"] and rec["hi"] is not None:
            stats["problem_uses_highest_captured_vs"] += 1
        nontrivial = len(rec["snapshot"].get("solvables", [])) > 0 and kind(rec["live"]) == "sat"
        res.count(key, nontrivial)
        res.sample({"class": spec["class"], "seeds": spec["seeds"], "hi": rec["hi"], "add_names": rec["add_names"],
                    "add_ids": d.get("add_ids"), "live": rec["live"], "snapshot_outcome": d.get("outcome")}, limit=3)
        # ---- (c) panics, fresh ids, aliasing
        bad = False
        for which, x in (("snapshot provider", d), ("round-tripped provider", t)):
            if "outcome" not in x:
                res.violation(key, f"{which}: {json.dumps(x)[:200]}", replay_obj(rec))
                bad = True
            elif kind(x["outcome"]) == "panic":
                res.violation(key, f"{which}: solve panicked: {x['outcome']['panic']}", replay_obj(rec))
                bad = True
        if kind(rec["live"]) in ("panic", "cancelled", "hang"):
            stats["live_not_decided"] += 1
            continue
        if bad:
            continue
        res.obligations += 1
        captured = {v: (rec["snapshot"]["version_sets"][v]["name"]) for v, _ in d["names_after"]}
        c_ok = True
        for which, x in (("snapshot provider", d), ("round-tripped provider", t)):
            ids = x["add_ids"]
            if len(set(ids)) != len(ids):
                res.violation(key, f"{which}: add_package_requirement returned duplicate ids {ids}", replay_obj(rec))
                c_ok = False
            if any(i in captured for i in ids):
                res.violation(key, f"{which}: fresh id among {ids} equals a captured version set id "
                              f"(captured max {rec['hi']})", replay_obj(rec))
                c_ok = False
            for v, n in x["names_after"]:
                if n != captured[v]:
                    res.violation(key, f"{which}: after {len(ids)} additions version_set_name({v}) = {n}, captured name is "
                                  f"{captured[v]} (highest captured id {rec['hi']})", replay_obj(rec))
                    c_ok = False
                    break
            if x["fresh_names"] != rec["add_names"]:
                res.violation(key, f"{which}: fresh ids {ids} resolve to names {x['fresh_names']}, added for {rec['add_names']}",
                              replay_obj(rec))
                c_ok = False
        if d["add_ids"] != t["add_ids"]:
            res.violation(key, f"fresh ids differ after the serde round trip: {d['add_ids']} vs {t['add_ids']}", replay_obj(rec))
            c_ok = False
        if not rec["rt_equal"]:
            res.violation(key, "snapshot -> JSON -> snapshot -> JSON is not the identity", replay_obj(rec))
            c_ok = False
        stats["round_trips"] += 1
        # ---- (b) verdicts
        kl, kd, kt = kind(rec["live"]), kind(d["outcome"]), kind(t["outcome"])
        if not (kl == kd == kt):
            res.violation(key, f"verdicts differ: live {kl}, snapshot {kd}, round-tripped {kt}", replay_obj(rec))
            c_ok = False
        if c_ok:
            res.discharged += 1
    # ---- (b) validity of snapshot solutions against the live universe, (d) greedy
    lines = []
    for i, rec in enumerate(ok_recs):
        if "outcome" not in rec["direct"] or "outcome" not in rec["rt"]:
            continue
        m = rec["spec"]["maps"]
        isol = inv(m["sols"])
        try:
            dp = dense_problem(rec)
        except KeyError as e:
            res.violation(rec["key"], f"problem mentions an id outside the universe: {e}", replay_obj(rec))
            continue
        rec["dense_p"] = dp
        u = rec["spec"]["u"]
        for which in ("direct", "rt"):
            o = rec[which]["outcome"]
            if kind(o) != "sat":
                continue
            if any(s not in isol for s in o["sat"]):
                res.violation(rec["key"], f"{which}: solution {o['sat']} contains a solvable that is no solvable of the "
                              "live universe", replay_obj(rec))
                continue
            sel = [isol[s] for s in o["sat"]]
            rec[which + "_dense"] = sel
            lines.append(f"sat {i}:{which} " + vlib.toks(vlib.tok_universe(u), vlib.tok_problem(dp), vlib.tok_list(sel)))
        if kind(rec["live"]) == "sat" and all(s in isol for s in rec["live"]["sat"]):
            rec["live_dense"] = [isol[s] for s in rec["live"]["sat"]]
        lines.append(f"ref {i}:g " + vlib.toks(vlib.tok_universe(u), vlib.tok_problem(dp)))
        if normalised(u) != u:
            lines.append(f"ref {i}:n " + vlib.toks(vlib.tok_universe(normalised(u)), vlib.tok_problem(dp)))
    out = vlib.oracle(lines)
    for k, v in out.items():
        if v.startswith("error"):
            raise vlib.CheckError("oracle error: " + v)

    def greedy_of(v):
        b = v.split("|")[1].strip()
        return None if b == "none" else sorted(int(x) for x in b.split()[1:])
    for i, rec in enumerate(ok_recs):
        key = rec["key"]
        for which in ("direct", "rt"):
            v = out.get(f"{i}:{which}")
            if v is None:
                continue
            res.obligations += 1
            if v.split()[0] == "1":
                res.discharged += 1
                stats["snapshot_solutions_valid_live"] += 1
            else:
                res.violation(key, f"solution {rec[which]['outcome']['sat']} found through the "
                              f"{'snapshot' if which == 'direct' else 'round-tripped snapshot'} is NOT valid against the live "
                              "universe (extracted o_valid)", replay_obj(rec, {"dense_solution": rec[which + "_dense"],
                                                                               "dense_problem": rec["dense_p"]}))
        g = out.get(f"{i}:g")
        if g is None:
            continue
        gl = greedy_of(g)
        gn = greedy_of(out[f"{i}:n"]) if f"{i}:n" in out else gl
        solv = g.split("|")[0].strip() == "1"
        if "outcome" in rec["direct"]:
            # the reference decision procedure agrees with all three verdicts
            res.obligations += 1
            if (kind(rec["direct"]["outcome"]) == "sat") == solv:
                res.discharged += 1
            else:
                res.violation(key, f"snapshot verdict {kind(rec['direct']['outcome'])} but the live problem is "
                              f"{'solvable' if solv else 'unsolvable'} (extracted o_solvable)", replay_obj(rec))
        if gn is not None:
            stats["greedy_applicable_snapshot"] += 1
            for which in ("direct", "rt"):
                if which + "_dense" in rec:
                    res.obligations += 1
                    if sorted(rec[which + "_dense"]) == gn:
                        res.discharged += 1
                    else:
                        res.violation(key, f"{which}: first choices are compatible (greedy selection {gn}, dense ids) but the "
                                      f"snapshot solve returned {sorted(rec[which + '_dense'])}: preference order not preserved",
                                      replay_obj(rec, {"greedy_dense": gn}))
        if gl is not None:
            if gn != gl:
                # union members listed in non-ascending order: the format stores a set
                stats["union_order_not_represented"] += 1
                continue
            stats["greedy_applicable_live"] += 1
            if "live_dense" in rec and "direct_dense" in rec:
                res.obligations += 1
                if sorted(rec["live_dense"]) == sorted(rec["direct_dense"]) == sorted(rec.get("rt_dense", [])):
                    res.discharged += 1
                else:
                    res.violation(key, f"first choices are compatible but live solution {sorted(rec['live_dense'])} != snapshot "
                                  f"solution {sorted(rec['direct_dense'])} / {sorted(rec.get('rt_dense', []))} (dense ids)",
                                  replay_obj(rec))
    # ---- (e) second process
    if second is not None:
        by = {spec_key(r["spec"]): r for r in second}
        for rec in ok_recs:
            o = by.get(rec["key"])
            if o is None or o.get("capture") != "ok":
                continue
            res.obligations += 1
            same = all(rec[w].get("outcome") == o[w].get("outcome") for w in ("direct", "rt")) and rec["snapshot"] == o["snapshot"]
            if same:
                res.discharged += 1
                stats["second_process_same"] += 1
            else:
                res.violation(rec["key"], f"another process found a different result through the snapshot: "
                              f"{rec['direct'].get('outcome')} / {rec['rt'].get('outcome')} vs {o['direct'].get('outcome')} / "
                              f"{o['rt'].get('outcome')}", replay_obj(rec))
    # ---- (a) in-Coq comparison of the model with the real snapshot
    sample = [r for r in ok_recs if "add_ids" in r["direct"]][:n_coq]
    examples = [(f"case_{i}", example_stmt(r)) for i, r in enumerate(sample)]
    n_ok, failed = coqreplay.run_examples("C16", HEADER, examples)
    res.obligations += len(examples)
    res.discharged += n_ok
    for name, msg in failed:
        r = sample[int(name.split("_")[1])]
        model = coqreplay.coq_eval("C16", HEADER, model_term(r))
        res.violation(r["key"], "the real snapshot / fresh ids / names after additions differ from the Coq model of "
                      "from_provider + SnapshotProvider (for which faithfulness, closure, order and fresh-id theorems are proved)",
                      replay_obj(r, {"observed_snapshot": r["snapshot"], "model_says": model[-3000:]}))
    stats["in_coq_examples"] = len(examples)
    stats["in_coq_accepted"] = n_ok
    return stats, adds_hist


def corpus_files():
    d = os.path.join(vlib.ROOT, "corpus", "C16")
    return [os.path.join(d, f) for f in sorted(os.listdir(d)) if f.endswith(".json")] if os.path.isdir(d) else []


def other_process(b, path, first, tries=5):
    """Re-run a replay file in fresh processes; return the first run whose solutions differ from
    `first` (union members live in a hash set whose order may differ per process), else the last run."""
    s2 = first
    for _ in range(tries):
        s2, _ = run_bin(b, ["--replay", path])
        if any(x.get("direct") != y.get("direct") or x.get("rt") != y.get("rt") for x, y in zip(first, s2)):
            break
    return s2


def run(res, tier, seed, replay):
    vlib.proof_gate(res, "C16", THEOREMS)
    b = os.path.join(vlib.cargo_build("debug", hooks=True, bins=["snapshot_cases"]), "snapshot_cases")
    if replay:
        recs, _ = run_bin(b, ["--replay", replay])
        second = other_process(b, replay, recs)
        n_coq = len(recs)
    else:
        n = 400 if tier == "quick" else 10000
        n_coq = 100 if tier == "quick" else 600
        recs, second = [], []
        # corpus first; every corpus case is solved in several fresh processes
        for f in corpus_files():
            r, _ = run_bin(b, ["--replay", f])
            recs += r
            second += other_process(b, f, r)
        n_coq += len(recs)
        r, hangs = run_bin(b, ["--seed", str(seed), "--count", str(n)])
        recs += r
        r2, _ = run_bin(b, ["--seed", str(seed), "--count", str(min(n, 400))])
        second += r2
        for h in hangs:
            res.violation(f"hang-{h}", f"case {h} (seed {seed}) did not finish within the per-case timeout",
                          {"seed": seed, "id": h, "how": "snapshot_cases --seed <seed> --skip <id> --count 1"})
    stats, adds_hist = judge(res, recs, second, n_coq)
    res.rule = ("seeded universes (gen_universe small/dense with excluded+hints+unions+unknown+constrains, gen_greedy), 3/5 of them "
                "re-numbered through random strictly increasing id maps with gaps (>128 sometimes) for names, version sets, "
                "solvables and unions; random seed subsets always containing what the problem mentions; problem over captured "
                "ids, in half of the cases also requiring/constraining by the highest captured version set, plus 0..3 "
                "add_package_requirement(name, \"*\"); non-trivial = non-empty snapshot and satisfiable live problem")
    res.extra.update({"classes": dict(stats), "additions_histogram": dict(adds_hist),
                      "corpus_files": [os.path.basename(f) for f in corpus_files()]})
    return res.finish(CHECKER, vlib.TRUSTED_BASE,
                      ["display strings / the strings table / non-\"*\" matchers are not modelled",
                       "favored and locked candidates are not represented by the format: universes are generated without them",
                       "union members are stored as a set and returned in ascending id order: the live listing order of a union "
                       "is not represented (counted as union_order_not_represented; solutions may legitimately differ there)",
                       "hint_dependencies_available is true for every captured solvable whatever the live provider hinted "
                       "(C16_hints_preserved_refuted); hints do not affect verdicts or validity",
                       "solutions are compared after mapping real ids back to the dense ids of the generated universe (maps "
                       "are strictly increasing; harness `sparsify` mirrored by tools/props/c16.py `sparse_tables`)"])
