"""Whole-run correspondence: the model of Solver::solve (coq/Cdcl/Solver.v, activity in binary32: coq/Float/SolverRun.v)
computes, from the provider data and the problem alone (plus, for runtimes other than the synchronous one, the order in
which the encoder's futures completed), the result, the complete sequence of trail events, the clause database and (for
synchronous runs) the provider calls; the implementation's must equal them."""
import vlib
from props import solverstream as ss, antie, enctie

OUTCOME = {0: "sat", 1: "unsat", 2: "panic", 3: "fuel"}


def applicable(r):
    d = r["obs"].get("dump")
    return (d is not None and "/act=" not in r.get("stream", "")
            and ss.outcome_kind(r["obs"]["outcome"]) in ("sat", "unsat"))


def annotate(recs, fuel=20000, efuel=20000):
    lines = []
    for i, r in enumerate(recs):
        if not applicable(r):
            continue
        d = r["obs"]["dump"]
        o = r["obs"]["outcome"]
        if ss.outcome_kind(o) == "sat":
            kind, res = 0, list(o["sat"])
        else:
            kind, res = 1, list(d["core"])
        db = [len(d["clauses"])]
        for c in d["clauses"]:
            db += vlib.tok_clause(c)
        if enctie.is_sync(r):
            order = [0]          # synchronous runtime: the model completes the futures first-in first-out
        else:
            # any other runtime: the completion order of the encoder's futures is an input of the model
            done = [enctie.tok_task(e["done"]) for e in d["events"] if isinstance(e, dict) and "done" in e]
            order = [1, len(done)]
            for t in done:
                order += t
        lines.append(f"solver {i} " + vlib.toks(vlib.tok_universe(r["case"]["u"]), vlib.tok_problem(r["case"]["p"]), [fuel, efuel],
                                                 order, [kind], [len(res)] + res, antie.tok_levents(d["events"]), db,
                                                 enctie.tok_calls(r["obs"]["calls"])))
    out = vlib.oracle(lines)
    for i, v in out.items():
        r = recs[int(i)]
        if v.startswith("error"):
            r["solver"] = {"error": v}
            continue
        t = v.split()
        r["solver"] = {"model": OUTCOME.get(int(t[0]), t[0]), "outcome": t[1] == "1", "log": t[2] == "1", "db": t[3] == "1",
                       "calls": t[4] == "1" or (not enctie.is_sync(r) and t[8] == "1"), "sync": enctie.is_sync(r), "side_conditions": t[6] == "1", "born": int(t[7]), "prefix": int(t[5]), "events": sum(1 for e in r["obs"]["dump"]["events"]
                                                                                 if e == "ul" or (isinstance(e, dict) and ("a" in e or "uu" in e or "sreg" in e)))}
    return recs


def ok(r):
    s = r.get("solver")
    if s is None:
        return True
    if "error" in s or not (s["outcome"] and s["log"] and s["db"] and s["calls"] and s["side_conditions"]):
        return False
    # solve_sat_loses_no_clause exempts the clauses in the ghost set s_born; without soft requirements it must be empty when
    # the model answers with a solution (it collects clauses born with both watched literals false since the last restart)
    soft = bool(r["case"]["p"].get("soft"))
    return soft or s["model"] != "sat" or s.get("born", 0) == 0


def stats(recs):
    s = [r["solver"] for r in recs if "solver" in r and "model" in r["solver"]]
    return {"whole_runs_compared_with_solver_model": len(s), "of_which_under_a_logged_completion_order": sum(1 for x in s if not x["sync"]),
            "trail_events_compared": sum(x["events"] for x in s),
            "runs_whose_final_exempt_set_s_born_is_nonempty": sum(1 for x in s if x.get("born", 0) > 0)}
