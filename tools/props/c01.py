"""C01: every returned solution satisfies all rules."""
import vlib
from props import solverstream as ss, tracecheck as tc, enctie, antie, solvertie

THEOREMS = ["C01_oracle_correct", "C01_closed_model_valid", "C01_final_state_valid", "C01_trace_sound",
            "C01_encoder_complete", "C01_encoder_model_valid", "C01_encoder_final_closed",
            "C01_watch_created_ok", "C01_unit_is_asserted", "C01_late_lock_is_handled", "C01_decide_complete", "C01_complete_units_hold", "C01_solver_model_complete", "C01_solver_model_loses_no_clause", "C01_solver_model_born_empty", "C01_solver_model_no_clause_lost", "C01_solver_model_decided", "C01_solver_model_no_clause_falsified"]
CHECKER = ("coqc Props/C01.v + Print Assumptions; harness solve_cases (debug+release, sync+yield): (a) hook logs -> extracted "
           "check_sat_log_lenient (trace inclusion, theorem C01_trace_sound), (b) extracted o_valid on every returned solution, "
           "(c) extracted encoder model (enc_solve) vs the dumped clause database of every synchronous run: clause-for-clause "
           "equality, trail equality, enc_final_ok; reported conflicts and registered assertions equal to the model of the clause "
           "constructors (check_watch)")


def run(res, tier, seed, replay):
    vlib.proof_gate(res, "C01", THEOREMS)
    if replay:
        recs, hangs = ss.run_replay(replay, dump=True), []
    else:
        recs = ss.corpus_recs("C01", dump=True)
        r2, hangs = ss.run_streams(ss.streams_for(tier), seed)
        r3, h3 = ss.run_streams(tc.trace_streams(tier), seed + 1, dump=True)
        recs += r2 + r3
        hangs += h3
    ss.oracle_sat(recs)
    tc.annotate(recs)
    enctie.annotate(recs)
    enctie.annotate_watch(recs)
    antie.annotate_decides(recs)
    solvertie.annotate(recs)
    for r in recs:
        if not solvertie.ok(r):
            res.tie_break(f"whole-run correspondence no longer checks for a synchronous run in {r['stream']}: the result, the sequence of "
                          f"trail events, the clause database or the provider calls of the implementation differ from what the model of "
                          f"Solver::solve (Cdcl/Solver.v) computes from the provider data and the problem, or the model's side conditions fail (side_conditions: s_ok; born: the exempt set of C01_solver_model_loses_no_clause is non-empty at the end of a run without soft requirements): {r['solver']}",
                          dict(ss.replay_obj(r), solver_model=r["solver"]))
        if not antie.ok_complete(r):
            res.tie_break(f"at a call of Solver::decide a clause of the database was falsified or an assertion (exclusion, Unknown "
                          f"dependencies, requirement without candidates, unit learnt clause) was not in force (extracted prop_complete; "
                          f"hypothesis of C01_complete_units_hold / C04_complete_no_panic) in {r['stream']}: {r['decides']}",
                          dict(tc.trace_replay(r), decides=r["decides"]))
        if not enctie.ok_watch(r):
            res.tie_break(f"clause-creation correspondence no longer checks for a run in {r['stream']}: the clauses the implementation reports "
                          f"as conflicting / registers as assertions differ from the model of the clause constructors, or a side condition "
                          f"of C01_watch_created_ok fails: {r['watch']}", enctie.replay(r))
    nsat, hist = 0, {}
    for r in recs:
        k = ss.outcome_kind(r["obs"]["outcome"])
        hist[k] = hist.get(k, 0) + 1
        key = ss.case_key(r["case"])
        if k != "sat":
            res.count([key, r["stream"]], False)
            continue
        nsat += 1
        sol = r["obs"]["outcome"]["sat"]
        res.count([key, r["stream"]], len(sol) >= 2)
        res.sample({"case": r["case"], "solution": sol, "valid": r["valid"], "trace": r.get("trace")})
        if not r["valid"]:
            res.violation(key, f"solution {sol} violates the rules of C01 (o_valid = false) in {r['stream']}", ss.replay_obj(r))
        elif "trace" in r and not (r["trace"].get("db") and r["trace"].get("run") and r["trace"].get("lenient")):
            res.tie_break(f"trace inclusion (C01_trace_sound) no longer checks for a run in {r['stream']}: checker verdict "
                          f"{r['trace']}; the returned solution itself is valid", tc.trace_replay(r))
        elif not enctie.ok(r, ("db", "done", "trail", "final")):
            res.tie_break(f"encoder correspondence no longer checks for a run in {r['stream']}: the clause database / trail / "
                          f"encoded set of the implementation differs from the encoder model (theorems C01_encoder_*): {r['enc']}; "
                          f"the returned solution itself is valid", enctie.replay(r))
    res.rule = ("universes from seeded generators (classes small/dense/greedy/conflict, all feature masks incl. soft "
                "requirements, hints, locks, exclusions, unions, Unknown deps), run in debug+release and sync+yielding "
                "runtimes; every solution judged by o_valid, every hook log by the extracted trace checker; non-trivial = "
                "distinct (case, build) with a solution of >= 2 solvables")
    dd = [r["decides"] for r in recs if "decides" in r and "n" in r["decides"]]
    res.extra.update({"decide_calls_with_propagation_state_checked": sum(x["n"] for x in dd)})
    res.extra.update(solvertie.stats(recs))
    res.extra.update({"outcomes": hist, "solutions_checked": nsat, "hangs": len(hangs)}, **tc.stats(recs), **enctie.stats(recs))
    return res.finish(CHECKER, vlib.TRUSTED_BASE,
                      ["provider well-formedness as generated (names consistent, candidate lists duplicate-free)",
                       "panics/hangs are C04's business; here only returned solutions are judged"])
