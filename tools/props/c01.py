"""C01: every returned solution satisfies all rules."""
import vlib
from props import solverstream as ss

THEOREMS = ["C01_oracle_correct"]
CHECKER = ("coqc Props/C01.v + Print Assumptions; harness solve_cases (debug+release, sync+yield) -> "
           "extracted o_valid on every returned solution")


def run(res, tier, seed, replay):
    vlib.proof_gate(res, "C01", THEOREMS)
    if replay:
        recs = ss.run_replay(replay)
        hangs = []
    else:
        recs = ss.corpus_recs("C01")
        r2, hangs = ss.run_streams(ss.streams_for(tier), seed)
        recs += r2
    ss.oracle_sat(recs)
    nsat = 0
    hist = {}
    for r in recs:
        k = ss.outcome_kind(r["obs"]["outcome"])
        hist[k] = hist.get(k, 0) + 1
        key = ss.case_key(r["case"])
        if k == "sat":
            nsat += 1
            sol = r["obs"]["outcome"]["sat"]
            res.count([key, r["stream"]], len(sol) >= 2)
            res.sample({"case": r["case"], "solution": sol, "valid": r["valid"]})
            if not r["valid"]:
                res.violation(key, f"solution {sol} violates the rules of C01 (o_valid = false) in {r['stream']}",
                              ss.replay_obj(r))
        else:
            res.count([key, r["stream"]], False)
    res.rule = ("universes from seeded generators (classes small/dense/greedy, all feature masks incl. soft "
                "requirements, hints, locks, exclusions, unions, Unknown deps), run in debug+release and "
                "sync+yielding runtimes; non-trivial = distinct (case, build) with a solution of >= 2 solvables")
    res.extra.update({"outcomes": hist, "solutions_checked": nsat, "hangs": len(hangs)})
    return res.finish(CHECKER, vlib.TRUSTED_BASE,
                      ["provider well-formedness as generated (names consistent, candidate lists duplicate-free)",
                       "panics/hangs are C04's business; here only returned solutions are judged"])
