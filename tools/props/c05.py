"""C05: solutions contain no extraneous solvables."""
import vlib
from props import solverstream as ss, tracecheck as tc

THEOREMS = ["C05_oracle_correct", "C05_run_trail_legal", "C05_supported", "C05_trace_supported"]
CHECKER = ("coqc Props/C05.v + Print Assumptions; harness solve_cases: (a) hook logs -> extracted check_sat_log (legal run, "
           "theorem C05_trace_supported), (b) extracted o_supported on every solution")


def run(res, tier, seed, replay):
    vlib.proof_gate(res, "C05", THEOREMS)
    if replay:
        recs, hangs = ss.run_replay(replay, dump=True), []
    else:
        recs = ss.corpus_recs("C05", dump=True)
        r4, h4 = ss.run_streams(tc.trace_streams(tier), seed + 13, dump=True)
        recs += r4
        r2, hangs = ss.run_streams(ss.streams_for(tier), seed + 11)
        recs += r2
    ss.oracle_sat(recs)
    tc.annotate(recs)
    n, exempt_cases = 0, 0
    for r in recs:
        k = ss.outcome_kind(r["obs"]["outcome"])
        key = ss.case_key(r["case"])
        if k != "sat":
            res.count([key, r["stream"]], False)
            continue
        n += 1
        sol = r["obs"]["outcome"]["sat"]
        res.count([key, r["stream"]], len(sol) >= 2)
        res.sample({"case": r["case"], "solution": sol, "supported": r["supported"]})
        if not r["supported"]:
            res.violation(key, f"solution {sol} contains a solvable not reachable from the root/soft requirements in {r['stream']}",
                          ss.replay_obj(r))
        elif "trace" in r:
            t = r["trace"]
            if t.get("db") and t.get("run") and not t.get("strict") and t.get("lenient"):
                exempt_cases += 1   # a package-level clause of an accepted soft solvable is falsified: theorem n/a, oracle decides
            elif not (t.get("db") and t.get("run") and t.get("strict")):
                res.tie_break(f"trace inclusion (C05_trace_supported) no longer checks for a run in {r['stream']}: checker "
                              f"verdict {t}; the returned solution itself is supported", tc.trace_replay(r))
    res.rule = ("same streams as C01 (all feature masks incl. soft); every returned solution is judged by the "
                "Coq-verified support procedure; non-trivial = solution with >= 2 solvables")
    res.extra.update({"solutions_checked": n, "hangs": len(hangs), "soft_exemption_traces": exempt_cases}, **tc.stats(recs))
    return res.finish(CHECKER, vlib.TRUSTED_BASE, [])
