"""C05: solutions contain no extraneous solvables."""
import vlib
from props import solverstream as ss

THEOREMS = ["C05_oracle_correct"]
CHECKER = ("coqc Props/C05.v + Print Assumptions; harness solve_cases -> extracted o_supported on every solution")


def run(res, tier, seed, replay):
    vlib.proof_gate(res, "C05", THEOREMS)
    if replay:
        recs, hangs = ss.run_replay(replay), []
    else:
        recs = ss.corpus_recs("C05")
        r2, hangs = ss.run_streams(ss.streams_for(tier), seed + 11)
        recs += r2
    ss.oracle_sat(recs)
    n = 0
    for r in recs:
        k = ss.outcome_kind(r["obs"]["outcome"])
        key = ss.case_key(r["case"])
        if k != "sat":
            res.count([key, r["stream"]], False)
            continue
        n += 1
        sol = r["obs"]["outcome"]["sat"]
        res.count([key, r["stream"]], len(sol) >= 2)
        res.sample({"case": r["case"], "solution": sol, "supported": r["supported"]})
        if not r["supported"]:
            res.violation(key, f"solution {sol} contains a solvable not reachable from the root/soft requirements in {r['stream']}",
                          ss.replay_obj(r))
    res.rule = ("same streams as C01 (all feature masks incl. soft); every returned solution is judged by the "
                "Coq-verified support procedure; non-trivial = solution with >= 2 solvables")
    res.extra.update({"solutions_checked": n, "hangs": len(hangs)})
    return res.finish(CHECKER, vlib.TRUSTED_BASE, [])
