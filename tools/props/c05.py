"""C05: solutions contain no extraneous solvables."""
import vlib
from props import solverstream as ss, tracecheck as tc, antie

THEOREMS = ["C05_oracle_correct", "C05_run_trail_legal", "C05_supported", "C05_trace_supported",
            "C05_propagate_sound", "C05_checked_propagate_sound", "C05_grows_justified", "C05_start_watching_keeps_invariant", "C05_solver_model_invariant", "C05_solver_model_propagate_sound", "C05_solver_model_propagate_keeps_levels", "C05_solver_model_learn_keeps_levels", "C05_propagate_complete", "C05_complete_no_watched_falsified", "C05_checked_propagate_complete", "C05_inv2_kept_outside_propagate", "C05_propagate_takes_unit_steps"]
CHECKER = ("coqc Props/C05.v + Print Assumptions; harness solve_cases: (a) hook logs -> extracted check_sat_log (legal run, "
           "theorem C05_trace_supported), (b) extracted o_supported on every solution, (c) hook logs -> extracted check_propagates: "
           "every call of Solver::propagate must make exactly the assignments (literal, level, reason clause, in order) of the "
           "propagate model and end with the same conflict clause; the hypotheses of C05_propagate_sound (watch invariant, "
           "duplicate-free trail, justified assertions) are evaluated at every call")


def run(res, tier, seed, replay):
    vlib.proof_gate(res, "C05", THEOREMS)
    if replay:
        recs, hangs = ss.run_replay(replay, dump=True), []
    else:
        recs = ss.corpus_recs("C05", dump=True)
        r4, h4 = ss.run_streams(tc.trace_streams(tier), seed + 13, dump=True)
        recs += r4
        r2, hangs = ss.run_streams(ss.streams_for(tier), seed + 11)
        recs += r2
    ss.oracle_sat(recs)
    tc.annotate(recs)
    antie.annotate_propagates(recs)
    for r in recs:
        if not antie.ok_propagates(r):
            res.tie_break(f"propagate correspondence no longer checks for a run in {r['stream']}: a call of Solver::propagate made other "
                          f"assignments (or in another order, with another reason) or ended differently than the model (Cdcl/Propagate.v), "
                          f"or a hypothesis of C05_propagate_sound / C05_propagate_complete fails (comp_bad = calls at which the completeness hypotheses did not hold): {r['props']}", dict(tc.trace_replay(r), propagate=r["props"]))
    n, exempt_cases = 0, 0
    for r in recs:
        k = ss.outcome_kind(r["obs"]["outcome"])
        key = ss.case_key(r["case"])
        if k != "sat":
            res.count([key, r["stream"]], False)
            continue
        n += 1
        sol = r["obs"]["outcome"]["sat"]
        res.count([key, r["stream"]], len(sol) >= 2)
        res.sample({"case": r["case"], "solution": sol, "supported": r["supported"]})
        if not r["supported"]:
            res.violation(key, f"solution {sol} contains a solvable not reachable from the root/soft requirements in {r['stream']}",
                          ss.replay_obj(r))
        elif "trace" in r:
            t = r["trace"]
            if t.get("db") and t.get("run") and not t.get("strict") and t.get("lenient"):
                exempt_cases += 1   # a package-level clause of an accepted soft solvable is falsified: theorem n/a, oracle decides
            elif not (t.get("db") and t.get("run") and t.get("strict")):
                res.tie_break(f"trace inclusion (C05_trace_supported) no longer checks for a run in {r['stream']}: checker "
                              f"verdict {t}; the returned solution itself is supported", tc.trace_replay(r))
    res.rule = ("same streams as C01 (all feature masks incl. soft); every returned solution is judged by the "
                "Coq-verified support procedure; non-trivial = solution with >= 2 solvables")
    pp = [r["props"] for r in recs if "props" in r and "calls" in r["props"]]
    res.extra.update({"runs_replayed_through_propagate_model": len(pp), "propagate_calls_compared": sum(x["calls"] for x in pp),
                      "propagated_assignments_compared": sum(x["assigns"] for x in pp)})
    res.extra.update({"solutions_checked": n, "hangs": len(hangs), "soft_exemption_traces": exempt_cases}, **tc.stats(recs))
    return res.finish(CHECKER, vlib.TRUSTED_BASE, [])
