"""C18: Pool interning is stable: equal values share ids and references stay valid."""
import hashlib, json, os, subprocess, time
import vlib, coqreplay

THEOREMS = ["C18_arena_alloc_stable", "C18_reachable_inv", "C18_intern_same_iff", "C18_intern_idem",
            "C18_resolve_intern", "C18_lookup_name", "C18_solvable_dense", "C18_union_dense", "C18_ids_dense",
            "C18_refs_stable", "C18_hold_check", "C18_chunks_bounded"]
CHECKER = ("gen_consts.py (CHUNK_SIZE from src/internal/arena.rs); coqc Props/C18.v + Print Assumptions; harness pool_ops on the "
           "real resolvo::utils::Pool (references kept across later interns, slot addresses compared) -> per-sequence Coq "
           "Example `prun ops = observed` closed by vm_compute; reflexivity")
HEADER = ("From Resolvo Require Import Data.Arena Data.Pool.\nFrom Coq Require Import List NArith.\n"
          "Import ListNotations.\nOpen Scope N_scope.\n")
KIND = {"name": "KName", "str": "KString", "vs": "KVs", "solv": "KSolv"}
ARENA_OF = {"iname": "name", "istr": "str", "ivs": "vs", "isolv": "solv", "iunion": "union"}


def nlist(l):
    return "[" + "; ".join(str(x) for x in l) + "]"


def coq_op(o):
    k = o[0]
    if k == "iname":
        return f"PIntern (IKName {o[1]})"
    if k == "istr":
        return f"PIntern (IKString {o[1]})"
    if k == "ivs":
        return f"PIntern (IKVs {o[1]} {o[2]})"
    if k == "isolv":
        return f"PInternSolv {o[1]} {o[2]}"
    if k == "iunion":
        return f"PInternUnion {o[1]} {nlist(o[2])}"
    if k == "res":
        return f"PResolve {KIND[o[1]]} {o[2]}"
    if k == "rvsname":
        return f"PResolveVsName {o[1]}"
    if k == "runion":
        return f"PResolveUnion {o[1]}"
    if k == "lname":
        return f"PLookupName {o[1]}"
    if k == "hold":
        return f"PHold {KIND[o[1]]} {o[2]}"
    if k == "check":
        return f"PCheck {o[1]}"
    if k == "layout":
        return f"PLayout {KIND[o[1]]} {o[2]}"
    raise ValueError(k)


def coq_val(v):
    return "None" if v is None else f"(Some {nlist(v)})"


def coq_out(o):
    k = o[0]
    if k == "id":
        return f"OId {o[1]}"
    if k == "val":
        return f"OVal {coq_val(o[1])}"
    if k == "opt":
        return "OOpt " + ("None" if o[1] is None else f"(Some {o[1]})")
    if k == "held":
        return f"OHeld {'true' if o[1] else 'false'} {coq_val(o[2])}"
    if k == "bool":
        return f"OBool {'true' if o[1] else 'false'}"
    if k == "err":
        return "OErr"
    raise ValueError(k)


def ops_term(case):
    return "[" + "; ".join(coq_op(o) for o in case["ops"]) + "]"


def stmt(case):
    return f"prun {ops_term(case)} = [" + "; ".join(coq_out(o) for o in case["outs"]) + "]"


def profile(case, chunk):
    """(arena sizes, number of chunk boundaries crossed, references kept,
    references that were looked through after their arena started a new chunk)."""
    cnt = {"name": 0, "str": 0, "vs": 0, "solv": 0, "union": 0}
    held = []          # (kind, arena size when taken)
    across = set()
    for o, x in zip(case["ops"], case["outs"]):
        k = o[0]
        if k in ARENA_OF and x[0] == "id":
            a = ARENA_OF[k]
            cnt[a] = max(cnt[a], x[1] + 1)
        elif k == "hold" and x[0] == "val" and x[1] is not None:
            held.append((o[1], cnt[o[1]]))
        elif k == "check" and x[0] == "held" and o[1] < len(held):
            kind, c0 = held[o[1]]
            if (cnt[kind] - 1) // chunk > (c0 - 1) // chunk:
                across.add(o[1])
    crossed = sum((c - 1) // chunk for c in cnt.values() if c > 0)
    return cnt, crossed, len(held), len(across)


def split_model(text):
    """`Eval vm_compute` output `= [a; b (Some [x; y]); ...] : list pout` -> ["a", "b (Some [x; y])", ...]"""
    try:
        flat = " ".join(text.split())
        body = flat[flat.index("= [") + 3:flat.rindex("] : list pout")]
    except ValueError:
        return None
    out, depth, cur = [], 0, ""
    for ch in body:
        if ch in "[(":
            depth += 1
        elif ch in "])":
            depth -= 1
        if ch == ";" and depth == 0:
            out.append(cur.strip())
            cur = ""
        else:
            cur += ch
    if cur.strip():
        out.append(cur.strip())
    return out


def chunk_size():
    import re
    src = open(os.path.join(vlib.REPO, "src/internal/arena.rs")).read()
    return int(re.search(r"const CHUNK_SIZE: usize = (\d+);", src).group(1))


def try_miri(res, binname, cases, budget=300):
    """Supporting evidence only: the same binary under Miri (Stacked Borrows) on a
    handful of recorded sequences; prefixes, because the interpreter is slow."""
    t0 = time.time()
    info = {"ran": False, "sequences_without_ub": 0, "same_outputs_as_native": 0, "operations": 0}
    try:
        hdir = os.path.join(vlib.ROOT, "harness")
        env = dict(vlib.ENV, CARGO_TARGET_DIR=os.path.join(vlib.BUILD, "cargo-miri"),
                   RUSTFLAGS="--cap-lints warn", MIRIFLAGS="-Zmiri-disable-isolation")
        chunk = chunk_size()
        # corpus sequence first (references to element 0 of every arena, all arenas cross the first boundary
        # within 700 ops), then generated sequences that hold a reference across a boundary early
        designed = sorted([c for c in cases if c.get("class") == 9], key=lambda c: -len(c["ops"]))
        gen = sorted([c for c in cases if c.get("class") != 9],
                     key=lambda c: -profile({"ops": c["ops"][:450], "outs": c["outs"][:450]}, chunk)[3])
        picks = [(c, 700) for c in designed[:1]] + [(c, 450) for c in gen[:3]]
        for i, (c, k) in enumerate(picks):
            left = budget - (time.time() - t0)
            if left < 30:
                break
            tmp = os.path.join(vlib.OUT, f"pool_miri_{i}.json")
            json.dump({"ops": c["ops"][:k]}, open(tmp, "w"))
            try:
                p = subprocess.run(["cargo", "+nightly", "miri", "run", "--offline", "-q", "--features", "hooks",
                                    "--bin", binname, "--", "--replay", tmp], cwd=hdir, env=env, timeout=left,
                                   stdout=subprocess.PIPE, stderr=subprocess.PIPE, text=True)
            except subprocess.TimeoutExpired:
                info["note"] = "time budget reached"
                break
            if p.returncode != 0:
                info["stderr"] = p.stderr[-600:]
                if "Undefined Behavior" in p.stderr:
                    info["undefined_behavior_reported"] = True
                break
            info["sequences_without_ub"] += 1
            info["operations"] += min(k, len(c["ops"]))
            try:
                r = json.loads(p.stdout.strip().splitlines()[-1])
                # distinct allocations may be adjacent under Miri: `layout` answers are not compared
                info["same_outputs_as_native"] += all(
                    a == b for o, a, b in zip(c["ops"], r["outs"], c["outs"]) if o[0] != "layout")
            except Exception:
                pass
        info["ran"] = info["sequences_without_ub"] > 0
    except Exception as e:  # not available offline: skipped
        info["skipped"] = str(e)[:300]
    info["wall_s"] = round(time.time() - t0, 1)
    res.extra["miri"] = info


def run(res, tier, seed, replay):
    subprocess.run(["python3", os.path.join(vlib.ROOT, "tools", "gen_consts.py")], check=True)
    vlib.proof_gate(res, "C18", THEOREMS)
    chunk = chunk_size()
    b = os.path.join(vlib.cargo_build("debug", hooks=True, bins=["pool_ops"]), "pool_ops")
    # ---- ids around the limit of the 32-bit id types: the id of the index-th element is the index, or the conversion
    # refuses; it never is the id of another element (Data/Arena.v: ids are the allocation indices, unbounded)
    probe, _ = vlib.run_harness(b, ["--probe-ids"])
    kinds = ["NameId", "StringId", "VersionSetId", "VersionSetUnionId", "SolvableId"]
    n_probes = 0
    for pr in (probe[0]["probe_ids"] if probe else []):
        n_probes += 1
        idx = int(pr["index"])
        res.obligations += 1
        if pr["id"] is None:
            ok_ = idx > 0xFFFFFFFF          # refusing is right only beyond the id type
        else:
            ok_ = pr["id"] == idx
        if ok_:
            res.discharged += 1
        else:
            res.violation(f"id-wrap-{pr['kind']}-{pr['index']}", f"the pool's arena would hand out {kinds[pr['kind']]}({pr['id']}) for its element "
                          f"number {idx}: " + ("the id of another element (ids wrap around at 2^32: different values get the same id and resolving "
                          "the id returns the older value)" if pr["id"] is not None else "the conversion refuses an index the id type can represent"),
                          {"kind": "probe_ids", "probe": pr, "how": "pool_ops --probe-ids (resolvo::verif::pool_id_for_index)"})
    res.extra["id_limit_probes"] = n_probes
    os.makedirs(vlib.OUT, exist_ok=True)
    if replay and json.load(open(replay)).get("replay", {}).get("kind") == "probe_ids":
        # the replay of an id-limit probe is the probe itself (done above): nothing else to run
        res.rule = "replay of an id-limit probe: pool_ops --probe-ids"
        return res.finish(CHECKER, vlib.TRUSTED_BASE, [])
    if replay:
        j = json.load(open(replay))
        case = j["replay"]["case"] if "replay" in j else j.get("case", j)
        tmp = os.path.join(vlib.OUT, "pool_replay.json")
        json.dump({"ops": case["ops"]}, open(tmp, "w"))
        cases, _ = vlib.run_harness(b, ["--replay", tmp])
    else:
        n = 300 if tier == "quick" else 5000
        maxops = "1400" if tier == "quick" else "2200"
        try:
            cases, _ = vlib.run_harness(b, ["--seed", str(seed), "--count", str(n), "--maxops", maxops])
        except vlib.HarnessCrash as e:
            # the real Pool crashed (memory error): the sequence being run is the failing input
            res.violation(f"crash-seq-{e.completed}", f"the real Pool crashed (signal {-e.returncode}) while running generated "
                          f"sequence #{e.completed} (seed {seed}, maxops {maxops}): a reference or slot became invalid",
                          {"harness": "pool_ops", "args": ["--seed", seed, "--count", 1, "--skip", e.completed, "--maxops", maxops],
                           "stderr": str(e)[-800:]})
            cases, _ = vlib.run_harness(b, ["--seed", str(seed), "--count", str(e.completed), "--maxops", maxops]) if e.completed else ([], [])
        cdir = os.path.join(vlib.ROOT, "corpus", "C18")
        if os.path.isdir(cdir):
            for f in sorted(os.listdir(cdir)):
                r, _ = vlib.run_harness(b, ["--replay", os.path.join(cdir, f)])
                cases = r + cases
    examples = [(f"case_{i}", stmt(c)) for i, c in enumerate(cases)]
    n_ok, failed = coqreplay.run_examples("C18", HEADER, examples, timeout=1800)
    kinds, n_crossed, n_cross3, n_held, n_across, total_ops = {}, 0, 0, 0, 0, 0
    for c in cases:
        cnt, crossed, nheld, across = profile(c, chunk)
        n_crossed += crossed > 0
        n_cross3 += any(v >= 3 * chunk for v in cnt.values())
        n_held += nheld > 0
        n_across += across > 0
        total_ops += len(c["ops"])
        res.count(c["ops"], crossed > 0 and across > 0)
        for o in c["ops"]:
            kinds[o[0]] = kinds.get(o[0], 0) + 1
        res.sample({"ops": c["ops"][:14], "outs": c["outs"][:14], "arena_sizes": cnt}, limit=2)
    res.obligations += len(examples)
    res.discharged += n_ok
    for name, msg in failed:
        c = cases[int(name.split("_")[1])]
        model = coqreplay.coq_eval("C18", HEADER + "Set Printing Depth 1000000.\n", "prun " + ops_term(c))
        # first differing position, for the report
        where = "?"
        mouts = split_model(model)
        obs = [coq_out(o) for o in c["outs"]]
        if mouts and len(mouts) == len(obs):
            norm = lambda s: s.replace("(", "").replace(")", "").replace(" ", "")
            for i, (m, o) in enumerate(zip(mouts, obs)):
                if norm(m) != norm(o):
                    where = f"op #{i} {c['ops'][i]}: pool returned {c['outs'][i]}, model says {m}"
                    break
        key = "ops-" + hashlib.sha1(json.dumps(c["ops"]).encode()).hexdigest()[:10]
        res.violation(key, "real Pool disagrees with the model (for which idempotent / injective interning, resolve(intern v)=v, "
                      f"dense ids and reference stability are proven) on a sequence of {len(c['ops'])} operations; {where}",
                      {"case": {"ops": c["ops"], "outs": c["outs"]}, "first_difference": where, "model_says": model[-3000:]})
    res.rule = ("seeded interleavings of intern_package_name / intern_string / intern_version_set / intern_solvable / "
                "intern_version_set_union / resolve_* / lookup_package_name on one Pool<Vs, String>; classes: tiny with many "
                "duplicates, name-heavy (>= 3 chunks), mixed, around one chunk boundary, bursts of 100-300 fresh items of one "
                "sort; references (&String, &str, &VS, &Solvable fields) are kept early and read again after later interns, "
                "their addresses compared with a fresh resolve; `layout` compares slot addresses of consecutive ids with the "
                "model's chunk structure; every sequence ends by checking every kept reference. non-trivial = crossed >= 1 "
                "chunk boundary and looked through a reference that was taken before its arena started a new chunk")
    res.extra.update({"op_histogram": kinds, "in_coq_examples": len(examples), "in_coq_accepted": n_ok,
                      "total_operations": total_ops, "chunk_size": chunk,
                      "sequences_crossing_chunk_boundary": n_crossed,
                      "sequences_with_an_arena_of_3_chunks_or_more": n_cross3,
                      "sequences_holding_references": n_held,
                      "sequences_with_reference_held_across_boundary": n_across})
    if tier != "quick" and not replay:
        try_miri(res, "pool_ops", cases)
    else:
        res.extra["miri"] = {"ran": False, "skipped": "thorough tier only"}
    return res.finish(CHECKER, vlib.TRUSTED_BASE, [
        "names/strings are the Rust strings \"n<k>\"/\"s<k>\" in the harness and the number k in the model; version sets a "
        "newtype around u64, solvable records u64",
        "FrozenCopyMap (HashMap behind UnsafeCell) is modelled as an association list: std HashMap get/insert semantics and "
        "the Eq/Hash consistency of String / (NameId, VS) are trusted",
        "Vec::with_capacity(CHUNK_SIZE) reserves at least CHUNK_SIZE slots and Vec::push does not reallocate below capacity "
        "(std guarantee): with the proven bound `chunk length <= CHUNK_SIZE` no element buffer is ever reallocated; growing "
        "the outer Vec moves only the inner (ptr,cap,len) headers",
        "ids are u32 in Rust and unbounded N in the model: sequences stay far below 2^32 items (from_usize truncates silently)",
        "address equality is observed on this allocator/target only; Miri (thorough tier, if available offline) is supporting "
        "evidence for the aliasing side of the unsafe code",
    ])
