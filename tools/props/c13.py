"""C13: a solver can be reused."""
import vlib
from props import asynclib as al, solverstream as ss

THEOREMS = ["C13_once_checker", "C13_reference", "C13_valid_oracle", "C13_protocol_invariant",
            "C13_no_orphan_waiter", "C13_no_deadlock", "C13_pre_fix_deadlock", "C13_protocol_never_asks_twice"]
CHECKER = ("coqc Props/C13.v + Print Assumptions; harness async_cases --kind c13: sequences of 2-4 solves on one solver (same / "
           "varied problems, after Unsolvable, after cancellation at a random or every early poll; sync, yielding, gated FIFO/LIFO) "
           "-> every solve terminates (deadlock detection), verdict = verified reference, extracted o_valid, extracted onceb over "
           "the whole history")


def run(res, tier, seed, replay):
    vlib.proof_gate(res, "C13", THEOREMS)
    k = 1 if tier == "quick" else 20
    if replay:
        recs, hangs = al.replay_async("c13", replay)
    else:
        streams = [("small", 255, 100 * k), ("conflict", 255, 40 * k), ("fanout", 88, 20 * k)]
        recs, hangs = al.run_async("c13", streams, seed + 89)
    al.judge(recs)
    al.ref_for(recs)
    nseq, after_cancel = 0, 0
    for h in hangs:
        res.violation(f"hang-{h}", f"case {h} did not finish within the watchdog time", {"hang": h})
    for r in recs:
        key = ss.case_key(r["case"])
        for run in r["runs"]:
            nseq += 1
            kinds = [al.okind(s["outcome"]) for s in run["solves"]]
            res.count([key, run["label"], str(run["solves"][0]["cancel_at"])], len(kinds) >= 2)
            res.sample({"label": run["label"], "solves": [{"p": s["p"], "cancel_at": s["cancel_at"], "outcome": s["outcome"]}
                                                          for s in run["solves"]]}, limit=3)
            for i, s in enumerate(run["solves"]):
                kd = kinds[i]
                if i > 0 and kinds[i - 1] == "cancelled":
                    after_cancel += 1
                if kd in ("deadlock", "hang"):
                    res.violation(key, f"solve #{i + 1} on a reused solver never completes ({kd}) after outcomes {kinds[:i]} ({run['label']})",
                                  al.replay_obj(r, run))
                    break
                if kd == "panic":
                    res.violation(key, f"solve #{i + 1} on a reused solver panicked: {s['outcome']['panic']} ({run['label']})",
                                  al.replay_obj(r, run))
                    break
                if kd == "cancelled":
                    if not s["cancel_at"] or s["outcome"]["cancelled"] != s["cancel_at"][0]:
                        res.violation(key, f"solve #{i + 1} returned Cancelled without / with the wrong value ({run['label']})",
                                      al.replay_obj(r, run))
                    continue
                want = None if s["ref_solvable"] is None else ("sat" if s["ref_solvable"] else "unsat")
                if want is not None and kd != want:
                    res.violation(key, f"solve #{i + 1} on a reused solver returned {kd}; a fresh solver (reference) gives {want} "
                                  f"({run['label']}, earlier outcomes {kinds[:i]})", al.replay_obj(r, run))
                elif kd == "sat" and not s.get("valid", True):
                    res.violation(key, f"solve #{i + 1} on a reused solver returned an invalid solution {s['outcome']['sat']} ({run['label']})",
                                  al.replay_obj(r, run))
            if not run["once"] and not any(x in ("deadlock", "hang", "panic") for x in kinds):
                res.violation(key, f"metadata obtained by an earlier solve was requested again ({run['label']})", al.replay_obj(r, run))
    res.rule = ("sequences of 2-4 problems on one solver: the same problem, varied root requirements / soft requirements, unsolvable "
                "variants, with cancellation at a random poll in a third of the solves, plus the targeted shape 'cancel the first solve at "
                "every early poll, then solve again' under yielding and gated runtimes; non-trivial = sequence with >= 2 solves")
    res.extra.update({"sequences": nseq, "solves_after_a_cancelled_solve": after_cancel, "hangs": len(hangs)})
    return res.finish(CHECKER, vlib.TRUSTED_BASE,
                      ["a request abandoned by a cancelled solve obtained nothing and may be issued again; a completed one may not"])
