"""Conflict-analysis correspondence: every analysis of a hook log (recognised by the bare undo_last events only
Solver::analyze produces) replayed through the extracted model (coq/Cdcl/Analyze.v): learnt clause literal for
literal, derivation list, pops, backjump level (clamped to the starting level of the run_sat in progress) and asserted
literal must equal the model's, and the model's side conditions (analysis_ok) must hold."""
import vlib
from props import solverstream as ss


def tok_levents(events):
    out = []
    for e in events:
        if e == "ul":
            out.append([1])
        elif "a" in e:
            a = e["a"]
            out.append([0] + vlib.tok_var(a["var"]) + [1 if a["value"] else 0, a["level"], a["reason"]])
        elif "uu" in e:
            out.append([2, e["uu"]])
        elif "sreg" in e:
            out.append([3])
    t = [len(out)]
    for o in out:
        t += o
    return t


def tok_devents(events):
    out = []
    for e in events:
        if e == "ul":
            out.append([1])
        elif "a" in e:
            a = e["a"]
            out.append([0] + vlib.tok_var(a["var"]) + [1 if a["value"] else 0, a["reason"]])
        elif "uu" in e:
            out.append([2, e["uu"]])
        elif "dec" in e:
            out.append([3, e["dec"]])
        else:
            out.append([4])
    t = [len(out)]
    for o in out:
        t += o
    return t


def tok_pevents(events):
    out = []
    for e in events:
        if e == "ul":
            out.append([1])
        elif "a" in e:
            a = e["a"]
            out.append([0] + vlib.tok_var(a["var"]) + [1 if a["value"] else 0, a["level"], a["reason"]])
        elif "uu" in e:
            out.append([2, e["uu"]])
        elif "prop" in e:
            out.append([3, e["prop"][0], e["prop"][1]])
        elif "propres" in e:
            c = e["propres"]
            out.append([4, 0 if c is None else c + 1])
        else:
            out.append([5])
    t = [len(out)]
    for o in out:
        t += o
    return t


def annotate_propagates(recs):
    """Adds r['props'] = {calls, assigns, ok}: every call of Solver::propagate in the log makes exactly the assignments
    (literal, level, reason clause, in order) of the propagate model (coq/Cdcl/Propagate.v: watch lists, moves of watches,
    assertions first) and ends with the same conflict clause or without one; hyps: the hypotheses of propagate_sound held
    at every call; comp_bad: number of calls at which the hypotheses of propagate_complete (every watching clause in its
    lists, no watched clause -- outside those born with both watched literals false -- with both watched literals false by
    propagated entries, propagate_index within the trail) did NOT hold: must be 0."""
    lines = []
    for i, r in enumerate(recs):
        d = r["obs"].get("dump")
        if d is None or ss.outcome_kind(r["obs"]["outcome"]) not in ("sat", "unsat") or not d.get("init_watches"):
            continue
        db = [len(d["clauses"])]
        for c in d["clauses"]:
            db += vlib.tok_clause(c)
        iw = [len(d["init_watches"])]
        for w in d["init_watches"]:
            if w is None:
                iw += [0]
            else:
                iw += [1] + vlib.tok_var(w[0][0]) + [1 if w[0][1] else 0] + vlib.tok_var(w[1][0]) + [1 if w[1][1] else 0]
        lines.append(f"propagates {i} " + vlib.toks(db, iw, [len(d["asserts"])] + list(d["asserts"]), tok_pevents(d["events"])))
    out = vlib.oracle(lines)
    for i, v in out.items():
        r = recs[int(i)]
        if v.startswith("error"):
            r["props"] = {"error": v}
        else:
            nc, na, ok_, hyp, nbad = v.split()
            r["props"] = {"calls": int(nc), "assigns": int(na), "ok": ok_ == "1", "hyps": hyp == "1", "comp_bad": int(nbad)}
    return recs


def ok_propagates(r):
    p = r.get("props")
    return p is None or ("error" not in p and p["ok"] and p["hyps"] and p.get("comp_bad", 0) == 0)


def annotate_decides(recs):
    """Adds r['decides'] = {n, ok}: every call of Solver::decide in the log picks the candidate and the clause the
    decide model picks (coq/Cdcl/Decide.v, activity scores in binary32: coq/Float/Activity.v). Only for runs with the
    default activity parameters."""
    lines = []
    for i, r in enumerate(recs):
        d = r["obs"].get("dump")
        if d is None or ss.outcome_kind(r["obs"]["outcome"]) not in ("sat", "unsat") or "/act=" in r.get("stream", ""):
            continue
        if not any(isinstance(e, dict) and "dec" in e for e in d["events"]):
            continue
        db = [len(d["clauses"])]
        for c in d["clauses"]:
            db += vlib.tok_clause(c)
        lines.append(f"decides {i} " + vlib.toks(vlib.tok_universe(r["case"]["u"]), db, tok_devents(d["events"])))
    out = vlib.oracle(lines)
    for i, v in out.items():
        r = recs[int(i)]
        if v.startswith("error"):
            r["decides"] = {"error": v}
        else:
            n, ok_, cok = v.split()
            r["decides"] = {"n": int(n), "ok": ok_ == "1", "complete": cok == "1"}
    return recs


def ok_decides(r):
    d = r.get("decides")
    return d is None or ("error" not in d and d["ok"])


def ok_complete(r):
    """at every call of decide no clause allocated so far was falsified or unit (extracted prop_complete)"""
    d = r.get("decides")
    return d is None or "error" in d or d["complete"]


def annotate(recs):
    lines = []
    for i, r in enumerate(recs):
        d = r["obs"].get("dump")
        if d is None or ss.outcome_kind(r["obs"]["outcome"]) not in ("sat", "unsat"):
            continue
        db = [len(d["clauses"])]
        for c in d["clauses"]:
            db += vlib.tok_clause(c)
        lines.append(f"analyses {i} " + vlib.toks(db, tok_levents(d["events"])))
        if any(isinstance(e, dict) and "sreg" in e for e in d["events"]):
            lines.append(f"softkeep k{i} " + vlib.toks(tok_levents(d["events"])))
        # the conflict report: the clause analyze_unsolvable started from and the clauses it collected
        conf = [e["unsolv"] for e in d["events"] if isinstance(e, dict) and "unsolv" in e]
        if conf and ss.outcome_kind(r["obs"]["outcome"]) == "unsat":
            lines.append(f"unsolv u{i} " + vlib.toks(db, tok_levents(d["events"]), [conf[-1]], [len(d["core"])] + list(d["core"])))
    out = vlib.oracle(lines)
    for i, v in out.items():
        if i.startswith("k"):
            recs[int(i[1:])]["softkeep"] = v
            continue
        if i.startswith("u"):
            r = recs[int(i[1:])]
            if v.startswith("error"):
                r["unsolv"] = {"error": v}
            else:
                eq, okc = v.split()
                r["unsolv"] = {"eq": eq == "1", "ok": okc == "1"}
            continue
        r = recs[int(i)]
        if v.startswith("error"):
            r["an"] = {"error": v}
            continue
        n, ok = v.split()
        r["an"] = {"n": int(n), "ok": ok == "1"}
    return recs


def ok(r):
    a = r.get("an")
    return a is None or ("error" not in a and a["ok"])


def ok_softkeep(r):
    """extracted soft_keep accepts the log (theorem soft_keeps_earlier_decisions applies)"""
    return r.get("softkeep") in (None, "1")


def ok_unsolv(r):
    """the implementation's Conflict equals the analyze_unsolvable model's and the side conditions of
    UnsolvableProofs.core_unsat hold (so the reported clauses refute 'root installed')"""
    u = r.get("unsolv")
    return u is None or ("error" not in u and u["eq"] and u["ok"])


def stats(recs):
    a = [r["an"] for r in recs if "an" in r and "n" in r["an"]]
    u = [r["unsolv"] for r in recs if "unsolv" in r and "eq" in r["unsolv"]]
    sk = [r for r in recs if "softkeep" in r]
    return {"logs_with_soft_requirements_through_soft_keep": len(sk), "runs_replayed_through_analyze_model": len(a), "conflict_analyses_compared": sum(x["n"] for x in a),
            "conflict_reports_compared_with_analyze_unsolvable_model": len(u)}
