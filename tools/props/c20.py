"""C20: SolverCache answers are consistent with the provider and stable."""
import json, os, hashlib
import vlib, coqreplay

THEOREMS = ["C20_partition_spec", "C20_sorted_spec", "C20_table_sort_perm", "C20_union_spec", "C20_deps_spec",
            "C20_cache_idempotent", "C20_step_log_delta", "C20_at_most_once", "C20_available_spec", "C20_probe_spec"]
CHECKER = ("coqc Props/C20.v + Print Assumptions; harness cache_ops on the real SolverCache (table provider with call log, "
           "overlapping batches of queries against a yielding provider -> `overlap_run <universe> ops calls = (answers, true)`, "
           "availability probes from inside sort_candidates) -> per-sequence Coq Example `crun <universe> ops = observed "
           "(answer, provider calls, probes) per query`, and per solve `log_check <universe> log = (observed probes, true)`, "
           "closed by vm_compute; reflexivity")
HEADER = ("From Resolvo Require Import Base.Provider Data.Cache.\nFrom Coq Require Import List NArith.\n"
          "Import ListNotations.\nOpen Scope N_scope.\n")


def b(x):
    return "true" if x else "false"


def coq_op(o):
    k = o[0]
    if k == "cands":
        return f"CCands {o[1]}"
    if k == "match":
        return f"CMatching {o[1]}"
    if k == "nonmatch":
        return f"CNonMatching {o[1]}"
    if k == "sorted":
        return f"CSorted ({vlib.coq_req(o[1])})"
    if k == "deps":
        return f"CDeps {o[1]}"
    if k == "avail":
        return f"CAvail {o[1]}"
    raise ValueError(k)


def coq_call(c):
    (k, v), = c.items()
    if k == "c":
        return f"OCands {v}"
    if k == "f":
        return f"OFilter {v[0]} {b(v[1])}"
    if k == "o":
        return f"OSort {vlib.coq_nlist(v)}"
    if k == "d":
        return f"ODeps {v}"
    raise ValueError(k)


def coq_ans(a):
    k = a[0]
    if k == "cands":
        return f"ACands {vlib.coq_nlist(a[1])} {vlib.coq_opt(a[2])}"
    if k == "list":
        return f"AList {vlib.coq_nlist(a[1])}"
    if k == "deps":
        if a[1] is None:
            return "ADeps Unknown"
        return ("ADeps (Known [" + "; ".join(vlib.coq_req(r) for r in a[1]["reqs"]) + "] " +
                vlib.coq_nlist(a[1]["cons"]) + ")")
    if k == "bool":
        return f"ABool {b(a[1])}"
    raise ValueError(k)


def coq_probes(ps):
    return "[" + "; ".join(f"({x}, {b(v)})" for x, v in ps) + "]"


def coq_out(o):
    return (f"mkOut ({coq_ans(o['ans'])}) [" + "; ".join(coq_call(c) for c in o["calls"]) + "] " +
            coq_probes(o["probes"]))


def model_term(c):
    if c["mode"] == "overlap":
        return (f"overlap_run {vlib.coq_universe(c['u'])}\n  [" + "; ".join(coq_op(o) for o in c["ops"]) + "]\n  [" +
                "; ".join(coq_call(x) for x in c["calls"]) + "]")
    if c["mode"] == "solve":
        return f"log_check {vlib.coq_universe(c['u'])}\n  [" + "; ".join(coq_call(x) for x in c["log"]) + "]"
    return f"crun {vlib.coq_universe(c['u'])}\n  [" + "; ".join(coq_op(o) for o in c["ops"]) + "]"


def stmt(c):
    if c["mode"] == "overlap":
        return model_term(c) + "\n  = ([" + ";\n     ".join(coq_ans(a) for a in c["answers"]) + "], true)"
    if c["mode"] == "solve":
        return model_term(c) + f"\n  = ({coq_probes(c['probes'])}, true)"
    return model_term(c) + "\n  = [" + ";\n     ".join(coq_out(o) for o in c["outs"]) + "]"


def unrepresentable(c):
    """the non-cancelling, non-yielding provider can make no query fail or stay pending"""
    if c["mode"] == "overlap":
        return c["answers"] is None or any(a[0] in ("err", "pending") for a in c["answers"])
    if c["mode"] == "solve":
        return c["outcome"] in ("panic", "cancelled")
    return any(o["ans"][0] in ("err", "pending") for o in c["outs"])


def features(c):
    u = c["u"]
    fav = {n for n, k in enumerate(u["pkgs"]) if k["favored"] is not None and not k["missing"]}
    hints = any(k["hint"] != "none" and not k["missing"] and k["cands"] for k in u["pkgs"])
    return fav, hints


def run(res, tier, seed, replay):
    vlib.proof_gate(res, "C20", THEOREMS)
    bin_ = os.path.join(vlib.cargo_build("debug", hooks=True, bins=["cache_ops"]), "cache_ops")
    os.makedirs(vlib.OUT, exist_ok=True)
    if replay:
        j = json.load(open(replay))
        case = j["replay"]["case"] if "replay" in j else j.get("case", j)
        tmp = os.path.join(vlib.OUT, "cache_replay.json")
        json.dump(case, open(tmp, "w"))
        cases, _ = vlib.run_harness(bin_, ["--replay", tmp])
    else:
        n = 400 if tier == "quick" else 10000
        cases, _ = vlib.run_harness(bin_, ["--seed", str(seed), "--count", str(n),
                                           "--maxops", "30" if tier == "quick" else "60"])
        cdir = os.path.join(vlib.ROOT, "corpus", "C20")
        if os.path.isdir(cdir):
            for f in sorted(os.listdir(cdir)):
                r, _ = vlib.run_harness(bin_, ["--replay", os.path.join(cdir, f)])
                cases = r + cases

    def key_of(c):
        return "ops-" + hashlib.sha1(json.dumps([c["u"], c.get("ops"), c.get("p")], sort_keys=True).encode()).hexdigest()[:10]

    examples, idx = [], []
    kinds, n_fav, n_union, n_hints, n_rep, n_solve, n_probes, n_fav_sorted, n_overlap = {}, 0, 0, 0, 0, 0, 0, 0, 0
    for i, c in enumerate(cases):
        if unrepresentable(c):
            res.obligations += 1
            res.count([c["u"], c.get("ops"), c.get("p")], False)
            res.violation(key_of(c), "a cache query failed / stayed pending / panicked although the provider neither "
                          "cancels nor yields", {"case": c})
            continue
        examples.append((f"case_{i}", stmt(c)))
        idx.append(i)
        fav, hints = features(c)
        if c["mode"] == "overlap":
            n_overlap += 1
            ks = [json.dumps(o) for o in c["ops"]]
            res.count([c["u"], c["ops"], "overlap"], len(set(ks)) < len(ks))
            res.sample({"mode": "overlap", "ops": c["ops"][:8], "calls": c["calls"][:12]}, limit=2)
            continue
        if c["mode"] == "solve":
            n_solve += 1
            n_probes += len(c["probes"])
            res.count([c["u"], c["p"]], len(c["probes"]) >= 2 and any(v for _, v in c["probes"]))
            res.sample({"mode": "solve", "p": c["p"], "log": c["log"][:12], "probes": c["probes"][:12]}, limit=3)
            continue
        seen, rep, fav_sorted, union = set(), 0, False, False
        for o, out in zip(c["ops"], c["outs"]):
            kinds[o[0]] = kinds.get(o[0], 0) + 1
            k = json.dumps(o)
            if k in seen and o[0] != "avail":
                rep += 1
            seen.add(k)
            n_probes += len(out["probes"])
            if o[0] == "sorted":
                if "u" in o[1]:
                    union = True
                vss = [o[1]["s"]] if "s" in o[1] else c["u"]["unions"][o[1]["u"]]
                for v in vss:
                    name = c["u"]["vss"][v]["name"]
                    if name in fav and c["u"]["pkgs"][name]["favored"] in c["u"]["vss"][v]["matching"]:
                        fav_sorted = True
        n_fav += fav_sorted
        n_union += union
        n_hints += hints
        n_rep += rep
        res.count([c["u"], c["ops"]], rep > 0 and hints and (fav_sorted or union))
        res.sample({"mode": "ops", "ops": c["ops"][:10], "outs": c["outs"][:10]}, limit=3)

    n_ok, failed = coqreplay.run_examples("C20", HEADER, examples)
    res.obligations += len(examples)
    res.discharged += n_ok
    for name, msg in failed:
        c = cases[int(name.split("_")[1])]
        model = coqreplay.coq_eval("C20", HEADER, model_term(c))
        what = ("queries that overlap in time (provider yields in get_candidates / get_dependencies) were not answered as when "
                "issued one after the other, or consulted the provider more often: a provider call was repeated for a key that "
                "was already being answered" if c["mode"] == "overlap" else
                "provider call log / sort_candidates probes of a solve contradict the cache model (availability determined by "
                "earlier calls; each call at most once)" if c["mode"] == "solve" else
                f"real SolverCache disagrees with the model (proven equal to Spec.matching / sorted_cands / req_cands, "
                f"idempotent, at-most-once) on a sequence of {len(c['ops'])} queries")
        res.violation(key_of(c), what, {"case": c, "model_says": model[-3000:]})
    res.rule = ("seeded SMALL universes (favored, hints none/all/some, unions, unknown deps, missing packages); 4 of 5 ids: "
                "random sequences of get_or_cache_{candidates,matching,non_matching,sorted(single|union),dependencies} and "
                "are_dependencies_available_for with one query in four repeated, closing with the availability of every "
                "solvable (ids with remainder 3: a batch of 2-11 queries, half of them repeats, started together against a provider "
                "that yields, so that queries for one key overlap: answers as in the sequential model, provider calls a permutation "
                "of the model's); the other ids: closing with the availability of every "
                "solvable, probes from inside sort_candidates always on; every fifth id: a full solve with probes; "
                "non-trivial = sequence with a repeated query, hints, and a sorted query on a union or on a version set "
                "matching the favored candidate (solve: >=2 probes, one of them true)")
    res.extra.update({"op_histogram": kinds, "in_coq_examples": len(examples), "in_coq_accepted": n_ok,
                      "sequences_with_favored_sorted": n_fav, "sequences_with_union": n_union,
                      "sequences_with_hints": n_hints, "repeated_queries": n_rep, "solve_cases": n_solve, "overlapping_query_batches": n_overlap,
                      "probes_compared": n_probes})
    return res.finish(CHECKER, vlib.TRUSTED_BASE,
                      ["Call::Poll and CandsEnd/DepsEnd markers are filtered out of the observed call slices (the model logs "
                       "the four provider queries only)",
                       "provider is non-yielding and never cancels: every query future completes under now_or_never",
                       "Candidates answers are compared on (candidates, favored); locked/excluded are passed through untouched "
                       "by the cache and not compared",
                       "ids are drawn from the universe (the table provider indexes its tables directly)"])
