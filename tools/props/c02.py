"""C02: Unsolvable iff no solution exists."""
import vlib
from props import solverstream as ss, tracecheck as tc, enctie, antie, solvertie

THEOREMS = ["C02_reference_correct", "C02_facts_hold", "C02_rup_sound", "C02_refutation_sound",
            "C02_trace_no_false_unsat", "C02_solvable_not_refuted",
            "C02_encoder_adds_facts", "C02_encoder_sound", "C02_analyze_sound", "C02_analyses_entail",
            "C02_unsolvable_core_refutes", "C02_checked_propagate_sound", "C02_solver_model_holds_only_facts", "C02_analysis_ok_on_structured_trails", "C02_solver_model_no_false_unsat", "C02_solver_model_side_conditions_hold", "C02_solver_model_never_false_unsat"]
CHECKER = ("coqc Props/C02.v + Print Assumptions; harness solve_cases (debug+release, sync+yield, several activity "
           "parameters): (a) hook logs of every Unsolvable -> extracted check_unsat_log (facts, RUP of every learnt clause "
           "from its recorded antecedents, root-level conflict), (b) verdict compared with extracted u_solvableb, (c) extracted "
           "encoder model (enc_run) vs the dumped clause database of every run: clause-for-clause equality, (d) extracted model of "
           "Solver::analyze replayed on every conflict analysis of every hook log: learnt clause, derivation list, pops, backjump "
           "level and asserted literal equal")


def run(res, tier, seed, replay):
    vlib.proof_gate(res, "C02", THEOREMS)
    if replay:
        recs, hangs = ss.run_replay(replay, dump=True), []
    else:
        recs = ss.corpus_recs("C02", dump=True)
        r4, h4 = ss.run_streams(tc.trace_streams(tier, soft=False, classes=("conflict", "dense")), seed + 3, dump=True)
        recs += r4
        streams = ss.streams_for(tier, soft=False)
        n = 300 if tier == "quick" else 10000
        r2, hangs = ss.run_streams(streams, seed)
        recs += r2
        for act in ("0.0,0.95", "5.0,0.5", "1.0,1.0"):
            r3, h3 = ss.run_streams([("dense", ss.F_NOSOFT, "sync", "debug", n)], seed + 7, extra_args=["--activity", act])
            for x in r3:
                x["stream"] += "/act=" + act
            recs += r3
            hangs += h3
    ref = ss.oracle_ref(recs)
    tc.annotate(recs)
    enctie.annotate(recs)
    antie.annotate(recs)
    antie.annotate_propagates(recs)
    solvertie.annotate(recs)
    for r in recs:
        if not solvertie.ok(r):
            res.tie_break(f"whole-run correspondence no longer checks for a synchronous run in {r['stream']}: the verdict, the sequence of "
                          f"trail events, the clause database or the provider calls of the implementation differ from what the model of "
                          f"Solver::solve (Cdcl/Solver.v) computes: {r['solver']}", dict(ss.replay_obj(r), solver_model=r["solver"]))
        if not antie.ok_propagates(r):
            res.tie_break(f"propagate correspondence no longer checks for a run in {r['stream']}: a call of Solver::propagate made other "
                          f"assignments or reported another conflict than the model (Cdcl/Propagate.v), or a hypothesis of "
                          f"C02_checked_propagate_sound fails: {r['props']}", dict(tc.trace_replay(r), propagate=r["props"]))
    hist = {}
    for r in recs:
        k = ss.outcome_kind(r["obs"]["outcome"])
        key = r["key"]
        want = ref[key]["solvable"]
        hist[(k, want)] = hist.get((k, want), 0) + 1
        res.count([key, r["stream"]], k in ("sat", "unsat") and len(r["case"]["u"]["sols"]) >= 4)
        res.sample({"case": r["case"], "verdict": k, "reference_solvable": want})
        if k == "unsat" and want:
            res.violation(key, f"solver says Unsolvable but a valid selection exists (reference procedure) in {r['stream']}",
                          ss.replay_obj(r))
        if k == "unsat" and not want and "trace" in r and not (r["trace"].get("db") and r["trace"].get("unsat")):
            res.tie_break(f"refutation certificate (C02_trace_no_false_unsat) no longer checks for an Unsolvable run in "
                          f"{r['stream']}: checker verdict {r['trace']}; the verdict itself agrees with the reference",
                          tc.trace_replay(r))
        if k in ("sat", "unsat") and "trace" in r and r["trace"].get("run") is False:
            res.tie_break(f"the logged run is not a legal run of the abstract machine (a propagation whose reason is not unit, or an "
                          f"illegal decision) in {r['stream']}: checker verdict {r['trace']}; the verdict itself agrees with the reference",
                          tc.trace_replay(r))
        if k in ("sat", "unsat") and not enctie.ok(r, ("db", "done")):
            res.tie_break(f"encoder correspondence no longer checks for a run in {r['stream']}: the clauses added by the "
                          f"implementation differ from the encoder model (theorems C02_encoder_*): {r['enc']}; the verdict itself "
                          f"agrees with the reference", enctie.replay(r))
        if k in ("sat", "unsat") and not antie.ok(r):
            res.tie_break(f"conflict-analysis correspondence no longer checks for a run in {r['stream']}: a learnt clause, its derivation "
                          f"list, the number of pops, the backjump level or the asserted literal differs from the model of Solver::analyze, "
                          f"or a side condition of C02_analyze_sound fails: {r['an']}; the verdict itself agrees with the reference",
                          dict(tc.trace_replay(r), analyses=r["an"]))
        if k == "unsat" and not antie.ok_unsolv(r):
            res.tie_break(f"conflict-report correspondence no longer checks for an Unsolvable run in {r['stream']}: the clauses collected by "
                          f"analyze_unsolvable differ from the model's or a side condition of C02_unsolvable_core_refutes fails: "
                          f"{r.get('unsolv')}; the verdict itself agrees with the reference",
                          dict(tc.trace_replay(r), unsolv=r.get("unsolv")))
        if k == "sat" and "trace" in r and r["trace"].get("run") and not r["trace"].get("lenient"):
            res.tie_break(f"the final assignment of a run that returned a solution is rejected by the verified checker "
                          f"(check_sat_log_lenient: some clause of the database is not satisfied) in {r['stream']}: {r['trace']}",
                          tc.trace_replay(r))
        if k == "sat" and want is False:
            res.violation(key, f"solver returned {r['obs']['outcome']['sat']} but no valid selection exists in {r['stream']}",
                          ss.replay_obj(r))
    if res.tie_breaks and not res.violations and not replay:
        # search: the trace no longer checks -- look for an input on which the verdict itself is wrong
        vlib.log("trace tie broken; searching for a failing input (verdict vs reference on a large conflict-heavy burst)")
        burst, _ = ss.run_streams([("conflict", ss.F_NOSOFT, "sync", "release", 40000), ("conflict", ss.F_NOSOFT & ~8, "sync", "release", 20000)],
                                  seed + 1001)
        bref = ss.oracle_ref(burst)
        for r in burst:
            k = ss.outcome_kind(r["obs"]["outcome"])
            want = bref[r["key"]]["solvable"]
            if want is None:
                continue
            if (k == "unsat" and want) or (k == "sat" and want is False):
                res.violation(r["key"], f"solver verdict {k} but reference says solvable={want} (found by the search burst) in {r['stream']}",
                              ss.replay_obj(r))
            elif k == "panic":
                res.violation(r["key"], f"solve panicked during the search burst: {r['obs']['outcome']['panic']}", ss.replay_obj(r))
        res.extra["search_burst_cases"] = len(burst)
    res.rule = ("hard problems (no soft requirements) from classes small/dense/greedy, all other feature masks, "
                "debug+release, sync+yield, activity parameters {default,(0,.95),(5,.5),(1,1)}; verdict compared with the "
                "Coq-verified exhaustive reference; non-trivial = Ok/Unsolvable outcome on a universe with >= 4 solvables")
    res.extra.update({"verdict_vs_reference": {f"{a}/ref_solvable={b}": c for (a, b), c in sorted(hist.items())},
                      "hangs": len(hangs)}, **tc.stats(recs), **enctie.stats(recs), **antie.stats(recs), **solvertie.stats(recs))
    return res.finish(CHECKER, vlib.TRUSTED_BASE,
                      ["termination of the CDCL loop is observed (poll watchdog), not proved",
                       "panics are reported by C04"])
