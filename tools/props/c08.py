"""C08: direct requirements get their best candidate whenever that is possible."""
import vlib
from props import solverstream as ss

THEOREMS = ["C08_oracle_sound"]
CHECKER = ("coqc Props/C08.v + Print Assumptions; harness solve_cases -> whenever extracted o_explicit_first = Some fs "
           "the returned solution must contain fs")


def run(res, tier, seed, replay):
    vlib.proof_gate(res, "C08", THEOREMS)
    if replay:
        recs, hangs = ss.run_replay(replay), []
    else:
        recs = ss.corpus_recs("C08")
        n = 1 if tier == "quick" else 30
        f = ss.F_NOSOFT & ~16  # no unions: root requirements must be single version sets
        streams = [("dense", f, "sync", "debug", 1500 * n), ("dense", f, "sync", "release", 1000 * n),
                   ("small", f, "sync", "debug", 1000 * n), ("dense", f, "yield", "debug", 300 * n)]
        r2, hangs = ss.run_streams(streams, seed + 31)
        recs += r2
    ref = ss.oracle_ref(recs)
    applicable = 0
    for r in recs:
        key = r["key"]
        fs = ref[key]["first"]
        k = ss.outcome_kind(r["obs"]["outcome"])
        if fs is None:
            res.count([key, r["stream"]], False)
            continue
        applicable += 1
        g = ref[key]["greedy"]
        res.count([key, r["stream"]], g is None)  # non-trivial: not already decided by the greedy case
        res.sample({"case": r["case"], "first_ranked": fs, "outcome": r["obs"]["outcome"]})
        if k != "sat":
            if k == "unsat":
                res.violation(key, f"a valid solution containing {fs} exists but the solver returned Unsolvable in {r['stream']}", ss.replay_obj(r))
            continue
        sol = r["obs"]["outcome"]["sat"]
        missing = [x for x in fs if x not in sol]
        if missing:
            res.violation(key, f"first-ranked root candidates {fs} are jointly installable but the solution {sol} lacks {missing} in {r['stream']}",
                          ss.replay_obj(r))
    res.rule = ("hard problems whose root requirements are single version sets; applicable when the Coq-verified reference "
                "finds a valid selection containing every root requirement's first-ranked candidate; non-trivial = "
                "applicable and not conflict-free (greedy_okb rejects), i.e. some lower-level choice must deviate")
    res.extra.update({"applicable": applicable, "hangs": len(hangs)})
    return res.finish(CHECKER, vlib.TRUSTED_BASE, ["soft requirements: explored only, not part of the theorem"])
