"""C08: direct requirements get their best candidate whenever that is possible."""
import vlib
from props import solverstream as ss, tracecheck as tc, antie

THEOREMS = ["C08_oracle_sound", "C08_explicit_first", "C08_trace_explicit", "C08_decide_legal", "C08_decide_classified", "C08_solver_model_decide_legal", "C08_solver_model_root_first", "C08_root_first_from_invariant", "C08_solver_model_decide_legal_by_invariants"]
CHECKER = ("coqc Props/C08.v + Print Assumptions; harness solve_cases: (a) hook logs -> extracted check_sat_log (rules D1 "
           "and D2 enforced on every decision; theorem C08_trace_explicit), (b) whenever extracted o_explicit_first = "
           "Some fs the returned solution must contain fs, (c) hook logs -> extracted check_decides: every call of Solver::decide must "
           "propose the candidate and clause the decide model proposes (activity scores in IEEE-754 binary32 via Flocq), with the "
           "hypotheses of C08_decide_legal evaluated at every call")


def run(res, tier, seed, replay):
    vlib.proof_gate(res, "C08", THEOREMS)
    if replay:
        recs, hangs = ss.run_replay(replay, dump=True), []
    else:
        recs = ss.corpus_recs("C08", dump=True)
        r4, h4 = ss.run_streams([("conflict", 127 & ~16, "sync", "debug", 1500 * (1 if tier == "quick" else 25)),
                                 ("conflict", 127 & ~16, "yield", "debug", 300 * (1 if tier == "quick" else 25)),
                                 ("conflict", 127 & ~16, "gated:lifo", "debug", 300 * (1 if tier == "quick" else 25)),
                                 ("conflict", 127 & ~16, "gated:random", "debug", 300 * (1 if tier == "quick" else 25))], seed + 37, dump=True)
        recs += r4
        n = 1 if tier == "quick" else 30
        f = ss.F_NOSOFT & ~16  # no unions: root requirements must be single version sets
        streams = [("dense", f, "sync", "debug", 1500 * n), ("dense", f, "sync", "release", 1000 * n),
                   ("small", f, "sync", "debug", 1000 * n), ("dense", f, "yield", "debug", 300 * n)]
        r2, hangs = ss.run_streams(streams, seed + 31)
        recs += r2
    ref = ss.oracle_ref(recs)
    tc.annotate(recs)
    antie.annotate_decides(recs)
    applicable = 0
    for r in recs:
        if not antie.ok_decides(r):
            res.tie_break(f"decide correspondence no longer checks for a run in {r['stream']}: a call of Solver::decide proposed a "
                          f"different candidate / clause than the model (Cdcl/Decide.v), or a hypothesis of C08_decide_legal fails: "
                          f"{r['decides']}", dict(tc.trace_replay(r), decides=r["decides"]))
    for r in recs:
        key = r["key"]
        fs = ref[key]["first"]
        k = ss.outcome_kind(r["obs"]["outcome"])
        if fs is None:
            res.count([key, r["stream"]], False)
            continue
        applicable += 1
        g = ref[key]["greedy"]
        res.count([key, r["stream"]], g is None)  # non-trivial: not already decided by the greedy case
        res.sample({"case": r["case"], "first_ranked": fs, "outcome": r["obs"]["outcome"]})
        if k != "sat":
            if k == "unsat":
                res.violation(key, f"a valid solution containing {fs} exists but the solver returned Unsolvable in {r['stream']}", ss.replay_obj(r))
            continue
        sol = r["obs"]["outcome"]["sat"]
        missing = [x for x in fs if x not in sol]
        if missing:
            res.violation(key, f"first-ranked root candidates {fs} are jointly installable but the solution {sol} lacks {missing} in {r['stream']}",
                          ss.replay_obj(r))
        elif "trace" in r and not (r["trace"].get("db") and r["trace"].get("run") and r["trace"].get("strict")):
            res.tie_break(f"trace inclusion (C08_trace_explicit) no longer checks for a run in {r['stream']}: checker verdict "
                          f"{r['trace']}; the returned solution contains the first-ranked root candidates", tc.trace_replay(r))
    if res.tie_breaks and not res.violations and not replay:
        vlib.log("trace tie broken; searching for a failing input (explicit-first oracle on a large conflict-heavy burst)")
        f2 = ss.F_NOSOFT & ~16
        burst, _ = ss.run_streams([("conflict", f2, "sync", "release", 40000), ("conflict", f2 & ~8, "sync", "release", 20000)], seed + 2001)
        bref = ss.oracle_ref(burst)
        for r in burst:
            fs = bref[r["key"]]["first"]
            if fs is None or ss.outcome_kind(r["obs"]["outcome"]) != "sat":
                continue
            sol = r["obs"]["outcome"]["sat"]
            missing = [x for x in fs if x not in sol]
            if missing:
                res.violation(r["key"], f"first-ranked root candidates {fs} are jointly installable but the solution {sol} lacks {missing} "
                              f"(found by the search burst) in {r['stream']}", ss.replay_obj(r))
        res.extra["search_burst_cases"] = len(burst)
    dd = [r["decides"] for r in recs if "decides" in r and "n" in r["decides"]]
    res.extra.update({"runs_replayed_through_decide_model": len(dd), "decide_calls_compared": sum(x["n"] for x in dd)})
    res.rule = ("hard problems whose root requirements are single version sets; applicable when the Coq-verified reference "
                "finds a valid selection containing every root requirement's first-ranked candidate; non-trivial = "
                "applicable and not conflict-free (greedy_okb rejects), i.e. some lower-level choice must deviate")
    res.extra.update({"applicable": applicable, "hangs": len(hangs)}, **tc.stats(recs))
    return res.finish(CHECKER, vlib.TRUSTED_BASE, ["soft requirements: explored only, not part of the theorem"])
