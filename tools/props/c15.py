"""C15: one solvable per package, for any number of candidates and any discovery order."""
import vlib, coqreplay
from props import solverstream as ss, tracecheck as tc

THEOREMS = ["C15_exclusive", "C15_each_selectable", "C15_none_selectable", "C15_invariant", "C15_readd_noop", "C15_add_emits_fresh_clauses", "C15_encoder_step_registers", "C15_new_forbid_clause_not_falsified", "C15_solution_members_registered"]
CHECKER = ("coqc Props/C15.v + Print Assumptions; harness solve_cases class amo (n = 1..N candidates, random partition/order): "
           "(a) forbid clauses from the hook dump = amo_clauses(registration order) as Coq Examples (vm_compute; reflexivity), "
           "(b) verdict of single / pair problems vs the verified reference, (c) trace checker on the logs")
HEADER = "From Resolvo Require Import Enc.Amo.\nFrom Coq Require Import List.\nImport ListNotations.\n"


def forbid_clauses(dump, name=0):
    out = []
    for c in dump["clauses"]:
        k = c["kind"]
        if isinstance(k, dict) and "forbid" in k and k["forbid"]["name"] == name:
            (x, xb), (h, hb) = c["lits"]
            out.append((x["s"], h["h"][1], hb))
    return out


def run(res, tier, seed, replay):
    vlib.proof_gate(res, "C15", THEOREMS)
    nmax = 34 if tier == "quick" else 130
    count = 700 if tier == "quick" else 12000
    if replay:
        recs, hangs = ss.run_replay(replay, dump=True), []
    else:
        recs = ss.corpus_recs("C15", dump=True)
        r2, hangs = ss.run_streams([("amo", nmax, "sync", "debug", count), ("amo", nmax, "sync", "release", count // 2),
                                    ("amo", min(nmax, 20), "yield", "debug", count // 4),
                                    # candidates revealed while some are already decided (restarts, constrains, hints)
                                    ("conflict", 127, "sync", "debug", count), ("conflict", 127, "gated:lifo", "debug", count // 4)],
                                   seed + 53, dump=True)
        recs += r2
    ref = ss.oracle_ref(recs)
    tc.annotate(recs)
    examples, sizes = [], {}
    for i, r in enumerate(recs):
        key = r["key"]
        k = ss.outcome_kind(r["obs"]["outcome"])
        n = len(r["case"]["u"]["sols"])
        want = ref[key]["solvable"]
        sizes[n] = sizes.get(n, 0) + 1
        res.count([key, r["stream"]], n >= 3)
        res.sample({"n": n, "problem": r["case"]["p"], "verdict": k, "reference_solvable": want}, limit=3)
        if want is None:
            continue
        if r["case"]["class"] != "amo":
            # general universes: only the registration invariant / trace tie and the verdict are judged here
            t = r.get("trace", {})
            ok = t.get("db") and t.get("run") and (t.get("strict") if k == "sat" else t.get("unsat"))
            if (k == "unsat" and want) or (k == "sat" and want is False):
                res.violation(key, f"verdict {k} but reference says solvable={want} in {r['stream']}", ss.replay_obj(r))
            elif k in ("sat", "unsat") and "trace" in r and not ok:
                res.tie_break(f"trace checker rejects a log in {r['stream']} (every candidate revealed by a requirement must be registered "
                              f"in its package's at-most-one tracker; clauses must be facts): {t}", tc.trace_replay(r))
            continue
        if k == "unsat" and want:
            res.violation(key, f"a single candidate of a package with {n} candidates cannot be selected (solver says Unsolvable) in {r['stream']}",
                          ss.replay_obj(r))
        elif k == "sat" and want is False:
            res.violation(key, f"two candidates of one package ({n} candidates) selected together: {r['obs']['outcome']['sat']} in {r['stream']}",
                          ss.replay_obj(r))
        elif k not in ("sat", "unsat"):
            res.violation(key, f"solve ended with {k} in {r['stream']}", ss.replay_obj(r))
        d = r["obs"].get("dump")
        if d is not None:
            fc = forbid_clauses(d)
            xs = []
            for (x, _, _) in fc:
                if x not in xs:
                    xs.append(x)
            if fc:
                stmt = ("amo_clauses [" + "; ".join(map(str, xs)) + "] = [" +
                        "; ".join(f"({x}, {h}, {'true' if b else 'false'})" for x, h, b in fc) + "]")
                examples.append((f"case_{i}", stmt))
            t = r.get("trace", {})
            ok = t.get("db") and t.get("run") and (t.get("strict") if k == "sat" else t.get("unsat"))
            if k in ("sat", "unsat") and not ok:
                res.tie_break(f"trace checker rejects the log of a C15 case in {r['stream']}: {t}", tc.trace_replay(r))
    if res.tie_breaks and not res.violations and not replay:
        vlib.log("trace tie broken; searching for a selection with two solvables of one package (o_valid on a large burst)")
        burst, _ = ss.run_streams([("conflict", 127, "sync", "release", 40000), ("conflict", 119, "sync", "release", 20000),
                                   ("dense", 127, "sync", "release", 20000)], seed + 3001)
        ss.oracle_sat(burst)
        for r in burst:
            if r.get("valid") is False:
                res.violation(ss.case_key(r["case"]), f"solution {r['obs']['outcome']['sat']} is invalid (found by the search burst) in {r['stream']}",
                              ss.replay_obj(r))
        res.extra["search_burst_cases"] = len(burst)
    if len(examples) > (400 if tier == "quick" else 4000):
        examples = examples[:: max(1, len(examples) // (400 if tier == "quick" else 4000))]
    n_ok, failed = coqreplay.run_examples("C15", HEADER, examples)
    res.obligations += len(examples)
    res.discharged += n_ok
    for name, msg in failed:
        i = int(name.split("_")[1])
        r = recs[i]
        fc = forbid_clauses(r["obs"]["dump"])
        # is exclusivity / selectability actually broken for this clause set? brute force over the registered pairs
        res.tie_break(f"forbid clauses emitted for a package with {len(r['case']['u']['sols'])} candidates differ from the model "
                      f"AtMostOnceTracker (Enc/Amo.v amo_clauses) in {r['stream']}", {"case": r["case"], "clauses": fc})
    res.rule = ("one package with n candidates, n cycling through 1..N (every power-of-two boundary and its neighbours), "
                "candidates revealed through group requirements in random partition and order, problem requires one candidate "
                "(must be solvable) or two (must be Unsolvable); non-trivial = n >= 3")
    res.extra.update({"max_n": nmax, "in_coq_clause_examples": len(examples), "in_coq_accepted": n_ok,
                      "sizes_covered": len(sizes), "hangs": len(hangs)}, **tc.stats(recs))
    return res.finish(CHECKER, vlib.TRUSTED_BASE, ["solver-level exclusion follows from C02's verdict check on these inputs"])
