"""C14: soft requirements are best-effort and never harm the hard problem."""
import vlib
from props import solverstream as ss, tracecheck as tc, antie, solvertie

THEOREMS = ["C14_valid", "C14_never_error", "C14_hard_independent_of_soft", "C14_accept_oracle_sound", "C14_accept_step_meaning",
            "C14_analysis_keeps_earlier_solution", "C14_soft_keeps_earlier_decisions", "C14_soft_keeps_assignments"]
CHECKER = ("coqc Props/C14.v + Print Assumptions; harness solve_cases with soft-requirement lists: hook logs -> extracted "
           "check_sat_log_lenient; o_valid with the documented exemption; verdict vs hard-problem reference (never an error); "
           "extracted o_soft_expect (clear-cut accept / reject steps) -> accepted soft solvables must be in the solution; hook logs -> "
           "extracted check_analyses (model of Solver::analyze incl. the clamp of the backjump level) and soft_keep (nothing decided "
           "before a soft requirement is tried is undone later)")


def soft_oracle(recs):
    """per record (the oracle continues on top of exemption-needing soft solvables only if the run accepted them)"""
    lines, memo = [], {}
    for i, r in enumerate(recs):
        o = r["obs"]["outcome"]
        if not r["case"]["p"]["soft"] or ss.outcome_kind(o) != "sat":
            continue
        mk = (r["key"], tuple(o["sat"]))
        if mk in memo:
            continue
        memo[mk] = i
        lines.append(f"soft {i} " + vlib.toks(vlib.tok_universe(r["case"]["u"]), vlib.tok_problem(r["case"]["p"]), vlib.tok_list(o["sat"])))
    out = vlib.oracle(lines)
    byidx = {}
    for k, v in out.items():
        if v.startswith("error"):
            raise vlib.CheckError("oracle error: " + v)
        byidx[int(k)] = None if v == "none" else [int(t) for t in v.split()[1:]]
    res = {}
    for i, r in enumerate(recs):
        o = r["obs"]["outcome"]
        if r["case"]["p"]["soft"] and ss.outcome_kind(o) == "sat":
            res[i] = byidx.get(memo[(r["key"], tuple(o["sat"]))])
    return res


def run(res, tier, seed, replay):
    vlib.proof_gate(res, "C14", THEOREMS)
    k = 1 if tier == "quick" else 25
    if replay:
        recs, hangs = ss.run_replay(replay, dump=True), []
    else:
        recs = ss.corpus_recs("C14", dump=True)
        SOFT = 255
        streams = [("small", SOFT, "sync", "debug", 1200 * k), ("conflict", SOFT, "sync", "debug", 800 * k),
                   ("softdeep", SOFT, "sync", "debug", 1200 * k), ("softdeep", SOFT & ~8, "sync", "release", 600 * k),
                   ("softrej", SOFT, "sync", "debug", 800 * k),
                   ("greedy", 25 | 128 | 4 | 2, "sync", "debug", 1200 * k), ("greedy", 25 | 128, "yield", "debug", 300 * k)]
        r2, hangs = ss.run_streams(streams, seed + 61, dump=True)
        r3, h3 = ss.run_streams([("small", SOFT, "sync", "release", 800 * k), ("greedy", 25 | 128 | 4 | 2, "sync", "release", 600 * k)],
                                seed + 67)
        recs += r2 + r3
        hangs += h3
    recs = [r for r in recs if r["case"]["p"]["soft"]]
    ref = ss.oracle_ref(recs)
    ss.oracle_sat(recs)
    tc.annotate(recs)
    antie.annotate(recs)
    solvertie.annotate(recs)
    for r in recs:
        if not solvertie.ok(r):
            res.tie_break(f"whole-run correspondence no longer checks for a synchronous run with soft requirements in {r['stream']}: the "
                          f"result, the sequence of trail events (incl. which soft requirements are tried, accepted, rejected), the clause "
                          f"database or the provider calls differ from the model of Solver::solve (Cdcl/Solver.v): {r['solver']}",
                          dict(ss.replay_obj(r), solver_model=r["solver"]))
        if not antie.ok(r):
            res.tie_break(f"conflict-analysis correspondence no longer checks for a run with soft requirements in {r['stream']}: a "
                          f"learnt clause, the number of pops, the backjump level (model: never below the level the soft run started at, "
                          f"theorem C14_analysis_keeps_earlier_solution) or the asserted literal differs from the model of "
                          f"Solver::analyze: {r['an']}", dict(ss.replay_obj(r), analyses=r["an"]))
        if not antie.ok_softkeep(r):
            res.tie_break(f"an assignment made before a soft requirement was tried has been undone later in the run "
                          f"(extracted soft_keep rejects the log; theorem C14_soft_keeps_earlier_decisions no longer applies) in "
                          f"{r['stream']}: verdict {r.get('softkeep')}", dict(tc.trace_replay(r), soft_keep=r.get("softkeep")))
    expect = soft_oracle(recs)
    applicable, accepted_checked, known_poison = 0, 0, 0
    for ridx, r in enumerate(recs):
        key = r["key"]
        o = r["obs"]["outcome"]
        kd = ss.outcome_kind(o)
        soft = r["case"]["p"]["soft"]
        hard_solvable = ref[key]["solvable"]
        res.count([key, r["stream"]], kd == "sat" and len(set(soft)) >= 2)
        res.sample({"case": r["case"], "outcome": o, "expected_accepted": expect.get(ridx)}, limit=2)
        if kd == "unsat" and hard_solvable:
            res.violation(key, f"hard problem is solvable but with soft requirements {soft} the solver returns Unsolvable in {r['stream']}",
                          ss.replay_obj(r))
            continue
        if kd == "sat" and hard_solvable is False:
            res.violation(key, f"hard problem is unsolvable but a solution was returned with soft requirements in {r['stream']}", ss.replay_obj(r))
            continue
        if kd != "sat":
            continue
        sol = o["sat"]
        if not r["valid"]:
            res.violation(key, f"solution {sol} with soft requirements {soft} violates the rules (o_valid = false) in {r['stream']}",
                          ss.replay_obj(r))
            continue
        t = r.get("trace")
        if t is not None and not (t.get("db") and t.get("run") and t.get("lenient")):
            res.tie_break(f"trace inclusion (C14_valid) no longer checks in {r['stream']}: {t}", tc.trace_replay(r))
        exp = expect.get(ridx)
        if exp is None:
            continue
        applicable += 1
        missing = [x for x in exp if x not in sol]
        accepted_checked += len(exp)
        if missing:
            # a falsified package-level clause of an accepted soft solvable poisons later soft requirements
            poisoned = t is not None and t.get("db") and t.get("run") and t.get("lenient") and not t.get("strict")
            kkey = "soft-poisoned-by-exempt-clause" if poisoned else key
            if poisoned:
                known_poison += 1
            res.violation(kkey, f"soft solvables {missing} have a compatible first-ranked closure (o_soft_expect) but are missing "
                          f"from the solution {sol} (soft list {soft}) in {r['stream']}", ss.replay_obj(r))
    res.rule = ("problems with soft-requirement lists (0-3 entries incl. duplicates, other versions of installed packages, excluded, "
                "locked-out, Unknown-dependency and never-fetched solvables) over classes small/conflict/greedy; non-trivial = Ok "
                "outcome with >= 2 distinct soft requirements; 'applicable' = every soft step is clear-cut for the verified oracle")
    res.extra.update(antie.stats(recs))
    res.extra.update(solvertie.stats(recs))
    res.extra.update({"accept_oracle_applicable": applicable, "accepted_soft_checked": accepted_checked,
                      "poisoned_cases": known_poison, "hangs": len(hangs)}, **tc.stats(recs))
    return res.finish(CHECKER, vlib.TRUSTED_BASE,
                      ["acceptance is checked only where every soft step is clear-cut (first-ranked closure compatible, or no valid extension at all)"])
