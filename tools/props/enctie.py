"""Encoder correspondence: the executable encoder + cache model (coq/Async/Encoder.v)
run on the encode requests, future completions and trail events of a real solve must
produce the same clause database (order and content) and the same provider-call
sequence as the implementation; for runs that returned a solution the checks of
check_encoder_final must hold (requests only for true variables, events leave the
dumped trail, everything selected was encoded)."""
import vlib
from props import solverstream as ss


def _so(x):
    return 0 if x is None else x + 1


def tok_task(t):
    if "dep" in t:
        return [0, _so(t["dep"])]
    if "cand" in t:
        return [1, t["cand"]]
    if "req" in t:
        so, is_union, i = t["req"]
        return [2, _so(so)] + vlib.tok_req({"u": i} if is_union else {"s": i})
    so, v = t["con"]
    return [3, _so(so), v]


def tok_sevs(events):
    out = []
    for e in events:
        if e == "ul":
            out.append([2, 1])
        elif "a" in e:
            a = e["a"]
            out.append([2, 0] + vlib.tok_var(a["var"]) + [1 if a["value"] else 0, a["reason"]])
        elif "uu" in e:
            if e["uu"] == 0:
                out.append([2, 2])
        elif "enc" in e:
            out.append([0, len(e["enc"])] + [0 if x is None else x + 1 for x in e["enc"]])
        elif "sreg" in e:
            out.append([1, e["sreg"]])
        elif "done" in e:
            out.append([3] + tok_task(e["done"]))
    t = [len(out)]
    for o in out:
        t += o
    return t


def tok_calls(calls):
    out = []
    for c in calls:
        if not isinstance(c, dict):
            continue
        if "c" in c:
            out.append([0, c["c"]])
        elif "d" in c:
            out.append([1, c["d"]])
        elif "f" in c:
            out.append([2, c["f"][0], 1 if c["f"][1] else 0])
        elif "o" in c:
            out.append([3, len(c["o"])] + c["o"])
    t = [len(out)]
    for o in out:
        t += o
    return t


def is_sync(r):
    return "/sync/" in ("/" + r.get("stream", "") + "/")


FIELDS_SYNC = ("db", "calls", "done", "fifo", "req_true", "trail", "final", "quiet", "assert")
FIELDS_ASYNC = ("db", "calls_perm", "done", "req_true", "trail", "final", "quiet", "assert")


def annotate(recs):
    """Adds r['enc'] = {db, calls, req_true, trail, final, n_db, n_calls} for sync records with a dump."""
    lines = []
    for i, r in enumerate(recs):
        d = r["obs"].get("dump")
        if d is None:
            continue
        k = ss.outcome_kind(r["obs"]["outcome"])
        if k not in ("sat", "unsat"):
            continue
        db = [len(d["clauses"])]
        for c in d["clauses"]:
            db += vlib.tok_clause(c)
        tr = [len(d["trail"])]
        for x in d["trail"]:
            tr += vlib.tok_var(x[0]) + [1 if x[1] else 0]
        lines.append(f"enc {i} " + vlib.toks(vlib.tok_universe(r["case"]["u"]), vlib.tok_problem(r["case"]["p"]),
                                              tok_sevs(d["events"]), db, tok_calls(r["obs"]["calls"]), tr,
                                              [1 if k == "sat" else 0]))
    out = vlib.oracle(lines)
    for i, v in out.items():
        r = recs[int(i)]
        if v.startswith("error"):
            r["enc"] = {"error": v}
            continue
        t = v.split()
        r["enc"] = {"db": t[0] == "1", "calls": t[1] == "1", "calls_perm": t[2] == "1", "done": t[3] == "1",
                    "fifo": t[4] == "1", "req_true": t[5] == "1", "trail": t[6] == "1", "final": t[7] == "1",
                    "n_db": int(t[8]), "n_calls": int(t[9]), "quiet": t[10] == "1", "assert": t[11] == "1", "sync": is_sync(r)}
    return recs


def ok(r, fields=None):
    """fields: subset to require; call order and FIFO completion are only required of synchronous runs."""
    e = r.get("enc")
    if e is None:
        return True
    if "error" in e:
        return False
    allowed = FIELDS_SYNC if e.get("sync") else FIELDS_ASYNC
    want = [f for f in (fields or allowed)]
    if not e.get("sync"):
        want = ["calls_perm" if f == "calls" else f for f in want if f != "fifo"]
    return all(e.get(f) for f in want)


def replay(r):
    d = r["obs"]["dump"]
    return {"case": r["case"], "stream": r.get("stream"), "observed": r["obs"]["outcome"], "encoder_check": r.get("enc"),
            "n_clauses": len(d["clauses"]), "n_calls": len(r["obs"]["calls"]),
            "how": "./check <prop> --replay <this file> re-runs the case with hooks and compares the encoder model"}


def stats(recs):
    e = [r for r in recs if "enc" in r]
    return {"encoder_runs_compared": len(e),
            "encoder_model_clauses_total": sum(r["enc"].get("n_db", 0) for r in e if "n_db" in r["enc"]),
            "encoder_model_calls_total": sum(r["enc"].get("n_calls", 0) for r in e if "n_calls" in r["enc"])}


def annotate_twice(recs):
    """Records of `solve_cases --twice`: adds r['enc2'] for the second solve on the same solver (model started
    from the cache the model's first solve left)."""
    lines = []
    for i, r in enumerate(recs):
        o2, p2 = r.get("obs2"), r.get("p2")
        d1 = r["obs"].get("dump")
        if not o2 or not p2 or d1 is None or o2.get("dump") is None:
            continue
        k2 = ss.outcome_kind(o2["outcome"])
        if k2 not in ("sat", "unsat") or ss.outcome_kind(r["obs"]["outcome"]) not in ("sat", "unsat"):
            continue
        d2 = o2["dump"]
        db = [len(d2["clauses"])]
        for c in d2["clauses"]:
            db += vlib.tok_clause(c)
        tr = [len(d2["trail"])]
        for x in d2["trail"]:
            tr += vlib.tok_var(x[0]) + [1 if x[1] else 0]
        lines.append(f"enc2 {i} " + vlib.toks(vlib.tok_universe(r["case"]["u"]), vlib.tok_problem(r["case"]["p"]), tok_sevs(d1["events"]),
                                               vlib.tok_problem(p2), tok_sevs(d2["events"]), db, tok_calls(o2["calls"]), tr,
                                               [1 if k2 == "sat" else 0]))
    out = vlib.oracle(lines)
    for i, v in out.items():
        r = recs[int(i)]
        if v.startswith("error"):
            r["enc2"] = {"error": v}
            continue
        t = v.split()
        r["enc2"] = {"db": t[0] == "1", "calls": t[1] == "1", "done": t[2] == "1", "fifo": t[3] == "1", "req_true": t[4] == "1",
                     "trail": t[5] == "1", "final": t[6] == "1", "no_repeat": t[7] == "1", "n_db": int(t[8]), "n_calls": int(t[9])}
    return recs


def ok2(r):
    e = r.get("enc2")
    if e is None:
        return True
    return "error" not in e and all(e.get(f) for f in ("db", "calls", "done", "fifo", "req_true", "trail", "final", "no_repeat"))


def annotate_watch(recs):
    """Adds r['watch'] = {conf, asrt, sides}: the clauses the implementation reported as conflicting (EncodeResult
    events) and registered as negative assertions equal those of the model of the clause constructors
    (coq/Async/EncoderWatch.v), and the side conditions of watch_created_ok hold."""
    lines = []
    for i, r in enumerate(recs):
        d = r["obs"].get("dump")
        if d is None or ss.outcome_kind(r["obs"]["outcome"]) not in ("sat", "unsat"):
            continue
        # position of every encoder clause (not the root clause, not learnt) among the encoder's clauses
        pos, k = {}, 0
        for cid, c in enumerate(d["clauses"]):
            kind = c["kind"]
            if kind == "root" or (isinstance(kind, dict) and "learnt" in kind):
                continue
            pos[cid] = k
            k += 1
        conf = [pos[c] for e in d["events"] if isinstance(e, dict) and "encres" in e for c in e["encres"] if c in pos]
        asrt = [pos[c] for c in d.get("asserts", []) if c in pos]
        lines.append(f"watch {i} " + vlib.toks(vlib.tok_universe(r["case"]["u"]), vlib.tok_problem(r["case"]["p"]),
                                                tok_sevs(d["events"]), vlib.tok_list(conf), vlib.tok_list(asrt)))
    out = vlib.oracle(lines)
    for i, v in out.items():
        r = recs[int(i)]
        if v.startswith("error"):
            r["watch"] = {"error": v}
            continue
        t = v.split()
        r["watch"] = {"conf": t[0] == "1", "asrt": t[1] == "1", "sides": t[2] == "1"}
    return recs


def ok_watch(r):
    w = r.get("watch")
    return w is None or ("error" not in w and w["conf"] and w["asrt"] and w["sides"])
